//go:build verif

package chain

// Journaling key-value store for the crash/restart mode of the chaindb engine.
//
// jdb implements aergo-lib db.DB / db.Transaction / db.Bulk over an in-memory map with the
// semantics of aergo-lib's memorydb (nil value stored as empty slice, Get of an absent key
// returns nil, Commit/Flush apply the buffered operations in order).  Every write that
// reaches the map is appended to a journal shared by the chain store and the state store as
// ONE write unit: a direct Set/Delete on the DB, the Commit() of a transaction, the Flush()
// of a bulk.  Units without operations are skipped.  A crash is modelled as a prefix of the
// journal: base snapshot + first k units.

import (
	"bytes"
	"fmt"
	"os"
	"path"
	"path/filepath"
	"sort"
	"sync"

	"github.com/aergoio/aergo-lib/db"
	"github.com/aergoio/aergo/v2/contract/system"
	"github.com/aergoio/aergo/v2/state/statedb"
	"github.com/aergoio/aergo/v2/types/dbkey"
)

type jOp struct {
	Key string
	Val []byte // nil = delete
	Del bool
}

type jUnit struct {
	Store   string // "chain" | "state"
	Kind    string // "set" | "tx" | "bulk"
	Ops     []jOp
	Arrival int // index of the arrival during which the unit was written (-1 = outside)
}

type journal struct {
	mu      sync.Mutex
	units   []jUnit
	arrival int
	hook    func() // called after every appended unit (records the in-memory best block)
}

func newJournal() *journal { return &journal{arrival: -1} }

func (j *journal) add(store, kind string, ops []jOp) {
	if len(ops) == 0 {
		return
	}
	j.mu.Lock()
	j.units = append(j.units, jUnit{Store: store, Kind: kind, Ops: ops, Arrival: j.arrival})
	j.mu.Unlock()
	if j.hook != nil {
		j.hook()
	}
}

type jdb struct {
	mu   sync.Mutex
	m    map[string][]byte
	name string
	j    *journal
}

var _ db.DB = (*jdb)(nil)

// wrapStore copies the contents of an existing store into a fresh journaling store.
func wrapStore(src db.DB, name string, j *journal) *jdb {
	return &jdb{m: dumpStore(src), name: name, j: j}
}

func dumpStore(src db.DB) map[string][]byte {
	m := map[string][]byte{}
	for it := src.Iterator(nil, nil); it.Valid(); it.Next() {
		m[string(it.Key())] = append([]byte{}, it.Value()...)
	}
	return m
}

func nz(b []byte) []byte {
	if b == nil {
		return []byte{}
	}
	return b
}

func (d *jdb) apply(ops []jOp) {
	for _, op := range ops {
		if op.Del {
			delete(d.m, op.Key)
		} else {
			d.m[op.Key] = op.Val
		}
	}
}

func (d *jdb) Type() string { return "memorydb" }

func (d *jdb) Set(key, value []byte) {
	d.mu.Lock()
	defer d.mu.Unlock()
	ops := []jOp{{Key: string(key), Val: append([]byte{}, nz(value)...)}}
	d.apply(ops)
	d.j.add(d.name, "set", ops)
}

func (d *jdb) Delete(key []byte) {
	d.mu.Lock()
	defer d.mu.Unlock()
	ops := []jOp{{Key: string(key), Del: true}}
	d.apply(ops)
	d.j.add(d.name, "set", ops)
}

func (d *jdb) Get(key []byte) []byte {
	d.mu.Lock()
	defer d.mu.Unlock()
	return d.m[string(key)]
}

func (d *jdb) Exist(key []byte) bool {
	d.mu.Lock()
	defer d.mu.Unlock()
	_, ok := d.m[string(key)]
	return ok
}

func (d *jdb) Close() {}

func (d *jdb) snapshot() map[string][]byte {
	d.mu.Lock()
	defer d.mu.Unlock()
	m := make(map[string][]byte, len(d.m))
	for k, v := range d.m {
		m[k] = v
	}
	return m
}

func (d *jdb) NewTx() db.Transaction { return &jtx{d: d, kind: "tx"} }
func (d *jdb) NewBulk() db.Bulk      { return &jtx{d: d, kind: "bulk"} }

// jtx is both db.Transaction and db.Bulk.
type jtx struct {
	mu        sync.Mutex
	d         *jdb
	kind      string
	ops       []jOp
	discarded bool
	committed bool
}

func (t *jtx) Set(key, value []byte) {
	t.mu.Lock()
	defer t.mu.Unlock()
	t.ops = append(t.ops, jOp{Key: string(key), Val: append([]byte{}, nz(value)...)})
}

func (t *jtx) Delete(key []byte) {
	t.mu.Lock()
	defer t.mu.Unlock()
	t.ops = append(t.ops, jOp{Key: string(key), Del: true})
}

func (t *jtx) commit() {
	t.mu.Lock()
	defer t.mu.Unlock()
	if t.discarded {
		panic("Commit after discard tx is not allowed")
	} else if t.committed {
		panic("Commit occurs two times")
	}
	t.d.mu.Lock()
	t.d.apply(t.ops)
	t.d.j.add(t.d.name, t.kind, t.ops)
	t.d.mu.Unlock()
	t.committed = true
}

func (t *jtx) Commit() { t.commit() }
func (t *jtx) Flush()  { t.commit() }

func (t *jtx) Discard() {
	t.mu.Lock()
	t.discarded = true
	t.mu.Unlock()
}
func (t *jtx) DiscardLast() { t.Discard() }

// iterator with the range semantics of memorydb (start > end means reverse order).
type jiter struct {
	keys []string
	vals [][]byte
	cur  int
}

func (d *jdb) Iterator(start, end []byte) db.Iterator {
	d.mu.Lock()
	defer d.mu.Unlock()
	reverse := bytes.Compare(start, end) == 1
	var keys []string
	for k := range d.m {
		kb := []byte(k)
		in := true
		if reverse {
			if start != nil && bytes.Compare(start, kb) < 0 {
				in = false
			}
			if end != nil && bytes.Compare(kb, end) <= 0 {
				in = false
			}
		} else {
			if bytes.Compare(kb, start) < 0 {
				in = false
			}
			if end != nil && bytes.Compare(end, kb) <= 0 {
				in = false
			}
		}
		if in {
			keys = append(keys, k)
		}
	}
	sort.Strings(keys)
	if reverse {
		for i, j := 0, len(keys)-1; i < j; i, j = i+1, j-1 {
			keys[i], keys[j] = keys[j], keys[i]
		}
	}
	it := &jiter{keys: keys}
	for _, k := range keys {
		it.vals = append(it.vals, d.m[k])
	}
	return it
}

func (it *jiter) Next() {
	if !it.Valid() {
		panic("Iterator is Invalid")
	}
	it.cur++
}
func (it *jiter) Valid() bool   { return it.cur >= 0 && it.cur < len(it.keys) }
func (it *jiter) Key() []byte   { return []byte(it.keys[it.cur]) }
func (it *jiter) Value() []byte { return it.vals[it.cur] }

// replayUnits returns base + the first k units of the journal, as two plain maps.
func replayUnits(baseChain, baseState map[string][]byte, units []jUnit, k int) (map[string][]byte, map[string][]byte) {
	c := make(map[string][]byte, len(baseChain)+k)
	s := make(map[string][]byte, len(baseState)+4*k)
	for key, v := range baseChain {
		c[key] = v
	}
	for key, v := range baseState {
		s[key] = v
	}
	for i := 0; i < k && i < len(units); i++ {
		m := c
		if units[i].Store == "state" {
			m = s
		}
		for _, op := range units[i].Ops {
			if op.Del {
				delete(m, op.Key)
			} else {
				m[op.Key] = op.Val
			}
		}
	}
	return c, s
}

// ---------------------------------------------------------------------------- crash mode

func vStoreDiff(got, want map[string][]byte, class func(k string, v []byte) string) []string {
	cnt := map[string]int{}
	for k, v := range want {
		g, ok := got[k]
		if !ok {
			cnt["missing:"+class(k, v)]++
		} else if !bytes.Equal(g, v) {
			cnt["differs:"+class(k, v)]++
		}
	}
	for k, v := range got {
		if _, ok := want[k]; !ok {
			cnt["extra:"+class(k, v)]++
		}
	}
	var out []string
	for k, n := range cnt {
		out = append(out, fmt.Sprintf("%s=%d", k, n))
	}
	sort.Strings(out)
	return out
}

func (e *vEngine) note(s string) {
	if e.progress != "" {
		os.WriteFile(e.progress, []byte(s+"\n"), 0o644)
	}
}

// ---- "verifjdb": journaling store registered as an aergo-lib DB implementation type, so that
// a node can be started on journaling stores BEFORE cdb.Init / sdb.Init issue their first write
// (RecoverChainMapping runs inside cdb.Init).  The constructor looks the directory up in vJdbDirs,
// which the engine fills before calling NewChainService with cfg.DbType = "verifjdb".

const vJdbType = "verifjdb"

var (
	vJdbOnce sync.Once
	vJdbMu   sync.Mutex
	vJdbDirs = map[string]*jdb{}
)

func vJdbRegister() {
	vJdbOnce.Do(func() {
		db.VerifRegister(db.ImplType(vJdbType), func(dir string, opts ...db.Option) (db.DB, error) {
			vJdbMu.Lock()
			defer vJdbMu.Unlock()
			d, ok := vJdbDirs[path.Clean(dir)]
			if !ok {
				return nil, fmt.Errorf("verifjdb: no store prepared for %s", dir)
			}
			return d, nil
		})
	})
}

func vCopyMap(m map[string][]byte) map[string][]byte {
	c := make(map[string][]byte, len(m))
	for k, v := range m {
		c[k] = v
	}
	return c
}

// newJournaledNode starts a real ChainService whose chain and state stores are journaling
// stores preloaded with (cm, sm); every write from the first one on is recorded in j.
func (e *vEngine) newJournaledNode(dir string, cm, sm map[string][]byte, j *journal) (n *vNode, cj, sj *jdb, perr string) {
	vJdbRegister()
	cj = &jdb{m: vCopyMap(cm), name: "chain", j: j}
	sj = &jdb{m: vCopyMap(sm), name: "state", j: j}
	cdir, sdir := path.Join(dir, dbkey.ChainDBName), path.Join(dir, statedb.StateName)
	vJdbMu.Lock()
	vJdbDirs[cdir], vJdbDirs[sdir] = cj, sj
	vJdbMu.Unlock()
	defer func() {
		vJdbMu.Lock()
		delete(vJdbDirs, cdir)
		delete(vJdbDirs, sdir)
		vJdbMu.Unlock()
	}()
	n, perr = e.newNodeT(dir, vJdbType)
	return
}

func vUnitClasses(u *jUnit, x *vCtx) []string {
	classes := []string{}
	for _, op := range u.Ops {
		var cl string
		if u.Store == "chain" {
			cl = vClassChain(op.Key, x)
		} else {
			cl = vClassState(op.Key, op.Val)
		}
		if op.Del {
			cl = "-" + cl
		}
		classes = append(classes, cl)
	}
	return classes
}

func vUnitsJSON(units []jUnit, x *vCtx) []interface{} {
	uj := []interface{}{}
	for i := range units {
		uj = append(uj, map[string]interface{}{"store": units[i].Store, "kind": units[i].Kind, "classes": vUnitClasses(&units[i], x)})
	}
	return uj
}

// vCanonUnits sorts, by key, the ops of every unit that consists of deletes only.  The real
// code builds such bulks from a Go map (swapTxMapping: "for _, oldTx := range oldTxs
// { bulk.Delete }"), so their op order is random from run to run; deletes of distinct keys commute,
// the sorted order is one of the possible real orders and keeps the inner cuts reproducible.
func vCanonUnits(units []jUnit) []jUnit {
	for i := range units {
		all := len(units[i].Ops) > 1
		for _, op := range units[i].Ops {
			if !op.Del {
				all = false
			}
		}
		if all {
			ops := append([]jOp{}, units[i].Ops...)
			sort.Slice(ops, func(a, b int) bool { return ops[a].Key < ops[b].Key })
			units[i].Ops = ops
		}
		// A state bulk (StateDB.Commit) stages the trie nodes by ranging over a Go map
		// (trie CacheDB.updatedNodes) and the storages by ranging over another one: the order
		// inside a run of trie nodes / of data entries is random from run to run.  All keys are
		// content addressed and distinct, so the sets commute: sort inside every maximal run of
		// ops of the same class (the state marker, staged last, stays last).
		if units[i].Store == "state" && units[i].Kind == "bulk" && !all {
			ops := append([]jOp{}, units[i].Ops...)
			for a := 0; a < len(ops); {
				b := a
				for b < len(ops) && !ops[b].Del && !ops[a].Del && vClassState(ops[b].Key, ops[b].Val) == vClassState(ops[a].Key, ops[a].Val) {
					b++
				}
				if b == a {
					b = a + 1
				}
				run := ops[a:b]
				sort.Slice(run, func(x, y int) bool { return run[x].Key < run[y].Key })
				a = b
			}
			units[i].Ops = ops
		}
	}
	return units
}

// vCut is a crash point: the first k units and, when p > 0, the first p ops of unit k.
type vCut struct{ k, p int }

// vCuts lists the crash points of a journal: every unit boundary k = 0..n and, according to
// partial ("none" | "ends" | "all"), the cuts inside every bulk unit with at least two ops.
func vCuts(units []jUnit, partial string) []vCut {
	var cuts []vCut
	for k := 0; k <= len(units); k++ {
		cuts = append(cuts, vCut{k, 0})
		if k == len(units) || units[k].Kind != "bulk" || len(units[k].Ops) < 2 {
			continue
		}
		n := len(units[k].Ops)
		switch partial {
		case "ends":
			cuts = append(cuts, vCut{k, 1})
			if n-1 > 1 {
				cuts = append(cuts, vCut{k, n - 1})
			}
		case "all":
			for p := 1; p < n; p++ {
				cuts = append(cuts, vCut{k, p})
			}
		}
	}
	return cuts
}

// vContents = base + units[0..k-1] + first p ops of unit k.
func vContents(baseChain, baseState map[string][]byte, units []jUnit, cut vCut) (map[string][]byte, map[string][]byte) {
	c, s := replayUnits(baseChain, baseState, units, cut.k)
	if cut.p > 0 && cut.k < len(units) {
		m := c
		if units[cut.k].Store == "state" {
			m = s
		}
		for _, op := range units[cut.k].Ops[:cut.p] {
			if op.Del {
				delete(m, op.Key)
			} else {
				m[op.Key] = op.Val
			}
		}
	}
	return c, s
}

func vBestOf(cs *ChainService) string {
	if b, _ := cs.GetBestBlock(); b != nil {
		return hx(b.BlockHash())
	}
	return ""
}

// restart starts a real node on plain memorydb files holding (cm, sm) and runs cs.Recover() as
// ChainService.Receive does on its first message; it fills init_panic / recover_err / best /
// pred / sdbroot / marker_after of rec.  The caller stops the node and removes dir.
func (e *vEngine) restart(x *vCtx, cm, sm map[string][]byte, rec map[string]interface{}, what string) (r *vNode, dir string) {
	rec["init_panic"], rec["recover_err"], rec["best"], rec["pred"], rec["marker_after"] = "", "", "", []string{}, false
	e.seq++
	dir = filepath.Join(e.tmp, fmt.Sprintf("crash-%d", e.seq))
	if err := vWriteSnapshot(dir, cm, sm); err != nil {
		rec["init_panic"] = "engine: " + err.Error()
		return nil, dir
	}
	e.note(what)
	r, perr := e.newNode(dir)
	if r == nil {
		rec["init_panic"] = perr
		return nil, dir
	}
	e.afterStart(r, x, rec)
	return r, dir
}

func (e *vEngine) afterStart(r *vNode, x *vCtx, rec map[string]interface{}) {
	e.use(r)
	e.configure(r, x)
	if err := r.cs.Recover(); err != nil {
		rec["recover_err"] = err.Error()
	}
	r.cs.setRecovered(true)
	rec["best"] = vBestOf(r.cs)
	pred, _ := e.predicates(r, x)
	_, p3 := e.rawScan(r, x)
	pred = append(pred, p3...)
	if pred == nil {
		pred = []string{}
	}
	rec["pred"] = pred
	rec["sdbroot"] = hx(r.cs.sdb.GetRoot())
	rec["marker_after"] = len(r.cs.cdb.store.Get(dbkey.ReOrg())) != 0
	rec["params"] = system.VerifParamsInMemory()
}

// probeRec files the probe result of node r (not used afterwards) into a crash record.
func (e *vEngine) probeRec(r *vNode, x *vCtx, rec map[string]interface{}) {
	pred, _ := rec["pred"].([]string)
	e.doProbe(r, x, rec, &pred)
	if pred == nil {
		pred = []string{}
	}
	rec["pred"] = pred
}

// recrash: crash DURING the recovery of (cm, sm) (contents that hold a reorg marker).  The
// recovery is first run to completion on journaling stores (units2 = every write of Init and
// Recover), then every prefix of units2 (mode "ops": also every cut inside a bulk) is restarted
// once more on plain memorydb files and must end in the same store contents.
func (e *vEngine) recrash(x *vCtx, cm, sm map[string][]byte, rec map[string]interface{}, mode, what string) {
	classC := func(k string, v []byte) string { return vClassChain(k, x) }
	e.seq++
	dir := filepath.Join(e.tmp, fmt.Sprintf("crash-%d", e.seq))
	defer os.RemoveAll(dir)
	j2 := newJournal()
	e.note(what + " level2 journaled recovery")
	n2, cj, sj, perr := e.newJournaledNode(dir, cm, sm, j2)
	if n2 == nil {
		rec["recrash_error"] = "journaled init panic: " + perr
		return
	}
	r2 := map[string]interface{}{"recover_err": ""}
	e.afterStart(n2, x, r2)
	units2 := vCanonUnits(j2.units[:len(j2.units):len(j2.units)])
	d2c, d2s := cj.snapshot(), sj.snapshot()
	e.probeRec(n2, x, r2) // after the journal and the dumps were taken
	n2.stop()
	rec["units2"] = vUnitsJSON(units2, x)
	rec["recover2"] = r2
	partial := "none"
	if mode == "ops" {
		partial = "all"
	}
	list := []interface{}{}
	for _, cut := range vCuts(units2, partial) {
		rr := map[string]interface{}{"k2": cut.k, "p2": cut.p, "same_final": false, "unit2_classes": []string{}}
		if cut.k < len(units2) {
			rr["unit2_classes"] = vUnitClasses(&units2[cut.k], x)
		}
		list = append(list, rr)
		cm2, sm2 := vContents(cm, sm, units2, cut)
		r, d := e.restart(x, cm2, sm2, rr, fmt.Sprintf("%s level2 k2=%d p2=%d", what, cut.k, cut.p))
		if r != nil {
			dc := vStoreDiff(dumpStore(r.cs.cdb.store), d2c, classC)
			ds := vStoreDiff(dumpStore(r.cs.sdb.VerifStore()), d2s, vClassState)
			rr["same_final"] = len(dc) == 0 && len(ds) == 0
			if len(dc)+len(ds) > 0 {
				rr["diff"] = map[string]interface{}{"chain": dc, "state": ds}
			}
			e.probeRec(r, x, rr)
			r.stop()
		}
		os.RemoveAll(d)
	}
	rec["recrash"] = list
}

// runCrash: crash-free run on journaling stores, then a real restart (NewChainService on the
// memorydb files of base + first k units [+ first p ops of a bulk unit], stub consensus,
// cs.Recover() as ChainService.Receive does on its first message) for every crash point, then
// a replay (twice) of all arrivals; optionally a second crash during the recovery (recrash).
//
// cs.Recover() ends the process with exit code 10 when it panics (RecoverExit); the engine
// cannot intercept that, so "<VERIF_OUT>.progress" always names the case and point being
// restarted.  logger.Fatal of package chain (Core.init: "failed to initialize chaindb") is turned
// into a panic by a logger hook (see vHookLogger) and reported as init_panic.
func (e *vEngine) runCrash(x *vCtx, out map[string]interface{}) {
	c := x.c
	n, perr := e.newNode(e.baseDir)
	if n == nil {
		out["error"] = "node init panic: " + perr
		return
	}
	defer n.stop()
	if err := e.prepNode(n, x); err != nil {
		out["error"] = err.Error()
		return
	}
	j := newJournal()
	cj := wrapStore(n.cs.cdb.store, "chain", j)
	n.cs.cdb.store = cj
	sj := wrapStore(n.cs.sdb.VerifStore(), "state", j)
	n.cs.sdb.VerifSetStore(sj)
	baseChain, baseState := cj.snapshot(), sj.snapshot()

	unitBest := []string{}
	j.hook = func() { unitBest = append(unitBest, vBestOf(n.cs)) }

	bests := []string{vBestOf(n.cs)} // bests[i] = best before arrival i, bests[i+1] = after
	steps := []interface{}{}
	for i := range c.Arrivals {
		j.arrival = i
		steps = append(steps, e.arrive(n, x, i))
		bests = append(bests, vBestOf(n.cs))
	}
	j.arrival = -1
	j.hook = nil
	out["steps"] = steps
	units := vCanonUnits(j.units[:len(j.units):len(j.units)])
	// "A run without the crash" that is fed the same blocks again: the reference for convergence is the
	// crash-free node after a SECOND delivery of all arrivals (a block dropped by the first-wins orphan
	// pool in the first pass is connected in the second one, exactly as on the restarted node).
	for i := range c.Arrivals {
		e.arriveOpt(n, x, i, true) // plain network delivery, like the replay on the restarted nodes
	}
	out["final"] = e.final(n, x)
	fChain, fState := cj.snapshot(), sj.snapshot()

	ua := []int{}
	for _, u := range units {
		ua = append(ua, u.Arrival)
	}
	out["units"] = vUnitsJSON(units, x)
	out["unit_arrival"] = ua
	out["unit_best"] = unitBest
	out["bests"] = bests

	observed := map[string]bool{}
	for _, b := range bests {
		observed[b] = true
	}
	classC := func(k string, v []byte) string { return vClassChain(k, x) }
	crash := []interface{}{}
	nrec2 := 0
	for _, cut := range vCuts(units, c.Partial) {
		k := cut.k
		rec := map[string]interface{}{"k": k, "p": cut.p, "legit": false, "converged": false}
		crash = append(crash, rec)
		if cut.p > 0 {
			rec["bulk_store"] = units[k].Store
			rec["bulk_classes"] = vUnitClasses(&units[k], x)
		}
		cm, sm := vContents(baseChain, baseState, units, cut)
		hadMarker := len(cm[string(dbkey.ReOrg())]) != 0
		rec["marker_before"] = hadMarker
		what := fmt.Sprintf("case %s restart k=%d p=%d of %d", c.ID, k, cut.p, len(units))
		r, dir := e.restart(x, cm, sm, rec, what)
		if r == nil {
			os.RemoveAll(dir)
			continue
		}
		best := rec["best"].(string)
		// the crash happened while unit k was being written (k == n: after the last unit)
		oldTip, newTip := bests[len(bests)-1], bests[len(bests)-1]
		if k < len(units) && units[k].Arrival >= 0 {
			oldTip, newTip = bests[units[k].Arrival], bests[units[k].Arrival+1]
		}
		rec["old_tip"], rec["new_tip"] = oldTip, newTip
		rec["legit"] = observed[best] || best == oldTip || best == newTip
		rec["legit_strict"] = best == oldTip || best == newTip
		mid := false
		if k > 0 && k-1 < len(unitBest) && unitBest[k-1] == best {
			mid = true // in-memory best of the crash-free run when the last surviving unit was written
		}
		rec["legit_mid"] = mid
		// replay all arrivals (twice) on the recovered node
		rerrs := 0
		for pass := 0; pass < 2; pass++ {
			for i := range c.Arrivals {
				r.cc.lib = 0
				if i < len(c.Lib) {
					r.cc.lib = c.Lib[i]
				}
				if err := vSafeAdd(r, x.blks[c.Arrivals[i]].clone()); err != nil {
					rerrs++
				}
			}
		}
		rec["replay_errs"] = rerrs
		rec["replay_best"] = vBestOf(r.cs)
		dc := vStoreDiff(dumpStore(r.cs.cdb.store), fChain, classC)
		ds := vStoreDiff(dumpStore(r.cs.sdb.VerifStore()), fState, vClassState)
		rec["converged"] = len(dc) == 0 && len(ds) == 0
		if len(dc)+len(ds) > 0 {
			rec["diff"] = map[string]interface{}{"chain": dc, "state": ds}
		}
		r.stop()
		os.RemoveAll(dir)
		if c.Probe != "none" {
			// the probe changes the node: it is delivered to a second instance recovered from the same contents
			tmp := map[string]interface{}{}
			if pr, pd := e.restart(x, cm, sm, tmp, what+" (probe instance)"); pr != nil {
				e.probeRec(pr, x, rec)
				pr.stop()
				os.RemoveAll(pd)
			} else {
				os.RemoveAll(pd)
			}
		}
		if hadMarker && (c.Recrash == "units" || c.Recrash == "ops") {
			e.recrash(x, cm, sm, rec, c.Recrash, what)
			if l, ok := rec["recrash"].([]interface{}); ok {
				nrec2 += len(l)
			}
		}
	}
	e.note(fmt.Sprintf("case %s done", c.ID))
	out["crash"] = crash
	out["ncrash"] = len(crash)
	out["nrecrash"] = nrec2
}

//go:build verif

package chain

// Journaling key-value store for the crash/restart mode of the chaindb engine.
//
// jdb implements aergo-lib db.DB / db.Transaction / db.Bulk over an in-memory map with the
// semantics of aergo-lib's memorydb (nil value stored as empty slice, Get of an absent key
// returns nil, Commit/Flush apply the buffered operations in order).  Every write that
// reaches the map is appended to a journal shared by the chain store and the state store as
// ONE write unit: a direct Set/Delete on the DB, the Commit() of a transaction, the Flush()
// of a bulk.  Units without operations are skipped.  A crash is modelled as a prefix of the
// journal: base snapshot + first k units.

import (
	"bytes"
	"fmt"
	"os"
	"path/filepath"
	"sort"
	"sync"

	"github.com/aergoio/aergo-lib/db"
	"github.com/aergoio/aergo/v2/types/dbkey"
)

type jOp struct {
	Key string
	Val []byte // nil = delete
	Del bool
}

type jUnit struct {
	Store   string // "chain" | "state"
	Kind    string // "set" | "tx" | "bulk"
	Ops     []jOp
	Arrival int // index of the arrival during which the unit was written (-1 = outside)
}

type journal struct {
	mu      sync.Mutex
	units   []jUnit
	arrival int
	hook    func() // called after every appended unit (records the in-memory best block)
}

func newJournal() *journal { return &journal{arrival: -1} }

func (j *journal) add(store, kind string, ops []jOp) {
	if len(ops) == 0 {
		return
	}
	j.mu.Lock()
	j.units = append(j.units, jUnit{Store: store, Kind: kind, Ops: ops, Arrival: j.arrival})
	j.mu.Unlock()
	if j.hook != nil {
		j.hook()
	}
}

type jdb struct {
	mu   sync.Mutex
	m    map[string][]byte
	name string
	j    *journal
}

var _ db.DB = (*jdb)(nil)

// wrapStore copies the contents of an existing store into a fresh journaling store.
func wrapStore(src db.DB, name string, j *journal) *jdb {
	return &jdb{m: dumpStore(src), name: name, j: j}
}

func dumpStore(src db.DB) map[string][]byte {
	m := map[string][]byte{}
	for it := src.Iterator(nil, nil); it.Valid(); it.Next() {
		m[string(it.Key())] = append([]byte{}, it.Value()...)
	}
	return m
}

func nz(b []byte) []byte {
	if b == nil {
		return []byte{}
	}
	return b
}

func (d *jdb) apply(ops []jOp) {
	for _, op := range ops {
		if op.Del {
			delete(d.m, op.Key)
		} else {
			d.m[op.Key] = op.Val
		}
	}
}

func (d *jdb) Type() string { return "memorydb" }

func (d *jdb) Set(key, value []byte) {
	d.mu.Lock()
	defer d.mu.Unlock()
	ops := []jOp{{Key: string(key), Val: append([]byte{}, nz(value)...)}}
	d.apply(ops)
	d.j.add(d.name, "set", ops)
}

func (d *jdb) Delete(key []byte) {
	d.mu.Lock()
	defer d.mu.Unlock()
	ops := []jOp{{Key: string(key), Del: true}}
	d.apply(ops)
	d.j.add(d.name, "set", ops)
}

func (d *jdb) Get(key []byte) []byte {
	d.mu.Lock()
	defer d.mu.Unlock()
	return d.m[string(key)]
}

func (d *jdb) Exist(key []byte) bool {
	d.mu.Lock()
	defer d.mu.Unlock()
	_, ok := d.m[string(key)]
	return ok
}

func (d *jdb) Close() {}

func (d *jdb) snapshot() map[string][]byte {
	d.mu.Lock()
	defer d.mu.Unlock()
	m := make(map[string][]byte, len(d.m))
	for k, v := range d.m {
		m[k] = v
	}
	return m
}

func (d *jdb) NewTx() db.Transaction { return &jtx{d: d, kind: "tx"} }
func (d *jdb) NewBulk() db.Bulk      { return &jtx{d: d, kind: "bulk"} }

// jtx is both db.Transaction and db.Bulk.
type jtx struct {
	mu        sync.Mutex
	d         *jdb
	kind      string
	ops       []jOp
	discarded bool
	committed bool
}

func (t *jtx) Set(key, value []byte) {
	t.mu.Lock()
	defer t.mu.Unlock()
	t.ops = append(t.ops, jOp{Key: string(key), Val: append([]byte{}, nz(value)...)})
}

func (t *jtx) Delete(key []byte) {
	t.mu.Lock()
	defer t.mu.Unlock()
	t.ops = append(t.ops, jOp{Key: string(key), Del: true})
}

func (t *jtx) commit() {
	t.mu.Lock()
	defer t.mu.Unlock()
	if t.discarded {
		panic("Commit after discard tx is not allowed")
	} else if t.committed {
		panic("Commit occurs two times")
	}
	t.d.mu.Lock()
	t.d.apply(t.ops)
	t.d.j.add(t.d.name, t.kind, t.ops)
	t.d.mu.Unlock()
	t.committed = true
}

func (t *jtx) Commit() { t.commit() }
func (t *jtx) Flush()  { t.commit() }

func (t *jtx) Discard() {
	t.mu.Lock()
	t.discarded = true
	t.mu.Unlock()
}
func (t *jtx) DiscardLast() { t.Discard() }

// iterator with the range semantics of memorydb (start > end means reverse order).
type jiter struct {
	keys []string
	vals [][]byte
	cur  int
}

func (d *jdb) Iterator(start, end []byte) db.Iterator {
	d.mu.Lock()
	defer d.mu.Unlock()
	reverse := bytes.Compare(start, end) == 1
	var keys []string
	for k := range d.m {
		kb := []byte(k)
		in := true
		if reverse {
			if start != nil && bytes.Compare(start, kb) < 0 {
				in = false
			}
			if end != nil && bytes.Compare(kb, end) <= 0 {
				in = false
			}
		} else {
			if bytes.Compare(kb, start) < 0 {
				in = false
			}
			if end != nil && bytes.Compare(end, kb) <= 0 {
				in = false
			}
		}
		if in {
			keys = append(keys, k)
		}
	}
	sort.Strings(keys)
	if reverse {
		for i, j := 0, len(keys)-1; i < j; i, j = i+1, j-1 {
			keys[i], keys[j] = keys[j], keys[i]
		}
	}
	it := &jiter{keys: keys}
	for _, k := range keys {
		it.vals = append(it.vals, d.m[k])
	}
	return it
}

func (it *jiter) Next() {
	if !it.Valid() {
		panic("Iterator is Invalid")
	}
	it.cur++
}
func (it *jiter) Valid() bool   { return it.cur >= 0 && it.cur < len(it.keys) }
func (it *jiter) Key() []byte   { return []byte(it.keys[it.cur]) }
func (it *jiter) Value() []byte { return it.vals[it.cur] }

// replayUnits returns base + the first k units of the journal, as two plain maps.
func replayUnits(baseChain, baseState map[string][]byte, units []jUnit, k int) (map[string][]byte, map[string][]byte) {
	c := make(map[string][]byte, len(baseChain)+k)
	s := make(map[string][]byte, len(baseState)+4*k)
	for key, v := range baseChain {
		c[key] = v
	}
	for key, v := range baseState {
		s[key] = v
	}
	for i := 0; i < k && i < len(units); i++ {
		m := c
		if units[i].Store == "state" {
			m = s
		}
		for _, op := range units[i].Ops {
			if op.Del {
				delete(m, op.Key)
			} else {
				m[op.Key] = op.Val
			}
		}
	}
	return c, s
}

// ---------------------------------------------------------------------------- crash mode

func vStoreDiff(got, want map[string][]byte, class func(k string, v []byte) string) []string {
	cnt := map[string]int{}
	for k, v := range want {
		g, ok := got[k]
		if !ok {
			cnt["missing:"+class(k, v)]++
		} else if !bytes.Equal(g, v) {
			cnt["differs:"+class(k, v)]++
		}
	}
	for k, v := range got {
		if _, ok := want[k]; !ok {
			cnt["extra:"+class(k, v)]++
		}
	}
	var out []string
	for k, n := range cnt {
		out = append(out, fmt.Sprintf("%s=%d", k, n))
	}
	sort.Strings(out)
	return out
}

func (e *vEngine) note(s string) {
	if e.progress != "" {
		os.WriteFile(e.progress, []byte(s+"\n"), 0o644)
	}
}

// runCrash: crash-free run on journaling stores, then a real restart (NewChainService on the
// memorydb files of base + first k units, stub consensus, cs.Recover() as ChainService.Receive
// does on its first message) for every k in 0..n, then a replay of all arrivals.
//
// cs.Recover() ends the process with exit code 10 when it panics (RecoverExit) and Core.init
// ends it with logger.Fatal when the chain DB cannot be loaded; the engine cannot intercept
// that, so "<VERIF_OUT>.progress" always names the case and k being restarted.
func (e *vEngine) runCrash(x *vCtx, out map[string]interface{}) {
	c := x.c
	n, perr := e.newNode(e.baseDir)
	if n == nil {
		out["error"] = "node init panic: " + perr
		return
	}
	defer n.stop()
	if err := e.prepNode(n, x); err != nil {
		out["error"] = err.Error()
		return
	}
	j := newJournal()
	cj := wrapStore(n.cs.cdb.store, "chain", j)
	n.cs.cdb.store = cj
	sj := wrapStore(n.cs.sdb.VerifStore(), "state", j)
	n.cs.sdb.VerifSetStore(sj)
	baseChain, baseState := cj.snapshot(), sj.snapshot()

	bestOf := func(cs *ChainService) string {
		if b, _ := cs.GetBestBlock(); b != nil {
			return hx(b.BlockHash())
		}
		return ""
	}
	unitBest := []string{}
	j.hook = func() { unitBest = append(unitBest, bestOf(n.cs)) }

	bests := []string{bestOf(n.cs)} // bests[i] = best before arrival i, bests[i+1] = after
	steps := []interface{}{}
	for i := range c.Arrivals {
		j.arrival = i
		steps = append(steps, e.arrive(n, x, i))
		bests = append(bests, bestOf(n.cs))
	}
	j.arrival = -1
	j.hook = nil
	out["steps"] = steps
	units := j.units[:len(j.units):len(j.units)]
	// "A run without the crash" that is fed the same blocks again: the reference for convergence is the
	// crash-free node after a SECOND delivery of all arrivals (a block dropped by the first-wins orphan
	// pool in the first pass is connected in the second one, exactly as on the restarted node).
	for i := range c.Arrivals {
		e.arrive(n, x, i)
	}
	out["final"] = e.final(n, x)
	fChain, fState := cj.snapshot(), sj.snapshot()

	uj := []interface{}{}
	ua := []int{}
	for _, u := range units {
		classes := []string{}
		for _, op := range u.Ops {
			var cl string
			if u.Store == "chain" {
				cl = vClassChain(op.Key, x)
			} else {
				cl = vClassState(op.Key, op.Val)
			}
			if op.Del {
				cl = "-" + cl
			}
			classes = append(classes, cl)
		}
		uj = append(uj, map[string]interface{}{"store": u.Store, "kind": u.Kind, "classes": classes})
		ua = append(ua, u.Arrival)
	}
	out["units"] = uj
	out["unit_arrival"] = ua
	out["unit_best"] = unitBest
	out["bests"] = bests

	observed := map[string]bool{}
	for _, b := range bests {
		observed[b] = true
	}
	classC := func(k string, v []byte) string { return vClassChain(k, x) }
	crash := []interface{}{}
	for k := 0; k <= len(units); k++ {
		rec := map[string]interface{}{"k": k, "init_panic": "", "recover_err": "", "best": "", "pred": []string{},
			"marker_after": false, "legit": false, "converged": false}
		crash = append(crash, rec)
		cm, sm := replayUnits(baseChain, baseState, units, k)
		e.seq++
		dir := filepath.Join(e.tmp, fmt.Sprintf("crash-%d", e.seq))
		if err := vWriteSnapshot(dir, cm, sm); err != nil {
			rec["init_panic"] = "engine: " + err.Error()
			continue
		}
		e.note(fmt.Sprintf("case %s restart k=%d of %d", c.ID, k, len(units)))
		r, perr := e.newNode(dir)
		if r == nil {
			rec["init_panic"] = perr
			os.RemoveAll(dir)
			continue
		}
		if x.c.OrphanCap >= 1 && x.c.OrphanCap <= 100 {
			r.cs.op = NewOrphanPool(x.c.OrphanCap)
		}
		if err := r.cs.Recover(); err != nil {
			rec["recover_err"] = err.Error()
		}
		r.cs.setRecovered(true)
		best := bestOf(r.cs)
		rec["best"] = best
		pred, _ := e.predicates(r, x)
		_, p3 := e.rawScan(r, x)
		pred = append(pred, p3...)
		if pred == nil {
			pred = []string{}
		}
		rec["pred"] = pred
		rec["sdbroot"] = hx(r.cs.sdb.GetRoot())
		rec["marker_after"] = len(r.cs.cdb.store.Get(dbkey.ReOrg())) != 0
		// the crash happened while unit k was being written (k == n: after the last unit)
		oldTip, newTip := bests[len(bests)-1], bests[len(bests)-1]
		if k < len(units) && units[k].Arrival >= 0 {
			oldTip, newTip = bests[units[k].Arrival], bests[units[k].Arrival+1]
		}
		rec["old_tip"], rec["new_tip"] = oldTip, newTip
		rec["legit"] = observed[best] || best == oldTip || best == newTip
		rec["legit_strict"] = best == oldTip || best == newTip
		mid := false
		if k > 0 && k-1 < len(unitBest) && unitBest[k-1] == best {
			mid = true // in-memory best of the crash-free run when the last surviving unit was written
		}
		rec["legit_mid"] = mid
		// replay all arrivals on the recovered node
		rerrs := 0
		for pass := 0; pass < 2; pass++ {
		for i := range c.Arrivals {
			r.cc.lib = 0
			if i < len(c.Lib) {
				r.cc.lib = c.Lib[i]
			}
			if err := vSafeAdd(r, x.blks[c.Arrivals[i]].clone()); err != nil {
				rerrs++
			}
			r.drainVerifier()
		}
		}
		rec["replay_errs"] = rerrs
		rec["replay_best"] = bestOf(r.cs)
		dc := vStoreDiff(dumpStore(r.cs.cdb.store), fChain, classC)
		ds := vStoreDiff(dumpStore(r.cs.sdb.VerifStore()), fState, vClassState)
		rec["converged"] = len(dc) == 0 && len(ds) == 0
		if len(dc)+len(ds) > 0 {
			rec["diff"] = map[string]interface{}{"chain": dc, "state": ds}
		}
		r.stop()
		os.RemoveAll(dir)
	}
	e.note(fmt.Sprintf("case %s done", c.ID))
	out["crash"] = crash
}

//go:build verif

package state

// Verification shim (added to package state through the build overlay, never part of /repo).
// It lets the chaindb engine swap the key-value store underneath a ChainStateDB after the
// genesis initialisation, so that every write of the state layer goes through the engine's
// journaling store.

import (
	"github.com/aergoio/aergo-lib/db"
	"github.com/aergoio/aergo/v2/state/statedb"
)

// VerifSetStore replaces every db handle kept by the ChainStateDB: sdb.store (used by
// OpenNewStateDB / NewBlockState) and sdb.states, which is re-created because the trie keeps
// its own copy of the handle inside its CacheDB (pkg/trie NewTrie) next to StateDB.Store.
func (sdb *ChainStateDB) VerifSetStore(s db.DB) {
	sdb.Lock()
	defer sdb.Unlock()
	var root []byte
	if sdb.states != nil {
		root = sdb.states.GetRoot()
	}
	sdb.store = s
	sdb.states = statedb.NewStateDB(s, root, sdb.testmode)
}

// VerifStore returns the db handle of the ChainStateDB.
func (sdb *ChainStateDB) VerifStore() db.DB {
	return sdb.store
}

//go:build verif

package system

// Verification shim (added to package contract/system through the build overlay, never part of
// /repo).  contract/system keeps the governance parameters in force (and the values staged for
// the next block) in ONE package-level variable shared by every ChainService of the process.  The
// chaindb engine runs several nodes in one process (block factory, node under test, reference
// node, recovered nodes): each of them owns a snapshot that is swapped in whenever that node
// becomes the active one.  A snapshot is never computed from the state DB.

import (
	"fmt"
	"math/big"
	"sync"

	"github.com/aergoio/aergo/v2/state/statedb"
)

// VerifParams is a deep copy of systemParams (current values and "<id>next" staging entries).
type VerifParams struct {
	m map[string]*big.Int
}

func VerifSnapshotParams() *VerifParams {
	systemParams.mutex.Lock()
	defer systemParams.mutex.Unlock()
	s := &VerifParams{m: make(map[string]*big.Int, len(systemParams.params))}
	for k, v := range systemParams.params {
		if v == nil {
			s.m[k] = nil
		} else {
			s.m[k] = new(big.Int).Set(v)
		}
	}
	return s
}

func VerifRestoreParams(s *VerifParams) {
	m := make(map[string]*big.Int, len(s.m))
	for k, v := range s.m {
		if v == nil {
			m[k] = nil
		} else {
			m[k] = new(big.Int).Set(v)
		}
	}
	systemParams = &parameters{mutex: sync.RWMutex{}, params: m}
}

func verifFmt(get func(id sysParamIndex) *big.Int) string {
	str := func(v *big.Int) string {
		if v == nil {
			return "nil"
		}
		return v.String()
	}
	return fmt.Sprintf("gasprice=%s stakingmin=%s nameprice=%s bpcount=%s",
		str(get(gasPrice)), str(get(stakingMin)), str(get(namePrice)), str(get(bpCount)))
}

// VerifParamsInMemory: canonical string of the parameters in force in memory (GetParam).
func VerifParamsInMemory() string {
	return verifFmt(func(id sysParamIndex) *big.Int { return GetParam(id.ID()) })
}

// VerifParamsFromState: canonical string of the parameters stored in a system contract state.
func VerifParamsFromState(scs *statedb.ContractState) string {
	return verifFmt(func(id sysParamIndex) *big.Int { return getParamFromState(scs, id) })
}

//go:build verif

package state

// C19 engine for package state: the real BlockState.AddReceipt (per-receipt event bloom, block bloom)
// and types.Receipt.BloomFilter / types.Receipts.BloomFilter, before and after a store round trip.
import (
	"bufio"
	"encoding/hex"
	"encoding/json"
	"fmt"
	"os"
	"testing"

	"github.com/aergoio/aergo/v2/types"
	"github.com/willf/bloom"
)

type vbEvent struct{ Addr, Name string }

type vbCase struct {
	Receipts [][]vbEvent `json:"receipts"`
	Probes   []vbEvent   `json:"probes"`
}

func vbHex(s string) []byte { b, _ := hex.DecodeString(s); return b }

func TestVerifBloomEngine(t *testing.T) {
	in, err := os.Open(os.Getenv("VERIF_IN"))
	if err != nil {
		t.Skip("no VERIF_IN")
	}
	defer in.Close()
	out, _ := os.Create(os.Getenv("VERIF_OUT"))
	defer out.Close()
	w := bufio.NewWriter(out)
	defer w.Flush()
	sc := bufio.NewScanner(in)
	sc.Buffer(make([]byte, 1<<20), 1<<26)
	for sc.Scan() {
		var c vbCase
		if err := json.Unmarshal(sc.Bytes(), &c); err != nil {
			t.Fatal(err)
		}
		o := map[string]interface{}{}
		func() {
			defer func() {
				if r := recover(); r != nil {
					o["panic"] = fmt.Sprint(r)
				}
			}()
			bs := &BlockState{}
			bs.receipts.SetHardFork(types.DummyBlockVersionner(2), 1)
			addr33 := make([]byte, 33)
			addr33[0] = 2
			singles := map[string]string{}
			single := func(k []byte) {
				bf := bloom.New(types.BloomBitBits, types.BloomHashKNum)
				bf.Add(k)
				g, _ := bf.GobEncode()
				singles[hex.EncodeToString(k)] = hex.EncodeToString(g[24:])
			}
			for _, evs := range c.Receipts {
				r := &types.Receipt{ContractAddress: addr33, Status: "SUCCESS", TxHash: make([]byte, 32)}
				for i, e := range evs {
					r.Events = append(r.Events, &types.Event{ContractAddress: vbHex(e.Addr), EventName: string(vbHex(e.Name)), EventIdx: int32(i)})
					single(vbHex(e.Addr))
					single(vbHex(e.Name))
				}
				if err := bs.AddReceipt(r); err != nil {
					o["add_err"] = err.Error()
				}
			}
			for _, p := range c.Probes {
				single(vbHex(p.Addr))
				single(vbHex(p.Name))
			}
			o["singles"] = singles
			rs := bs.Receipts()
			answers := func(rs *types.Receipts) (blooms []string, block string, has bool, ans [][]bool, bans []bool) {
				for _, r := range rs.Get() {
					blooms = append(blooms, hex.EncodeToString(r.Bloom))
				}
				if enc, err := rs.MarshalBinary(); err == nil && enc[0] == 1 {
					block, has = hex.EncodeToString(enc[1:257]), true
				}
				for _, p := range c.Probes {
					fi := &types.FilterInfo{ContractAddress: vbHex(p.Addr), EventName: string(vbHex(p.Name))}
					var row []bool
					for _, r := range rs.Get() {
						row = append(row, r.BloomFilter(fi))
					}
					if row == nil {
						row = []bool{}
					}
					ans = append(ans, row)
					bans = append(bans, rs.BloomFilter(fi))
				}
				return
			}
			bl, blk, has, ans, bans := answers(rs)
			if bl == nil {
				bl = []string{}
			}
			o["blooms"], o["block"], o["has_block"], o["answers"], o["block_answers"] = bl, blk, has, ans, bans
			// the same questions after the receipts went through the store format
			enc, err := rs.MarshalBinary()
			if err != nil {
				o["enc_err"] = err.Error()
				return
			}
			rs2 := &types.Receipts{}
			rs2.SetHardFork(types.DummyBlockVersionner(2), 1)
			if err := rs2.UnmarshalBinary(enc); err != nil {
				o["dec_err"] = err.Error()
				return
			}
			bl2, blk2, has2, ans2, bans2 := answers(rs2)
			if bl2 == nil {
				bl2 = []string{}
			}
			o["blooms2"], o["block2"], o["has_block2"], o["answers2"], o["block_answers2"] = bl2, blk2, has2, ans2, bans2
		}()
		b, _ := json.Marshal(o)
		fmt.Fprintln(w, string(b))
	}
}

//go:build verif

package types

// C19 engine (in-package, added through the build overlay).  Reads one JSON case per line
// from $VERIF_IN and writes one JSON observation per line to $VERIF_OUT.  Every digest
// INPUT is recomputed through the package's own writer functions (writeBlockHeader,
// writeBlockHeaderOmitSign / bytesForDigest), every encoding through the package's own
// marshal / unmarshal functions; nothing is re-implemented here.
import (
	"bufio"
	"bytes"
	"encoding/hex"
	"encoding/json"
	"fmt"
	"os"
	"sync"
	"testing"

	"github.com/aergoio/aergo/v2/internal/enc/proto"
	"github.com/libp2p/go-libp2p/core/crypto"
	"github.com/willf/bloom"
)

type vHeader struct {
	ChainID, Prev, BlocksRoot, TxsRoot, ReceiptsRoot, PubKey, Coinbase, Sign, Consensus string
	BlockNo, Confirms                                                                   uint64
	Timestamp                                                                           int64
	Hash                                                                                string // Block.Hash field (F8 cases)
	EmptyNotNil                                                                         bool   // absent byte fields as empty non-nil slices
}

type vTx struct {
	Nonce, GasLimit                                                        uint64
	Account, Recipient, Amount, Payload, GasPrice, ChainIdHash, Sign, Hash string
	Type                                                                   int32
}

type vEvent struct {
	Addr, Name, Args, TxHash, BlockHash string // Name/Args hex of the string bytes
	Idx, TxIndex                        int32
	BlockNo                             uint64
}

type vReceipt struct {
	Addr, Status, Ret, TxHash, Fee, CumFee, Bloom string // Status: the Go string; Ret: hex of the string bytes
	Events                                        []vEvent
	GasUsed                                       uint64
	FeeDeleg                                      bool
}

type vCase struct {
	Kind     string     `json:"kind"`
	H        *vHeader   `json:"h,omitempty"`
	T        *vTx       `json:"t,omitempty"`
	Txs      []vTx      `json:"txs,omitempty"`
	R        *vReceipt  `json:"r,omitempty"`
	Rs       []vReceipt `json:"rs,omitempty"`
	BloomKey []string   `json:"bloomkeys,omitempty"` // non-nil => receipts carry a bloom filter with these keys
	HasBloom bool       `json:"hasbloom,omitempty"`
	Ver      int32      `json:"ver,omitempty"`
	Cid      *vChainID  `json:"cid,omitempty"`
	Raw      string     `json:"raw,omitempty"`
	V        int32      `json:"v,omitempty"`
	G        *vGenesis  `json:"g,omitempty"`
	Vers     []int32    `json:"vers,omitempty"`  // FB: fork versions of the child blocks prepared on top of the parent
	Items    []vCase    `json:"items,omitempty"` // CONC: fixed inputs recomputed concurrently
	Workers  int        `json:"workers,omitempty"`
	Iters    int        `json:"iters,omitempty"`
}

// concEval: everything C19 says is a FUNCTION of the input (identifier inputs, identifiers, roots,
// encodings), as one string.  Used sequentially for the expected value and from many goroutines at once.
func concEval(c *vCase) (res string) {
	defer func() {
		if r := recover(); r != nil {
			res = "panic: " + fmt.Sprint(r)
		}
	}()
	switch c.Kind {
	case "H":
		bh := c.H.header()
		var full bytes.Buffer
		writeBlockHeader(&full, bh)
		nosign, _ := bh.bytesForDigest()
		return hx(full.Bytes()) + "|" + hx(nosign) + "|" + hx((&Block{Header: bh}).calculateBlockHash())
	case "T":
		return hx(c.T.tx().CalculateTxHash())
	case "TR":
		txs := make([]*Tx, len(c.Txs))
		for i := range c.Txs {
			txs[i] = c.Txs[i].tx()
			txs[i].Hash = txs[i].CalculateTxHash()
		}
		return hx(CalculateTxsRootHash(txs))
	case "R":
		rc := c.R.receipt()
		out := ""
		for _, f := range []func() ([]byte, error){rc.marshalStoreBinary, rc.marshalStoreBinaryV2, rc.MarshalMerkleBinary, rc.MarshalMerkleBinaryV2} {
			b, err := f()
			if err != nil {
				out += "err|"
			} else {
				out += hx(b) + "|"
			}
		}
		return out + hx((&ReceiptMerkle{rc, 1, DummyBlockVersionner(c.Ver)}).GetHash())
	case "RS":
		rs := &Receipts{}
		rs.SetHardFork(DummyBlockVersionner(c.Ver), 1)
		var rl []*Receipt
		for i := range c.Rs {
			rl = append(rl, c.Rs[i].receipt())
		}
		rs.Set(rl)
		if c.HasBloom {
			bf := bloom.New(BloomBitBits, BloomHashKNum)
			for _, k := range c.BloomKey {
				bf.Add(unhex(k))
			}
			rs.MergeBloom(bf)
		}
		enc, err := rs.MarshalBinary()
		if err != nil {
			return "err"
		}
		return hx(rs.MerkleRoot()) + "|" + hx(enc)
	}
	return "?"
}

type vSnap struct {
	Full, NoSign, Calc, HashField, Proto, Cid string
}

// snapshot of everything that identifies an already sealed block
func snapBlock(b *Block) vSnap {
	var full bytes.Buffer
	writeBlockHeader(&full, b.Header)
	nosign, _ := b.Header.bytesForDigest()
	raw, _ := proto.Encode(b)
	return vSnap{Full: hx(full.Bytes()), NoSign: hx(nosign), Calc: hx(b.calculateBlockHash()), HashField: hx(b.Hash), Proto: hx(raw),
		Cid: hx(b.Header.ChainID)}
}

type vGenesis struct {
	Cid       vChainID
	Timestamp int64
	BPs       []string
	EBPs      [][3]string
	Balance   map[string]string
}

type vChainID struct {
	Version          int32
	Public, Main     bool
	Magic, Consensus string // hex of the string bytes
}

func unhex(s string) []byte {
	if s == "" {
		return nil
	}
	b, err := hex.DecodeString(s)
	if err != nil {
		panic(err)
	}
	return b
}

func hx(b []byte) string { return hex.EncodeToString(b) }

func (h *vHeader) header() *BlockHeader {
	if h.EmptyNotNil {
		e := func(s string) []byte {
			if b := unhex(s); b != nil {
				return b
			}
			return []byte{}
		}
		return &BlockHeader{ChainID: e(h.ChainID), PrevBlockHash: e(h.Prev), BlockNo: h.BlockNo, Timestamp: h.Timestamp,
			BlocksRootHash: e(h.BlocksRoot), TxsRootHash: e(h.TxsRoot), ReceiptsRootHash: e(h.ReceiptsRoot),
			Confirms: h.Confirms, PubKey: e(h.PubKey), CoinbaseAccount: e(h.Coinbase), Sign: e(h.Sign), Consensus: e(h.Consensus)}
	}
	return &BlockHeader{ChainID: unhex(h.ChainID), PrevBlockHash: unhex(h.Prev), BlockNo: h.BlockNo, Timestamp: h.Timestamp,
		BlocksRootHash: unhex(h.BlocksRoot), TxsRootHash: unhex(h.TxsRoot), ReceiptsRootHash: unhex(h.ReceiptsRoot),
		Confirms: h.Confirms, PubKey: unhex(h.PubKey), CoinbaseAccount: unhex(h.Coinbase), Sign: unhex(h.Sign),
		Consensus: unhex(h.Consensus)}
}

func (t *vTx) tx() *Tx {
	return &Tx{Hash: unhex(t.Hash), Body: &TxBody{Nonce: t.Nonce, Account: unhex(t.Account), Recipient: unhex(t.Recipient), Amount: unhex(t.Amount),
		Payload: unhex(t.Payload), GasLimit: t.GasLimit, GasPrice: unhex(t.GasPrice), Type: TxType(t.Type),
		ChainIdHash: unhex(t.ChainIdHash), Sign: unhex(t.Sign)}}
}

func (r *vReceipt) receipt() *Receipt {
	rc := &Receipt{ContractAddress: unhex(r.Addr), Status: r.Status, Ret: string(unhex(r.Ret)), TxHash: unhex(r.TxHash),
		FeeUsed: unhex(r.Fee), CumulativeFeeUsed: unhex(r.CumFee), Bloom: unhex(r.Bloom), GasUsed: r.GasUsed, FeeDelegation: r.FeeDeleg}
	for _, e := range r.Events {
		rc.Events = append(rc.Events, &Event{ContractAddress: unhex(e.Addr), EventName: string(unhex(e.Name)), JsonArgs: string(unhex(e.Args)),
			EventIdx: e.Idx, TxHash: unhex(e.TxHash), BlockHash: unhex(e.BlockHash), BlockNo: e.BlockNo, TxIndex: e.TxIndex})
	}
	return rc
}

func fromReceipt(rc *Receipt) *vReceipt {
	r := &vReceipt{Addr: hx(rc.ContractAddress), Status: rc.Status, Ret: hx([]byte(rc.Ret)), TxHash: hx(rc.TxHash), Fee: hx(rc.FeeUsed),
		CumFee: hx(rc.CumulativeFeeUsed), Bloom: hx(rc.Bloom), GasUsed: rc.GasUsed, FeeDeleg: rc.FeeDelegation, Events: []vEvent{}}
	for _, e := range rc.Events {
		r.Events = append(r.Events, vEvent{Addr: hx(e.ContractAddress), Name: hx([]byte(e.EventName)), Args: hx([]byte(e.JsonArgs)), Idx: e.EventIdx,
			TxHash: hx(e.TxHash), BlockHash: hx(e.BlockHash), BlockNo: e.BlockNo, TxIndex: e.TxIndex})
	}
	return r
}

// exact copies data into a slice whose capacity equals its length, so that a read past the
// end panics instead of silently reading spare capacity.
func exact(b []byte) []byte {
	c := make([]byte, len(b), len(b))
	copy(c, b)
	return c[:len(b):len(b)]
}

type obs map[string]interface{}

func guarded(o obs, key string, f func()) {
	defer func() {
		if r := recover(); r != nil {
			o[key+"_panic"] = fmt.Sprint(r)
		}
	}()
	f()
}

func TestVerifCodecEngine(t *testing.T) {
	in, err := os.Open(os.Getenv("VERIF_IN"))
	if err != nil {
		t.Skip("no VERIF_IN")
	}
	defer in.Close()
	out, _ := os.Create(os.Getenv("VERIF_OUT"))
	defer out.Close()
	w := bufio.NewWriter(out)
	defer w.Flush()
	sc := bufio.NewScanner(in)
	sc.Buffer(make([]byte, 1<<20), 1<<28)
	for sc.Scan() {
		var c vCase
		if err := json.Unmarshal(sc.Bytes(), &c); err != nil {
			t.Fatalf("bad case: %v", err)
		}
		o := obs{"kind": c.Kind}
		switch c.Kind {
		case "H": // block header: identifier input, signed input, identifier
			bh := c.H.header()
			var full bytes.Buffer
			if err := writeBlockHeader(&full, bh); err != nil {
				o["err"] = err.Error()
			}
			nosign, err := bh.bytesForDigest()
			if err != nil {
				o["err"] = err.Error()
			}
			blk := &Block{Header: bh}
			o["full"] = hx(full.Bytes())
			o["nosign"] = hx(nosign)
			o["calc"] = hx(blk.calculateBlockHash())
			blk.Hash = unhex(c.H.Hash)
			o["blockhash"] = hx(blk.BlockHash()) // returns the Hash field when it is non-empty (F8)
			var again bytes.Buffer
			writeBlockHeader(&again, bh)
			o["full_again"] = hx(again.Bytes()) // hold-and-compare: the header after every writer / hash function ran
		case "T": // transaction identifier
			tx := c.T.tx()
			o["hash"] = hx(tx.CalculateTxHash())
			o["hash_again"] = hx(tx.CalculateTxHash())
			raw, _ := proto.Encode(tx.Body)
			o["body_proto"] = hx(raw)
		case "TR": // transaction root over the Hash fields of the txs (what the code does)
			txs := make([]*Tx, len(c.Txs))
			leaves := []string{}
			for i := range c.Txs {
				txs[i] = c.Txs[i].tx()
				txs[i].Hash = txs[i].CalculateTxHash()
				leaves = append(leaves, hx(txs[i].Hash))
			}
			o["leaves"] = leaves
			o["root"] = hx(CalculateTxsRootHash(txs))
		case "R": // one receipt: store and merkle forms of both versions, and store round trips
			rc := c.R.receipt()
			enc := func(key string, f func() ([]byte, error)) []byte {
				var b []byte
				guarded(o, key, func() {
					var err error
					b, err = f()
					if err != nil {
						o[key+"_err"] = err.Error()
						b = nil
					} else {
						o[key] = hx(b)
					}
				})
				return b
			}
			s1 := enc("s1", rc.marshalStoreBinary)
			s2 := enc("s2", rc.marshalStoreBinaryV2)
			enc("m1", rc.MarshalMerkleBinary)
			enc("m2", rc.MarshalMerkleBinaryV2)
			tail := []byte{0xde, 0xad, 0xbe}
			dec := func(key string, data []byte, body func(r *Receipt, d []byte) ([]byte, uint32), f func(r *Receipt, d []byte) ([]byte, error)) {
				if data == nil {
					return
				}
				guarded(o, key, func() {
					var r Receipt
					// the decoders allocate make([]*Event, evCount) before reading any event: a garbage
					// count (ill-formed input) would allocate gigabytes, so the count is read first
					// through the package's own body decoder and absurd counts are reported, not run.
					var probe Receipt
					_, evCount := body(&probe, exact(append(append([]byte{}, data...), tail...)))
					if evCount > 4096 {
						o[key+"_hugecount"] = evCount
						return
					}
					buf := exact(append(append([]byte{}, data...), tail...))
					rest, err := f(&r, buf)
					if err != nil {
						o[key+"_err"] = err.Error()
						return
					}
					o[key] = fromReceipt(&r)
					o[key+"_rest_ok"] = bytes.Equal(rest, tail)
					// does the decoded receipt retain slices of the caller's buffer?  (informational)
					before, _ := json.Marshal(fromReceipt(&r))
					for i := range buf {
						buf[i] ^= 0x55
					}
					after, _ := json.Marshal(fromReceipt(&r))
					o[key+"_aliases_input"] = !bytes.Equal(before, after)
				})
			}
			dec("d1", s1, (*Receipt).unmarshalBody, (*Receipt).unmarshalStoreBinary)
			dec("d2", s2, (*Receipt).unmarshalBodyV2, (*Receipt).unmarshalStoreBinaryV2)
			o["input_after"] = fromReceipt(rc) // hold-and-compare: the receipt after all four encoders and both decoders ran
			// the version mix-up F17 is about: what a V2-era receipt looks like after a V1 store round trip
			o["h1"] = hx((&ReceiptMerkle{rc, 0, DummyBlockVersionner(c.Ver)}).GetHash())
		case "RD": // a store decoder on arbitrary bytes (truncations, bit flips of a valid encoding)
			data := unhex(c.Raw)
			v2 := c.Ver >= 2
			guarded(o, "d", func() {
				var probe, r Receipt
				var evCount uint32
				if v2 {
					_, evCount = probe.unmarshalBodyV2(exact(data))
				} else {
					_, evCount = probe.unmarshalBody(exact(data))
				}
				if evCount > 4096 {
					o["d_hugecount"] = evCount
					return
				}
				var rest []byte
				var err error
				if v2 {
					rest, err = r.unmarshalStoreBinaryV2(exact(data))
				} else {
					rest, err = r.unmarshalStoreBinary(exact(data))
				}
				if err != nil {
					o["d_err"] = err.Error()
					return
				}
				o["d"] = fromReceipt(&r)
				o["d_rest"] = hx(rest)
			})
		case "RS": // receipt list of a block at fork version Ver, with or without bloom
			rs := &Receipts{}
			rs.SetHardFork(DummyBlockVersionner(c.Ver), 1)
			var rl []*Receipt
			for i := range c.Rs {
				rl = append(rl, c.Rs[i].receipt())
			}
			rs.Set(rl)
			if c.HasBloom {
				bf := bloom.New(BloomBitBits, BloomHashKNum)
				for _, k := range c.BloomKey {
					bf.Add(unhex(k))
				}
				if err := rs.MergeBloom(bf); err != nil {
					o["err"] = err.Error()
				}
				gob, _ := (*bloom.BloomFilter)(rs.bloom).GobEncode()
				o["bloom_gob"] = hx(gob)
			}
			leaves := []string{}
			for _, r := range rl {
				leaves = append(leaves, hx((&ReceiptMerkle{r, 1, DummyBlockVersionner(c.Ver)}).GetHash()))
			}
			if rs.bloom != nil {
				leaves = append(leaves, hx(rs.bloom.GetHash()))
			}
			o["leaves"] = leaves
			guarded(o, "root", func() { o["root"] = hx(rs.MerkleRoot()) })
			var enc []byte
			guarded(o, "enc", func() {
				b, err := rs.MarshalBinary()
				if err != nil {
					o["enc_err"] = err.Error()
					return
				}
				enc = b
				o["enc"] = hx(b)
			})
			if enc != nil {
				guarded(o, "dec", func() {
					rs2 := &Receipts{}
					rs2.SetHardFork(DummyBlockVersionner(c.Ver), 1)
					if err := rs2.UnmarshalBinary(exact(enc)); err != nil {
						o["dec_err"] = err.Error()
						return
					}
					l := []*vReceipt{}
					for _, r := range rs2.Get() {
						l = append(l, fromReceipt(r))
					}
					o["dec"] = l
					o["dec_hasbloom"] = rs2.bloom != nil
					if rs2.bloom != nil {
						gob, _ := (*bloom.BloomFilter)(rs2.bloom).GobEncode()
						o["dec_bloom_gob"] = hx(gob)
					}
					o["dec_root"] = hx(rs2.MerkleRoot())
					b2, err := rs2.MarshalBinary()
					o["reenc_same"] = err == nil && bytes.Equal(b2, enc)
				})
			}
		case "C": // chain id: Bytes and Read(Bytes)
			cid := &ChainID{Version: c.Cid.Version, PublicNet: c.Cid.Public, MainNet: c.Cid.Main,
				Magic: string(unhex(c.Cid.Magic)), Consensus: string(unhex(c.Cid.Consensus))}
			b, err := cid.Bytes()
			if err != nil {
				o["enc_err"] = err.Error()
				break
			}
			o["enc"] = hx(b)
			readCid(o, b)
			o["equals"] = o["dec"] != nil && func() bool { r := NewChainID(); r.Read(b); return cid.Equals(r) }()
		case "CE": // ChainID.Equals between two chain ids (Cid, and Raw = JSON of the second one)
			var b vChainID
			json.Unmarshal([]byte(c.Raw), &b)
			x := &ChainID{Version: c.Cid.Version, PublicNet: c.Cid.Public, MainNet: c.Cid.Main, Magic: string(unhex(c.Cid.Magic)), Consensus: string(unhex(c.Cid.Consensus))}
			y := &ChainID{Version: b.Version, PublicNet: b.Public, MainNet: b.Main, Magic: string(unhex(b.Magic)), Consensus: string(unhex(b.Consensus))}
			o["equals"] = x.Equals(y)
			o["equals_sym"] = y.Equals(x)
			o["equals_nil"] = x.Equals(nil)
			xb, _ := x.Bytes()
			yb, _ := y.Bytes()
			o["equal_without_version"] = ChainIdEqualWithoutVersion(xb, yb)
			g := &Genesis{ID: *x}
			o["validate_ok"] = g.Validate() == nil
		case "CR": // ChainID.Read on arbitrary bytes
			readCid(o, unhex(c.Raw))
		case "G": // genesis info as stored by the chain DB: Genesis.Bytes / GetGenesisFromBytes (gob, Balance omitted by design)
			g := &Genesis{ID: ChainID{Version: c.G.Cid.Version, PublicNet: c.G.Cid.Public, MainNet: c.G.Cid.Main,
				Magic: string(unhex(c.G.Cid.Magic)), Consensus: string(unhex(c.G.Cid.Consensus))},
				Timestamp: c.G.Timestamp, BPs: c.G.BPs, Balance: c.G.Balance}
			for _, e := range c.G.EBPs {
				g.EnterpriseBPs = append(g.EnterpriseBPs, EnterpriseBP{Name: e[0], Address: e[1], PeerID: e[2]})
			}
			b := g.Bytes()
			o["enc_len"] = len(b)
			if d := GetGenesisFromBytes(b); d != nil {
				eb := [][3]string{}
				for _, e := range d.EnterpriseBPs {
					eb = append(eb, [3]string{e.Name, e.Address, e.PeerID})
				}
				bps := d.BPs
				if bps == nil {
					bps = []string{}
				}
				o["dec"] = &vGenesis{Cid: vChainID{Version: d.ID.Version, Public: d.ID.PublicNet, Main: d.ID.MainNet,
					Magic: hx([]byte(d.ID.Magic)), Consensus: hx([]byte(d.ID.Consensus))}, Timestamp: d.Timestamp, BPs: bps, EBPs: eb, Balance: d.Balance}
				o["balance_len"] = len(d.Balance)
				o["orig_balance_kept"] = len(g.Balance) == len(c.G.Balance)
			}
		case "CONC": // fixed inputs recomputed by many goroutines at once, compared with the sequentially computed values
			want := make([]string, len(c.Items))
			for i := range c.Items {
				want[i] = concEval(&c.Items[i])
			}
			again := 0
			for i := range c.Items {
				if concEval(&c.Items[i]) != want[i] {
					again++
				}
			}
			o["sequential_unstable"] = again
			workers, iters := c.Workers, c.Iters
			var mu sync.Mutex
			var wg sync.WaitGroup
			bad := []map[string]interface{}{}
			total := 0
			for g := 0; g < workers; g++ {
				wg.Add(1)
				go func(g int) {
					defer wg.Done()
					n := 0
					for it := 0; it < iters; it++ {
						for k := range c.Items {
							i := (k*(g+1) + it + g) % len(c.Items) // every goroutine walks the inputs in its own order
							got := concEval(&c.Items[i])
							n++
							if got != want[i] {
								mu.Lock()
								if len(bad) < 5 {
									w, gt := want[i], got
									if len(w) > 200 {
										w = w[:200]
									}
									if len(gt) > 200 {
										gt = gt[:200]
									}
									bad = append(bad, map[string]interface{}{"item": i, "kind": c.Items[i].Kind, "want": w, "got": gt, "goroutine": g})
								}
								mu.Unlock()
							}
						}
					}
					mu.Lock()
					total += n
					mu.Unlock()
				}(g)
			}
			wg.Wait()
			o["evaluations"] = total
			o["mismatches"] = bad
			o["want"] = want
		case "HM": // header mutators after the identifier was asked for once: is the cached Hash field stale afterwards?
			priv, _, _ := crypto.GenerateKeyPair(crypto.Secp256k1, 256)
			muts := []struct {
				name string
				f    func(b *Block)
			}{
				{"SetConfirms", func(b *Block) { b.SetConfirms(b.Confirms() + 1) }},
				{"Sign", func(b *Block) { b.Sign(priv) }},
				{"setPubKey", func(b *Block) { b.setPubKey(priv.GetPublic()) }},
				{"SetBlocksRootHash", func(b *Block) { b.SetBlocksRootHash(append([]byte{0x5a}, b.Header.BlocksRootHash...)) }},
				{"SetChainID", func(b *Block) { b.SetChainID(append([]byte{9, 0, 0, 0}, b.Header.ChainID...)) }},
			}
			res := map[string]interface{}{}
			for _, early := range []bool{false, true} {
				for _, m := range muts {
					b := &Block{Header: c.H.header()}
					if early {
						b.BlockHash() // e.g. a log line asking for block.ID() before the header is finished
					}
					m.f(b)
					key := m.name
					if early {
						key += "_after_early_id"
					}
					raw, _ := proto.Encode(b)
					var back Block
					proto.Decode(raw, &back)
					res[key] = map[string]bool{
						"id_is_hash_of_final_header":    bytes.Equal(b.BlockHash(), b.calculateBlockHash()),
						"received_id_is_hash_of_header": bytes.Equal(back.BlockHash(), back.calculateBlockHash()),
					}
				}
			}
			o["mutators"] = res
		case "MC": // MakeChainId / DecodeChainIdVersion / ChainIdEqualWithoutVersion
			raw := unhex(c.Raw)
			o["decode_ver"] = DecodeChainIdVersion(raw)
			guarded(o, "make", func() { o["make"] = hx(MakeChainId(raw, c.V)) })
			o["raw_after"] = hx(raw) // hold-and-compare: the caller's slice after the call
			o["version_bytes"] = hx(ChainIdVersion(c.V))
		case "FB": // a sealed parent block, then child header infos / child blocks prepared on top of it for each fork version
			parent := &Block{Header: c.H.header()}
			parent.BlockHash()
			snaps := []vSnap{snapBlock(parent)}
			kids := []map[string]interface{}{}
			for _, v := range c.Vers {
				k := map[string]interface{}{"v": v}
				func() {
					defer func() {
						if r := recover(); r != nil {
							k["panic"] = fmt.Sprint(r)
						}
					}()
					bi := NewBlockHeaderInfoFromPrevBlock(parent, 12345, DummyBlockVersionner(v))
					child := NewBlock(bi, []byte("root"), nil, nil, nil, nil)
					k["cid"] = hx(child.Header.ChainID)
					k["fork_version"] = bi.ForkVersion
					k["decoded"] = DecodeChainIdVersion(bi.ChainId)
					k["prev"] = hx(child.Header.PrevBlockHash)
					k["info_of_parent_cid"] = hx(NewBlockHeaderInfo(parent).ChainId)
					child.BlockHash()
				}()
				kids = append(kids, k)
				snaps = append(snaps, snapBlock(parent)) // the parent again, after this child was prepared
			}
			o["snaps"] = snaps
			o["kids"] = kids
		}
		b, _ := json.Marshal(o)
		fmt.Fprintln(w, string(b))
	}
}

func readCid(o obs, data []byte) {
	guarded(o, "dec", func() {
		r := NewChainID()
		if err := r.Read(exact(data)); err != nil {
			o["dec_err"] = err.Error()
			return
		}
		o["dec"] = &vChainID{Version: r.Version, Public: r.PublicNet, Main: r.MainNet, Magic: hx([]byte(r.Magic)), Consensus: hx([]byte(r.Consensus))}
	})
}

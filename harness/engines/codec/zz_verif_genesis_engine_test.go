//go:build verif

package chain

// C19 engine for package chain (overlay build): what the real ChainDB stores for the genesis
// block (addGenesisBlock) and what GetGenesisInfo reads back after the database has been
// closed and re-opened (start-up path).
import (
	"bufio"
	"encoding/hex"
	"encoding/json"
	"fmt"
	"math/big"
	"os"
	"testing"

	"github.com/aergoio/aergo/v2/types"
	"github.com/aergoio/aergo/v2/types/dbkey"
)

type vgCid struct {
	Version          int32
	Public, Main     bool
	Magic, Consensus string // hex
}

type vgCase struct {
	Cid       vgCid
	Timestamp int64
	BPs       []string
	Total     string // decimal; "" = nil totalBalance
}

type vgObs struct {
	BlockCid   string   `json:"block_cid"`
	BlockTs    int64    `json:"block_ts"`
	HasBalance bool     `json:"has_balance"`
	Balance    string   `json:"balance"`
	Back       *vgCase  `json:"back"`
	BackNil    bool     `json:"back_nil"`
	SameHash   bool     `json:"same_hash"`
	Err        string   `json:"err"`
	BPs        []string `json:"-"`
}

func TestVerifGenesisEngine(t *testing.T) {
	in, err := os.Open(os.Getenv("VERIF_IN"))
	if err != nil {
		t.Skip("no VERIF_IN")
	}
	defer in.Close()
	out, _ := os.Create(os.Getenv("VERIF_OUT"))
	defer out.Close()
	w := bufio.NewWriter(out)
	defer w.Flush()
	sc := bufio.NewScanner(in)
	sc.Buffer(make([]byte, 1<<20), 1<<26)
	for sc.Scan() {
		var c vgCase
		if err := json.Unmarshal(sc.Bytes(), &c); err != nil {
			t.Fatal(err)
		}
		o := vgObs{}
		func() {
			defer func() {
				if r := recover(); r != nil {
					o.Err = fmt.Sprint("panic: ", r)
				}
			}()
			dir, err := os.MkdirTemp("", "verif-c19-genesis-")
			if err != nil {
				panic(err)
			}
			defer os.RemoveAll(dir)
			mg, _ := hex.DecodeString(c.Cid.Magic)
			cs, _ := hex.DecodeString(c.Cid.Consensus)
			g := &types.Genesis{ID: types.ChainID{Version: c.Cid.Version, PublicNet: c.Cid.Public, MainNet: c.Cid.Main,
				Magic: string(mg), Consensus: string(cs)}, Timestamp: c.Timestamp, BPs: c.BPs}
			if c.Total != "" {
				n, _ := new(big.Int).SetString(c.Total, 10)
				g.AddBalance(n)
			}
			cdb := NewChainDB()
			if err := cdb.Init("badgerdb", dir, nil); err != nil {
				panic(err)
			}
			if err := cdb.addGenesisBlock(g); err != nil {
				panic(err)
			}
			h0 := string(g.Block().BlockHash())
			cdb.Close()
			// start-up on the same directory
			cdb2 := NewChainDB()
			if err := cdb2.Init("badgerdb", dir, nil); err != nil {
				panic(err)
			}
			defer cdb2.Close()
			if blk, err := cdb2.GetBlockByNo(0); err == nil {
				o.BlockCid = hex.EncodeToString(blk.GetHeader().GetChainID())
				o.BlockTs = blk.GetHeader().GetTimestamp()
				o.SameHash = string(blk.BlockHash()) == h0
			} else {
				o.Err = "block 0: " + err.Error()
			}
			if ok, _ := cdb2.store.Exist(dbkey.GenesisBalance()), 0; ok {
				o.HasBalance = true
				o.Balance = hex.EncodeToString(cdb2.Get(dbkey.GenesisBalance()))
			}
			back := cdb2.GetGenesisInfo()
			if back == nil {
				o.BackNil = true
				return
			}
			bps := back.BPs
			if bps == nil {
				bps = []string{}
			}
			o.Back = &vgCase{Cid: vgCid{Version: back.ID.Version, Public: back.ID.PublicNet, Main: back.ID.MainNet,
				Magic: hex.EncodeToString([]byte(back.ID.Magic)), Consensus: hex.EncodeToString([]byte(back.ID.Consensus))},
				Timestamp: back.Timestamp, BPs: bps}
			if tb := back.TotalBalance(); tb != nil {
				o.Back.Total = tb.String()
			}
		}()
		b, _ := json.Marshal(o)
		fmt.Fprintln(w, string(b))
	}
}

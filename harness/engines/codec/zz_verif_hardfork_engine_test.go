//go:build verif

package config

// C19 engine for config: the real HardforkConfig.Version / IsVnFork / CheckCompatibility.
import (
	"bufio"
	"encoding/json"
	"fmt"
	"os"
	"reflect"
	"testing"

	"github.com/aergoio/aergo/v2/types"
)

type vHfCase struct {
	Cfg []uint64          `json:"cfg"` // heights in struct field order
	H   uint64            `json:"h"`
	Db  map[string]uint64 `json:"db,omitempty"`
	Chk bool              `json:"chk"`
}

func TestVerifHardforkEngine(t *testing.T) {
	in, err := os.Open(os.Getenv("VERIF_IN"))
	if err != nil {
		t.Skip("no VERIF_IN")
	}
	defer in.Close()
	out, _ := os.Create(os.Getenv("VERIF_OUT"))
	defer out.Close()
	w := bufio.NewWriter(out)
	defer w.Flush()
	sc := bufio.NewScanner(in)
	sc.Buffer(make([]byte, 1<<20), 1<<26)
	for sc.Scan() {
		var c vHfCase
		if err := json.Unmarshal(sc.Bytes(), &c); err != nil {
			t.Fatal(err)
		}
		cfg := &HardforkConfig{}
		v := reflect.ValueOf(cfg).Elem()
		o := map[string]interface{}{"nfields": v.NumField()}
		for i := 0; i < v.NumField() && i < len(c.Cfg); i++ {
			v.Field(i).SetUint(c.Cfg[i])
		}
		o["version"] = cfg.Version(types.BlockNo(c.H))
		forks := []bool{}
		for i := 0; i < v.NumField(); i++ {
			m := reflect.ValueOf(cfg).MethodByName(fmt.Sprintf("IsV%dFork", i+2))
			forks = append(forks, m.Call([]reflect.Value{reflect.ValueOf(types.BlockNo(c.H))})[0].Bool())
		}
		o["forks"] = forks
		if c.Chk {
			db := HardforkDbConfig{}
			for k, x := range c.Db {
				db[k] = types.BlockNo(x)
			}
			err := cfg.CheckCompatibility(db, types.BlockNo(c.H))
			o["compat"] = err == nil
			if err != nil {
				o["compat_err"] = err.Error()
			}
			// the stored configuration seen as a configuration of its own (restart with it)
			dcfg := &HardforkConfig{}
			dv := reflect.ValueOf(dcfg).Elem()
			for i := 0; i < dv.NumField(); i++ {
				dv.Field(i).SetUint(uint64(db[dv.Type().Field(i).Name]))
			}
			o["db_version"] = dcfg.Version(types.BlockNo(c.H))
		}
		b, _ := json.Marshal(o)
		fmt.Fprintln(w, string(b))
	}
}

//go:build verif

package key

// C19 engine for account/key: the real CalculateHashWithoutSign (signed transaction digest).
import (
	"bufio"
	"encoding/hex"
	"encoding/json"
	"fmt"
	"os"
	"testing"

	"github.com/aergoio/aergo/v2/types"
)

type vTx struct {
	Nonce, GasLimit                                                  uint64
	Account, Recipient, Amount, Payload, GasPrice, ChainIdHash, Sign string
	Type                                                             int32
}

func unhex(s string) []byte {
	if s == "" {
		return nil
	}
	b, _ := hex.DecodeString(s)
	return b
}

func TestVerifKeyEngine(t *testing.T) {
	in, err := os.Open(os.Getenv("VERIF_IN"))
	if err != nil {
		t.Skip("no VERIF_IN")
	}
	defer in.Close()
	out, _ := os.Create(os.Getenv("VERIF_OUT"))
	defer out.Close()
	w := bufio.NewWriter(out)
	defer w.Flush()
	sc := bufio.NewScanner(in)
	sc.Buffer(make([]byte, 1<<20), 1<<26)
	for sc.Scan() {
		var c struct {
			T vTx `json:"t"`
		}
		if err := json.Unmarshal(sc.Bytes(), &c); err != nil {
			t.Fatal(err)
		}
		x := c.T
		body := &types.TxBody{Nonce: x.Nonce, Account: unhex(x.Account), Recipient: unhex(x.Recipient), Amount: unhex(x.Amount),
			Payload: unhex(x.Payload), GasLimit: x.GasLimit, GasPrice: unhex(x.GasPrice), Type: types.TxType(x.Type),
			ChainIdHash: unhex(x.ChainIdHash), Sign: unhex(x.Sign)}
		o := map[string]interface{}{"signhash": hex.EncodeToString(CalculateHashWithoutSign(body)),
			"hash": hex.EncodeToString((&types.Tx{Body: body}).CalculateTxHash())}
		b, _ := json.Marshal(o)
		fmt.Fprintln(w, string(b))
	}
}

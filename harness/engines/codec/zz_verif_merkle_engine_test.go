//go:build verif

package merkle

// C19 engine for internal/merkle: the real CalculateMerkleTree / CalculateMerkleRoot over
// entries whose GetHash returns the bytes given in the case.
import (
	"bufio"
	"encoding/hex"
	"encoding/json"
	"fmt"
	"os"
	"sync"
	"testing"
)

type vEntry []byte

func (e vEntry) GetHash() []byte { return []byte(e) }

type vMerkleCase struct {
	Leaves  []string   `json:"leaves"`
	Conc    [][]string `json:"conc,omitempty"` // concurrent mode: several leaf lists recomputed by many goroutines at once
	Workers int        `json:"workers,omitempty"`
	Iters   int        `json:"iters,omitempty"`
}

func vRootOf(leaves []string) (res string) {
	defer func() {
		if r := recover(); r != nil {
			res = "panic: " + fmt.Sprint(r)
		}
	}()
	entries := make([]MerkleEntry, len(leaves))
	for i, l := range leaves {
		b, _ := hex.DecodeString(l)
		entries[i] = vEntry(b)
	}
	return hex.EncodeToString(CalculateMerkleRoot(entries))
}

func TestVerifMerkleEngine(t *testing.T) {
	in, err := os.Open(os.Getenv("VERIF_IN"))
	if err != nil {
		t.Skip("no VERIF_IN")
	}
	defer in.Close()
	out, _ := os.Create(os.Getenv("VERIF_OUT"))
	defer out.Close()
	w := bufio.NewWriter(out)
	defer w.Flush()
	sc := bufio.NewScanner(in)
	sc.Buffer(make([]byte, 1<<20), 1<<28)
	for sc.Scan() {
		var c vMerkleCase
		if err := json.Unmarshal(sc.Bytes(), &c); err != nil {
			t.Fatal(err)
		}
		if c.Conc != nil {
			want := make([]string, len(c.Conc))
			for i, l := range c.Conc {
				want[i] = vRootOf(l)
			}
			var mu sync.Mutex
			var wg sync.WaitGroup
			bad := []map[string]interface{}{}
			for g := 0; g < c.Workers; g++ {
				wg.Add(1)
				go func(g int) {
					defer wg.Done()
					for it := 0; it < c.Iters; it++ {
						for k := range c.Conc {
							i := (k*(g+1) + it + g) % len(c.Conc)
							if got := vRootOf(c.Conc[i]); got != want[i] {
								mu.Lock()
								if len(bad) < 5 {
									bad = append(bad, map[string]interface{}{"list": i, "n": len(c.Conc[i]), "want": want[i], "got": got, "goroutine": g})
								}
								mu.Unlock()
							}
						}
					}
				}(g)
			}
			wg.Wait()
			b, _ := json.Marshal(map[string]interface{}{"conc": true, "want": want, "mismatches": bad})
			fmt.Fprintln(w, string(b))
			continue
		}
		entries := make([]MerkleEntry, len(c.Leaves))
		for i, l := range c.Leaves {
			b, _ := hex.DecodeString(l)
			entries[i] = vEntry(b)
		}
		o := map[string]interface{}{}
		func() {
			defer func() {
				if r := recover(); r != nil {
					o["panic"] = fmt.Sprint(r)
				}
			}()
			tree := CalculateMerkleTree(entries)
			o["root"] = hex.EncodeToString(CalculateMerkleRoot(entries))
			o["tree_len"] = len(tree)
			o["last"] = hex.EncodeToString(tree[len(tree)-1])
			if len(entries) == 0 {
				// is the root handed out for an empty list the package-level nilHash slice itself?
				r1 := CalculateMerkleRoot(nil)
				r1[0] ^= 0xff
				r2 := CalculateMerkleRoot(nil)
				o["empty_root_is_shared_slice"] = r2[0] != 0
				r1[0] ^= 0xff // restore
			}
		}()
		b, _ := json.Marshal(o)
		fmt.Fprintln(w, string(b))
	}
}

//go:build verif

package merkle

// C19 engine for internal/merkle: the real CalculateMerkleTree / CalculateMerkleRoot over
// entries whose GetHash returns the bytes given in the case.
import (
	"bufio"
	"encoding/hex"
	"encoding/json"
	"fmt"
	"os"
	"testing"
)

type vEntry []byte

func (e vEntry) GetHash() []byte { return []byte(e) }

type vMerkleCase struct {
	Leaves []string `json:"leaves"`
}

func TestVerifMerkleEngine(t *testing.T) {
	in, err := os.Open(os.Getenv("VERIF_IN"))
	if err != nil {
		t.Skip("no VERIF_IN")
	}
	defer in.Close()
	out, _ := os.Create(os.Getenv("VERIF_OUT"))
	defer out.Close()
	w := bufio.NewWriter(out)
	defer w.Flush()
	sc := bufio.NewScanner(in)
	sc.Buffer(make([]byte, 1<<20), 1<<28)
	for sc.Scan() {
		var c vMerkleCase
		if err := json.Unmarshal(sc.Bytes(), &c); err != nil {
			t.Fatal(err)
		}
		entries := make([]MerkleEntry, len(c.Leaves))
		for i, l := range c.Leaves {
			b, _ := hex.DecodeString(l)
			entries[i] = vEntry(b)
		}
		o := map[string]interface{}{}
		func() {
			defer func() {
				if r := recover(); r != nil {
					o["panic"] = fmt.Sprint(r)
				}
			}()
			tree := CalculateMerkleTree(entries)
			o["root"] = hex.EncodeToString(CalculateMerkleRoot(entries))
			o["tree_len"] = len(tree)
			o["last"] = hex.EncodeToString(tree[len(tree)-1])
		}()
		b, _ := json.Marshal(o)
		fmt.Fprintln(w, string(b))
	}
}

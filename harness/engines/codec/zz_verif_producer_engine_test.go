//go:build verif

package chain

// C19 engine for package consensus/chain (overlay build): a block produced through the real
// BlockGenerator.GenerateBlock, then finished the way the block factories do
// (dpos: SetConfirms + Sign; raftv2: Sign; sbp: nothing).  Observation: is the identifier of the
// FINISHED block the hash of its FINAL header, also for whoever receives it through protobuf?
// The node configuration is a dimension: the engine is run once as it is and once with
// ARGLIB_LEVEL=debug in the environment (logger levels are fixed at package initialisation).
import (
	"bufio"
	"bytes"
	"context"
	"crypto/rand"
	"encoding/hex"
	"encoding/json"
	"fmt"
	"os"
	"testing"
	"time"

	"github.com/aergoio/aergo/v2/internal/enc/proto"
	"github.com/aergoio/aergo/v2/pkg/component"
	"github.com/aergoio/aergo/v2/state"
	"github.com/aergoio/aergo/v2/types"
	"github.com/libp2p/go-libp2p/core/crypto"
)

type vpCase struct {
	NTx     int    `json:"ntx"`
	Factory string `json:"factory"` // dpos | raft | sbp
	Version int32  `json:"version"`
}

func vpHashOfHeader(h *types.BlockHeader) []byte {
	c := *h
	return (&types.Block{Header: &c}).BlockHash()
}

func TestVerifProducerEngine(t *testing.T) {
	in, err := os.Open(os.Getenv("VERIF_IN"))
	if err != nil {
		t.Skip("no VERIF_IN")
	}
	defer in.Close()
	out, _ := os.Create(os.Getenv("VERIF_OUT"))
	defer out.Close()
	w := bufio.NewWriter(out)
	defer w.Flush()
	sc := bufio.NewScanner(in)
	for sc.Scan() {
		var c vpCase
		if err := json.Unmarshal(sc.Bytes(), &c); err != nil {
			t.Fatal(err)
		}
		o := map[string]interface{}{"debug_enabled": logger.IsDebugEnabled(), "factory": c.Factory, "ntx": c.NTx}
		func() {
			defer func() {
				if r := recover(); r != nil {
					o["panic"] = fmt.Sprint(r)
				}
			}()
			dir, err := os.MkdirTemp("", "verif-c19-producer-")
			if err != nil {
				panic(err)
			}
			defer os.RemoveAll(dir)
			sdb := state.NewChainStateDB()
			if err := sdb.Init("memorydb", dir, nil, true, nil); err != nil {
				panic(err)
			}
			defer sdb.Close()
			genesis := types.GetTestGenesis()
			if err := sdb.SetGenesis(genesis, nil); err != nil {
				panic(err)
			}
			prev := genesis.Block()
			prev.BlockID()
			bv := types.DummyBlockVersionner(c.Version)
			bi := types.NewBlockHeaderInfoFromPrevBlock(prev, time.Now().UnixNano(), bv)
			bs := sdb.NewBlockState(prev.GetHeader().GetBlocksRootHash(), state.SetPrevBlockHash(prev.BlockHash()))
			bs.Receipts().SetHardFork(bv, bi.No)
			var txs []types.Transaction
			for i := 0; i < c.NTx; i++ {
				tx := &types.Tx{Body: &types.TxBody{Nonce: uint64(i + 1), Account: bytes.Repeat([]byte{2}, types.AddressLength),
					Recipient: bytes.Repeat([]byte{3}, types.AddressLength), Amount: []byte{1}}}
				tx.Hash = tx.CalculateTxHash()
				txs = append(txs, types.NewTransaction(tx))
			}
			noop := TxOpFn(func(*state.BlockState, types.Transaction) error { return nil })
			g := NewBlockGenerator(nil, context.Background(), bi, bs, noop, false)
			g.fetchTXs = func(component.ICompSyncRequester, uint32) []types.Transaction { return txs }
			block, err := g.GenerateBlock()
			if err != nil {
				o["generate_err"] = err.Error()
				return
			}
			o["hash_field_set_by_generate"] = len(block.Hash) != 0 // somebody asked for the identifier before the header was finished
			unsigned := vpHashOfHeader(block.GetHeader())
			priv, _, _ := crypto.GenerateSecp256k1Key(rand.Reader)
			switch c.Factory { // what the block factories do after GenerateBlock
			case "dpos":
				block.SetConfirms(1)
				if err := block.Sign(priv); err != nil {
					panic(err)
				}
			case "raft":
				if err := block.Sign(priv); err != nil {
					panic(err)
				}
			}
			final := vpHashOfHeader(block.GetHeader())
			id := block.BlockHash()
			o["id"], o["hash_of_final_header"], o["hash_of_unfinished_header"] = hex.EncodeToString(id), hex.EncodeToString(final), hex.EncodeToString(unsigned)
			o["id_is_hash_of_final_header"] = bytes.Equal(id, final)
			raw, _ := proto.Encode(block)
			var recv types.Block
			if err := proto.Decode(raw, &recv); err != nil {
				panic(err)
			}
			o["received_id_is_hash_of_header"] = bytes.Equal(recv.BlockHash(), vpHashOfHeader(recv.GetHeader()))
			if c.Factory != "sbp" {
				ok, _ := block.VerifySign()
				o["signature_ok"] = ok
			}
		}()
		b, _ := json.Marshal(o)
		fmt.Fprintln(w, string(b))
	}
}

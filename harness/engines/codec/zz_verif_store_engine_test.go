//go:build verif

package chain

// C19 engine for package chain (overlay build): blocks, transactions, receipts and the
// hardfork configuration through the real ChainDB (badger DB, closed and re-opened between
// write and read = restart).  "What is stored equals what is read".
import (
	"bufio"
	"bytes"
	"encoding/hex"
	"encoding/json"
	"fmt"
	"os"
	"testing"

	"time"

	"github.com/aergoio/aergo/v2/config"
	"github.com/aergoio/aergo/v2/internal/enc/proto"
	"github.com/aergoio/aergo/v2/types"
	"github.com/willf/bloom"
)

type vsEvent struct {
	Addr, Name, Args string
	Idx              int32
}

type vsReceipt struct {
	Addr, Status, Ret, TxHash, Fee, CumFee, Bloom string
	Events                                        []vsEvent
	GasUsed                                       uint64
	FeeDeleg                                      bool
}

type vsTx struct {
	Nonce, GasLimit                                                  uint64
	Account, Recipient, Amount, Payload, GasPrice, ChainIdHash, Sign string
	Type                                                             int32
}

type vsCase struct {
	Kind string `json:"kind"`
	// block
	ChainID, Prev, Coinbase, Consensus, ForgedHash string
	BlockNo, Confirms                              uint64
	Timestamp                                      int64
	EmptyNotNil                                    bool // use empty non-nil slices for the absent byte fields
	Txs                                            []vsTx
	Rs                                             []vsReceipt
	BloomKeys                                      []string
	HasBloom                                       bool
	Cfg                                            []uint64 // hardfork heights V2..V5 used for writing
	CfgRead                                        []uint64 // ... used for reading after the restart (nil = same)
	Best                                           uint64
	DbJSON                                         string        // HF: raw JSON stored under the hardfork key ("" = WriteHardfork(Cfg))
	Events                                         []vsEventStep // RSQ: restarts interleaved with chain growth
}

type vsEventStep struct {
	Op  string   `json:"op"` // "start" | "grow"
	Cfg []uint64 `json:"cfg,omitempty"`
	K   uint64   `json:"k,omitempty"`
}

func vsHex(s string) []byte {
	if s == "" {
		return nil
	}
	b, err := hex.DecodeString(s)
	if err != nil {
		panic(err)
	}
	return b
}

func vsCfg(h []uint64) *config.HardforkConfig {
	c := &config.HardforkConfig{}
	if len(h) == 4 {
		c.V2, c.V3, c.V4, c.V5 = h[0], h[1], h[2], h[3]
	}
	return c
}

func vsReceiptOf(r *vsReceipt) *types.Receipt {
	rc := &types.Receipt{ContractAddress: vsHex(r.Addr), Status: r.Status, Ret: string(vsHex(r.Ret)), TxHash: vsHex(r.TxHash),
		FeeUsed: vsHex(r.Fee), CumulativeFeeUsed: vsHex(r.CumFee), Bloom: vsHex(r.Bloom), GasUsed: r.GasUsed, FeeDelegation: r.FeeDeleg}
	for _, e := range r.Events {
		rc.Events = append(rc.Events, &types.Event{ContractAddress: vsHex(e.Addr), EventName: string(vsHex(e.Name)), JsonArgs: string(vsHex(e.Args)), EventIdx: e.Idx})
	}
	return rc
}

func vsFromReceipt(rc *types.Receipt) *vsReceipt {
	r := &vsReceipt{Addr: hex.EncodeToString(rc.ContractAddress), Status: rc.Status, Ret: hex.EncodeToString([]byte(rc.Ret)),
		TxHash: hex.EncodeToString(rc.TxHash), Fee: hex.EncodeToString(rc.FeeUsed), CumFee: hex.EncodeToString(rc.CumulativeFeeUsed),
		Bloom: hex.EncodeToString(rc.Bloom), GasUsed: rc.GasUsed, FeeDeleg: rc.FeeDelegation, Events: []vsEvent{}}
	for _, e := range rc.Events {
		r.Events = append(r.Events, vsEvent{Addr: hex.EncodeToString(e.ContractAddress), Name: hex.EncodeToString([]byte(e.EventName)),
			Args: hex.EncodeToString([]byte(e.JsonArgs)), Idx: e.EventIdx})
	}
	return r
}

func vsOpen(dir string) *ChainDB {
	cdb := NewChainDB()
	if err := cdb.Init("badgerdb", dir, nil); err != nil {
		panic(err)
	}
	return cdb
}

func TestVerifStoreEngine(t *testing.T) {
	in, err := os.Open(os.Getenv("VERIF_IN"))
	if err != nil {
		t.Skip("no VERIF_IN")
	}
	defer in.Close()
	out, _ := os.Create(os.Getenv("VERIF_OUT"))
	defer out.Close()
	w := bufio.NewWriter(out)
	defer w.Flush()
	sc := bufio.NewScanner(in)
	sc.Buffer(make([]byte, 1<<20), 1<<27)
	for sc.Scan() {
		var c vsCase
		if err := json.Unmarshal(sc.Bytes(), &c); err != nil {
			t.Fatal(err)
		}
		o := map[string]interface{}{"kind": c.Kind}
		func() {
			defer func() {
				if r := recover(); r != nil {
					o["panic"] = fmt.Sprint(r)
				}
			}()
			dir, err := os.MkdirTemp("", "verif-c19-store-")
			if err != nil {
				panic(err)
			}
			defer os.RemoveAll(dir)
			switch c.Kind {
			case "B":
				vsBlock(&c, dir, o)
			case "HF":
				vsHardfork(&c, dir, o)
			case "RSQ":
				vsRestartSequence(&c, dir, o)
			}
		}()
		b, _ := json.Marshal(o)
		fmt.Fprintln(w, string(b))
	}
}

func vsBlock(c *vsCase, dir string, o map[string]interface{}) {
	e := func(s string) []byte {
		b := vsHex(s)
		if b == nil && c.EmptyNotNil {
			return []byte{}
		}
		return b
	}
	txs := make([]*types.Tx, len(c.Txs))
	for i := range c.Txs {
		x := &c.Txs[i]
		txs[i] = &types.Tx{Body: &types.TxBody{Nonce: x.Nonce, Account: e(x.Account), Recipient: e(x.Recipient), Amount: e(x.Amount),
			Payload: e(x.Payload), GasLimit: x.GasLimit, GasPrice: e(x.GasPrice), Type: types.TxType(x.Type), ChainIdHash: e(x.ChainIdHash), Sign: e(x.Sign)}}
		txs[i].Hash = txs[i].CalculateTxHash()
	}
	wcfg := vsCfg(c.Cfg)
	rs := &types.Receipts{}
	rs.SetHardFork(wcfg, c.BlockNo)
	var rl []*types.Receipt
	for i := range c.Rs {
		rl = append(rl, vsReceiptOf(&c.Rs[i]))
	}
	rs.Set(rl)
	if c.HasBloom {
		bf := bloom.New(types.BloomBitBits, types.BloomHashKNum)
		for _, k := range c.BloomKeys {
			bf.Add(vsHex(k))
		}
		rs.MergeBloom(bf)
	}
	bi := &types.BlockHeaderInfo{No: c.BlockNo, Ts: c.Timestamp, PrevBlockHash: e(c.Prev), ChainId: e(c.ChainID)}
	blk := types.NewBlock(bi, e("aa"), rs, txs, e(c.Coinbase), e(c.Consensus))
	blk.Header.Confirms = c.Confirms
	digest := blk.BlockHash() // honest identifier (Hash field was empty)
	o["digest"] = hex.EncodeToString(digest)
	if c.ForgedHash != "" {
		blk.Hash = vsHex(c.ForgedHash)
	}
	key := blk.BlockHash()
	wire, _ := proto.Encode(blk)
	o["root_written"] = hex.EncodeToString(rs.MerkleRoot())
	if enc, err := rs.MarshalBinary(); err == nil && len(enc) > 0 && enc[0] == 1 {
		o["bloom_written"] = hex.EncodeToString(enc[1:257])
	}

	cdb := vsOpen(dir)
	dbtx := cdb.store.NewTx()
	if err := cdb.addBlock(dbtx, blk); err != nil {
		panic(err)
	}
	if err := cdb.addTxsOfBlock(&dbtx, txs, key); err != nil {
		panic(err)
	}
	dbtx.Commit()
	cdb.writeReceiptsAndOperations(blk, rs, "")
	// hold-and-compare: the block handed to the DB is unchanged by storing it
	wire2, _ := proto.Encode(blk)
	o["block_unchanged_by_store"] = bytes.Equal(wire, wire2)
	cdb.Close()

	// ---- restart
	cdb = vsOpen(dir)
	defer cdb.Close()
	back, err := cdb.getBlock(key)
	if err != nil {
		o["get_err"] = err.Error()
		return
	}
	raw, _ := proto.Encode(back)
	o["same_bytes"] = bytes.Equal(raw, wire)
	o["same_hash_field"] = bytes.Equal(back.Hash, key)
	o["recomputed_is_digest"] = bytes.Equal((&types.Block{Header: back.Header}).BlockHash(), digest)
	o["blockhash_is_key"] = bytes.Equal(back.BlockHash(), key)
	if c.ForgedHash != "" {
		_, err := cdb.getBlock(digest)
		o["found_under_digest"] = err == nil
	}
	// transactions through the tx index
	txok, txidx := true, true
	for i, tx := range txs {
		got, idx, err := cdb.getTx(tx.Hash)
		if err != nil {
			txok = false
			o["gettx_err"] = err.Error()
			break
		}
		a, _ := proto.Encode(got)
		b, _ := proto.Encode(tx)
		if !bytes.Equal(a, b) || !bytes.Equal(got.CalculateTxHash(), tx.Hash) {
			txok = false
		}
		if idx.Idx != int32(i) || !bytes.Equal(idx.BlockHash, key) {
			txidx = false
		}
	}
	o["txs_same"], o["txidx_same"] = txok, txidx
	// receipts with the configuration of the restarted node
	rcfg := wcfg
	if c.CfgRead != nil {
		rcfg = vsCfg(c.CfgRead)
	}
	o["has_receipts"] = cdb.checkExistReceipts(key, c.BlockNo)
	o["v2_write"], o["v2_read"] = wcfg.IsV2Fork(c.BlockNo), rcfg.IsV2Fork(c.BlockNo)
	if len(rl) > 0 && wcfg.IsV2Fork(c.BlockNo) != rcfg.IsV2Fork(c.BlockNo) {
		// The restarted node would decode these receipts with the OTHER format version.  The decoders
		// allocate make([]*Event, evCount) from whatever bytes they find there (gigabytes), so the read is
		// not executed; the mismatch itself is the observation (CheckCompatibility exists to refuse it).
		o["receipts_skipped_version_mismatch"] = true
	} else if len(rl) > 0 {
		func() {
			defer func() {
				if r := recover(); r != nil {
					o["getreceipts_panic"] = fmt.Sprint(r)
				}
			}()
			got, err := cdb.getReceipts(key, c.BlockNo, rcfg)
			if err != nil {
				o["getreceipts_err"] = err.Error()
				return
			}
			l := []*vsReceipt{}
			for _, r := range got.Get() {
				l = append(l, vsFromReceipt(r))
			}
			o["receipts"] = l
			if enc, err := got.MarshalBinary(); err == nil && len(enc) > 0 && enc[0] == 1 {
				o["bloom_read"] = hex.EncodeToString(enc[1:257])
			}
			o["root_read"] = hex.EncodeToString(got.MerkleRoot())
			o["v2_write"], o["v2_read"] = wcfg.IsV2Fork(c.BlockNo), rcfg.IsV2Fork(c.BlockNo)
		}()
		// getReceipt for every index and for index == len (bounds test `idx > len`)
		for i := 0; i <= len(rl); i++ {
			func() {
				defer func() {
					if r := recover(); r != nil {
						o[fmt.Sprintf("getreceipt_%d_of_%d_panic", i, len(rl))] = fmt.Sprint(r)
					}
				}()
				r, err := cdb.getReceipt(key, c.BlockNo, int32(i), rcfg)
				if err != nil {
					o[fmt.Sprintf("getreceipt_%d_of_%d_err", i, len(rl))] = err.Error()
				} else if i < len(rl) && !bytes.Equal(r.TxHash, rl[i].TxHash) {
					o["getreceipt_wrong"] = i
				}
			}()
		}
	}
}

func vsHardfork(c *vsCase, dir string, o map[string]interface{}) {
	cfg := vsCfg(c.Cfg)
	cdb := vsOpen(dir)
	if c.DbJSON == "" {
		if err := cdb.WriteHardfork(cfg); err != nil {
			panic(err)
		}
	} else {
		cdb.store.Set([]byte("hardfork"), []byte(c.DbJSON))
	}
	cdb.Close()
	cdb = vsOpen(dir)
	defer cdb.Close()
	rcfg := cfg
	if c.CfgRead != nil {
		rcfg = vsCfg(c.CfgRead)
	}
	db := cdb.Hardfork(*rcfg)
	o["db"] = db
	o["db_nil"] = db == nil
	if db != nil {
		err := rcfg.CheckCompatibility(db, c.Best)
		o["compat"] = err == nil
		if err != nil {
			o["compat_err"] = err.Error()
		}
	}
	vers := []int32{}
	for _, h := range []uint64{0, c.Best / 2, c.Best} {
		vers = append(vers, rcfg.Version(h), cfg.Version(h))
	}
	o["versions_read_written"] = vers
	o["heights"] = []uint64{rcfg.Height("V2"), rcfg.Height("V3"), rcfg.Height("V4"), rcfg.Height("V5")}
}

// vsRestartSequence: the real boot-time hardfork check (ChainService.checkHardfork: ChainDB.Hardfork,
// CheckCompatibility against the best block, WriteHardfork) over a sequence of starts with different
// configurations, interleaved with chain growth by blocks produced under the running configuration
// (NewBlockHeaderInfoFromPrevBlock + connectToChain, as the block factories do).  After every step:
// accepted?, the stored heights, the best block, and for every produced height the version the block
// was produced with (from its header chain id) against the version the running node reports now.
func vsRestartSequence(c *vsCase, dir string, o map[string]interface{}) {
	oldGenesis := Genesis
	defer func() { Genesis = oldGenesis }()
	Genesis = types.GetTestGenesis() // private chain: neither mainnet nor testnet
	var cdb *ChainDB
	var cs *ChainService
	var hf *config.HardforkConfig
	running := false
	first := true
	steps := []map[string]interface{}{}
	for _, ev := range c.Events {
		st := map[string]interface{}{"op": ev.Op}
		switch ev.Op {
		case "start":
			if cdb != nil {
				cdb.Close()
			}
			cdb = NewChainDB()
			if err := cdb.Init("memorydb", dir, nil); err != nil {
				panic(err)
			}
			h := *vsCfg(ev.Cfg)
			hf = &h
			cs = &ChainService{Core: &Core{cdb: cdb}, cfg: &config.Config{Hardfork: hf}}
			err := cs.checkHardfork()
			running = err == nil
			st["accepted"] = running
			if err != nil {
				st["err"] = err.Error()
			}
			if running && first {
				if err := cdb.addGenesisBlock(Genesis); err != nil {
					panic(err)
				}
				first = false
			}
		case "grow":
			if running {
				to := cdb.getBestBlockNo() + ev.K
				for cdb.getBestBlockNo() < to {
					prev, err := cdb.GetBestBlock()
					if err != nil {
						panic(err)
					}
					bi := types.NewBlockHeaderInfoFromPrevBlock(prev, time.Now().UnixNano(), hf)
					blk := types.NewBlock(bi, nil, nil, nil, nil, nil)
					blk.BlockID()
					tx := cdb.store.NewTx()
					cdb.connectToChain(tx, blk, false)
					tx.Commit()
				}
			}
			st["accepted"] = true
		}
		st["best"] = cdb.getBestBlockNo()
		db := cdb.Hardfork(*hf)
		hs := []uint64{}
		if len(db) > 0 {
			for _, k := range []string{"V2", "V3", "V4", "V5"} {
				hs = append(hs, uint64(db[k]))
			}
		}
		st["stored"] = hs
		if running {
			made, now := []int32{}, []int32{}
			for h := types.BlockNo(1); h <= cdb.getBestBlockNo(); h++ {
				b, err := cdb.GetBlockByNo(h)
				if err != nil {
					panic(err)
				}
				made = append(made, types.DecodeChainIdVersion(b.GetHeader().GetChainID()))
				now = append(now, cs.ChainID(h).Version)
			}
			st["made"], st["now"] = made, now
		}
		steps = append(steps, st)
	}
	if cdb != nil {
		cdb.Close()
	}
	o["steps"] = steps
}

//go:build verif

package chain

// C02 engine "determ": deterministic block execution, producer path vs. validator path.
//
// DESIGN CHOICE (a'): the block is built by the REAL producer code of /repo/consensus/chain
// (BlockGenerator.GenerateBlock -> GatherTXs, tx.go:109-220, block.go:132-160), fed by a stub
// component.ICompSyncRequester that answers the MemPoolGet fetch with the case's transactions in
// order.  Package consensus/chain imports package chain, so this in-package file cannot import
// it; the call is made through the hook VerifDetermGenerate, which is installed by the companion
// EXTERNAL test file of the same directory (zz_verif_determ_gather_test.go, `package
// chain_test`, may import consensus/chain without a cycle).  Both files go into /repo/chain
// through the build overlay; no shim is added to non-test code.  With VERIF_GATHER=mirror the
// engine instead uses mirrorGather below (a line-by-line copy of the gather loop, choice (b));
// the check may run both and compare.  The output says which one was used ("gather").
//
// Node construction (identical for producer and validator nodes; nothing depends on wall-clock):
//   1. like `aergosvr init --genesis`: NewCore("memorydb", <tmpdir>) + Core.InitGenesisBlock(own
//      genesis: chain id {magic "verif.c02", consensus "dpos", PublicNet from the case (default
//      false)}, Timestamp = case.genesis_ts (default 1), Balance = case.bal for every derived
//      account, BPs = 3 derived peer ids) + Core.Close()  (memorydb persists to <tmpdir>)
//      -- types.GetTestGenesis() (EnableTestmode) is NOT used: its timestamp is time.Now().
//   2. the real NewChainService(cfg) on the same DataDir (dfltUseMempool=false, no actor hub);
//      it performs types.InitGovernance("dpos", public) and system.InitSystemParams(scs, 3)
//      itself (chainservice.go:310-318); the engine then calls system.InitVotingPowerRank on the
//      genesis state (dpos.go:213-219 InitVPR) and fee.DisableZeroFee()/EnableZeroFee is redone
//      by NewChainService.  cfg.Hardfork is set so that cfg.Hardfork.Version(n) == case.ver for
//      every n (ver 0 = no fork, 2..5): forks <= ver at height 0, others at MaxUint64.  The
//      producer uses cs.cfg.Hardfork as its BlockVersionner exactly like the DPoS block factory
//      (blockfactory.go:237-243, bf.bv == cfg.Hardfork).
//   3. consensus stub determConsensus = the repository's StubConsensus + Update() mirroring what
//      dpos.Status.Update does to the process-wide governance globals (status.go:72-121):
//      connected child -> system.CommitParams(true); otherwise (executeBlock failure path calls
//      cs.Update(bestBlock)) -> reload VPR from that block's state + CommitParams(false).
//      Case flag "plain_stub": true uses the bare StubConsensus instead.
//   Block reward: the default chain.SendBlockReward (coinbase only; the DPoS voting reward
//   decorator is unexported in consensus/impl/dpos and is NOT installed).  Blocks are unsigned
//   (StubConsensus.VerifySign accepts), Confirms = 0.
//
// INPUT  ($VERIF_IN, one JSON object per line; $VERIF_MODE = produce | validate)
//   produce : a case
//     {"id": "...", "ver": 0|2|3|4|5, "naccts": 5, "bal": "<decimal aer>", "public": false,
//      "genesis_ts": 1, "coinbase": <acct index, optional>, "plain_stub": false,
//      "ghost_before": k (validate mode only, k = block number, 1-based; 0/absent = none),
//      "blocks": [ {"ts": 1000, "txs": [TX, ...]}, ... ]}
//     TX = {"from": <acct idx>, "nonce": <uint>, "kind": "transfer"|"stake"|"unstake"|"votebp"|
//           "votedao"|"namecreate"|"nameupdate"|"raw"|"deploy"|"call"|"fdcall" (fee delegation; deploy/call/fdcall: "payload" is the
//           VM script, see determVM; call: "ctr":[deployer index, deploy nonce]),
//           "to": <acct idx> | "aergo.system" | "aergo.name" | "<any string, used as raw recipient
//                 bytes, e.g. a registered 12-char name>"   (transfer / raw),
//           "amt": "<decimal aer>" (default "0"),
//           "cands": ["<hex peer id bytes>" | "k<N>" (peer id derived from key sha256("verif-bp-N"))]
//                    (votebp; base58-encoded into Args),
//           "id": "BPCOUNT", "val": ["13"] (votedao -> Args [id, val...]),
//           "name": "abcdefghijkl", "dest": <acct idx> (nameupdate),
//           optional: "payload": "<string>" overrides the payload; "type": <int> overrides
//           TxBody.Type (raw: default TRANSFER); "from_name": "<name>" puts the name in
//           Body.Account (signed by acct "from"); "badchain": true -> wrong ChainIdHash;
//           "gaslimit": <uint>, "gasprice": "<decimal>"}
//     Account i has the secp256k1 private key sha256("verif-key-"+i) (as the scalar).
//   validate: {"case": <case>, "produced": <the produce-mode output line of that case>}
//
// OUTPUT ($VERIF_OUT, one JSON object per input line; every byte string is lower-case hex)
//   produce : {"id","mode":"produce","gather":"real"|"mirror","genesis_hash","genesis_root",
//              "accts":[hex address...],
//              "blocks":[{"no","block_hash","block_hex" (proto.Marshal of the block as built),
//                 "state_root","receipts_root","txs_root" (header fields),
//                 "included":[case tx indices],"skipped":[{"i","err"}],
//                 "exec_receipts_hex":[proto.Marshal of each receipt of the producer's BlockState],
//                 "exec_merkle_hex":[MarshalMerkleBinary (V2 when ver>=2) of those = merkle leaves' preimages],
//                 "add_err" (cs.addBlock(block, bs, "")), "connected" (block is the node's best),
//                 "node_root" (cs.sdb.GetRoot() afterwards),
//                 "receipts_hex":[proto.Marshal of each receipt read back by cs.getReceipts (API view)],
//                 "receipts_merkle_hex":[MarshalMerkleBinary(V2 when ver>=2) of the receipts decoded
//                    from the stored bytes by cdb.getReceipts],
//                 "receipts_root_db" (MerkleRoot of those decoded receipts),
//                 "receipts_db_hex" (raw chain-DB value under dbkey.Receipts),
//                 "produce_err" (GenerateBlock error or recovered panic; the case stops there),
//                 "gov": GOV}], "final": FINAL}
//   validate: {"id","mode":"validate","genesis_hash","genesis_root","ghost_before",
//              "blocks":[{"no","block_hash" (recomputed from the decoded block),
//                 "hdr_state_root","hdr_receipts_root","txs_root",
//                 "ghost": {"included":n,"skipped":[..],"state_root","receipts_root","err"} (only on
//                           the ghost block: outcome of the throw-away producer run),
//                 "add_err" (cs.addBlock(block, nil, peer)), "add_panic", "connected","node_root",
//                 "receipts_hex","receipts_merkle_hex","receipts_root_db","receipts_db_hex","gov": GOV,
//                 "repeat_equal": bool (second fresh node, same process, same feed: every field
//                 above identical), "repeat_diff": [field names] }], "final": FINAL,
//              "repeat_genesis_hash","repeat_genesis_root","repeat_final" (second node)}
//   GOV = {"staking_total","bal_system","bal_name","bal_vault",
//          "accts":[{"bal","nonce","staked","staked_when","vote_bp_amt","vote_bp_cands" (hex)}],
//          "votes_bp":[[hex cand, decimal amount]...] (system.GetVoteResult top 100, stored order),
//          "votes_dao":{"BPCOUNT":[[cand string, amount]...],...} (only non-empty ones),
//          "vpr_total_mem" (system.GetTotalVotingPower(), in-memory global),
//          "params_mem":{"bpcount","stakingmin","gasprice","nameprice"} (system.GetParam),
//          "params_state":{...} (system.Get*FromState), "names":{name:{"owner","dest"}}}
//   FINAL = {"vpr_total_mem", "vpr_total_state" (total after re-loading the rank from the final
//            connected state with system.InitVotingPowerRank; done once at the end of a node's run)}
//   Environment: VERIF_IN, VERIF_OUT, VERIF_MODE, optional VERIF_GATHER=mirror, optional VERIF_TMP
//   (parent of the per-node scratch directories, removed after each node; default os.TempDir()).
//   ARGLIB_LEVEL=error silences the node's logging (aergo-lib log reads it); it does not change
//   any output.
//   A panic outside the per-block guards yields {"id":..,"fatal":"..."} and the run continues.

import (
	"bufio"
	"bytes"
	"context"
	"crypto/sha256"
	"encoding/hex"
	"encoding/json"
	"fmt"
	"math"
	"math/big"
	"os"
	"reflect"
	"runtime/debug"
	"strconv"
	"strings"
	"testing"

	"github.com/aergoio/aergo/v2/account/key"
	keycrypto "github.com/aergoio/aergo/v2/account/key/crypto"
	"github.com/aergoio/aergo/v2/config"
	"github.com/aergoio/aergo/v2/consensus"
	"github.com/aergoio/aergo/v2/contract"
	"github.com/aergoio/aergo/v2/contract/name"
	"github.com/aergoio/aergo/v2/contract/system"
	"github.com/aergoio/aergo/v2/fee"
	"github.com/aergoio/aergo/v2/internal/common"
	"github.com/aergoio/aergo/v2/internal/enc/base58"
	"github.com/aergoio/aergo/v2/internal/enc/proto"
	"github.com/aergoio/aergo/v2/state"
	"github.com/aergoio/aergo/v2/state/statedb"
	"github.com/aergoio/aergo/v2/types"
	"github.com/aergoio/aergo/v2/types/dbkey"
	"github.com/btcsuite/btcd/btcec/v2"
	"github.com/libp2p/go-libp2p/core/crypto"
)

// VerifDetermGenerate is installed by zz_verif_determ_gather_test.go (package chain_test): it
// runs consensus/chain.NewBlockGenerator(hub, ctx, bi, bs, txOp, false).GenerateBlock() where hub
// answers MemPoolGet with txs and txOp = exec wrapped so that onTx sees every outcome.
var VerifDetermGenerate func(bi *types.BlockHeaderInfo, bs *state.BlockState, exec TxExecFn,
	txs []types.Transaction, onTx func(tx types.Transaction, err error), deadline *int) (*types.Block, error)

// ---------------------------------------------------------------- input

type determTx struct {
	From     int             `json:"from"`
	Nonce    uint64          `json:"nonce"`
	Kind     string          `json:"kind"`
	To       json.RawMessage `json:"to"`
	Amt      string          `json:"amt"`
	Cands    []string        `json:"cands"`
	ID       string          `json:"id"`
	Val      []string        `json:"val"`
	Name     string          `json:"name"`
	Dest     int             `json:"dest"`
	Ctr      []int           `json:"ctr"` // call: contract created by the DEPLOY of account Ctr[0] with nonce Ctr[1]
	Payload  *string         `json:"payload"`
	Type     *int32          `json:"type"`
	FromName string          `json:"from_name"`
	BadChain bool            `json:"badchain"`
	GasLimit uint64          `json:"gaslimit"`
	GasPrice string          `json:"gasprice"`
}

type determBlock struct {
	Ts  int64      `json:"ts"`
	Txs []determTx `json:"txs"`
	// block-generation deadline (the context GatherTXs consults in checkBGTimeout, tx.go:140-158):
	// nil = never; -1 = already expired when gathering starts; k >= 0 = expires WHILE candidate k
	// (position in the list of candidates handed to GatherTXs) is executing
	Deadline *int `json:"deadline"`
}

type determCase struct {
	ID          string `json:"id"`
	Ver         int32  `json:"ver"`
	NAccts      int    `json:"naccts"`
	Bal         string `json:"bal"`
	Public      bool   `json:"public"`
	GenesisTs   int64  `json:"genesis_ts"`
	Coinbase    *int   `json:"coinbase"`
	PlainStub   bool   `json:"plain_stub"`
	GhostBefore uint64 `json:"ghost_before"`
	// validate mode: before block k (1-based) is fed, the node first receives a REFUSED sibling of it
	// (same transactions; "root" = wrong state root in the header, "tx" = one more transaction that
	// fails) through the real addBlock; "root+restart" additionally re-initialises the process-wide
	// governance state from the best block's state afterwards (node restart)
	// hardfork heights (version -> first block number of that version); overrides "ver": the chain
	// crosses hardfork boundaries
	ForkHeights  map[string]uint64 `json:"fork_heights"`
	RefuseBefore uint64            `json:"refuse_before"`
	RefuseKind   string            `json:"refuse_kind"`
	Blocks       []determBlock     `json:"blocks"`
}

type determValidateIn struct {
	Case     determCase      `json:"case"`
	Produced json.RawMessage `json:"produced"`
}

// ---------------------------------------------------------------- output

type determSkip struct {
	I   int    `json:"i"`
	Err string `json:"err"`
	// set when the failed tx changed a BlockState component that Snapshot/Rollback do not
	// cover (BpReward, receipts, internalOps, CCProposal) or the in-memory total voting power
	Leak string `json:"leak,omitempty"`
}

// determUncovered renders the components of the block state that state.BlockState.Snapshot /
// Rollback do NOT save (state/block.go:62-75) and the process-wide voting power total.
func determUncovered(bs *state.BlockState) string {
	tvp := "nil"
	if p := system.GetTotalVotingPower(); p != nil {
		tvp = p.String()
	}
	return fmt.Sprintf("BpReward=%s receipts=%d internalOps=%q CCProposal=%v totalVotingPower=%s",
		bs.BpReward.String(), len(bs.Receipts().Get()), bs.InternalOps(), bs.CCProposal != nil, tvp)
}

type determAcctObs struct {
	Bal        string   `json:"bal"`
	Nonce      uint64   `json:"nonce"`
	Staked     string   `json:"staked"`
	StakedWhen uint64   `json:"staked_when"`
	VoteAmt    string   `json:"vote_bp_amt"`
	VoteCands  []string `json:"vote_bp_cands"`
}

type determNameObs struct {
	Owner string `json:"owner"`
	Dest  string `json:"dest"`
}

type determGov struct {
	Err          string                   `json:"err,omitempty"`
	StakingTotal string                   `json:"staking_total"`
	BalSystem    string                   `json:"bal_system"`
	BalName      string                   `json:"bal_name"`
	BalVault     string                   `json:"bal_vault"`
	Accts        []determAcctObs          `json:"accts"`
	VotesBP      [][2]string              `json:"votes_bp"`
	VotesDAO     map[string][][2]string   `json:"votes_dao"`
	VprTotalMem  string                   `json:"vpr_total_mem"`
	ParamsMem    map[string]string        `json:"params_mem"`
	ParamsState  map[string]string        `json:"params_state"`
	Names        map[string]determNameObs `json:"names"`
}

type determGhost struct {
	Included     int          `json:"included"`
	Skipped      []determSkip `json:"skipped"`
	StateRoot    string       `json:"state_root"`
	ReceiptsRoot string       `json:"receipts_root"`
	Err          string       `json:"err"`
}

type determBlockOut struct {
	No uint64 `json:"no"`
	// produce: blocks connected earlier whose header bytes / recomputed hash (as held by the node:
	// the object the block factory was handed, and the block re-read by number) differ from what
	// they were when the block was connected
	HeaderChanged []string `json:"header_changed,omitempty"`
	Version       int32    `json:"version"`
	// validate, refuse_before: error with which the refused sibling was rejected
	Refused string `json:"refused,omitempty"`
	// produce
	BlockHash       string       `json:"block_hash"`
	BlockHex        string       `json:"block_hex,omitempty"`
	StateRoot       string       `json:"state_root,omitempty"`
	ReceiptsRoot    string       `json:"receipts_root,omitempty"`
	TxsRoot         string       `json:"txs_root"`
	Included        []int        `json:"included,omitempty"`
	Skipped         []determSkip `json:"skipped,omitempty"`
	ExecReceiptsHex []string     `json:"exec_receipts_hex,omitempty"`
	ExecMerkleHex   []string     `json:"exec_merkle_hex,omitempty"`
	ProduceErr      string       `json:"produce_err,omitempty"`
	// validate
	HdrStateRoot    string       `json:"hdr_state_root,omitempty"`
	HdrReceiptsRoot string       `json:"hdr_receipts_root,omitempty"`
	Ghost           *determGhost `json:"ghost,omitempty"`
	AddPanic        string       `json:"add_panic,omitempty"`
	RepeatEqual     *bool        `json:"repeat_equal,omitempty"`
	RepeatDiff      []string     `json:"repeat_diff,omitempty"`
	// both
	AddErr            string     `json:"add_err"`
	Connected         bool       `json:"connected"`
	NodeRoot          string     `json:"node_root"`
	ReceiptsHex       []string   `json:"receipts_hex"`
	ReceiptsMerkleHex []string   `json:"receipts_merkle_hex"`
	ReceiptsRootDB    string     `json:"receipts_root_db"`
	ReceiptsDBHex     string     `json:"receipts_db_hex"`
	Gov               *determGov `json:"gov"`
}

type determFinal struct {
	VprTotalMem   string `json:"vpr_total_mem"`
	VprTotalState string `json:"vpr_total_state"`
}

type determOut struct {
	ID          string           `json:"id"`
	Mode        string           `json:"mode"`
	Gather      string           `json:"gather,omitempty"`
	GenesisHash string           `json:"genesis_hash"`
	GenesisRoot string           `json:"genesis_root"`
	Accts       []string         `json:"accts,omitempty"`
	GhostBefore uint64           `json:"ghost_before,omitempty"`
	Blocks      []determBlockOut `json:"blocks"`
	Final       *determFinal     `json:"final,omitempty"`
	// validate mode: the second fresh node's genesis and final observation
	RepeatGenesisHash string       `json:"repeat_genesis_hash,omitempty"`
	RepeatGenesisRoot string       `json:"repeat_genesis_root,omitempty"`
	RepeatFinal       *determFinal `json:"repeat_final,omitempty"`
	Fatal             string       `json:"fatal,omitempty"`
}

// ---------------------------------------------------------------- keys

type determAcct struct {
	k    *btcec.PrivateKey
	addr []byte
}

func determScalar(tag string, i int) []byte {
	h := sha256.Sum256([]byte(tag + strconv.Itoa(i)))
	return h[:]
}

func determAccount(i int) *determAcct {
	k, _ := btcec.PrivKeyFromBytes(determScalar("verif-key-", i))
	return &determAcct{k, keycrypto.GenerateAddress(k.PubKey().ToECDSA())}
}

// determPeerID: 39-byte secp256k1 peer id of the key sha256("verif-bp-"+i).
func determPeerID(i int) []byte {
	sk, err := crypto.UnmarshalSecp256k1PrivateKey(determScalar("verif-bp-", i))
	if err != nil {
		panic(err)
	}
	id, err := types.IDFromPublicKey(sk.GetPublic())
	if err != nil {
		panic(err)
	}
	return []byte(id)
}

func determCand(s string) ([]byte, error) {
	if strings.HasPrefix(s, "k") {
		n, err := strconv.Atoi(s[1:])
		if err != nil {
			return nil, err
		}
		return determPeerID(n), nil
	}
	return hex.DecodeString(s)
}

func determBig(s string) *big.Int {
	if s == "" {
		return new(big.Int)
	}
	v, ok := new(big.Int).SetString(s, 10)
	if !ok {
		panic("bad decimal: " + s)
	}
	return v
}

// ---------------------------------------------------------------- consensus stub

// determConsensus: StubConsensus plus the effect dpos.Status.Update has on the process-wide
// governance state (consensus/impl/dpos/status.go:72-121).
// VerifDetermNewStatus is installed by zz_verif_determ_gather_test.go (package chain_test, which may
// import consensus/impl/dpos): it builds the REAL dpos.Status (bp.NewCluster + dpos.NewStatus on the
// node's chain DB and state DB) and returns its Update method.
var VerifDetermNewStatus func(cs *ChainService) func(block *types.Block)

type determConsensus struct {
	StubConsensus
	cs     *ChainService
	bestID string
	real   func(block *types.Block) // the real dpos.Status.Update, when available
}

func (c *determConsensus) GetType() consensus.ConsensusType { return consensus.ConsensusDPOS }

func (c *determConsensus) Update(block *types.Block) {
	if c.real != nil {
		// consensus/impl/dpos/status.go Status.Update: LIB bookkeeping, BP snapshots, CommitParams,
		// and — in its rollback branch — the reload of the voting power rank
		c.real(block)
		c.bestID = block.ID()
		return
	}
	if c.bestID == block.PrevID() {
		// status.go:89
		system.CommitParams(true)
	} else {
		// status.go:110-121: reload the voting power rank from the block's state
		sdb := c.cs.sdb.OpenNewStateDB(block.GetHeader().GetBlocksRootHash())
		if scs, err := statedb.GetSystemAccountState(sdb); err == nil {
			_ = system.InitVotingPowerRank(scs)
		}
		system.CommitParams(false)
	}
	c.bestID = block.ID()
}

// ---------------------------------------------------------------- node

type determNode struct {
	cs      *ChainService
	dir     string
	accts   []*determAcct
	genesis *types.Block
	names   []string
}

var determBPs = []int{1000, 1001, 1002}

func determHardfork(ver int32) *config.HardforkConfig {
	h := func(v int32) types.BlockNo {
		if ver >= v {
			return 0
		}
		return math.MaxUint64
	}
	return &config.HardforkConfig{V2: h(2), V3: h(3), V4: h(4), V5: h(5)}
}

func newDetermNode(c *determCase) *determNode {
	n := &determNode{}
	for i := 0; i < c.NAccts; i++ {
		n.accts = append(n.accts, determAccount(i))
	}
	base := os.Getenv("VERIF_TMP")
	dir, err := os.MkdirTemp(base, "determ-node-")
	if err != nil {
		panic(err)
	}
	n.dir = dir

	serverCtx := config.NewServerContext("", "")
	cfg := serverCtx.GetDefaultConfig().(*config.Config)
	cfg.DbType = "memorydb"
	cfg.DataDir = dir
	cfg.EnableTestmode = false
	cfg.UseTestnet = false
	cfg.Hardfork = determHardfork(c.Ver)
	if len(c.ForkHeights) > 0 {
		fh := func(v string) types.BlockNo {
			if h, ok := c.ForkHeights[v]; ok {
				return h
			}
			return math.MaxUint64
		}
		cfg.Hardfork = &config.HardforkConfig{V2: fh("2"), V3: fh("3"), V4: fh("4"), V5: fh("5")}
	}
	if c.Coinbase != nil {
		cfg.Consensus.EnableBp = true
		cfg.Blockchain.CoinbaseAccount = types.EncodeAddress(n.accts[*c.Coinbase].addr)
	}
	testCfg = cfg

	// step 1: genesis, as `aergosvr init` does (cmd/aergosvr/init.go: NewCore + InitGenesisBlock)
	gts := c.GenesisTs
	if gts == 0 {
		gts = 1
	}
	g := &types.Genesis{
		ID:        types.ChainID{Version: 0, Magic: "verif.c02", PublicNet: c.Public, MainNet: false, Consensus: "dpos"},
		Timestamp: gts,
		Balance:   map[string]string{},
	}
	for _, a := range n.accts {
		g.Balance[types.EncodeAddress(a.addr)] = determBig(c.Bal).String()
	}
	for _, b := range determBPs {
		g.BPs = append(g.BPs, base58.Encode(determPeerID(b)))
	}
	core, err := NewCore(cfg.DbType, cfg.DataDir, false, 0, cfg.DB)
	if err != nil {
		panic(err)
	}
	if err := core.InitGenesisBlock(g, false); err != nil {
		panic(err)
	}
	core.Close()

	// step 2: the node
	CoinbaseAccount = nil
	fee.DisableZeroFee()
	dfltUseMempool = false
	cs := NewChainService(cfg)
	if c.PlainStub {
		cs.SetChainConsensus(&StubConsensus{})
	} else {
		gb, _ := cs.getBlockByNo(0)
		dc := &determConsensus{cs: cs, bestID: gb.ID()}
		if VerifDetermNewStatus != nil && os.Getenv("VERIF_STATUS") != "mirror" {
			dc.real = VerifDetermNewStatus(cs)
		}
		cs.SetChainConsensus(dc)
	}
	n.cs = cs
	n.genesis, _ = cs.getBlockByNo(0)
	n.genesis.BlockHash()

	// step 3: process-wide governance state, as consensus/impl/dpos.New does (dpos.go:125-141)
	types.InitGovernance("dpos", c.Public)
	scs, err := statedb.GetSystemAccountState(cs.sdb.GetStateDB())
	if err != nil {
		panic(err)
	}
	system.InitSystemParams(scs, len(determBPs))
	if err := system.InitVotingPowerRank(scs); err != nil {
		panic(err)
	}
	contract.StubVM = determVM

	seen := map[string]bool{}
	for _, b := range c.Blocks {
		for _, t := range b.Txs {
			if t.Name != "" && !seen[t.Name] {
				seen[t.Name] = true
				n.names = append(n.names, t.Name)
			}
		}
	}
	return n
}

func (n *determNode) close() {
	defer os.RemoveAll(n.dir)
	defer func() { recover() }()
	n.cs.chainManager.Stop()
	n.cs.chainWorker.Stop()
	n.cs.validator.Stop()
	// Core.Close would persist the memory DB into n.dir; skipped, the directory is removed.
}

// ---------------------------------------------------------------- transactions

func (n *determNode) chainIDHash(ts int64) []byte {
	// the chain id (with the fork version of the NEXT block) as the mempool derives it for admission:
	// from the header of the current best block (mempool.setStateDB)
	prev := n.genesis
	if best, err := n.cs.GetBestBlock(); err == nil {
		prev = best
	}
	bi := types.NewBlockHeaderInfoFromPrevBlock(prev, ts, n.cs.cfg.Hardfork)
	return bi.ChainIdHash()
}

func (n *determNode) buildTx(t *determTx, cidHash []byte) (*types.Tx, error) {
	if t.From < 0 || t.From >= len(n.accts) {
		return nil, fmt.Errorf("bad from %d", t.From)
	}
	from := n.accts[t.From]
	body := &types.TxBody{
		Nonce:       t.Nonce,
		Account:     from.addr,
		Amount:      determBig(t.Amt).Bytes(),
		ChainIdHash: cidHash,
		GasLimit:    t.GasLimit,
	}
	if t.GasPrice != "" {
		body.GasPrice = determBig(t.GasPrice).Bytes()
	}
	if t.FromName != "" {
		body.Account = []byte(t.FromName)
	}
	if t.BadChain {
		body.ChainIdHash = common.Hasher([]byte("verif-wrong-chain"))
	}
	recipient := func() ([]byte, error) {
		if len(t.Ctr) == 2 && t.Ctr[0] >= 0 && t.Ctr[0] < len(n.accts) { // a transfer to a contract
			return contract.CreateContractID(n.accts[t.Ctr[0]].addr, uint64(t.Ctr[1])), nil
		}
		if len(t.To) == 0 {
			return nil, nil
		}
		var idx int
		if err := json.Unmarshal(t.To, &idx); err == nil {
			if idx < 0 || idx >= len(n.accts) {
				return nil, fmt.Errorf("bad to %d", idx)
			}
			return n.accts[idx].addr, nil
		}
		var s string
		if err := json.Unmarshal(t.To, &s); err != nil {
			return nil, err
		}
		return []byte(s), nil
	}
	gov := func(to string, payload string) {
		body.Type = types.TxType_GOVERNANCE
		body.Recipient = []byte(to)
		body.Payload = []byte(payload)
	}
	switch t.Kind {
	case "transfer", "raw":
		r, err := recipient()
		if err != nil {
			return nil, err
		}
		body.Type = types.TxType_TRANSFER
		body.Recipient = r
	case "deploy":
		body.Type = types.TxType_DEPLOY
		body.Recipient = nil
	case "call":
		if len(t.Ctr) != 2 || t.Ctr[0] < 0 || t.Ctr[0] >= len(n.accts) {
			return nil, fmt.Errorf("bad ctr %v", t.Ctr)
		}
		body.Type = types.TxType_CALL
		body.Recipient = contract.CreateContractID(n.accts[t.Ctr[0]].addr, uint64(t.Ctr[1]))
	case "fdcall": // fee delegation: the CONTRACT pays the fee; may carry an amount
		if len(t.Ctr) != 2 || t.Ctr[0] < 0 || t.Ctr[0] >= len(n.accts) {
			return nil, fmt.Errorf("bad ctr %v", t.Ctr)
		}
		body.Type = types.TxType_FEEDELEGATION
		body.Recipient = contract.CreateContractID(n.accts[t.Ctr[0]].addr, uint64(t.Ctr[1]))
	case "stake":
		gov(types.AergoSystem, `{"Name":"v1stake"}`)
	case "unstake":
		gov(types.AergoSystem, `{"Name":"v1unstake"}`)
	case "votebp":
		args := []string{}
		for _, c := range t.Cands {
			b, err := determCand(c)
			if err != nil {
				return nil, err
			}
			args = append(args, base58.Encode(b))
		}
		j, _ := json.Marshal(args)
		gov(types.AergoSystem, `{"Name":"v1voteBP","Args":`+string(j)+`}`)
	case "votedao":
		args := append([]string{t.ID}, t.Val...)
		j, _ := json.Marshal(args)
		gov(types.AergoSystem, `{"Name":"v1voteDAO","Args":`+string(j)+`}`)
	case "namecreate":
		j, _ := json.Marshal([]string{t.Name})
		gov(types.AergoName, `{"Name":"v1createName","Args":`+string(j)+`}`)
	case "nameupdate":
		if t.Dest < 0 || t.Dest >= len(n.accts) {
			return nil, fmt.Errorf("bad dest %d", t.Dest)
		}
		j, _ := json.Marshal([]string{t.Name, types.EncodeAddress(n.accts[t.Dest].addr)})
		gov(types.AergoName, `{"Name":"v1updateName","Args":`+string(j)+`}`)
	default:
		return nil, fmt.Errorf("unknown kind %q", t.Kind)
	}
	if t.Payload != nil {
		body.Payload = []byte(*t.Payload)
	}
	if t.Type != nil {
		body.Type = types.TxType(*t.Type)
	}
	tx := &types.Tx{Body: body}
	if err := key.SignTx(tx, from.k); err != nil {
		return nil, err
	}
	return tx, nil
}

// determVM is the scripted contract VM (contract.StubVM of the overlay stub): the payload of a
// DEPLOY / CALL transaction is "<verdict>|<fee>|<key>=<value>|<event>" (trailing fields optional):
//
//	ok       success: stores the code (create) / writes key=value into the contract storage, emits the event
//	rt       runtime error after consuming <fee>   (vmError: receipt ERROR, fee + nonce charged, tx included)
//	vmstart  VM system error contract.ErrVmStart after consuming <fee>   (non-runtime: producer drops the tx)
//	timeout  *contract.VmTimeoutError after consuming <fee>             (non-runtime: producer ends the block)
//
// It is a pure function of (kind, payload): producer and validator script the same behaviour.
func determVM(kind string, cs *statedb.ContractState, payload, id []byte) (string, []*types.Event, string, *big.Int, error) {
	f := strings.Split(string(payload), "|")
	get := func(i int) string {
		if i < len(f) {
			return f[i]
		}
		return ""
	}
	vmFee := new(big.Int)
	if v, ok := new(big.Int).SetString(get(1), 10); ok {
		vmFee = v
	}
	switch get(0) {
	case "rt":
		return "", nil, "", vmFee, fmt.Errorf("verif: scripted runtime error")
	case "vmstart":
		return "", nil, "", vmFee, contract.ErrVmStart
	case "timeout":
		return "", nil, "", vmFee, &contract.VmTimeoutError{}
	}
	if kind == "create" {
		if err := cs.SetCode(nil, payload); err != nil {
			return "", nil, "", vmFee, err
		}
	}
	if kv := strings.SplitN(get(2), "=", 2); len(kv) == 2 {
		if err := cs.SetData([]byte(kv[0]), []byte(kv[1])); err != nil {
			return "", nil, "", vmFee, err
		}
	}
	var events []*types.Event
	if ev := get(3); ev != "" {
		events = append(events, &types.Event{ContractAddress: id, EventIdx: 0, EventName: ev, JsonArgs: "[" + strconv.Quote(get(2)) + "]"})
	}
	return strconv.Quote(get(0) + ":" + get(2)), events, "", vmFee, nil
}

// determHeaderPrint: the header bytes of a block and the hash recomputed from them (not the cached id)
func determHeaderPrint(b *types.Block) string {
	raw, _ := proto.Encode(b.GetHeader())
	c := proto.Clone(b).(*types.Block)
	c.Hash = nil
	return fmt.Sprintf("version=%d header=%x hash=%x", types.DecodeChainIdVersion(b.GetHeader().GetChainID()), sha256.Sum256(raw), c.BlockHash())
}

// ---------------------------------------------------------------- producer path

type determProduced struct {
	block    *types.Block
	bs       *state.BlockState
	included []int
	skipped  []determSkip
	err      string
}

// mirrorGather is choice (b): a copy of consensus/chain GatherTXs (tx.go:159-219) +
// GenerateBlock (block.go:135-150) without the size-limit branch (small blocks); the block
// deadline is honoured where checkBGTimeout is composed: before the transaction.
func mirrorGather(bi *types.BlockHeaderInfo, bs *state.BlockState, exec TxExecFn,
	txIn []types.Transaction, onTx func(tx types.Transaction, err error), deadline *int) (*types.Block, error) {
	InAddBlock <- struct{}{}        // tx.go:121 LockNonblock
	defer func() { <-InAddBlock }() // tx.go:124
	defer contract.CloseDatabase()  // tx.go:136
	txRes := make([]types.Transaction, 0, len(txIn))
	expired := deadline != nil && *deadline < 0
	for k, tx := range txIn { // tx.go:162
		if expired { // tx.go:160,164: checkBGTimeout runs BEFORE the tx; ErrTimeout ends the loop (tx.go:167-170)
			break
		}
		if deadline != nil && *deadline == k {
			expired = true
		}
		err := exec(bs, tx) // tx.go:164 (op = checkBGTimeout + txOp)
		onTx(tx, err)
		if err != nil { // tx.go:191-197 "skip error tx"
			continue
		}
		txRes = append(txRes, tx) // tx.go:199
	}
	if err := SendBlockReward(bs, CoinbaseAccount); err != nil { // tx.go:207
		return nil, err
	}
	if err := contract.SaveRecoveryPoint(bs); err != nil { // tx.go:211
		return nil, err
	}
	if err := bs.Update(); err != nil { // tx.go:215
		return nil, err
	}
	txs := make([]*types.Tx, len(txRes)) // block.go:145-148
	for i, x := range txRes {
		txs[i] = x.GetTx()
	}
	return types.NewBlock(bi, bs.GetRoot(), bs.Receipts(), txs, CoinbaseAccount, bs.Consensus()), nil // block.go:150
}

func determGatherName() string {
	if os.Getenv("VERIF_GATHER") == "mirror" || VerifDetermGenerate == nil {
		return "mirror"
	}
	return "real"
}

// produceOn builds a block on top of prev from the candidate txs exactly like
// consensus/impl/dpos BlockFactory.generateBlock (blockfactory.go:237-252).  Nothing is
// connected; the caller decides.
func (n *determNode) produceOn(prev *types.Block, ts int64, cand []*types.Tx, deadline *int) (res *determProduced) {
	res = &determProduced{included: []int{}, skipped: []determSkip{}}
	defer func() {
		// blockfactory.go:228-235: generateBlock recovers panics
		if r := recover(); r != nil {
			res.block = nil
			res.err = fmt.Sprintf("panic ocurred during block generation - %v", r)
		}
	}()
	cs := n.cs
	prev.BlockHash()
	bi := types.NewBlockHeaderInfoFromPrevBlock(prev, ts, cs.cfg.Hardfork)                                     // :237
	bs := cs.sdb.NewBlockState(prev.GetHeader().GetBlocksRootHash(), state.SetPrevBlockHash(prev.BlockHash())) // :238
	bs.SetGasPrice(system.GetGasPrice())                                                                       // :242
	bs.Receipts().SetHardFork(cs.cfg.Hardfork, bi.No)                                                          // :243
	exec0 := NewTxExecutor(context.Background(), nil, cs.cdb, bi, contract.BlockFactory)                       // :42
	leak := ""
	// every account a candidate names (sender, recipient) + the special accounts: the visible state
	watch := [][]byte{[]byte(types.AergoSystem), []byte(types.AergoName)}
	for _, a := range n.accts {
		watch = append(watch, a.addr)
	}
	for _, tx := range cand {
		if r := tx.GetBody().GetRecipient(); len(r) == types.AddressLength {
			watch = append(watch, r)
		}
	}
	visible := func(b *state.BlockState) string {
		var sb strings.Builder
		for _, a := range watch {
			st, err := b.GetAccountState(types.ToAccountID(a))
			if err != nil || st == nil {
				fmt.Fprintf(&sb, "%x:?;", a[:4])
				continue
			}
			fmt.Fprintf(&sb, "%x:n=%d,b=%s,code=%x,root=%x", a[:4], st.GetNonce(), new(big.Int).SetBytes(st.GetBalance()).String(),
				st.GetCodeHash(), st.GetStorageRoot())
			if len(st.GetCodeHash()) > 0 { // a contract: the storage slots the scripted VM writes, read through the cache
				if ctr, err := statedb.OpenContractState(a, st, b.StateDB); err == nil {
					for _, k := range []string{"a", "init", "k", "k0", "k1", "k2", "k3"} {
						v, _ := ctr.GetData([]byte(k))
						fmt.Fprintf(&sb, ",%s=%q", k, v)
					}
				}
			}
			sb.WriteString(";")
		}
		return sb.String()
	}
	exec := func(b *state.BlockState, tx types.Transaction) error {
		before, vbefore := determUncovered(b), visible(b)
		err := exec0(b, tx)
		leak = ""
		if err != nil {
			if after := determUncovered(b); after != before {
				leak = before + " -> " + after
			}
			// the part Snapshot/Rollback DO cover must be back where it was: accounts (nonce, balance,
			// code hash, storage root) as read through the block state's buffer
			if vafter := visible(b); vafter != vbefore {
				leak += " | visible state: " + vbefore + " -> " + vafter
			}
		}
		return err
	}
	txIn := make([]types.Transaction, len(cand))
	for i, tx := range cand {
		txIn[i] = types.NewTransaction(tx)
	}
	i := 0
	onTx := func(tx types.Transaction, err error) {
		if err != nil {
			res.skipped = append(res.skipped, determSkip{I: i, Err: err.Error(), Leak: leak})
		} else {
			res.included = append(res.included, i)
		}
		i++
	}
	gen := mirrorGather
	if determGatherName() == "real" {
		gen = VerifDetermGenerate
	}
	blk, err := gen(bi, bs, exec, txIn, onTx, deadline)
	if err != nil {
		res.err = err.Error()
		return
	}
	res.block, res.bs = blk, bs
	return
}

// ---------------------------------------------------------------- observations

func hx(b []byte) string { return hex.EncodeToString(b) }

func (n *determNode) observeGov() (g *determGov) {
	g = &determGov{VotesDAO: map[string][][2]string{}, ParamsMem: map[string]string{}, ParamsState: map[string]string{},
		Names: map[string]determNameObs{}, VotesBP: [][2]string{}, Accts: []determAcctObs{}}
	defer func() {
		if r := recover(); r != nil {
			g.Err = fmt.Sprint("panic: ", r)
		}
	}()
	cs := n.cs
	sdb := cs.sdb.OpenNewStateDB(cs.sdb.GetRoot())
	scs, err := statedb.GetSystemAccountState(sdb)
	if err != nil {
		g.Err = err.Error()
		return
	}
	bal := func(a []byte) string {
		st, err := state.GetAccountState(a, sdb)
		if err != nil {
			return "err:" + err.Error()
		}
		return st.Balance().String()
	}
	if t, err := system.GetStakingTotal(scs); err == nil {
		g.StakingTotal = t.String()
	} else {
		g.StakingTotal = "err:" + err.Error()
	}
	g.BalSystem = bal([]byte(types.AergoSystem))
	g.BalName = bal([]byte(types.AergoName))
	g.BalVault = bal([]byte(types.AergoVault))
	for _, a := range n.accts {
		o := determAcctObs{VoteCands: []string{}}
		st, err := state.GetAccountState(a.addr, sdb)
		if err == nil {
			o.Bal = st.Balance().String()
			o.Nonce = st.Nonce()
		}
		if s, err := system.GetStaking(scs, a.addr); err == nil && s != nil {
			o.Staked = s.GetAmountBigInt().String()
			o.StakedWhen = s.GetWhen()
		}
		if v, err := system.GetVote(scs, a.addr, []byte(types.OpvoteBP.ID())); err == nil && v != nil {
			o.VoteAmt = new(big.Int).SetBytes(v.Amount).String()
			c := v.Candidate
			for len(c) >= system.PeerIDLength {
				o.VoteCands = append(o.VoteCands, hx(c[:system.PeerIDLength]))
				c = c[system.PeerIDLength:]
			}
			if len(c) > 0 {
				o.VoteCands = append(o.VoteCands, "rest:"+hx(c))
			}
		}
		g.Accts = append(g.Accts, o)
	}
	if vl, err := system.GetVoteResult(scs, []byte(types.OpvoteBP.ID()), 100); err == nil {
		for _, v := range vl.Votes {
			g.VotesBP = append(g.VotesBP, [2]string{hx(v.Candidate), new(big.Int).SetBytes(v.Amount).String()})
		}
	}
	for _, id := range []string{"BPCOUNT", "STAKINGMIN", "GASPRICE", "NAMEPRICE"} {
		if vl, err := system.GetVoteResult(scs, []byte(id), 100); err == nil && len(vl.Votes) > 0 {
			l := [][2]string{}
			for _, v := range vl.Votes {
				l = append(l, [2]string{string(v.Candidate), new(big.Int).SetBytes(v.Amount).String()})
			}
			g.VotesDAO[id] = l
		}
	}
	if p := system.GetTotalVotingPower(); p != nil {
		g.VprTotalMem = p.String()
	} else {
		g.VprTotalMem = "nil"
	}
	g.ParamsMem["bpcount"] = strconv.Itoa(system.GetBpCount())
	g.ParamsMem["stakingmin"] = system.GetStakingMinimum().String()
	g.ParamsMem["gasprice"] = system.GetGasPrice().String()
	g.ParamsMem["nameprice"] = system.GetNamePrice().String()
	g.ParamsState["stakingmin"] = system.GetStakingMinimumFromState(scs).String()
	g.ParamsState["gasprice"] = system.GetGasPriceFromState(scs).String()
	g.ParamsState["nameprice"] = system.GetNamePriceFromState(scs).String()
	if ncs, err := statedb.GetNameAccountState(sdb); err == nil {
		for _, nm := range n.names {
			g.Names[nm] = determNameObs{hx(name.GetOwner(ncs, []byte(nm))), hx(name.GetAddress(ncs, []byte(nm)))}
		}
	}
	return
}

// observeNode fills the fields common to both modes after addBlock.
func (n *determNode) observeNode(o *determBlockOut, blk *types.Block) {
	cs := n.cs
	if best, err := cs.GetBestBlock(); err == nil {
		o.Connected = bytes.Equal(best.BlockHash(), blk.BlockHash())
	}
	o.NodeRoot = hx(cs.sdb.GetRoot())
	o.ReceiptsHex, o.ReceiptsMerkleHex = []string{}, []string{}
	if o.Connected {
		o.ReceiptsDBHex = hx(cs.cdb.store.Get(dbkey.Receipts(blk.BlockHash(), blk.BlockNo())))
		// raw decode of the stored bytes (chaindb.go:659-671): root and merkle encodings
		if rs, err := cs.cdb.getReceipts(blk.BlockHash(), blk.BlockNo(), cs.cfg.Hardfork); err == nil {
			o.ReceiptsRootDB = hx(rs.MerkleRoot())
			for _, r := range rs.Get() {
				var m []byte
				if cs.cfg.Hardfork.IsV2Fork(blk.BlockNo()) {
					m, _ = r.MarshalMerkleBinaryV2()
				} else {
					m, _ = r.MarshalMerkleBinary()
				}
				o.ReceiptsMerkleHex = append(o.ReceiptsMerkleHex, hx(m))
			}
		} else if len(blk.GetBody().GetTxs()) > 0 {
			o.ReceiptsRootDB = "err:" + err.Error()
		} else {
			// nothing is stored for a block without receipts (chaindb.go:713-718)
			empty := &types.Receipts{}
			empty.SetHardFork(cs.cfg.Hardfork, blk.BlockNo())
			o.ReceiptsRootDB = hx(empty.MerkleRoot())
		}
		// the node's API view (chainhandle.go:140-171, adds block/tx info to receipts and events)
		if rs, err := cs.getReceipts(blk.BlockHash()); err == nil {
			for _, r := range rs.Get() {
				b, _ := proto.Encode(r)
				o.ReceiptsHex = append(o.ReceiptsHex, hx(b))
			}
		}
	}
	o.Gov = n.observeGov()
}

func (n *determNode) final() *determFinal {
	f := &determFinal{}
	defer func() { recover() }()
	if p := system.GetTotalVotingPower(); p != nil {
		f.VprTotalMem = p.String()
	}
	sdb := n.cs.sdb.OpenNewStateDB(n.cs.sdb.GetRoot())
	if scs, err := statedb.GetSystemAccountState(sdb); err == nil {
		if err := system.InitVotingPowerRank(scs); err == nil {
			if p := system.GetTotalVotingPower(); p != nil {
				f.VprTotalState = p.String()
			}
		}
	}
	return f
}

// ---------------------------------------------------------------- produce mode

func determProduce(c *determCase) *determOut {
	out := &determOut{ID: c.ID, Mode: "produce", Gather: determGatherName(), Blocks: []determBlockOut{}}
	n := newDetermNode(c)
	defer n.close()
	out.GenesisHash = hx(n.genesis.BlockHash())
	out.GenesisRoot = hx(n.genesis.GetHeader().GetBlocksRootHash())
	for _, a := range n.accts {
		out.Accts = append(out.Accts, hx(a.addr))
	}
	hdrObjs, hdrAt := []*types.Block{}, map[uint64]string{}
	for bi, b := range c.Blocks {
		o := determBlockOut{No: uint64(bi + 1)}
		if best, err := n.cs.GetBestBlock(); err == nil {
			if _, seen := hdrAt[best.BlockNo()]; !seen { // recorded before anything derives the next chain id from it
				hdrObjs = append(hdrObjs, best)
				hdrAt[best.BlockNo()] = determHeaderPrint(best)
			}
		}
		cid := n.chainIDHash(b.Ts)
		cand := []*types.Tx{}
		idx := []int{}
		bad := []determSkip{}
		for i := range b.Txs {
			tx, err := n.buildTx(&b.Txs[i], cid)
			if err != nil {
				bad = append(bad, determSkip{I: i, Err: "verif-build: " + err.Error()})
				continue
			}
			cand = append(cand, tx)
			idx = append(idx, i)
		}
		prev, err := n.cs.GetBestBlock()
		if err != nil {
			o.ProduceErr = err.Error()
			out.Blocks = append(out.Blocks, o)
			break
		}
		if _, seen := hdrAt[prev.BlockNo()]; !seen {
			hdrObjs = append(hdrObjs, prev)
			hdrAt[prev.BlockNo()] = determHeaderPrint(prev)
		}
		p := n.produceOn(prev, b.Ts, cand, b.Deadline)
		// a connected block never changes: neither the object the factory was handed nor the stored one
		for _, ob := range hdrObjs {
			if now := determHeaderPrint(ob); now != hdrAt[ob.BlockNo()] {
				o.HeaderChanged = append(o.HeaderChanged, fmt.Sprintf("block %d (in-memory best block object): %s -> %s", ob.BlockNo(), hdrAt[ob.BlockNo()], now))
			}
			if re, err := n.cs.getBlockByNo(ob.BlockNo()); err == nil {
				if now := determHeaderPrint(re); now != hdrAt[ob.BlockNo()] {
					o.HeaderChanged = append(o.HeaderChanged, fmt.Sprintf("block %d (re-read by number): %s -> %s", ob.BlockNo(), hdrAt[ob.BlockNo()], now))
				}
			}
		}
		if p.block != nil {
			o.Version = types.DecodeChainIdVersion(p.block.GetHeader().GetChainID())
		}
		o.Included = []int{}
		o.Skipped = bad
		for _, i := range p.included {
			o.Included = append(o.Included, idx[i])
		}
		for _, s := range p.skipped {
			o.Skipped = append(o.Skipped, determSkip{I: idx[s.I], Err: s.Err, Leak: s.Leak})
		}
		if p.block == nil {
			o.ProduceErr = p.err
			out.Blocks = append(out.Blocks, o)
			break
		}
		blk := p.block
		// BlockHash() fills the lazy Hash field first: the block is serialised the way the chain
		// DB stores it and p2p sends it (Hash included).
		o.BlockHash = hx(blk.BlockHash())
		raw, err := proto.Encode(blk)
		if err != nil {
			o.ProduceErr = "marshal: " + err.Error()
			out.Blocks = append(out.Blocks, o)
			break
		}
		o.BlockHex = hx(raw)
		h := blk.GetHeader()
		o.StateRoot, o.ReceiptsRoot, o.TxsRoot = hx(h.GetBlocksRootHash()), hx(h.GetReceiptsRootHash()), hx(h.GetTxsRootHash())
		o.ExecReceiptsHex = []string{}
		o.ExecMerkleHex = []string{}
		for _, r := range p.bs.Receipts().Get() {
			b, _ := proto.Encode(r)
			o.ExecReceiptsHex = append(o.ExecReceiptsHex, hx(b))
			var m []byte
			if n.cs.cfg.Hardfork.IsV2Fork(blk.BlockNo()) {
				m, _ = r.MarshalMerkleBinaryV2()
			} else {
				m, _ = r.MarshalMerkleBinary()
			}
			o.ExecMerkleHex = append(o.ExecMerkleHex, hx(m))
		}
		// consensus/chain ConnectBlock (block.go:184-210) -> ChainManager (chainservice.go:667-685)
		func() {
			defer func() {
				if r := recover(); r != nil {
					o.AddPanic = fmt.Sprint(r)
				}
			}()
			if err := n.cs.addBlock(blk, p.bs, ""); err != nil {
				o.AddErr = err.Error()
			}
		}()
		n.observeNode(&o, blk)
		out.Blocks = append(out.Blocks, o)
		if !o.Connected {
			break
		}
	}
	out.Final = n.final()
	return out
}

// ---------------------------------------------------------------- validate mode

type determProducedLine struct {
	Blocks []struct {
		No       uint64 `json:"no"`
		BlockHex string `json:"block_hex"`
	} `json:"blocks"`
}

func determValidateOnce(c *determCase, blocks []*types.Block) (*determOut, []determBlockOut) {
	out := &determOut{ID: c.ID, Mode: "validate", GhostBefore: c.GhostBefore}
	n := newDetermNode(c)
	defer n.close()
	out.GenesisHash = hx(n.genesis.BlockHash())
	out.GenesisRoot = hx(n.genesis.GetHeader().GetBlocksRootHash())
	res := []determBlockOut{}
	for _, src := range blocks {
		// a fresh decode per node: addBlock may touch lazily computed fields
		blk := proto.Clone(src).(*types.Block)
		o := determBlockOut{No: blk.BlockNo()}
		h := blk.GetHeader()
		o.HdrStateRoot, o.HdrReceiptsRoot, o.TxsRoot = hx(h.GetBlocksRootHash()), hx(h.GetReceiptsRootHash()), hx(h.GetTxsRootHash())
		if c.GhostBefore != 0 && blk.BlockNo() == c.GhostBefore {
			// a producer whose block never gets connected: same producer path, result dropped
			g := &determGhost{Skipped: []determSkip{}}
			if prev, err := n.cs.GetBestBlock(); err == nil {
				txs := []*types.Tx{}
				for _, tx := range blk.GetBody().GetTxs() {
					txs = append(txs, proto.Clone(tx).(*types.Tx))
				}
				p := n.produceOn(prev, h.GetTimestamp(), txs, nil)
				g.Included, g.Skipped, g.Err = len(p.included), p.skipped, p.err
				if p.block != nil {
					g.StateRoot = hx(p.block.GetHeader().GetBlocksRootHash())
					g.ReceiptsRoot = hx(p.block.GetHeader().GetReceiptsRootHash())
				}
			} else {
				g.Err = err.Error()
			}
			o.Ghost = g
		}
		if c.RefuseBefore != 0 && blk.BlockNo() == c.RefuseBefore {
			// a sibling of this block that the node executes and then refuses (chainhandle.go
			// executeBlock: `if err := ex.execute(); err != nil { cs.Update(bestBlock); return err }`)
			x := proto.Clone(src).(*types.Block)
			switch {
			case strings.HasPrefix(c.RefuseKind, "tx") && len(x.Body.Txs) > 0:
				// the last transaction once more: its nonce is now too low, the executor fails
				x.Body.Txs = append(x.Body.Txs, proto.Clone(x.Body.Txs[len(x.Body.Txs)-1]).(*types.Tx))
				x.Header.TxsRootHash = types.CalculateTxsRootHash(x.Body.Txs)
			default:
				bad := append([]byte{}, x.Header.BlocksRootHash...)
				bad[0] ^= 0xff
				x.Header.BlocksRootHash = bad
			}
			x.Header.Timestamp++ // a different block
			x.Hash = nil
			x.BlockHash()
			func() {
				defer func() {
					if r := recover(); r != nil {
						o.Refused = "panic: " + fmt.Sprint(r)
					}
				}()
				if err := n.cs.addBlock(x, nil, testPeer); err != nil {
					o.Refused = err.Error()
				} else {
					o.Refused = "ACCEPTED"
				}
			}()
			if strings.HasSuffix(c.RefuseKind, "restart") {
				if best, err := n.cs.GetBestBlock(); err == nil {
					sdb := n.cs.sdb.OpenNewStateDB(best.GetHeader().GetBlocksRootHash())
					if scs, err := statedb.GetSystemAccountState(sdb); err == nil {
						system.InitSystemParams(scs, system.RESET)
						_ = system.InitVotingPowerRank(scs)
					}
				}
			}
		}
		blk.Hash = nil
		o.BlockHash = hx(blk.BlockHash())
		func() {
			defer func() {
				if r := recover(); r != nil {
					o.AddPanic = fmt.Sprint(r)
				}
			}()
			if err := n.cs.addBlock(blk, nil, testPeer); err != nil {
				o.AddErr = err.Error()
			}
		}()
		n.observeNode(&o, blk)
		res = append(res, o)
		if o.AddPanic != "" {
			break
		}
	}
	out.Final = n.final()
	return out, res
}

func determValidate(in *determValidateIn) *determOut {
	c := &in.Case
	var pl determProducedLine
	if err := json.Unmarshal(in.Produced, &pl); err != nil {
		return &determOut{ID: c.ID, Mode: "validate", Fatal: "bad produced line: " + err.Error()}
	}
	blocks := []*types.Block{}
	for _, b := range pl.Blocks {
		if b.BlockHex == "" {
			continue
		}
		raw, err := hex.DecodeString(b.BlockHex)
		if err != nil {
			return &determOut{ID: c.ID, Mode: "validate", Fatal: "bad block_hex: " + err.Error()}
		}
		blk := &types.Block{}
		if err := proto.Decode(raw, blk); err != nil {
			return &determOut{ID: c.ID, Mode: "validate", Fatal: "block decode: " + err.Error()}
		}
		blocks = append(blocks, blk)
	}
	out, first := determValidateOnce(c, blocks)
	out2, second := determValidateOnce(c, blocks)
	for i := range first {
		eq := true
		diff := []string{}
		if i >= len(second) {
			eq, diff = false, []string{"missing"}
		} else {
			a, b := reflect.ValueOf(first[i]), reflect.ValueOf(second[i])
			for f := 0; f < a.NumField(); f++ {
				if !reflect.DeepEqual(a.Field(f).Interface(), b.Field(f).Interface()) {
					eq = false
					diff = append(diff, a.Type().Field(f).Tag.Get("json"))
				}
			}
		}
		first[i].RepeatEqual = &eq
		if !eq {
			first[i].RepeatDiff = diff
		}
	}
	out.RepeatGenesisHash, out.RepeatGenesisRoot, out.RepeatFinal = out2.GenesisHash, out2.GenesisRoot, out2.Final
	out.Blocks = first
	return out
}

// ---------------------------------------------------------------- driver

func TestVerifDetermEngine(t *testing.T) {
	in, err := os.Open(os.Getenv("VERIF_IN"))
	if err != nil {
		t.Skip("no VERIF_IN")
	}
	defer in.Close()
	outf, err := os.Create(os.Getenv("VERIF_OUT"))
	if err != nil {
		t.Fatal(err)
	}
	defer outf.Close()
	w := bufio.NewWriter(outf)
	defer w.Flush()
	mode := os.Getenv("VERIF_MODE")
	if mode == "" {
		mode = "produce"
	}
	sc := bufio.NewScanner(in)
	sc.Buffer(make([]byte, 1<<20), 1<<28)
	for sc.Scan() {
		line := append([]byte{}, sc.Bytes()...)
		if len(bytes.TrimSpace(line)) == 0 {
			continue
		}
		var out *determOut
		func() {
			id := ""
			defer func() {
				if r := recover(); r != nil {
					out = &determOut{ID: id, Mode: mode, Fatal: fmt.Sprintf("%v\n%s", r, debug.Stack())}
				}
			}()
			switch mode {
			case "produce":
				var c determCase
				if err := json.Unmarshal(line, &c); err != nil {
					out = &determOut{Mode: mode, Fatal: "bad case: " + err.Error()}
					return
				}
				id = c.ID
				out = determProduce(&c)
			case "validate":
				var v determValidateIn
				if err := json.Unmarshal(line, &v); err != nil {
					out = &determOut{Mode: mode, Fatal: "bad validate input: " + err.Error()}
					return
				}
				id = v.Case.ID
				out = determValidate(&v)
			default:
				out = &determOut{Mode: mode, Fatal: "unknown VERIF_MODE"}
			}
		}()
		b, _ := json.Marshal(out)
		w.Write(b)
		w.WriteByte('\n')
		w.Flush()
	}
}

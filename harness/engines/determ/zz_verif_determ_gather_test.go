//go:build verif

package chain_test

// Companion of zz_verif_determ_engine_test.go (package chain).  This EXTERNAL test package of
// /repo/chain may import consensus/chain (which imports chain) without an import cycle; it
// installs the hook through which the engine builds blocks with the REAL producer code:
// consensus/chain.NewBlockGenerator(...).GenerateBlock() -> GatherTXs (tx.go:109-220), the
// mempool fetch FetchTXs (tx.go:32-43) being answered by a stub component.ICompSyncRequester with
// the case's transactions in input order.
import (
	"context"
	"time"

	"github.com/aergoio/aergo-actor/actor"
	"github.com/aergoio/aergo/v2/chain"
	cchain "github.com/aergoio/aergo/v2/consensus/chain"
	"github.com/aergoio/aergo/v2/state"
	"github.com/aergoio/aergo/v2/types"
	"github.com/aergoio/aergo/v2/types/message"
)

// determHub answers message.MemPoolGet (the only request GatherTXs makes) and nothing else.
type determHub struct {
	txs []types.Transaction
}

func (h *determHub) Tell(targetName string, msg interface{}) {}

func (h *determHub) RequestFuture(targetName string, msg interface{}, timeout time.Duration, tip string) *actor.Future {
	f := actor.NewFuture(timeout)
	if _, ok := msg.(*message.MemPoolGet); ok && targetName == message.MemPoolSvc {
		f.PID().Tell(&message.MemPoolGetRsp{Txs: h.txs})
	} else {
		f.PID().Tell(&message.MemPoolGetRsp{})
	}
	return f
}

func init() {
	chain.VerifDetermGenerate = func(bi *types.BlockHeaderInfo, bs *state.BlockState, exec chain.TxExecFn,
		txs []types.Transaction, onTx func(tx types.Transaction, err error)) (*types.Block, error) {
		// the DPoS block factory's TxOp (blockfactory.go:39-49): just the executor
		txOp := cchain.TxOpFn(func(bState *state.BlockState, tx types.Transaction) error {
			err := exec(bState, tx)
			onTx(tx, err)
			return err
		})
		return cchain.NewBlockGenerator(&determHub{txs: txs}, context.Background(), bi, bs, txOp, false).
			SetNoTTE(true).
			GenerateBlock()
	}
}

//go:build verif

package chain_test

// Companion of zz_verif_determ_engine_test.go (package chain).  This EXTERNAL test package of
// /repo/chain may import consensus/chain (which imports chain) without an import cycle; it
// installs the hook through which the engine builds blocks with the REAL producer code:
// consensus/chain.NewBlockGenerator(...).GenerateBlock() -> GatherTXs (tx.go:109-220), the
// mempool fetch FetchTXs (tx.go:32-43) being answered by a stub component.ICompSyncRequester with
// the case's transactions in input order.
import (
	"context"
	"time"

	"github.com/aergoio/aergo-actor/actor"
	"github.com/aergoio/aergo/v2/chain"
	cchain "github.com/aergoio/aergo/v2/consensus/chain"
	"github.com/aergoio/aergo/v2/consensus/impl/dpos"
	"github.com/aergoio/aergo/v2/consensus/impl/dpos/bp"
	"github.com/aergoio/aergo/v2/state"
	"github.com/aergoio/aergo/v2/types"
	"github.com/aergoio/aergo/v2/types/message"
)

// determHub answers message.MemPoolGet (the only request GatherTXs makes) and nothing else.
type determHub struct {
	txs []types.Transaction
}

func (h *determHub) Tell(targetName string, msg interface{}) {}

func (h *determHub) RequestFuture(targetName string, msg interface{}, timeout time.Duration, tip string) *actor.Future {
	f := actor.NewFuture(timeout)
	if _, ok := msg.(*message.MemPoolGet); ok && targetName == message.MemPoolSvc {
		f.PID().Tell(&message.MemPoolGetRsp{Txs: h.txs})
	} else {
		f.PID().Tell(&message.MemPoolGetRsp{})
	}
	return f
}

// determDeadline is the block-generation context handed to NewBlockGenerator: GatherTXs's
// checkBGTimeout (tx.go:140-158) selects on Done() and reads Err().  It expires (Err =
// context.DeadlineExceeded, as a context.WithDeadline of the block factory does) when fire() is
// called — deterministically, at a chosen position of the candidate list.
type determDeadline struct {
	done  chan struct{}
	fired bool
}

func (d *determDeadline) Deadline() (time.Time, bool)       { return time.Time{}, false }
func (d *determDeadline) Done() <-chan struct{}             { return d.done }
func (d *determDeadline) Value(key interface{}) interface{} { return nil }
func (d *determDeadline) Err() error {
	if d.fired {
		return context.DeadlineExceeded
	}
	return nil
}
func (d *determDeadline) fire() {
	if !d.fired {
		d.fired = true
		close(d.done)
	}
}

func init() {
	chain.VerifDetermNewStatus = func(cs *chain.ChainService) func(block *types.Block) {
		// consensus/impl/dpos.New (dpos.go:120-150): the BP cluster of the chain DB and the status on top
		cl, err := bp.NewCluster(cs.CDB())
		if err != nil {
			panic(err)
		}
		return dpos.NewStatus(cl, cs.CDB(), cs.SDB(), 0).Update
	}
	chain.VerifDetermGenerate = func(bi *types.BlockHeaderInfo, bs *state.BlockState, exec chain.TxExecFn,
		txs []types.Transaction, onTx func(tx types.Transaction, err error), deadline *int) (*types.Block, error) {
		ctx := &determDeadline{done: make(chan struct{})}
		if deadline != nil && *deadline < 0 {
			ctx.fire() // expired before gathering starts
		}
		pos := map[string]int{}
		for k, tx := range txs {
			pos[string(tx.GetHash())] = k
		}
		// the DPoS block factory's TxOp (blockfactory.go:39-49): just the executor
		txOp := cchain.TxOpFn(func(bState *state.BlockState, tx types.Transaction) error {
			if deadline != nil && *deadline == pos[string(tx.GetHash())] {
				ctx.fire() // the deadline passes while this transaction is executing
			}
			err := exec(bState, tx)
			onTx(tx, err)
			return err
		})
		return cchain.NewBlockGenerator(&determHub{txs: txs}, ctx, bi, bs, txOp, false).
			SetNoTTE(true).
			GenerateBlock()
	}
}

//go:build verif

package statedb

// C02 engine for stateBuffer.export / StateDB.Update (in-package, native build of state/statedb).
// A case is a set of raw 32-byte account ids (chosen to share 8-, 16-, 31-byte prefixes, or random)
// with a balance each, all written in ONE block state.  The same block is built `rep` times from
// the same (empty) prior state — the Go map `buffer.indexes` is iterated in a different order each
// time — and the engine reports every distinct exported key order and every distinct state root.
import (
	"bufio"
	"encoding/hex"
	"encoding/json"
	"math/big"
	"os"
	"testing"

	"github.com/aergoio/aergo-lib/db"
	"github.com/aergoio/aergo/v2/types"
)

type veCase struct {
	ID   string   `json:"id"`
	Keys []string `json:"keys"` // hex, 32 bytes
	Rep  int      `json:"rep"`
}

type veOut struct {
	ID     string     `json:"id"`
	Orders [][]string `json:"orders"` // distinct exported key orders
	Roots  []string   `json:"roots"`  // distinct state roots after Update
	Fatal  string     `json:"fatal,omitempty"`
}

func veRun(c *veCase) (out *veOut) {
	out = &veOut{ID: c.ID}
	defer func() {
		if r := recover(); r != nil {
			out.Fatal = "panic: " + toStr(r)
		}
	}()
	seenO, seenR := map[string]bool{}, map[string]bool{}
	for r := 0; r < c.Rep; r++ {
		store := db.NewDB(db.MemoryImpl, "")
		st := NewStateDB(store, nil, true)
		for i, k := range c.Keys {
			raw, _ := hex.DecodeString(k)
			var id types.AccountID
			copy(id[:], raw)
			if err := st.PutState(id, &types.State{Nonce: uint64(i + 1), Balance: big.NewInt(int64(1000 + i)).Bytes()}); err != nil {
				out.Fatal = err.Error()
				return
			}
		}
		keys, _ := st.Buffer.export()
		order := make([]string, len(keys))
		for i, k := range keys {
			order[i] = hex.EncodeToString(k)
		}
		j, _ := json.Marshal(order)
		if !seenO[string(j)] {
			seenO[string(j)] = true
			out.Orders = append(out.Orders, order)
		}
		if err := st.Update(); err != nil {
			out.Fatal = "Update: " + err.Error()
			return
		}
		root := hex.EncodeToString(st.GetRoot())
		if !seenR[root] {
			seenR[root] = true
			out.Roots = append(out.Roots, root)
		}
	}
	return
}

func toStr(r interface{}) string {
	if e, ok := r.(error); ok {
		return e.Error()
	}
	if s, ok := r.(string); ok {
		return s
	}
	b, _ := json.Marshal(r)
	return string(b)
}

func TestVerifExportEngine(t *testing.T) {
	in, err := os.Open(os.Getenv("VERIF_IN"))
	if err != nil {
		t.Skip("no VERIF_IN")
	}
	defer in.Close()
	o, _ := os.Create(os.Getenv("VERIF_OUT"))
	defer o.Close()
	w := bufio.NewWriter(o)
	defer w.Flush()
	scn := bufio.NewScanner(in)
	scn.Buffer(make([]byte, 1<<20), 1<<26)
	for scn.Scan() {
		var c veCase
		var res *veOut
		if err := json.Unmarshal(scn.Bytes(), &c); err != nil {
			res = &veOut{Fatal: err.Error()}
		} else {
			res = veRun(&c)
		}
		j, _ := json.Marshal(res)
		w.Write(j)
		w.WriteString("\n")
	}
}

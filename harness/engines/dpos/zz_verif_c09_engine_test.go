//go:build verif

package dpos

// C09 engine: real bp.Cluster index map, DPoS.IsBlockValid, VerifySign and
// VerifyTimestamp on signed blocks (libp2p secp256k1 keys); header fields mutated after
// signing.
import (
	"bufio"
	"encoding/json"
	"fmt"
	"os"
	"testing"
	"time"

	"github.com/aergoio/aergo-lib/log"
	"github.com/aergoio/aergo/v2/config"
	"github.com/aergoio/aergo/v2/consensus"
	"github.com/aergoio/aergo/v2/consensus/impl/dpos/bp"
	"github.com/aergoio/aergo/v2/consensus/impl/dpos/slot"
	"github.com/aergoio/aergo/v2/p2p/p2pkey"
	"github.com/aergoio/aergo/v2/types"
	"github.com/libp2p/go-libp2p/core/crypto"
)

type c09Case struct {
	IvSec   int64   `json:"iv"`
	History [][]int `json:"history"` // earlier producer sets installed on the SAME cluster (elections)
	Members []int   `json:"members"` // indices into the key table (duplicates allowed)
	Signer  int     `json:"signer"`
	TsNs    int64   `json:"ts"`     // absolute timestamp, or offset from now if Rel
	Rel     bool    `json:"rel"`
	Mutate  string  `json:"mutate"` // header field mutated after signing ("" = none)
	Genesis int     `json:"genesis"` // BP count at boot: dpos.New calls Init(bpc.Size()) once, before any election (0 = current size)
}

type c09Obs struct {
	Idx      int    `json:"idx"`
	Size     int    `json:"size"`
	Valid    bool   `json:"valid"`
	SigOK    bool   `json:"sig_ok"`
	TsOK     bool   `json:"ts_ok"`
	Ts       int64  `json:"ts"`
	Now0     int64  `json:"now0"`
	Now1     int64  `json:"now1"`
	DigestEq bool   `json:"digest_eq"` // bytesForDigest unchanged by the mutation
	HashEq   bool   `json:"hash_eq"`   // block hash unchanged by the mutation
}

func TestVerifC09Engine(t *testing.T) {
	in, err := os.Open(os.Getenv("VERIF_IN"))
	if err != nil {
		t.Skip("no VERIF_IN")
	}
	defer in.Close()
	out, _ := os.Create(os.Getenv("VERIF_OUT"))
	defer out.Close()
	w := bufio.NewWriter(out)
	defer w.Flush()

	const nKeys = 12
	privs := make([]crypto.PrivKey, nKeys)
	ids := make([]string, nKeys)
	// LOCAL IDENTITY: the verifying node has its own node key (p2pkey, as in a running block producer);
	// key 0 of the table IS that key, so cases whose signer is 0 are blocks naming the verifier itself,
	// all other cases blocks naming somebody else.
	p2pkey.InitNodeInfo(&config.BaseConfig{AuthDir: t.TempDir()}, &config.P2PConfig{}, "0.0.1-verif", log.NewLogger("verif.c09"))
	for i := range privs {
		p, pub, _ := crypto.GenerateKeyPair(crypto.Secp256k1, 256)
		if i == 0 {
			p, pub = p2pkey.NodePrivKey(), p2pkey.NodePubKey()
		}
		privs[i] = p
		id, _ := types.IDFromPublicKey(pub)
		ids[i] = types.IDB58Encode(id)
	}

	sc := bufio.NewScanner(in)
	sc.Buffer(make([]byte, 1<<20), 1<<26)
	for sc.Scan() {
		var c c09Case
		if err := json.Unmarshal(sc.Bytes(), &c); err != nil {
			continue
		}
		g := c.Genesis
		if g == 0 {
			g = len(c.Members)
		}
		Init(uint16(g)) // package state as dpos.New leaves it (also re-initialises the slot interval)
		slot.Init(c.IvSec)
		cl := &bp.Cluster{}
		for _, h := range c.History {
			hs := make([]string, len(h))
			for i, m := range h {
				hs[i] = ids[m]
			}
			if err := cl.Update(hs); err != nil {
				t.Fatal(err)
			}
		}
		ms := make([]string, len(c.Members))
		for i, m := range c.Members {
			ms[i] = ids[m]
		}
		if err := cl.Update(ms); err != nil {
			t.Fatal(err)
		}
		d := &DPoS{bpc: cl}
		now0 := time.Now().UnixNano()
		ts := c.TsNs
		if c.Rel {
			ts += now0
		}
		bi := &types.BlockHeaderInfo{No: 7, Ts: ts, PrevBlockHash: make([]byte, 32), ChainId: []byte{1, 2, 3}}
		blk := types.NewBlock(bi, make([]byte, 32), &types.Receipts{}, nil, []byte("coinbase"), nil)
		blk.Header.Confirms = 3
		if err := blk.Sign(privs[c.Signer]); err != nil {
			t.Fatal(err)
		}
		h := blk.Header
		d0 := digestOf(h)
		h0 := string(blk.BlockHash())
		switch c.Mutate {
		case "ChainID":
			h.ChainID = append([]byte{9}, h.ChainID...)
		case "PrevBlockHash":
			h.PrevBlockHash = flip(h.PrevBlockHash)
		case "BlockNo":
			h.BlockNo++
		case "Timestamp":
			h.Timestamp++
		case "BlocksRootHash":
			h.BlocksRootHash = flip(h.BlocksRootHash)
		case "TxsRootHash":
			h.TxsRootHash = flip(h.TxsRootHash)
		case "ReceiptsRootHash":
			h.ReceiptsRootHash = flip(h.ReceiptsRootHash)
		case "Confirms":
			h.Confirms++
		case "PubKey":
			h.PubKey = flip(h.PubKey)
		case "CoinbaseAccount":
			h.CoinbaseAccount = flip(h.CoinbaseAccount)
		case "Consensus":
			h.Consensus = append(h.Consensus, 1)
		case "Sign":
			h.Sign = flip(h.Sign)
		case "NoSign": // no usable signature at all
			h.Sign = []byte("not a signature")
		case "WrongKey": // signed by another key, the header names the signer
			other := privs[(c.Signer+1)%nKeys]
			pk := h.PubKey
			if err := blk.Sign(other); err != nil {
				t.Fatal(err)
			}
			h.PubKey = pk
		}
		blk.Hash = nil
		o := c09Obs{Ts: h.Timestamp, Now0: now0}
		id, _ := types.IDFromPublicKey(privs[c.Signer].GetPublic())
		o.Idx = int(cl.BpID2Index(id))
		o.Size = int(cl.Size())
		o.Valid = d.IsBlockValid(blk, nil) == nil
		o.SigOK = d.VerifySign(blk) == nil
		o.TsOK = d.VerifyTimestamp(blk)
		o.Now1 = time.Now().UnixNano()
		o.DigestEq = d0 == digestOf(h)
		o.HashEq = h0 == string(blk.BlockHash())
		b, _ := json.Marshal(o)
		fmt.Fprintln(w, string(b))
	}
}

func digestOf(h *types.BlockHeader) string {
	blk := &types.Block{Header: h}
	// VerifySign recomputes bytesForDigest; expose it through the signature check input:
	// sign-independent digest = hash of header with Sign cleared.
	s := h.Sign
	h.Sign = nil
	blk.Hash = nil
	r := string(blk.BlockHash())
	h.Sign = s
	blk.Hash = nil
	return r
}

func flip(b []byte) []byte {
	c := append([]byte{}, b...)
	if len(c) == 0 {
		return []byte{1}
	}
	c[len(c)-1] ^= 1
	return c
}

// ---- DPoS.IsConnectedBlock (used by ChainService.addBlock to skip a block without any check):
// true exactly for a block the chain DB holds under that hash; in particular false for a
// different block with the number of a stored one (forged twin).
type c09FakeCDB struct {
	consensus.ChainDB
	known map[string]*types.Block
}

func (f *c09FakeCDB) GetBlock(h []byte) (*types.Block, error) {
	if b, ok := f.known[string(h)]; ok {
		return b, nil
	}
	return nil, fmt.Errorf("block not found")
}

func TestVerifC09ConnectedEngine(t *testing.T) {
	outp := os.Getenv("VERIF_OUT")
	if outp == "" {
		t.Skip("no VERIF_OUT")
	}
	mk := func(no uint64, ts int64) *types.Block {
		bi := &types.BlockHeaderInfo{No: no, Ts: ts, PrevBlockHash: make([]byte, 32), ChainId: []byte{1, 2, 3}}
		b := types.NewBlock(bi, make([]byte, 32), &types.Receipts{}, nil, nil, nil)
		b.BlockHash()
		return b
	}
	stored, twin, other := mk(5, 1000), mk(5, 1001), mk(9, 1002)
	d := &DPoS{ChainDB: &c09FakeCDB{known: map[string]*types.Block{string(stored.BlockHash()): stored}}}
	o := map[string]bool{"stored": d.IsConnectedBlock(stored), "twin_same_number": d.IsConnectedBlock(twin),
		"unknown": d.IsConnectedBlock(other), "fork_enabled": d.IsForkEnable()}
	b, _ := json.Marshal(o)
	os.WriteFile(outp, append(b, '\n'), 0o644)
}

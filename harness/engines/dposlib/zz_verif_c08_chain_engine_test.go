//go:build verif

package chain

// C08 chain-side engine: the real ChainService.addBlock / reorg driven with fork scenarios
// and a recording consensus stub that applies the DPoS LIB rules with a scripted LIB number:
//   VerifyTimestamp(b) = b.no > lib, NeedReorganization(rootNo) = rootNo >= lib.
// Recorded: the sequence of consensus calls (VerifyTimestamp, NeedReorganization, Update,
// Save) the chain service makes for each delivered block, compared with the call sequence
// the model's node (Dpos/Lib.v deliver) implies, plus best block and main chain.
//
// Input: {"ops":[["B",id,parent],["BX",id,parent],["BR",id,parent],["L",libNo],["D",id]]}; output {"obs":[{calls,err,best,main}]}.
import (
	"bufio"
	"encoding/json"
	"errors"
	"os"
	"strconv"
	"testing"

	"github.com/aergoio/aergo/v2/config"
	"github.com/aergoio/aergo/v2/consensus"
	"github.com/aergoio/aergo/v2/types"
)

type c08ChainCons struct {
	StubConsensus
	lib   uint64
	calls []int64
	idOf  map[string]int
	last  int64          // id of the block of the last Update: "the status" of this stub
	ref   map[int64]bool // ids of the blocks IsBlockValid refuses
}

// key under which the stub persists its status through the TxWriter the chain service hands it
var c08SavedKey = []byte("c08.saved.status")

func (c *c08ChainCons) id(b *types.Block) int64 {
	if v, ok := c.idOf[b.ID()]; ok {
		return int64(v)
	}
	return -2
}
func (c *c08ChainCons) VerifyTimestamp(b *types.Block) bool {
	c.calls = append(c.calls, 1, int64(b.BlockNo()))
	return b.BlockNo() > c.lib
}
func (c *c08ChainCons) NeedReorganization(rootNo types.BlockNo) bool {
	c.calls = append(c.calls, 2, int64(rootNo))
	return rootNo >= c.lib
}
func (c *c08ChainCons) Update(b *types.Block) {
	c.calls = append(c.calls, 3, c.id(b))
	c.last = c.id(b)
}
func (c *c08ChainCons) Save(tx consensus.TxWriter) error {
	c.calls = append(c.calls, 4)
	// what dpos.Status.Save does with its gob: written into the chain service's write unit
	tx.Set(c08SavedKey, []byte(strconv.FormatInt(c.last, 10)))
	return nil
}
func (c *c08ChainCons) VerifySign(b *types.Block) error {
	c.calls = append(c.calls, 5, c.id(b))
	return nil
}
func (c *c08ChainCons) IsBlockValid(b *types.Block, best *types.Block) error {
	c.calls = append(c.calls, 6, c.id(b), c.id(best))
	if c.ref[c.id(b)] {
		return errors.New("c08: block refused by IsBlockValid")
	}
	return nil
}

type c08ChainObs struct {
	Saved int64   `json:"saved"` // status found in the chain DB after the call (what a restart would load), -1 = none
	Calls []int64 `json:"calls"`
	Err   string  `json:"err"`
	Best  int64   `json:"best"`
	Main  []int64 `json:"main"`
}

func TestVerifC08ChainEngine(t *testing.T) {
	in, err := os.Open(os.Getenv("VERIF_IN"))
	if err != nil {
		t.Skip("no VERIF_IN")
	}
	defer in.Close()
	out, _ := os.Create(os.Getenv("VERIF_OUT"))
	defer out.Close()
	wr := bufio.NewWriter(out)
	defer wr.Flush()

	sc := bufio.NewScanner(in)
	sc.Buffer(make([]byte, 1<<20), 1<<28)
	ts := int64(1000)
	for sc.Scan() {
		var s struct {
			Ops []json.RawMessage `json:"ops"`
		}
		if err := json.Unmarshal(sc.Bytes(), &s); err != nil {
			t.Fatal(err)
		}
		serverCtx := config.NewServerContext("", "")
		testCfg = serverCtx.GetDefaultConfig().(*config.Config)
		testCfg.DbType = "memorydb"
		testCfg.DataDir = t.TempDir() // memorydb loads/writes <DataDir>: keep every instance isolated
		testCfg.UseTestnet = true
		cs := NewChainService(testCfg)
		cons := &c08ChainCons{idOf: map[string]int{}, ref: map[int64]bool{}}
		cs.SetChainConsensus(cons)
		genesis, _ := cs.getBlockByNo(0)
		blocks := map[int]*types.Block{0: genesis}
		cons.idOf[genesis.ID()] = 0
		var obs []c08ChainObs
		for _, raw := range s.Ops {
			var op []json.RawMessage
			json.Unmarshal(raw, &op)
			var kind string
			json.Unmarshal(op[0], &kind)
			geti := func(i int) int {
				var v int
				json.Unmarshal(op[i], &v)
				return v
			}
			switch kind {
			case "B", "BR":
				// "BR": a block the consensus refuses in IsBlockValid (e.g. produced out of its slot)
				if kind == "BR" {
					cons.ref[int64(geti(1))] = true
				}
				prev := blocks[geti(2)]
				ts++
				bi := types.NewBlockHeaderInfoFromPrevBlock(prev, ts, testBV)
				b := types.NewBlock(bi, prev.GetHeader().GetBlocksRootHash(), nil, nil, nil, nil)
				b.BlockHash()
				blocks[geti(1)] = b
				cons.idOf[b.ID()] = geti(1)
			case "BX":
				// a block whose state root does not match its execution: rejected when executed
				prev := blocks[geti(2)]
				ts++
				bi := types.NewBlockHeaderInfoFromPrevBlock(prev, ts, testBV)
				b := types.NewBlock(bi, []byte("bad-state-root-bad-state-root-xx"), nil, nil, nil, nil)
				b.BlockHash()
				blocks[geti(1)] = b
				cons.idOf[b.ID()] = geti(1)
			case "L":
				cons.lib = uint64(geti(1))
			case "D":
				cons.calls = nil
				e := cs.addBlock(blocks[geti(1)], nil, testPeer)
				o := c08ChainObs{Calls: append([]int64{}, cons.calls...)}
				if e != nil {
					o.Err = e.Error()
				}
				best, _ := cs.GetBestBlock()
				o.Best = cons.id(best)
				o.Saved = -1
				if v := cs.cdb.store.Get(c08SavedKey); len(v) > 0 {
					o.Saved, _ = strconv.ParseInt(string(v), 10, 64)
				}
				for no := uint64(0); no <= best.BlockNo(); no++ {
					b, err := cs.getBlockByNo(no)
					if err != nil {
						o.Main = append(o.Main, -3)
					} else {
						o.Main = append(o.Main, cons.id(b))
					}
				}
				obs = append(obs, o)
			}
		}
		cs.Close()
		line, _ := json.Marshal(map[string]interface{}{"obs": obs})
		wr.Write(line)
		wr.WriteString("\n")
	}
}

//go:build verif

package dpos

// C08 election engine: the real dpos.Status built by NewStatus with the real bp.Cluster and
// bp.Snapshots (election every 100 blocks from the vote ranking stored in the state of the
// reference block, bootstrap height 300), real system.GetRankers / system.GetBpCount, real
// Save / bootLoader.  Block state roots are real state-trie roots whose aergo.system contract
// holds a vote ranking (dbkey.SystemVoteSort("voteBP")) and a BPCOUNT parameter.
//
// What the engine emulates (no transactions are executed here): the in-memory system
// parameter BPCOUNT.  In a node it is (1) loaded from the best block's state at start-up and
// at the end of a reorganisation, and from the fork point's state right after reorg.rollback
// (system.InitSystemParams), (2) changed by
// system.CommitParams(true) inside Status.Update after AddSnapshot when the block just
// executed changed the parameter.  The engine keeps the value per node and installs it
// with the real system.InitSystemParams before every call into the consensus code.
//
// Input: {"election":true,"n":genesis BP count,"nodes":k,"self":[..],"ops":[
//   ["T",sid,[ranking of producer indices],bpcount], ["B",id,parent,bp,confirms,sid],
//   ["D",node,id], ["S",node], ["R",node]]}   (state 0 is implicit for the genesis block)
import (
	"bufio"
	"encoding/binary"
	"encoding/json"
	"math/big"
	"os"
	"testing"

	"github.com/aergoio/aergo/v2/consensus/impl/dpos/bp"
	"github.com/aergoio/aergo/v2/consensus/impl/dpos/slot"
	"github.com/aergoio/aergo/v2/contract/system"
	"github.com/aergoio/aergo/v2/state"
	"github.com/aergoio/aergo/v2/state/statedb"
	"github.com/aergoio/aergo/v2/types"
	"github.com/aergoio/aergo/v2/types/dbkey"
	"github.com/libp2p/go-libp2p/core/crypto"
)

type c08ElObs struct {
	c08Obs
	Cluster []int `json:"cluster"`
	Size    int   `json:"size"`
	Mem     int   `json:"mem"`
}

type c08ElNode struct {
	c08Node
	cl   *bp.Cluster
	mem  int
	gen  []string
	genN int
}

type c08ElWorld struct {
	c08World
	peerIDs   []types.PeerID
	stRoot    map[int][]byte // scenario state id -> root
	stParam   map[int]int
	paramRoot map[int][]byte // synthetic states holding only BPCOUNT = v
	blkState  map[int]int    // block id -> state id
	genBPs    []string
}

func (w *c08ElWorld) mkState(t *testing.T, ranking []int, bpcount int) []byte {
	bs := w.sdb.NewBlockState(nil)
	scs, err := statedb.GetSystemAccountState(bs.StateDB)
	if err != nil {
		t.Fatal(err)
	}
	var data []byte
	for i, r := range ranking {
		ser := append([]byte{}, []byte(w.peerIDs[r])...)
		ser = append(ser, big.NewInt(int64(1000-i)).Bytes()...)
		sz := make([]byte, 8)
		binary.LittleEndian.PutUint64(sz, uint64(len(ser)))
		data = append(data, sz...)
		data = append(data, ser...)
	}
	if ranking != nil {
		if err := scs.SetData(dbkey.SystemVoteSort([]byte(types.OpvoteBP.ID())), data); err != nil {
			t.Fatal(err)
		}
	}
	if err := scs.SetData(dbkey.SystemParam("BPCOUNT"), big.NewInt(int64(bpcount)).Bytes()); err != nil {
		t.Fatal(err)
	}
	if err := statedb.StageContractState(scs, bs.StateDB); err != nil {
		t.Fatal(err)
	}
	if err := bs.PutState(types.ToAccountID([]byte(types.AergoSystem)), scs.State); err != nil {
		t.Fatal(err)
	}
	if err := bs.Update(); err != nil {
		t.Fatal(err)
	}
	if err := bs.Commit(); err != nil {
		t.Fatal(err)
	}
	return append([]byte{}, bs.GetRoot()...)
}

// install the node's in-memory BPCOUNT with the real loader
func (w *c08ElWorld) setMem(t *testing.T, v int) {
	root, ok := w.paramRoot[v]
	if !ok {
		root = w.mkState(t, nil, v)
		w.paramRoot[v] = root
	}
	scs, err := statedb.GetSystemAccountState(w.sdb.OpenNewStateDB(root))
	if err != nil {
		t.Fatal(err)
	}
	system.InitSystemParams(scs, v)
	if system.GetBpCount() != v {
		t.Fatalf("BPCOUNT %d not installed (%d)", v, system.GetBpCount())
	}
}

func (w *c08ElWorld) newElStatus(t *testing.T, nd *c08ElNode) {
	// what a node does at start-up: parameters from the best block's state, then
	// bp.NewCluster + NewStatus (dpos.New)
	best := nd.cdb.best
	nd.mem = w.stParam[w.blkState[w.id(best.ID())]]
	w.setMem(t, nd.mem)
	nd.cdb.genesisBPs = nd.gen
	cl, err := bp.NewCluster(nd.cdb)
	if err != nil {
		t.Fatal(err)
	}
	nd.cl = cl
	if err := nd.sdb.SetRoot(best.GetHeader().GetBlocksRootHash()); err != nil {
		t.Fatal(err)
	}
	s := NewStatus(cl, nd.cdb, nd.sdb, 0)
	nd.loader = bsLoader
	nd.st = s
	s.libState.bpid = nd.self
	if bsLoader.ls != nil {
		bsLoader.ls.bpid = nd.self
	}
}

func (w *c08ElWorld) observeEl(nd *c08ElNode, o *c08ElObs) {
	w.observe(&nd.c08Node, &o.c08Obs)
	o.Size = int(nd.cl.Size())
	for i := 0; i < o.Size; i++ {
		id, ok := nd.cl.BpIndex2ID(bp.Index(i))
		if !ok {
			o.Cluster = append(o.Cluster, -1)
			continue
		}
		o.Cluster = append(o.Cluster, w.peerIdx(id))
	}
	o.Mem = nd.mem
}

func (w *c08ElWorld) peerIdx(id types.PeerID) int {
	for i, p := range w.peerIDs {
		if p == id {
			return i
		}
	}
	return -1
}

func (w *c08ElWorld) param(b *types.Block) int { return w.stParam[w.blkState[w.id(b.ID())]] }

// Status.Update as the chain service calls it after executing blk (state DB at blk's root)
func (w *c08ElWorld) update(t *testing.T, nd *c08ElNode, blk *types.Block, extend bool) {
	w.setMem(t, nd.mem)
	if err := nd.sdb.SetRoot(blk.GetHeader().GetBlocksRootHash()); err != nil {
		t.Fatal(err)
	}
	nd.st.Update(blk)
	if extend {
		// CommitParams(true): a parameter change executed in blk becomes active
		if par, ok := w.blocks[w.id(blk.PrevID())]; ok && w.param(par) != w.param(blk) {
			nd.mem = w.param(blk)
		}
	}
}

func (w *c08ElWorld) deliverEl(t *testing.T, nd *c08ElNode, blk *types.Block, o *c08ElObs) {
	bsLoader = nd.loader
	w.setMem(t, nd.mem)
	nd.st.Lock()
	nd.st.load()
	nd.st.Unlock()
	nd.st.libState.bpid = nd.self
	d := &DPoS{Status: nd.st}
	o.VtsOK = d.VerifyTimestamp(blk)
	o.NeedReorg = -1
	o.RootNo = -1
	if _, ok := nd.cdb.byHash[string(blk.BlockHash())]; ok {
		o.Res = "dup"
		return
	}
	if !o.VtsOK {
		o.Res = "le_lib"
		return
	}
	if _, ok := nd.cdb.byHash[string(blk.GetHeader().GetPrevBlockHash())]; !ok {
		o.Res = "orphan"
		return
	}
	nd.cdb.byHash[string(blk.BlockHash())] = blk
	best := nd.cdb.best
	if string(blk.GetHeader().GetPrevBlockHash()) == string(best.BlockHash()) {
		w.update(t, nd, blk, true)
		nd.cdb.byNo[blk.BlockNo()] = blk
		nd.cdb.best = blk
		nd.save()
		o.Res = "connected"
		return
	}
	if blk.BlockNo() <= best.BlockNo() {
		o.Res = "side"
		return
	}
	var newBlocks []*types.Block
	br := blk
	for {
		if mb, ok := nd.cdb.byNo[br.BlockNo()]; ok && br.BlockNo() <= best.BlockNo() && mb.ID() == br.ID() {
			break
		}
		newBlocks = append(newBlocks, br)
		br = nd.cdb.byHash[string(br.GetHeader().GetPrevBlockHash())]
	}
	root := br
	o.RootNo = int64(root.BlockNo())
	if !nd.st.NeedReorganization(root.BlockNo()) {
		o.NeedReorg = 0
		o.Res = "veto"
		return
	}
	o.NeedReorg = 1
	w.update(t, nd, root, false)
	// reorg.rollback is followed by cs.reloadSystemParams(): parameters of the fork point's state (F41)
	nd.mem = w.param(root)
	for i := len(newBlocks) - 1; i >= 0; i-- {
		w.update(t, nd, newBlocks[i], true)
	}
	for no := root.BlockNo() + 1; no <= best.BlockNo(); no++ {
		delete(nd.cdb.byNo, no)
	}
	for _, b := range newBlocks {
		nd.cdb.byNo[b.BlockNo()] = b
	}
	nd.cdb.best = blk
	nd.save()
	// chain.reorg ends with system.InitSystemParams(best state)
	nd.mem = w.param(blk)
	o.Res = "reorg"
}

func TestVerifC08ElectionEngine(t *testing.T) {
	in, err := os.Open(os.Getenv("VERIF_IN"))
	if err != nil {
		t.Skip("no VERIF_IN")
	}
	defer in.Close()
	out, _ := os.Create(os.Getenv("VERIF_OUT"))
	defer out.Close()
	wr := bufio.NewWriter(out)
	defer wr.Flush()

	slot.Init(1)
	const nKeys = 8
	w := &c08ElWorld{}
	w.bpIdx = map[string]int{}
	sdb := state.NewChainStateDB()
	dir, _ := os.MkdirTemp("", "c08elsdb")
	defer os.RemoveAll(dir)
	if err := sdb.Init("memorydb", dir, nil, true, nil); err != nil {
		t.Fatal(err)
	}
	w.sdb = sdb
	w.paramRoot = map[int][]byte{}
	for i := 0; i < nKeys; i++ {
		p, pub, _ := crypto.GenerateKeyPair(crypto.Secp256k1, 256)
		w.keys = append(w.keys, p)
		id, _ := types.IDFromPublicKey(pub)
		if len([]byte(id)) != system.PeerIDLength {
			t.Fatalf("peer id length %d", len([]byte(id)))
		}
		w.peerIDs = append(w.peerIDs, id)
		w.bpids = append(w.bpids, types.IDB58Encode(id))
		w.bpIdx[types.IDB58Encode(id)] = i
	}

	sc := bufio.NewScanner(in)
	sc.Buffer(make([]byte, 1<<20), 1<<28)
	for sc.Scan() {
		var s c08Scenario
		if err := json.Unmarshal(sc.Bytes(), &s); err != nil {
			t.Fatalf("bad scenario: %v", err)
		}
		gen := w.bpids[:s.N]
		w.stRoot = map[int][]byte{0: w.mkState(t, nil, s.N)}
		w.stParam = map[int]int{0: s.N}
		w.blkState = map[int]int{0: 0}
		cid, _ := types.NewChainID().Bytes()
		gbi := &types.BlockHeaderInfo{Ts: 0, ChainId: cid}
		genesis := types.NewBlock(gbi, w.stRoot[0], nil, nil, nil, nil)
		genesis.BlockHash()
		w.blocks = map[int]*types.Block{0: genesis}
		w.idOf = map[string]int{genesis.ID(): 0}
		if s.Nodes == 0 {
			s.Nodes = 1
		}
		nodes := make([]*c08ElNode, s.Nodes)
		mkNode := func(i int, cdb *c08CDB) *c08ElNode {
			nd := &c08ElNode{gen: gen, genN: s.N}
			nd.n = uint16(s.N)
			nd.sdb = sdb
			nd.cdb = cdb
			if i < len(s.Self) && s.Self[i] >= 0 {
				nd.self = w.bpids[s.Self[i]]
			} else {
				nd.self = "none"
			}
			w.newElStatus(t, nd)
			return nd
		}
		for i := range nodes {
			nodes[i] = mkNode(i, &c08CDB{byNo: map[uint64]*types.Block{0: genesis},
				byHash: map[string]*types.Block{string(genesis.BlockHash()): genesis}, best: genesis, kv: map[string][]byte{}})
		}
		var obs []c08ElObs
		ts := int64(1)
		for _, raw := range s.Ops {
			var op []json.RawMessage
			if err := json.Unmarshal(raw, &op); err != nil {
				t.Fatal(err)
			}
			var kind string
			json.Unmarshal(op[0], &kind)
			geti := func(i int) int {
				var v int
				if err := json.Unmarshal(op[i], &v); err != nil {
					t.Fatalf("bad op %s: %v", string(raw), err)
				}
				return v
			}
			switch kind {
			case "T":
				var ranking []int
				json.Unmarshal(op[2], &ranking)
				if ranking == nil {
					ranking = []int{}
				}
				w.stRoot[geti(1)] = w.mkState(t, ranking, geti(3))
				w.stParam[geti(1)] = geti(3)
			case "B":
				id, parent, bpi, sid := geti(1), geti(2), geti(3), geti(5)
				var conf uint64
				json.Unmarshal(op[4], &conf)
				prev := w.blocks[parent]
				b := types.NewBlock(types.NewBlockHeaderInfoFromPrevBlock(prev, ts, types.DummyBlockVersionner(0)),
					w.stRoot[sid], nil, nil, nil, nil)
				ts++
				b.SetConfirms(conf)
				if err := b.Sign(w.keys[bpi]); err != nil {
					t.Fatal(err)
				}
				b.BlockHash()
				w.blocks[id] = b
				w.idOf[b.ID()] = id
				w.blkState[id] = sid
			case "D":
				nd := nodes[geti(1)]
				o := c08ElObs{}
				o.Op, o.Node = "D", geti(1)
				w.deliverEl(t, nd, w.blocks[geti(2)], &o)
				w.observeEl(nd, &o)
				obs = append(obs, o)
			case "S", "R":
				nd := nodes[geti(1)]
				o := c08ElObs{}
				o.Op, o.Node, o.NeedReorg, o.RootNo, o.Res = kind, geti(1), -1, -1, "restored"
				fresh := mkNode(geti(1), nd.cdb)
				w.observeEl(fresh, &o)
				if kind == "R" {
					nodes[geti(1)] = fresh
				}
				obs = append(obs, o)
			}
		}
		line, _ := json.Marshal(map[string]interface{}{"obs": obs})
		wr.Write(line)
		wr.WriteString("\n")
	}
}

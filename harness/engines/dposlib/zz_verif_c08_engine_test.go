//go:build verif

package dpos

// C08 engine: drives the real dpos.Status / libStatus (lib.go, status.go) and the real
// DPoS.VerifyTimestamp with scripted block histories on one or several nodes.
//
// A node mirrors what chain.ChainService does around the consensus status:
//   addBlockInternal: VerifyTimestamp (block.no <= LIB refused); parent == best ->
//   executeBlock -> Status.Update(block) -> connectToChain -> Status.Save;
//   longer side branch -> reorg(): gather (branch root) -> NeedReorganization(rootNo) ->
//   rollback (Status.Update(root)) -> rollforward (Status.Update(each new block)) ->
//   swapChainMapping -> Status.Save.
// The chain DB is an in-memory consensus.ChainDB; bootLoader/load read blocks from it
// exactly as in a node (bsLoader is pointed at the node's loader before every call).
//
// Input ($VERIF_IN): one JSON scenario per line
//   {"n":4,"nodes":2,"self":[0,2],"ops":[["B",id,parent,bp,confirms],["D",node,id],
//    ["S",node],["R",node],["G",node,[bp...]],["F",node,resetHeight] (shadow),["FR",node,resetHeight] (real)]}
// Output ($VERIF_OUT): one JSON line per scenario: {"obs":[...]} one entry per D/S/R/G op.
import (
	"bufio"
	"encoding/json"
	"fmt"
	"os"
	"reflect"
	"sort"
	"strings"
	"testing"
	"unsafe"

	"github.com/aergoio/aergo-lib/db"
	"github.com/aergoio/aergo/v2/consensus"
	"github.com/aergoio/aergo/v2/consensus/impl/dpos/bp"
	"github.com/aergoio/aergo/v2/consensus/impl/dpos/slot"
	"github.com/aergoio/aergo/v2/state"
	"github.com/aergoio/aergo/v2/types"
	"github.com/aergoio/aergo/v2/types/dbkey"
	"github.com/libp2p/go-libp2p/core/crypto"
)

type c08Scenario struct {
	N     int               `json:"n"`
	Nodes int               `json:"nodes"`
	Self  []int             `json:"self"`
	Ops   []json.RawMessage `json:"ops"`
}

type c08Entry struct {
	Bp     int    `json:"bp"`
	PlibNo uint64 `json:"plib_no"`
	Plib   int    `json:"plib"`
	ByNo   uint64 `json:"by_no"`
	By     int    `json:"by"`
}

type c08Confirm struct {
	No    uint64 `json:"no"`
	Id    int    `json:"id"`
	Bp    int    `json:"bp"`
	Range uint64 `json:"range"`
	Left  uint16 `json:"left"`
}

type c08State struct {
	LibNo    uint64       `json:"lib_no"`
	Lib      int          `json:"lib"`
	Prpsd    []c08Entry   `json:"prpsd"`
	Confirms []c08Confirm `json:"confirms"`
	Lpb      uint64       `json:"lpb"`
	Cr       uint16       `json:"cr"`
	Best     int          `json:"best"`
}

type c08Obs struct {
	Op    string   `json:"op"`
	Node  int      `json:"node"`
	Res   string   `json:"res"`
	State c08State `json:"state"`
	// direct observations on the implementation
	LibOnMain bool  `json:"lib_on_main"` // chain DB block at LIB.no has LIB's hash (or LIB is genesis/empty)
	Main      []int `json:"main"`        // main chain ids by number
	VtsOK     bool  `json:"vts_ok"`      // DPoS.VerifyTimestamp(block) for D ops
	NeedReorg int   `json:"need_reorg"`  // -1 not asked, 0 refused, 1 allowed
	RootNo    int64 `json:"root_no"`
	// "F" ops: LIB height of the running node before the shadow reset, and the number of fork points
	// f below it for which the reset status' NeedReorganization(f) allows a reorganisation
	PrevLibNo  int64 `json:"prev_lib_no"`
	AllowBelow int   `json:"allow_below"`
	// "S"/"R" ops: Saved = the persisted fields (Prpsd, Lib, LpbNo) of the running status when it was
	// last saved with the chain tip; Boot = the same fields decoded from the chain DB by the real
	// decodeStatus; BootLpb = bsLoader.lpbNo(), the value BlockFactory.worker starts from
	Saved   *c08State `json:"saved,omitempty"`
	Boot    *c08State `json:"boot,omitempty"`
	BootLpb int64     `json:"boot_lpb"`
}

// ---- in-memory consensus.ChainDB
type c08Tx struct {
	kv  map[string][]byte
	set map[string][]byte
	del []string
}

func (t *c08Tx) Set(k, v []byte) { t.set[string(k)] = append([]byte{}, v...) }
func (t *c08Tx) Delete(k []byte) { t.del = append(t.del, string(k)) }
func (t *c08Tx) Commit() {
	for k, v := range t.set {
		t.kv[k] = v
	}
	for _, k := range t.del {
		delete(t.kv, k)
	}
}
func (t *c08Tx) Discard() {}

type c08CDB struct {
	byNo        map[uint64]*types.Block
	byHash      map[string]*types.Block
	best        *types.Block
	kv          map[string][]byte
	genesisBPs  []string  // election engine: GetGenesisInfo().BPs
	savedFields *c08State // what the running status held when it was last saved (engine bookkeeping)
}

func (c *c08CDB) GetBestBlock() (*types.Block, error) {
	if c.best == nil {
		return nil, fmt.Errorf("no best")
	}
	return c.best, nil
}
func (c *c08CDB) GetBlockByNo(no types.BlockNo) (*types.Block, error) {
	if b, ok := c.byNo[no]; ok {
		return b, nil
	}
	return nil, fmt.Errorf("no block %d", no)
}
func (c *c08CDB) GetHashByNo(no types.BlockNo) ([]byte, error) {
	b, err := c.GetBlockByNo(no)
	if err != nil {
		return nil, err
	}
	return b.BlockHash(), nil
}
func (c *c08CDB) GetBlock(h []byte) (*types.Block, error) {
	if b, ok := c.byHash[string(h)]; ok {
		return b, nil
	}
	return nil, fmt.Errorf("no block")
}
func (c *c08CDB) GetGenesisInfo() *types.Genesis {
	if c.genesisBPs == nil {
		return nil
	}
	return &types.Genesis{BPs: c.genesisBPs}
}
func (c *c08CDB) Get(k []byte) []byte { return c.kv[string(k)] }
func (c *c08CDB) NewTx() db.Transaction {
	return &c08Tx{kv: c.kv, set: map[string][]byte{}}
}

var _ consensus.ChainDB = (*c08CDB)(nil)

type c08Node struct {
	n      uint16
	self   string
	st     *Status
	loader *bootLoader
	cdb    *c08CDB
	sdb    *state.ChainStateDB
}

type c08World struct {
	crashAt int          // 0, or the DEBUG_CHAIN_STOP point (2, 3) at which the next reorg crashes
	bad     map[int]bool // block ids whose execution fails (bad state root)
	ref     map[int]bool // block ids refused by IsBlockValid when they are about to be executed
	keys    []crypto.PrivKey
	bpids   []string
	bpIdx   map[string]int
	blocks  map[int]*types.Block
	idOf    map[string]int // block ID -> script id
	sdb     *state.ChainStateDB
}

func (w *c08World) newStatus(nd *c08Node) { w.newStatusReset(nd, 0) }

func (w *c08World) newStatusReset(nd *c08Node, resetHeight types.BlockNo) {
	// NewStatus(c, cdb, sdb, 0) with the BP snapshots detached from the DBs (all heights
	// are below the bootstrap height, so the producer set is the static cluster).
	s := &Status{
		libState: newLibStatus(nd.n),
		bps:      bp.NewSnapshots(&testCluster{size: nd.n}, nil, nil),
		sdb:      nd.sdb,
	}
	s.init(nd.cdb, resetHeight)
	nd.loader = bsLoader
	nd.st = s
	s.libState.bpid = nd.self
	if bsLoader.ls != nil {
		bsLoader.ls.bpid = nd.self
	}
}

func (w *c08World) snapshot(nd *c08Node) c08State {
	bsLoader = nd.loader
	nd.st.Lock()
	nd.st.load() // what the first Update would do; idempotent
	nd.st.Unlock()
	nd.st.libState.bpid = nd.self
	ls := nd.st.libState
	st := *w.fields(ls)
	st.Cr = ls.confirmsRequired
	for e := ls.confirms.Front(); e != nil; e = e.Next() {
		c := cInfo(e)
		st.Confirms = append(st.Confirms, c08Confirm{No: c.BlockNo, Id: w.id(c.BlockHash), Bp: w.bp(c.bpid),
			Range: c.ConfirmRange, Left: c.confirmsLeft})
	}
	if nd.st.bestBlock != nil {
		st.Best = w.id(nd.st.bestBlock.ID())
	}
	return st
}

// The persisted fields of libStatus are read by name through reflection (exported or not), and
// LpbNo through the lpbNo() accessor, so that a rename does not break the build of the engine.
func c08LsField(ls *libStatus, name string) reflect.Value {
	v := reflect.ValueOf(ls).Elem()
	for _, n := range []string{name, strings.ToLower(name[:1]) + name[1:], strings.ToLower(name)} {
		if f := v.FieldByName(n); f.IsValid() {
			return reflect.NewAt(f.Type(), unsafe.Pointer(f.UnsafeAddr())).Elem()
		}
	}
	panic("verif C08 engine: libStatus has no field " + name)
}
func c08Prpsd(ls *libStatus) proposed { return c08LsField(ls, "Prpsd").Interface().(proposed) }
func c08Lib(ls *libStatus) *blockInfo { return c08LsField(ls, "Lib").Interface().(*blockInfo) }

// fields: the fields of a libStatus that are saved with the chain tip (gob) and that the model's
// restore reads: Prpsd, Lib, LpbNo
func (w *c08World) fields(ls *libStatus) *c08State {
	st := &c08State{Lpb: ls.lpbNo()}
	if lib := c08Lib(ls); lib != nil {
		st.LibNo = lib.BlockNo
		st.Lib = w.id(lib.BlockHash)
	}
	for bpid, pl := range c08Prpsd(ls) {
		if pl == nil {
			continue
		}
		st.Prpsd = append(st.Prpsd, c08Entry{Bp: w.bp(bpid), PlibNo: pl.Plib.BlockNo, Plib: w.id(pl.Plib.BlockHash),
			ByNo: pl.PlibBy.BlockNo, By: w.id(pl.PlibBy.BlockHash)})
	}
	sort.Slice(st.Prpsd, func(i, j int) bool { return st.Prpsd[i].Bp < st.Prpsd[j].Bp })
	return st
}

func (w *c08World) id(hash string) int {
	if hash == "" {
		return -1
	}
	if v, ok := w.idOf[hash]; ok {
		return v
	}
	return -2
}

func (w *c08World) bp(bpid string) int {
	if v, ok := w.bpIdx[bpid]; ok {
		return v
	}
	return -1
}

func (w *c08World) observe(nd *c08Node, o *c08Obs) {
	o.State = w.snapshot(nd)
	ls := nd.st.libState
	o.LibOnMain = true
	if lib := c08Lib(ls); lib != nil && lib.BlockHash != "" {
		b, err := nd.cdb.GetBlockByNo(lib.BlockNo)
		o.LibOnMain = err == nil && b.ID() == lib.BlockHash
	}
	for no := uint64(0); ; no++ {
		b, ok := nd.cdb.byNo[no]
		if !ok {
			break
		}
		o.Main = append(o.Main, w.id(b.ID()))
	}
}

func (nd *c08Node) save() {
	tx := nd.cdb.NewTx()
	if err := nd.st.Save(tx); err != nil {
		panic(err)
	}
	tx.Commit()
}

// deliver mirrors ChainService.addBlockInternal/addBlock/reorg as far as the consensus
// status is concerned.
func (w *c08World) deliver(nd *c08Node, blk *types.Block, o *c08Obs) {
	bsLoader = nd.loader
	nd.st.Lock()
	nd.st.load()
	nd.st.Unlock()
	nd.st.libState.bpid = nd.self
	d := &DPoS{Status: nd.st}
	o.VtsOK = d.VerifyTimestamp(blk)
	o.NeedReorg = -1
	o.RootNo = -1
	if _, ok := nd.cdb.byHash[string(blk.BlockHash())]; ok {
		o.Res = "dup"
		return
	}
	if !o.VtsOK {
		o.Res = "le_lib"
		return
	}
	if _, ok := nd.cdb.byHash[string(blk.GetHeader().GetPrevBlockHash())]; !ok {
		o.Res = "orphan"
		return
	}
	nd.cdb.byHash[string(blk.BlockHash())] = blk
	best := nd.cdb.best
	if string(blk.GetHeader().GetPrevBlockHash()) == string(best.BlockHash()) {
		if w.ref[w.id(blk.ID())] {
			// executeBlock: IsBlockValid refuses the block before the executor is built: no Update
			delete(nd.cdb.byHash, string(blk.BlockHash()))
			o.Res = "refused"
			return
		}
		if w.bad[w.id(blk.ID())] {
			// executeBlock: ex.execute() fails -> cs.Update(bestBlock); the block is cached as errored
			nd.st.Update(best)
			delete(nd.cdb.byHash, string(blk.BlockHash()))
			o.Res = "exec_failed"
			return
		}
		nd.st.Update(blk)
		nd.cdb.byNo[blk.BlockNo()] = blk
		nd.cdb.best = blk
		nd.save()
		nd.cdb.savedFields = w.fields(nd.st.libState)
		o.Res = "connected"
		return
	}
	if blk.BlockNo() <= best.BlockNo() {
		o.Res = "side"
		return
	}
	// reorg: gather
	var newBlocks []*types.Block
	br := blk
	for {
		if mb, ok := nd.cdb.byNo[br.BlockNo()]; ok && br.BlockNo() <= best.BlockNo() && mb.ID() == br.ID() {
			break
		}
		newBlocks = append(newBlocks, br)
		p, ok := nd.cdb.byHash[string(br.GetHeader().GetPrevBlockHash())]
		if !ok {
			panic("broken branch")
		}
		br = p
	}
	root := br
	o.RootNo = int64(root.BlockNo())
	if !nd.st.NeedReorganization(root.BlockNo()) {
		o.NeedReorg = 0
		o.Res = "veto"
		return
	}
	o.NeedReorg = 1
	nd.st.Update(root) // rollback
	for i := len(newBlocks) - 1; i >= 0; i-- {
		if w.ref[w.id(newBlocks[i].ID())] {
			// rollforward: IsBlockValid refuses the block: executeBlock returns before its own
			// Update(best); only reorg's error path calls cs.Update(old best block) (05cfcb8b)
			nd.st.Update(best)
			o.Res = "reorg_refused"
			return
		}
		if w.bad[w.id(newBlocks[i].ID())] {
			// rollforward: executeBlock fails -> cs.Update(old best block); reorg's error path restores
			// the state root and the parameters and calls cs.Update(old best block) once more (fix
			// 05cfcb8b, F42); the chain DB is untouched, nothing is saved
			nd.st.Update(best)
			nd.st.Update(best)
			o.Res = "reorg_failed"
			return
		}
		nd.st.Update(newBlocks[i]) // rollforward
	}
	swap := func() {
		for no := root.BlockNo() + 1; no <= best.BlockNo(); no++ {
			delete(nd.cdb.byNo, no)
		}
		for _, b := range newBlocks {
			nd.cdb.byNo[b.BlockNo()] = b
		}
		nd.cdb.best = blk
		nd.save()
		nd.cdb.savedFields = w.fields(nd.st.libState)
	}
	if w.crashAt == 0 {
		swap() // swapChainMapping + Save in one bulk
		o.Res = "reorg"
		return
	}
	// Crash inside reorg.swapChain (TestDebugger stop points of chain/reorg.go):
	//   2: the reorg marker is written, the chain mapping and the saved status are still the old ones;
	//   3: swapChainMapping (new mapping + Save of the new status) is flushed, the marker is not deleted.
	// At the next start ChainDB.Init calls marker.RecoverChainMapping (mapping back to the old chain,
	// "required for LIB loading"), the consensus status is loaded from the DB, and ChainService.Recover
	// redoes the reorganisation from the marker (without asking NeedReorganization again): Update(root),
	// executeBlockReco (IsBlockValid, Update) for the new blocks, swapChainMapping + Save.
	if w.crashAt == 3 {
		swap()
		// RecoverChainMapping
		for _, b := range newBlocks {
			delete(nd.cdb.byNo, b.BlockNo())
		}
		for b := best; b.BlockNo() > root.BlockNo(); b = nd.cdb.byHash[string(b.GetHeader().GetPrevBlockHash())] {
			nd.cdb.byNo[b.BlockNo()] = b
		}
		nd.cdb.best = best
	}
	fresh := &c08Node{n: nd.n, self: nd.self, cdb: nd.cdb, sdb: nd.sdb}
	w.newStatus(fresh)
	bsLoader = fresh.loader
	fresh.st.Lock()
	fresh.st.load()
	fresh.st.Unlock()
	fresh.st.libState.bpid = fresh.self
	*nd = *fresh
	// (fix 479daa05: a reorganisation redone from the marker is not submitted to the veto again)
	nd.st.Update(root)
	for i := len(newBlocks) - 1; i >= 0; i-- {
		nd.st.Update(newBlocks[i])
	}
	swap()
	o.Res = "recovered"
}

func TestVerifC08Engine(t *testing.T) {
	in, err := os.Open(os.Getenv("VERIF_IN"))
	if err != nil {
		t.Skip("no VERIF_IN")
	}
	defer in.Close()
	out, _ := os.Create(os.Getenv("VERIF_OUT"))
	defer out.Close()
	wr := bufio.NewWriter(out)
	defer wr.Flush()

	slot.Init(1)
	const nKeys = 8
	w := &c08World{bpIdx: map[string]int{}}
	for i := 0; i < nKeys; i++ {
		p, _, _ := crypto.GenerateKeyPair(crypto.Secp256k1, 256)
		w.keys = append(w.keys, p)
	}
	sdb := state.NewChainStateDB()
	dir, _ := os.MkdirTemp("", "c08sdb")
	defer os.RemoveAll(dir)
	if err := sdb.Init("memorydb", dir, nil, true, nil); err != nil {
		t.Fatal(err)
	}
	w.sdb = sdb
	genesis := newBlock(0)
	genesis.BlockHash()

	sc := bufio.NewScanner(in)
	sc.Buffer(make([]byte, 1<<20), 1<<28)
	for sc.Scan() {
		var s c08Scenario
		if err := json.Unmarshal(sc.Bytes(), &s); err != nil {
			t.Fatalf("bad scenario: %v", err)
		}
		w.blocks = map[int]*types.Block{0: genesis}
		w.idOf = map[string]int{genesis.ID(): 0}
		w.bad = map[int]bool{}
		w.ref = map[int]bool{}
		if len(w.bpids) == 0 {
			// bp ids as the code derives them from a signed block
			for i, k := range w.keys {
				b := newBlockFromPrev(genesis, 1, types.DummyBlockVersionner(0))
				if err := b.Sign(k); err != nil {
					t.Fatal(err)
				}
				w.bpids = append(w.bpids, b.BPID2Str())
				w.bpIdx[b.BPID2Str()] = i
			}
		}
		if s.Nodes == 0 {
			s.Nodes = 1
		}
		nodes := make([]*c08Node, s.Nodes)
		for i := range nodes {
			nd := &c08Node{n: uint16(s.N), sdb: sdb,
				cdb: &c08CDB{byNo: map[uint64]*types.Block{0: genesis}, byHash: map[string]*types.Block{string(genesis.BlockHash()): genesis},
					best: genesis, kv: map[string][]byte{}}}
			if i < len(s.Self) && s.Self[i] >= 0 {
				nd.self = w.bpids[s.Self[i]]
			} else {
				nd.self = "none"
			}
			w.newStatus(nd)
			nodes[i] = nd
		}
		var obs []c08Obs
		ts := int64(1)
		for _, raw := range s.Ops {
			var op []json.RawMessage
			if err := json.Unmarshal(raw, &op); err != nil {
				t.Fatal(err)
			}
			var kind string
			json.Unmarshal(op[0], &kind)
			geti := func(i int) int {
				var v int
				if err := json.Unmarshal(op[i], &v); err != nil {
					t.Fatalf("bad op %s: %v", string(raw), err)
				}
				return v
			}
			switch kind {
			case "B":
				id, parent, bpi := geti(1), geti(2), geti(3)
				var conf uint64
				json.Unmarshal(op[4], &conf)
				prev, ok := w.blocks[parent]
				if !ok {
					t.Fatalf("unknown parent %d", parent)
				}
				b := newBlockFromPrev(prev, ts, types.DummyBlockVersionner(0))
				ts++
				b.SetConfirms(conf)
				if err := b.Sign(w.keys[bpi]); err != nil {
					t.Fatal(err)
				}
				b.BlockHash()
				w.blocks[id] = b
				w.idOf[b.ID()] = id
			case "BAD":
				w.bad[geti(1)] = true
			case "REF":
				w.ref[geti(1)] = true
			case "K":
				// deliver; if it triggers a reorganisation, crash at stop point op[3] and recover
				nd := nodes[geti(1)]
				o := c08Obs{Op: "K", Node: geti(1)}
				w.crashAt = geti(3)
				w.deliver(nd, w.blocks[geti(2)], &o)
				w.crashAt = 0
				w.observe(nd, &o)
				obs = append(obs, o)
			case "D":
				nd := nodes[geti(1)]
				o := c08Obs{Op: "D", Node: geti(1)}
				w.deliver(nd, w.blocks[geti(2)], &o)
				w.observe(nd, &o)
				obs = append(obs, o)
			case "S", "R":
				nd := nodes[geti(1)]
				o := c08Obs{Op: kind, Node: geti(1), NeedReorg: -1, RootNo: -1}
				fresh := &c08Node{n: nd.n, self: nd.self, cdb: nd.cdb, sdb: nd.sdb}
				w.newStatus(fresh)
				if nd.cdb.savedFields != nil {
					o.Saved = nd.cdb.savedFields
					// the real decodeStatus (gob, real DB key) without the rebuild from blocks that
					// loadLibStatus adds (that part is the restore the model describes)
					dec := newLibStatusWith(bsLoader.confirmsRequired)
					if err := bsLoader.decodeStatus(dbkey.DposLibStatus(), dec); err == nil {
						o.Boot = w.fields(dec)
					}
					o.BootLpb = int64(bsLoader.lpbNo()) // what BlockFactory.worker starts from
				}
				w.observe(fresh, &o)
				o.Res = "restored"
				if kind == "R" {
					nodes[geti(1)] = fresh
				}
				obs = append(obs, o)
			case "F":
				// shadow restart with ForceResetHeight (bootLoader.load(resetHeight)) on a copy of the DB
				nd := nodes[geti(1)]
				o := c08Obs{Op: "F", Node: geti(1), NeedReorg: -1, RootNo: -1, Res: "reset"}
				kv := map[string][]byte{}
				for k, v := range nd.cdb.kv {
					kv[k] = v
				}
				cdb := &c08CDB{byNo: nd.cdb.byNo, byHash: nd.cdb.byHash, best: nd.cdb.best, kv: kv}
				fresh := &c08Node{n: nd.n, self: nd.self, cdb: cdb, sdb: nd.sdb}
				pre := w.snapshot(nd)
				w.newStatusReset(fresh, types.BlockNo(geti(2)))
				w.observe(fresh, &o)
				o.PrevLibNo = int64(pre.LibNo)
				for f := types.BlockNo(0); f < types.BlockNo(pre.LibNo); f++ {
					if fresh.st.NeedReorganization(f) {
						o.AllowBelow++
					}
				}
				if len(kv[string(dbkey.DposLibStatus())]) > 0 {
					o.NeedReorg = 1 // saved status kept
				} else {
					o.NeedReorg = 0 // deleted
				}
				obs = append(obs, o)
			case "FR":
				// REAL restart with ForceResetHeight h: the chain DB drops every main-chain block above h
				// (the block at h becomes the best block), then NewStatus(..., h) boots from the saved
				// status; the node goes on with the reset chain and status
				nd := nodes[geti(1)]
				rh := uint64(geti(2))
				o := c08Obs{Op: "FR", Node: geti(1), NeedReorg: -1, RootNo: -1, Res: "reset"}
				pre := w.snapshot(nd)
				if rh > 0 && rh < nd.cdb.best.BlockNo() {
					for no := rh + 1; no <= nd.cdb.best.BlockNo(); no++ {
						delete(nd.cdb.byNo, no)
					}
					nd.cdb.best = nd.cdb.byNo[rh]
				}
				fresh := &c08Node{n: nd.n, self: nd.self, cdb: nd.cdb, sdb: nd.sdb}
				w.newStatusReset(fresh, types.BlockNo(rh))
				w.observe(fresh, &o)
				o.PrevLibNo = int64(pre.LibNo)
				for f := types.BlockNo(0); f < types.BlockNo(pre.LibNo); f++ {
					if fresh.st.NeedReorganization(f) {
						o.AllowBelow++
					}
				}
				nodes[geti(1)] = fresh
				obs = append(obs, o)
			case "G":
				nd := nodes[geti(1)]
				bsLoader = nd.loader
				var bpl []int
				json.Unmarshal(op[2], &bpl)
				ids := make([]string, len(bpl))
				for i, b := range bpl {
					ids[i] = w.bpids[b]
				}
				o := c08Obs{Op: "G", Node: geti(1), NeedReorg: -1, RootNo: -1, Res: "gc"}
				nd.st.Lock()
				nd.st.load()
				nd.st.libState.gc(ids)
				nd.st.Unlock()
				w.observe(nd, &o)
				obs = append(obs, o)
			}
		}
		line, _ := json.Marshal(map[string]interface{}{"obs": obs})
		wr.Write(line)
		wr.WriteString("\n")
	}
}

//go:build verif

package chain

// Probe: are the in-memory system parameters reloaded when a reorganisation rolls back?
import (
	"context"
	"fmt"
	"math/big"
	"testing"

	"github.com/aergoio/aergo/v2/account/key"
	keycrypto "github.com/aergoio/aergo/v2/account/key/crypto"
	"github.com/aergoio/aergo/v2/config"
	"github.com/aergoio/aergo/v2/contract"
	"github.com/aergoio/aergo/v2/contract/system"
	"github.com/aergoio/aergo/v2/internal/common"
	"github.com/aergoio/aergo/v2/state"
	"github.com/aergoio/aergo/v2/types"
	"github.com/btcsuite/btcd/btcec/v2"
)

type ppAcct struct {
	k    *btcec.PrivateKey
	addr []byte
}

func ppNew() *ppAcct {
	k, _ := btcec.NewPrivateKey()
	return &ppAcct{k, keycrypto.GenerateAddress(k.PubKey().ToECDSA())}
}

// consensus stub doing what dpos.Status.Update does with the parameters
type ppCons struct {
	StubConsensus
	best *types.Block
}

func (c *ppCons) Update(b *types.Block) {
	if c.best != nil && c.best.ID() == b.PrevID() {
		system.CommitParams(true)
	} else {
		system.CommitParams(false)
	}
	c.best = b
}

func ppProduce(cs *ChainService, prev *types.Block, ts int64, txs []*types.Tx) *types.Block {
	bi := types.NewBlockHeaderInfoFromPrevBlock(prev, ts, cs.cfg.Hardfork)
	bs := cs.sdb.NewBlockState(prev.GetHeader().GetBlocksRootHash(), state.SetPrevBlockHash(prev.BlockHash()))
	bs.SetGasPrice(system.GetGasPrice())
	bs.Receipts().SetHardFork(cs.cfg.Hardfork, bi.No)
	exec := NewTxExecutor(context.Background(), nil, cs.cdb, bi, contract.BlockFactory)
	for _, tx := range txs {
		if err := exec(bs, types.NewTransaction(tx)); err != nil {
			panic(fmt.Sprintf("produce: %v", err))
		}
	}
	if err := bs.Update(); err != nil {
		panic(err)
	}
	if err := bs.Commit(); err != nil {
		panic(err)
	}
	b := types.NewBlock(bi, bs.GetRoot(), bs.Receipts(), txs, nil, nil)
	b.BlockHash()
	return b
}

func TestVerifC08ParamProbe(t *testing.T) {
	serverCtx := config.NewServerContext("", "")
	testCfg = serverCtx.GetDefaultConfig().(*config.Config)
	testCfg.DbType = "memorydb"
	testCfg.DataDir = t.TempDir()
	testCfg.EnableTestmode = true
	dfltUseMempool = false
	cs := NewChainService(testCfg)
	types.InitGovernance("dpos", false)
	g, _ := cs.getBlockByNo(0)
	cons := &ppCons{best: g}
	cs.SetChainConsensus(cons)
	a, b := ppNew(), ppNew()
	cid := g.GetHeader().GetChainID()
	gov := func(from *ppAcct, nonce uint64, amt *big.Int, payload string, cidh []byte) *types.Tx {
		tx := &types.Tx{Body: &types.TxBody{Nonce: nonce, Account: from.addr, Recipient: []byte(types.AergoSystem),
			Amount: amt.Bytes(), Payload: []byte(payload), Type: types.TxType_GOVERNANCE, ChainIdHash: cidh}}
		key.SignTx(tx, from.k)
		return tx
	}
	bi1 := types.NewBlockHeaderInfoFromPrevBlock(g, 1, cs.cfg.Hardfork)
	cidh := common.Hasher(bi1.ChainId)
	_ = cid
	min0 := new(big.Int).Set(system.GetStakingMinimum())
	fmt.Println("PP staking minimum at start:", min0)
	// side branch first (its producer never saw the other branch): B1 stakes exactly the old minimum
	B1 := ppProduce(cs, g, 2001, []*types.Tx{gov(b, 1, min0, `{"Name":"v1stake"}`, cidh)})
	B2 := ppProduce(cs, B1, 2002, nil)
	B3 := ppProduce(cs, B2, 2003, nil)
	// main branch: A1 stake by a, A2 DAO vote doubling STAKINGMIN
	A1 := ppProduce(cs, g, 1001, []*types.Tx{gov(a, 1, min0, `{"Name":"v1stake"}`, cidh)})
	fmt.Println("PP add A1:", cs.addBlock(A1, nil, testPeer))
	newMin := new(big.Int).Mul(min0, big.NewInt(2))
	A2 := ppProduce(cs, A1, 1002, []*types.Tx{gov(a, 2, big.NewInt(0),
		fmt.Sprintf(`{"Name":"v1voteDAO","Args":["STAKINGMIN","%s"]}`, newMin.String()), cidh)})
	fmt.Println("PP add A2:", cs.addBlock(A2, nil, testPeer))
	fmt.Println("PP staking minimum in memory after A2:", system.GetStakingMinimum())
	fmt.Println("PP add B1:", cs.addBlock(B1, nil, testPeer))
	fmt.Println("PP add B2:", cs.addBlock(B2, nil, testPeer))
	err := cs.addBlock(B3, nil, testPeer)
	fmt.Println("PP add B3 (longer branch, valid under the parameters of ITS branch):", err)
	best, _ := cs.GetBestBlock()
	fmt.Printf("PP best=%d isB3=%v staking minimum in memory=%v\n", best.BlockNo(), best.ID() == B3.ID(), system.GetStakingMinimum())
}

//go:build verif

package bp

// C15 engine for the BP election snapshots (consensus/impl/dpos/bp/cluster.go Snapshots): which
// producer list takes office is the top-BPCOUNT ranking of the state of the election reference
// block (height % 100 == 0) ON THE CURRENT BRANCH.  The engine drives the real Snapshots
// (AddSnapshot / UpdateCluster / NewSnapshots) over a real state DB whose system contract holds the
// real vote result (system.InitVoteResult / GetRankers), with a scripted chain: "connect" an
// election block with a given tally, "reorg" to a lower branch root (what dpos.Status.Update's
// rollback branch does: UpdateCluster(root)), "restart" (NewSnapshots on the same DBs).
// After every op it dumps the list in office on the live object, the list a freshly started node
// computes, and the rankers of every election block of the current branch.

import (
	"bufio"
	"encoding/json"
	"fmt"
	"math/big"
	"os"
	"sort"
	"testing"

	"github.com/aergoio/aergo-lib/db"
	"github.com/aergoio/aergo/v2/contract/system"
	"github.com/aergoio/aergo/v2/internal/enc/base58"
	"github.com/aergoio/aergo/v2/state"
	"github.com/aergoio/aergo/v2/state/statedb"
	"github.com/aergoio/aergo/v2/types"
)

type vbOp struct {
	Op    string           `json:"op"` // connect | reorg | restart
	No    uint64           `json:"no"`
	Tally map[string]int64 `json:"tally"` // connect: candidate name -> votes (the whole vote result of that block's state)
}

type vbScenario struct {
	BpCount int    `json:"bpcount"`
	Ops     []vbOp `json:"ops"`
}

type vbDump struct {
	Best      uint64              `json:"best"`
	Live      []string            `json:"live"`      // list in office on the running node
	Restarted []string            `json:"restarted"` // list a freshly started node installs
	Rankers   map[string][]string `json:"rankers"`   // election height -> GetRankers(state of that block on the current branch)
	Err       string              `json:"err,omitempty"`
}

type vbCM struct{ ids []string }

func (c *vbCM) Size() uint16 { return uint16(len(c.ids)) }
func (c *vbCM) Update(ids []string) error {
	c.ids = append([]string{}, ids...)
	return nil
}

// the chain DB view Snapshots needs: best block and block by number of the CURRENT branch
type vbCDB struct {
	roots map[uint64][]byte
	best  uint64
}

func (c *vbCDB) blk(no uint64) *types.Block {
	return &types.Block{Header: &types.BlockHeader{BlockNo: no, BlocksRootHash: c.roots[no]}, Body: &types.BlockBody{}}
}
func (c *vbCDB) GetBestBlock() (*types.Block, error) { return c.blk(c.best), nil }
func (c *vbCDB) GetBlockByNo(no types.BlockNo) (*types.Block, error) {
	if _, ok := c.roots[no]; !ok {
		return nil, fmt.Errorf("no block %d on this branch", no)
	}
	return c.blk(no), nil
}
func (c *vbCDB) GetHashByNo(no types.BlockNo) ([]byte, error) { return nil, nil }
func (c *vbCDB) GetBlock(hash []byte) (*types.Block, error)   { return nil, fmt.Errorf("unused") }
func (c *vbCDB) GetGenesisInfo() *types.Genesis               { return &types.Genesis{BPs: genesisBpList} }
func (c *vbCDB) Get(key []byte) []byte                        { return nil }
func (c *vbCDB) NewTx() db.Transaction                        { return nil }

func vbName(n string) string { // a 39-byte candidate id derived from the name, base58 as stored
	b := make([]byte, 39)
	copy(b, []byte("verif-bp-"+n))
	return base58.Encode(b)
}

func vbRun(sc *vbScenario) (dumps []*vbDump, fatal string) {
	defer func() {
		if r := recover(); r != nil {
			fatal = fmt.Sprint("engine panic: ", r)
		}
	}()
	dir, err := os.MkdirTemp(os.Getenv("VERIF_TMP"), "bp-node-")
	if err != nil {
		return nil, err.Error()
	}
	defer os.RemoveAll(dir)
	sdb := state.NewChainStateDB()
	sdb.Init(string(db.MemoryImpl), dir, nil, true, nil)
	defer sdb.Close()
	if err := sdb.SetGenesis(types.GetTestGenesis(), nil); err != nil {
		return nil, err.Error()
	}
	scs0, _ := statedb.GetSystemAccountState(sdb.GetStateDB())
	system.InitSystemParams(scs0, sc.BpCount)
	genesisBpList = []string{vbName("g1"), vbName("g2"), vbName("g3")}
	cdb := &vbCDB{roots: map[uint64][]byte{0: append([]byte{}, sdb.GetRoot()...)}}
	cm := &vbCM{}
	sn := NewSnapshots(cm, cdb, sdb)

	dump := func(errs string) *vbDump {
		d := &vbDump{Best: cdb.best, Live: append([]string{}, cm.ids...), Rankers: map[string][]string{}, Err: errs}
		fresh := &vbCM{}
		NewSnapshots(fresh, cdb, sdb)
		d.Restarted = fresh.ids
		hs := []uint64{}
		for h := range cdb.roots {
			if h != 0 && h%uint64(getElectionPeriod()) == 0 {
				hs = append(hs, h)
			}
		}
		sort.Slice(hs, func(i, j int) bool { return hs[i] < hs[j] })
		for _, h := range hs {
			st := sdb.OpenNewStateDB(cdb.roots[h])
			if scs, err := statedb.GetSystemAccountState(st); err == nil {
				if rk, err := system.GetRankers(scs); err == nil {
					d.Rankers[fmt.Sprint(h)] = rk
				}
			}
		}
		return d
	}
	dumps = append(dumps, dump(""))
	for i := range sc.Ops {
		op := &sc.Ops[i]
		errs := ""
		switch op.Op {
		case "connect":
			// the block's state: the vote result is the given tally
			bs := sdb.NewBlockState(sdb.GetRoot())
			scs, _ := statedb.GetSystemAccountState(bs.StateDB)
			res := map[string]*big.Int{}
			for n, v := range op.Tally {
				res[vbName(n)] = big.NewInt(v)
			}
			if err := system.InitVoteResult(scs, res); err != nil {
				errs = err.Error()
			}
			// a marker so that every block has its own state root
			scs.SetData([]byte("verif-height"), []byte(fmt.Sprint(op.No, "/", i)))
			statedb.StageContractState(scs, bs.StateDB)
			bs.Update()
			bs.Commit()
			sdb.UpdateRoot(bs)
			cdb.roots[op.No] = append([]byte{}, sdb.GetRoot()...)
			cdb.best = op.No
			// dpos.Status.Update, connect branch (status.go): s.bps.AddSnapshot(block.BlockNo())
			if _, err := sn.AddSnapshot(types.BlockNo(op.No)); err != nil {
				errs = err.Error()
			}
		case "reorg":
			// the chain goes back to branch root op.No: blocks above it leave the main chain, the state
			// DB stands on the root's state; dpos.Status.Update rollback branch: s.bps.UpdateCluster(no)
			for h := range cdb.roots {
				if h > op.No {
					delete(cdb.roots, h)
				}
			}
			cdb.best = op.No
			if err := sdb.SetRoot(cdb.roots[op.No]); err != nil {
				errs = err.Error()
			}
			sn.UpdateCluster(types.BlockNo(op.No))
		case "restart":
			cm = &vbCM{}
			sn = NewSnapshots(cm, cdb, sdb)
		}
		dumps = append(dumps, dump(errs))
	}
	return dumps, ""
}

func TestVerifBpEngine(t *testing.T) {
	in, err := os.Open(os.Getenv("VERIF_IN"))
	if err != nil {
		t.Skip("no VERIF_IN")
	}
	defer in.Close()
	out, _ := os.Create(os.Getenv("VERIF_OUT"))
	defer out.Close()
	w := bufio.NewWriter(out)
	defer w.Flush()
	scn := bufio.NewScanner(in)
	scn.Buffer(make([]byte, 1<<20), 1<<28)
	for scn.Scan() {
		var sc vbScenario
		res := map[string]interface{}{}
		if err := json.Unmarshal(scn.Bytes(), &sc); err != nil {
			res["fatal"] = err.Error()
		} else {
			dumps, fatal := vbRun(&sc)
			res["dumps"] = dumps
			if fatal != "" {
				res["fatal"] = fatal
			}
		}
		j, _ := json.Marshal(res)
		w.Write(j)
		w.WriteString("\n")
	}
}

//go:build verif

package system

// C15 / C02 engine (in-package, native build of contract/system).
//
// Reads one scenario per line from $VERIF_IN (JSON), drives the REAL governance code the way
// chain.executeTx/executeGovernanceTx does for a TxType_GOVERNANCE transaction (fresh sender /
// receiver AccountState copies and a freshly opened system ContractState per tx; PutState +
// StageContractState only on success; BlockState snapshot rolled back on error as
// chain.NewTxExecutor does), and after every operation
// dumps the implementation's own governance state to $VERIF_OUT (one JSON line per scenario).
//
// Block boundary ("block" op) = BlockState.Update + Commit + ChainStateDB.UpdateRoot +
// CommitParams(true) (what dpos Status.Update does when a block is connected).
// "ghost" = the same tx executed on a throw-away BlockState that is never connected (F12).
// "reload" = node restart: InitSystemParams + InitVotingPowerRank from the committed state.

import (
	"bufio"
	"bytes"
	"encoding/hex"
	"encoding/json"
	"fmt"
	"math/big"
	"math/rand"
	"os"
	"runtime/debug"
	"sort"
	"strings"
	"testing"

	"github.com/aergoio/aergo-lib/db"
	"github.com/aergoio/aergo/v2/internal/enc/base58"
	"github.com/aergoio/aergo/v2/state"
	"github.com/aergoio/aergo/v2/state/statedb"
	"github.com/aergoio/aergo/v2/types"
	"github.com/aergoio/aergo/v2/types/dbkey"
)

type vgAccount struct {
	Addr string `json:"addr"` // hex, 33 bytes
	Bal  string `json:"bal"`
}

type vgOp struct {
	Op    string   `json:"op"`
	Who   int      `json:"who"`
	Amt   string   `json:"amt"`
	Cands []string `json:"cands"` // hex peer ids (voteBP)
	ID    string   `json:"id"`    // voteDAO issue
	Val   []string `json:"val"`   // voteDAO candidates
	No    uint64   `json:"no"`    // block: number of the NEXT block
	Ghost bool     `json:"ghost"`
	Ver   int32    `json:"ver"` // block: hardfork version from this block on (0 = unchanged)
}

type vgScenario struct {
	Ver      int32       `json:"ver"`
	BpCount  int         `json:"bpcount"`
	StartNo  uint64      `json:"start"`
	Accounts []vgAccount `json:"accounts"`
	Ops      []vgOp      `json:"ops"`
	Twins    []string    `json:"twins"` // optional: F10 probe, hex candidates with equal votes
}

type vgVote struct {
	Present bool     `json:"p"`
	Cands   []string `json:"c"`
	Amount  string   `json:"a"`
}

type vgAcc struct {
	Bal     string   `json:"bal"`
	Present bool     `json:"sp"`
	Stake   string   `json:"sa"`
	When    uint64   `json:"sw"`
	Votes   []vgVote `json:"v"`
}

type vgVP struct {
	ID    string `json:"id"`
	Addr  string `json:"addr"`
	Power string `json:"pw"`
}

type vgBucket struct {
	Idx int    `json:"i"`
	L   []vgVP `json:"l"`
}

type vgVpr struct {
	Total       string     `json:"total"`
	Buckets     []vgBucket `json:"b"`
	Powers      []vgVP     `json:"p"`
	Changes     []vgVP     `json:"ch"`
	Tree        []vgVP     `json:"tree"`
	Lowest      string     `json:"low"`
	TreeCorrupt string     `json:"treecorrupt,omitempty"`
}

type vgResult struct {
	List  [][2]string `json:"l"` // (hex candidate, amount)
	Total string      `json:"t"`
}

// one draw of the voting reward winner: seed, the random number the real function derives from it
// (math/rand source seeded with it, as vprt.go does), and the winner address (hex) or the error
type vgPick struct {
	Seed   int64  `json:"seed"`
	R      string `json:"r"`
	Winner string `json:"w"`
	Err    string `json:"err"`
}

type vgDump struct {
	Err         string     `json:"err"`
	Panic       string     `json:"panic,omitempty"`
	Accs        []vgAcc    `json:"accs"`
	SysBal      string     `json:"sysbal"`
	Total       string     `json:"total"`
	Results     []vgResult `json:"res"`
	ParamCur    []string   `json:"pcur"`
	ParamNext   []string   `json:"pnext"`
	ParamDB     []string   `json:"pdb"`
	Mem         *vgVpr     `json:"mem"`
	Reload      *vgVpr     `json:"reload"`
	Rankers     []string   `json:"rankers"` // GetRankers: hex candidates
	Picks       []vgPick   `json:"picks"`   // PickVotingRewardWinner for fixed seeds
	Equals      bool       `json:"equals"`
	EqualsPanic string     `json:"equalspanic,omitempty"`
	Event       string     `json:"ev"`
}

func vgErrClass(err error) string {
	if err == nil {
		return "ok"
	}
	switch err {
	case types.ErrInsufficientBalance:
		return "insufficient"
	case types.ErrLessTimeHasPassed:
		return "lesstime"
	case types.ErrTooSmallAmount:
		return "toosmall"
	case types.ErrMustStakeBeforeVote:
		return "muststakevote"
	case types.ErrMustStakeBeforeUnstake:
		return "muststakeunstake"
	case types.ErrExceedAmount:
		return "exceed"
	case types.ErrTxInvalidPayload:
		return "payload"
	}
	s := err.Error()
	switch {
	case strings.HasPrefix(s, "too many candidates"):
		return "toomany"
	case strings.HasPrefix(s, "include invalid"):
		return "invalidcand"
	case strings.HasPrefix(s, "not supported operation"):
		return "notsupported"
	case strings.Contains(s, "invalid id"):
		return "invalidid"
	case strings.HasPrefix(s, "abnormal winner"):
		// VoteResult.Sync could not parse the winning candidate: the tx fails AFTER vpr.apply
		return "abnormal"
	case strings.HasPrefix(s, "the number of args less"):
		return "toofew"
	}
	return "other:" + s
}

type vgEnv struct {
	cdb   *state.ChainStateDB
	bs    *state.BlockState
	addrs [][]byte
	no    uint64
	ver   int32
}

func vgDumpVpr(v *vpr) *vgVpr {
	if v == nil {
		return nil
	}
	r := &vgVpr{Total: v.totalPower.String()}
	for i := 0; i < vprBucketsMax; i++ {
		l := v.store.buckets[uint8(i)]
		if l == nil || l.Len() == 0 {
			continue
		}
		b := vgBucket{Idx: i}
		for e := l.Front(); e != nil; e = e.Next() {
			vp := toVotingPower(e)
			b.L = append(b.L, vgVP{ID: hex.EncodeToString(vp.idBytes()), Addr: hex.EncodeToString(vp.getAddr()), Power: vp.getPower().String()})
		}
		r.Buckets = append(r.Buckets, b)
	}
	for id, vp := range v.voters.powers {
		r.Powers = append(r.Powers, vgVP{ID: hex.EncodeToString(id[:]), Addr: hex.EncodeToString(vp.getAddr()), Power: vp.getPower().String()})
	}
	sort.Slice(r.Powers, func(i, j int) bool { return r.Powers[i].ID < r.Powers[j].ID })
	for id, d := range v.changes {
		r.Changes = append(r.Changes, vgVP{ID: hex.EncodeToString(id[:]), Addr: hex.EncodeToString(d.getAddr()), Power: d.getAmount().String()})
	}
	sort.Slice(r.Changes, func(i, j int) bool { return r.Changes[i].ID < r.Changes[j].ID })
	func() {
		// Tree.Keys() indexes a slice of Size() elements while iterating the nodes: it panics
		// when the tree holds more nodes than its size field (stale node left behind by
		// topVoters.update after addVotingPower changed the key's power in place).
		defer func() {
			if rec := recover(); rec != nil {
				r.Tree = nil
				r.TreeCorrupt = fmt.Sprint(rec)
			}
		}()
		for _, k := range v.voters.members.Keys() {
			vp := k.(*votingPower)
			r.Tree = append(r.Tree, vgVP{ID: hex.EncodeToString(vp.idBytes()), Power: vp.getPower().String()})
		}
	}()
	if v.lowest != nil {
		r.Lowest = hex.EncodeToString(v.lowest.idBytes()) + ":" + v.lowest.getPower().String()
	}
	return r
}

var vgIssueKeys = func() [][]byte {
	var r [][]byte
	for _, i := range GetVotingCatalog() {
		r = append(r, i.Key())
	}
	return r
}

func (e *vgEnv) dump(errc string) *vgDump {
	d := &vgDump{Err: errc}
	scs, err := statedb.GetSystemAccountState(e.bs.StateDB)
	if err != nil {
		d.Panic = "open scs: " + err.Error()
		return d
	}
	keys := vgIssueKeys()
	for _, a := range e.addrs {
		as, _ := state.GetAccountState(a, e.bs.StateDB)
		acc := vgAcc{Bal: as.Balance().String()}
		raw, _ := scs.GetData(dbkey.SystemStaking(a))
		acc.Present = len(raw) != 0
		st, _ := getStaking(scs, a)
		acc.Stake = st.GetAmountBigInt().String()
		acc.When = st.GetWhen()
		for _, k := range keys {
			v, _ := getVote(scs, k, a)
			vv := vgVote{Present: v.Amount != nil, Amount: new(big.Int).SetBytes(v.Amount).String()}
			if bytes.Equal(k, defaultVoteKey) {
				for off := 0; off+PeerIDLength <= len(v.Candidate); off += PeerIDLength {
					vv.Cands = append(vv.Cands, hex.EncodeToString(v.Candidate[off:off+PeerIDLength]))
				}
			} else if len(v.Candidate) > 0 {
				var args []string
				if err := json.Unmarshal(v.Candidate, &args); err == nil {
					for _, s := range args {
						vv.Cands = append(vv.Cands, hex.EncodeToString([]byte(s)))
					}
				}
			}
			acc.Votes = append(acc.Votes, vv)
		}
		d.Accs = append(d.Accs, acc)
	}
	sys, _ := state.GetAccountState([]byte(types.AergoSystem), e.bs.StateDB)
	d.SysBal = sys.Balance().String()
	tot, _ := getStakingTotal(scs)
	d.Total = tot.String()
	for _, k := range keys {
		vl, _ := getVoteResult(scs, k, 1<<30)
		r := vgResult{}
		for _, v := range vl.Votes {
			r.List = append(r.List, [2]string{hex.EncodeToString(v.Candidate), new(big.Int).SetBytes(v.Amount).String()})
		}
		t, _ := scs.GetData(dbkey.SystemVoteTotal(k))
		r.Total = new(big.Int).SetBytes(t).String()
		d.Results = append(d.Results, r)
	}
	for i := sysParamIndex(0); i < sysParamMax; i++ {
		id := i.ID()
		d.ParamCur = append(d.ParamCur, GetParam(id).String())
		if n := systemParams.getNextBlockParam(id); n != nil {
			d.ParamNext = append(d.ParamNext, n.String())
		} else {
			d.ParamNext = append(d.ParamNext, "")
		}
		raw, _ := scs.GetData(dbkey.SystemParam(id))
		if raw != nil {
			d.ParamDB = append(d.ParamDB, new(big.Int).SetBytes(raw).String())
		} else {
			d.ParamDB = append(d.ParamDB, "")
		}
	}
	if rk, err := GetRankers(scs); err == nil {
		for _, b58 := range rk {
			raw, _ := base58.Decode(b58)
			d.Rankers = append(d.Rankers, hex.EncodeToString(raw))
		}
	}
	for _, seed := range []int64{1, 2, 3, 4, 5, 6, 7, 8, 9, 10, 11, 123456789, -5, 86400} {
		p := vgPick{Seed: seed}
		if votingPowerRank != nil && votingPowerRank.getTotalPower().Sign() > 0 {
			p.R = new(big.Int).Rand(rand.New(rand.NewSource(seed)), votingPowerRank.getTotalPower()).String()
		}
		w, err := PickVotingRewardWinner(seed)
		if err != nil {
			p.Err = err.Error()
		} else {
			p.Winner = hex.EncodeToString(w)
		}
		d.Picks = append(d.Picks, p)
	}
	d.Mem = vgDumpVpr(votingPowerRank)
	rl, err := loadVpr(scs)
	if err == nil {
		d.Reload = vgDumpVpr(rl)
		func() {
			defer func() {
				if rec := recover(); rec != nil {
					d.EqualsPanic = fmt.Sprint(rec)
				}
			}()
			d.Equals = votingPowerRank.equals(rl)
		}()
	}
	return d
}

// one governance transaction, executed like chain.executeTx does (see file comment)
func (e *vgEnv) execOn(bs *state.BlockState, op *vgOp) (errc string, ev string, pan string) {
	// chain.NewTxExecutor: snapshot the block state, roll it back when the tx fails (the
	// system ContractState shares its storage buffer with the state DB cache once staged)
	snap := bs.Snapshot()
	defer func() {
		if r := recover(); r != nil {
			pan = fmt.Sprint(r)
			errc = "panic"
		}
		if errc != "ok" {
			bs.Rollback(snap)
		}
	}()
	acc := e.addrs[op.Who]
	sender, err := state.GetAccountState(acc, bs.StateDB)
	if err != nil {
		return "other:" + err.Error(), "", ""
	}
	receiver, err := state.GetAccountState([]byte(types.AergoSystem), bs.StateDB)
	if err != nil {
		return "other:" + err.Error(), "", ""
	}
	scs, err := statedb.OpenContractState(receiver.IDNoPadding(), receiver.State(), bs.StateDB)
	if err != nil {
		return "other:" + err.Error(), "", ""
	}
	body := &types.TxBody{Account: acc, Recipient: []byte(types.AergoSystem), Type: types.TxType_GOVERNANCE}
	amt, _ := new(big.Int).SetString(op.Amt, 10)
	if amt == nil {
		amt = new(big.Int)
	}
	body.Amount = amt.Bytes()
	switch op.Op {
	case "stake":
		body.Payload = []byte(`{"Name":"v1stake"}`)
	case "unstake":
		body.Payload = []byte(`{"Name":"v1unstake"}`)
	case "votebp":
		args := []string{}
		for _, c := range op.Cands {
			b, _ := hex.DecodeString(c)
			args = append(args, base58.Encode(b))
		}
		j, _ := json.Marshal(args)
		body.Payload = []byte(`{"Name":"v1voteBP","Args":` + string(j) + `}`)
	case "votedao":
		args := append([]string{op.ID}, op.Val...)
		j, _ := json.Marshal(args)
		body.Payload = []byte(`{"Name":"v1voteDAO","Args":` + string(j) + `}`)
	}
	bi := &types.BlockHeaderInfo{No: e.no, ForkVersion: e.ver}
	events, err := ExecuteSystemTx(scs, body, sender, receiver, bi)
	if err != nil {
		return vgErrClass(err), "", ""
	}
	if err = statedb.StageContractState(scs, bs.StateDB); err != nil {
		return "other:" + err.Error(), "", ""
	}
	sender.PutState()
	receiver.PutState()
	if len(events) > 0 {
		ev = events[0].EventName + " " + events[0].JsonArgs
	}
	return "ok", ev, ""
}

func (e *vgEnv) commit(next uint64) error {
	if err := e.bs.Update(); err != nil {
		return err
	}
	if err := e.bs.Commit(); err != nil {
		return err
	}
	if err := e.cdb.UpdateRoot(e.bs); err != nil {
		return err
	}
	CommitParams(true)
	e.bs = e.cdb.NewBlockState(e.cdb.GetRoot())
	e.no = next
	return nil
}

func vgRunScenario(sc *vgScenario) (dumps []*vgDump, fatal string) {
	defer func() {
		if r := recover(); r != nil {
			fatal = fmt.Sprint("engine panic: ", r, string(debug.Stack()))
		}
	}()
	// aergo-lib memorydb loads <dir>/database on open and writes it on Close: every scenario
	// gets its own scratch directory
	dir, derr := os.MkdirTemp(os.Getenv("VERIF_TMP"), "gov-node-")
	if derr != nil {
		return nil, derr.Error()
	}
	defer os.RemoveAll(dir)
	c := state.NewChainStateDB()
	c.Init(string(db.MemoryImpl), dir, nil, true, nil)
	defer c.Close()
	genesis := types.GetTestGenesis()
	if err := c.SetGenesis(genesis, nil); err != nil {
		return nil, err.Error()
	}
	e := &vgEnv{cdb: c, ver: sc.Ver, no: sc.StartNo}
	e.bs = c.NewBlockState(c.GetRoot())
	// reset package globals (params are process-wide)
	delete(DefaultParams, bpCount.ID())
	systemParams = &parameters{params: map[string]*big.Int{}}
	scs, _ := statedb.GetSystemAccountState(e.bs.StateDB)
	InitSystemParams(scs, sc.BpCount)
	InitVotingPowerRank(scs)
	for _, a := range sc.Accounts {
		addr, _ := hex.DecodeString(a.Addr)
		e.addrs = append(e.addrs, addr)
		as, _ := state.GetAccountState(addr, e.bs.StateDB)
		b, _ := new(big.Int).SetString(a.Bal, 10)
		as.AddBalance(b)
		as.PutState()
	}
	if err := e.commit(sc.StartNo); err != nil {
		return nil, err.Error()
	}
	dumps = append(dumps, e.dump("init"))
	for i := range sc.Ops {
		op := &sc.Ops[i]
		switch op.Op {
		case "block":
			if err := e.commit(op.No); err != nil {
				return dumps, err.Error()
			}
			if op.Ver != 0 { // the chain crosses a hardfork height: BlockHeaderInfo.ForkVersion of the following blocks
				e.ver = op.Ver
			}
			dumps = append(dumps, e.dump("ok"))
		case "reload":
			s, _ := statedb.GetSystemAccountState(e.bs.StateDB)
			InitSystemParams(s, RESET)
			InitVotingPowerRank(s)
			dumps = append(dumps, e.dump("ok"))
		default:
			var errc, ev, pan string
			if op.Ghost {
				ghost := e.cdb.NewBlockState(e.cdb.GetRoot())
				errc, ev, pan = e.execOn(ghost, op)
				// what a producer does with a block it could not connect: nothing is committed,
				// the pending next-block params are discarded by the next Status.Update
			} else {
				errc, ev, pan = e.execOn(e.bs, op)
			}
			d := e.dump(errc)
			d.Event = ev
			d.Panic = pan
			dumps = append(dumps, d)
		}
	}
	return dumps, ""
}

// F10 probe: a vote map in which all the given candidates have equal votes; the ranking is
// computed `rounds` times from maps built in different insertion orders.
func vgTwinOrders(twins []string, rounds int) []string {
	seen := map[string]bool{}
	var orders []string
	for r := 0; r < rounds; r++ {
		m := map[string]*big.Int{}
		for k := range twins {
			b, _ := hex.DecodeString(twins[(k+r)%len(twins)])
			m[base58.Encode(b)] = big.NewInt(1000)
		}
		o := strings.Join(BuildOrderedCandidates(m), ",")
		if !seen[o] {
			seen[o] = true
			orders = append(orders, o)
		}
	}
	sort.Strings(orders)
	return orders
}

func TestVerifGovEngine(t *testing.T) {
	in, err := os.Open(os.Getenv("VERIF_IN"))
	if err != nil {
		t.Skip("no VERIF_IN")
	}
	defer in.Close()
	out, _ := os.Create(os.Getenv("VERIF_OUT"))
	defer out.Close()
	w := bufio.NewWriter(out)
	defer w.Flush()
	scn := bufio.NewScanner(in)
	scn.Buffer(make([]byte, 1<<20), 1<<28)
	for scn.Scan() {
		var sc vgScenario
		if err := json.Unmarshal(scn.Bytes(), &sc); err != nil {
			fmt.Fprintf(w, "{\"fatal\":%q}\n", err.Error())
			continue
		}
		res := map[string]interface{}{}
		if len(sc.Twins) > 0 {
			res["twin_orders"] = vgTwinOrders(sc.Twins, 64)
			// the comparator itself, both directions, on the first two candidates
			a, _ := hex.DecodeString(sc.Twins[0])
			b, _ := hex.DecodeString(sc.Twins[1])
			vl := types.VoteList{Votes: []*types.Vote{{Candidate: a, Amount: []byte{1}}, {Candidate: b, Amount: []byte{1}}}}
			res["less01"] = vl.Less(0, 1)
			res["less10"] = vl.Less(1, 0)
		}
		dumps, fatal := vgRunScenario(&sc)
		res["dumps"] = dumps
		if fatal != "" {
			res["fatal"] = fatal
		}
		j, _ := json.Marshal(res)
		w.Write(j)
		w.WriteString("\n")
	}
}

//go:build verif

package name

// C15 engine for the name registry (in-package, native build of contract/name).
// One scenario per line of $VERIF_IN; every operation is executed by the REAL
// ExecuteNameTx the way chain.executeTx/executeGovernanceTx runs a governance tx (fresh
// sender / receiver copies and a freshly opened aergo.name ContractState per tx; PutState +
// StageContractState only on success).  After every operation the registry and the
// balances are dumped through the package's own getters.

import (
	"bufio"
	"encoding/hex"
	"encoding/json"
	"fmt"
	"math/big"
	"os"
	"strings"
	"testing"

	"github.com/aergoio/aergo-lib/db"
	"github.com/aergoio/aergo/v2/contract/system"
	"github.com/aergoio/aergo/v2/state"
	"github.com/aergoio/aergo/v2/state/statedb"
	"github.com/aergoio/aergo/v2/types"
)

type vnOp struct {
	Op      string `json:"op"` // create | update | block
	Sender  int    `json:"sender"`
	Account string `json:"account"` // "" = sender's address, otherwise the raw account string (a name)
	Name    string `json:"name"`
	Dest    int    `json:"dest"`
	Amt     string `json:"amt"`
}

type vnScenario struct {
	Ver      int32    `json:"ver"`
	Accounts []string `json:"accounts"` // hex addresses
	Bal      string   `json:"bal"`
	Names    []string `json:"names"` // lower-cased spellings to dump
	Ops      []vnOp   `json:"ops"`
}

type vnName struct {
	Owner string `json:"o"`
	Dest  string `json:"d"`
}

type vnDump struct {
	Err     string    `json:"err"`
	Panic   string    `json:"panic,omitempty"`
	Bals    []string  `json:"bals"`
	NameBal string    `json:"namebal"`
	Names   []*vnName `json:"names"`
	Price   string    `json:"price"`
}

func vnErrClass(err error) string {
	if err == nil {
		return "ok"
	}
	switch err {
	case types.ErrInsufficientBalance:
		return "insufficient"
	case types.ErrTooSmallAmount:
		return "toosmall"
	}
	s := err.Error()
	switch {
	case strings.HasPrefix(s, "aleady occupied"):
		return "occupied"
	case strings.HasPrefix(s, "owner not matched"):
		return "notowner"
	case strings.HasSuffix(s, "is not created yet"):
		return "notcreated"
	}
	return "other:" + s
}

func vnRun(sc *vnScenario) (dumps []*vnDump, fatal string) {
	defer func() {
		if r := recover(); r != nil {
			fatal = fmt.Sprint("engine panic: ", r)
		}
	}()
	dir, derr := os.MkdirTemp(os.Getenv("VERIF_TMP"), "name-node-")
	if derr != nil {
		return nil, derr.Error()
	}
	defer os.RemoveAll(dir)
	c := state.NewChainStateDB()
	c.Init(string(db.MemoryImpl), dir, nil, true, nil)
	defer c.Close()
	if err := c.SetGenesis(types.GetTestGenesis(), nil); err != nil {
		return nil, err.Error()
	}
	bs := c.NewBlockState(c.GetRoot())
	sscs, _ := statedb.GetSystemAccountState(bs.StateDB)
	system.InitSystemParams(sscs, 3)
	var addrs [][]byte
	for _, a := range sc.Accounts {
		b, _ := hex.DecodeString(a)
		addrs = append(addrs, b)
		as, _ := state.GetAccountState(b, bs.StateDB)
		v, _ := new(big.Int).SetString(sc.Bal, 10)
		as.SubBalance(as.Balance())
		as.AddBalance(v)
		as.PutState()
	}
	commit := func() {
		bs.Update()
		bs.Commit()
		c.UpdateRoot(bs)
		bs = c.NewBlockState(c.GetRoot())
	}
	commit()
	dump := func(errc, pan string) *vnDump {
		d := &vnDump{Err: errc, Panic: pan, Price: system.GetNamePrice().String()}
		for _, a := range addrs {
			as, _ := state.GetAccountState(a, bs.StateDB)
			d.Bals = append(d.Bals, as.Balance().String())
		}
		ns, _ := state.GetAccountState([]byte(types.AergoName), bs.StateDB)
		d.NameBal = ns.Balance().String()
		scs, _ := statedb.OpenContractState(ns.IDNoPadding(), ns.State(), bs.StateDB)
		for _, n := range sc.Names {
			// staged view (what ValidateNameTx reads)
			nm := getNameMap(scs, []byte(n), false)
			if nm == nil {
				d.Names = append(d.Names, nil)
			} else {
				d.Names = append(d.Names, &vnName{Owner: hex.EncodeToString(nm.Owner), Dest: hex.EncodeToString(nm.Destination)})
			}
		}
		return d
	}
	dumps = append(dumps, dump("init", ""))
	for i := range sc.Ops {
		op := &sc.Ops[i]
		if op.Op == "block" {
			commit()
			dumps = append(dumps, dump("ok", ""))
			continue
		}
		errc, pan := func() (errc string, pan string) {
			snap := bs.Snapshot() // chain.NewTxExecutor: roll the block state back when the tx fails
			defer func() {
				if r := recover(); r != nil {
					errc, pan = "panic", fmt.Sprint(r)
				}
				if errc != "ok" {
					bs.Rollback(snap)
				}
			}()
			sender, _ := state.GetAccountState(addrs[op.Sender], bs.StateDB)
			receiver, _ := state.GetAccountState([]byte(types.AergoName), bs.StateDB)
			scs, err := statedb.OpenContractState(receiver.IDNoPadding(), receiver.State(), bs.StateDB)
			if err != nil {
				return "other:" + err.Error(), ""
			}
			amt, _ := new(big.Int).SetString(op.Amt, 10)
			body := &types.TxBody{Account: addrs[op.Sender], Recipient: []byte(types.AergoName), Amount: amt.Bytes(), Type: types.TxType_GOVERNANCE}
			if op.Account != "" {
				body.Account = []byte(op.Account)
			}
			switch op.Op {
			case "create":
				j, _ := json.Marshal([]string{op.Name})
				body.Payload = []byte(`{"Name":"v1createName","Args":` + string(j) + `}`)
			case "update":
				j, _ := json.Marshal([]string{op.Name, types.EncodeAddress(addrs[op.Dest])})
				body.Payload = []byte(`{"Name":"v1updateName","Args":` + string(j) + `}`)
			}
			_, err = ExecuteNameTx(bs, scs, body, sender, receiver, &types.BlockHeaderInfo{No: 1, ForkVersion: sc.Ver})
			if err != nil {
				return vnErrClass(err), ""
			}
			if err = statedb.StageContractState(scs, bs.StateDB); err != nil {
				return "other:" + err.Error(), ""
			}
			sender.PutState()
			receiver.PutState()
			return "ok", ""
		}()
		dumps = append(dumps, dump(errc, pan))
	}
	return dumps, ""
}

func TestVerifNameEngine(t *testing.T) {
	in, err := os.Open(os.Getenv("VERIF_IN"))
	if err != nil {
		t.Skip("no VERIF_IN")
	}
	defer in.Close()
	out, _ := os.Create(os.Getenv("VERIF_OUT"))
	defer out.Close()
	w := bufio.NewWriter(out)
	defer w.Flush()
	scn := bufio.NewScanner(in)
	scn.Buffer(make([]byte, 1<<20), 1<<28)
	for scn.Scan() {
		var sc vnScenario
		res := map[string]interface{}{}
		if err := json.Unmarshal(scn.Bytes(), &sc); err != nil {
			res["fatal"] = err.Error()
		} else {
			dumps, fatal := vnRun(&sc)
			res["dumps"] = dumps
			if fatal != "" {
				res["fatal"] = fatal
			}
		}
		j, _ := json.Marshal(res)
		w.Write(j)
		w.WriteString("\n")
	}
}

//go:build verif

package chain

// Ledger engine shared by C01 / C03 / C04.  In-package test binary of package chain (built
// through the cgo-free overlay): the real NewTxExecutor/executeTx, contract.Execute, state,
// statedb, system, name, fee, key packages over in-memory DBs.  Reads one JSON case per line
// from $VERIF_IN, writes one JSON observation per line to $VERIF_OUT.
//
// ids used in cases (shared with the Coq model):
//   1 aergo.system  2 aergo.name  3 aergo.vault  4 aergo.enterprise
//   10+i   user account i (deterministic secp256k1 key)
//   100+j  contract created by a deploy tx (announced by the tx's "cid")
//   200+k  12-character name k

import (
	"bufio"
	"bytes"
	"context"
	"crypto/sha256"
	"encoding/binary"
	"encoding/json"
	"errors"
	"fmt"
	"math/big"
	"os"
	"sort"
	"testing"
	"time"

	"github.com/aergoio/aergo/v2/account/key"
	keycrypto "github.com/aergoio/aergo/v2/account/key/crypto"
	"github.com/aergoio/aergo/v2/config"
	"github.com/aergoio/aergo/v2/contract"
	"github.com/aergoio/aergo/v2/contract/name"
	"github.com/aergoio/aergo/v2/contract/system"
	"github.com/aergoio/aergo/v2/fee"
	"github.com/aergoio/aergo/v2/internal/common"
	"github.com/aergoio/aergo/v2/state"
	"github.com/aergoio/aergo/v2/state/statedb"
	"github.com/aergoio/aergo/v2/types"
	"github.com/aergoio/aergo/v2/types/dbkey"
	"github.com/btcsuite/btcd/btcec/v2"
)

type vlVM struct {
	Res       string     `json:"res"` // ok | rt | sys
	Fee       string     `json:"fee"`
	Transfers [][]string `json:"transfers"` // [to id, amount]
	Writes    [][]int64  `json:"writes"`    // [key, value]
}

type vlTx struct {
	Kind       string `json:"kind"` // transfer normal call deploy feedeleg stake unstake namecreate nameupdate setowner
	From       int    `json:"from"`
	To         int    `json:"to"`
	Nonce      uint64 `json:"nonce"`
	Amount     string `json:"amount"`
	PayloadLen int    `json:"plen"`
	GasLimit   uint64 `json:"gaslimit"`
	Signer     int    `json:"signer"`
	ChainOK    bool   `json:"chainok"`
	ReplayOf   int    `json:"replayof"` // index+1 of an earlier tx of the case (global index); 0 = none
	Name       int    `json:"name"`
	Dest       int    `json:"dest"`
	Cid        int    `json:"cid"`
	Force      bool   `json:"force"` // chain mode: keep the tx in the block body even if the executor rejects it
	FdDeny     bool   `json:"fddeny"`
	SigForeign bool   `json:"sigforeign"` // signed for ANOTHER chain id, then ChainIdHash rewritten to the local one and the hash recomputed
	VM         *vlVM  `json:"vm"`
}

type vlBlock struct {
	No        uint64 `json:"no"`        // exec mode: block number (0 = previous+1)
	Validator bool   `json:"validator"` // exec mode: abort at the first failing tx (validator rule)
	Txs       []vlTx `json:"txs"`
	Deliver   string `json:"deliver"` // chain mode: "" = from the network (no block state); "own" = with the block state the block
	// was produced from (block factory / raft commit path); "foreign" = with a block state that disagrees with the header
	CidMut    string `json:"cidmut"` // chain mode: the block header (and its txs) name a chain id differing in this field
}

type vlCase struct {
	ID       int         `json:"id"`
	Mode     string      `json:"mode"` // exec | chain
	Version  int32       `json:"version"`
	ZeroFee  bool        `json:"zerofee"`
	GasPrice string      `json:"gasprice"`
	Coinbase int         `json:"coinbase"` // id, 0 = none
	Fund     [][]string  `json:"fund"`     // [id, amount]
	Ids      []int       `json:"ids"`      // ids to dump
	Names    []int       `json:"names"`    // name ids to dump
	CKeys    [][]int64   `json:"ckeys"`    // [cid, key] storage cells to dump
	Blocks   []vlBlock   `json:"blocks"`
	Cids     map[string][]int64 `json:"cids"` // cid -> [creator id, nonce]
	Workers  int         `json:"workers"`          // chain mode: number of signature verifier workers (0 = default)
}

type vlEnv struct {
	cs     *ChainService
	keys   map[int]*btcec.PrivateKey
	addrs  map[int][]byte
	rev    map[string]int
	gcid   []byte
	c      *vlCase
	allTxs []*types.Tx
}

func vlBig(s string) *big.Int {
	if s == "" {
		return new(big.Int)
	}
	b, ok := new(big.Int).SetString(s, 10)
	if !ok {
		panic("bad number " + s)
	}
	return b
}

var vlDataDir string
var vlChainCount int

var vlWorkers int

func vlMakeChain() *ChainService {
	serverCtx := config.NewServerContext("", "")
	testCfg = serverCtx.GetDefaultConfig().(*config.Config)
	testCfg.DbType = "memorydb"
	// memorydb loads <dir>/database when it exists and writes it on Close: one empty directory per chain
	vlChainCount++
	testCfg.DataDir = fmt.Sprintf("%s/chain%d", vlDataDir, vlChainCount)
	os.MkdirAll(testCfg.DataDir, 0o755)
	if vlWorkers > 0 {
		testCfg.Blockchain.VerifierCount = vlWorkers
	}
	testCfg.UseTestnet = true
	dfltUseMempool = false
	cs := NewChainService(testCfg)
	cs.SetChainConsensus(&StubConsensus{})
	types.InitGovernance("dpos", false)
	return cs
}

func vlName(k int) string { return fmt.Sprintf("verifname%03d", k) }

func (e *vlEnv) addr(id int) []byte {
	if a, ok := e.addrs[id]; ok {
		return a
	}
	var a []byte
	switch {
	case id == 0:
		a = nil
	case id == 1:
		a = []byte(types.AergoSystem)
	case id == 2:
		a = []byte(types.AergoName)
	case id == 3:
		a = []byte(types.AergoVault)
	case id == 4:
		a = []byte(types.AergoEnterprise)
	case id >= 10 && id < 100:
		h := sha256.Sum256([]byte(fmt.Sprintf("verif-ledger-account-%d", id)))
		k, _ := btcec.PrivKeyFromBytes(h[:])
		e.keys[id] = k
		a = keycrypto.GenerateAddress(k.PubKey().ToECDSA())
	case id >= 100 && id < 200:
		cn, ok := e.c.Cids[fmt.Sprint(id)]
		if !ok {
			panic(fmt.Sprintf("unknown contract id %d", id))
		}
		a = contract.CreateContractID(e.addr(int(cn[0])), uint64(cn[1]))
	case id >= 200 && id < 300:
		a = []byte(vlName(id - 200))
	default:
		panic(fmt.Sprintf("bad id %d", id))
	}
	e.addrs[id] = a
	e.rev[string(a)] = id
	return a
}

func (e *vlEnv) key(id int) *btcec.PrivateKey {
	e.addr(id)
	return e.keys[id]
}

func (e *vlEnv) idOf(a []byte) int {
	if len(a) == 0 {
		return 0
	}
	if id, ok := e.rev[string(a)]; ok {
		return id
	}
	return -1
}

func (e *vlEnv) addrString(id int) string {
	a := e.addr(id)
	if id < 10 || id >= 200 {
		return string(a)
	}
	return types.EncodeAddress(a)
}

func (e *vlEnv) buildTx(t *vlTx, cidHash []byte) *types.Tx {
	if t.ReplayOf > 0 {
		return e.allTxs[t.ReplayOf-1]
	}
	body := &types.TxBody{Nonce: t.Nonce, Account: e.addr(t.From), Amount: vlBig(t.Amount).Bytes(), GasLimit: t.GasLimit}
	if t.ChainOK {
		body.ChainIdHash = cidHash
	} else {
		body.ChainIdHash = common.Hasher([]byte("some other chain"))
	}
	pl := bytes.Repeat([]byte{'x'}, t.PayloadLen)
	switch t.Kind {
	case "transfer":
		body.Type = types.TxType_TRANSFER
		body.Recipient = e.addr(t.To)
		body.Payload = pl
	case "normal":
		body.Type = types.TxType_NORMAL
		body.Recipient = e.addr(t.To)
		body.Payload = pl
	case "call":
		body.Type = types.TxType_CALL
		body.Recipient = e.addr(t.To)
		body.Payload = pl
	case "feedeleg":
		body.Type = types.TxType_FEEDELEGATION
		body.Recipient = e.addr(t.To)
		body.Payload = pl
	case "deploy":
		body.Type = types.TxType_DEPLOY
		body.Payload = pl
	case "multicall":
		body.Type = types.TxType_MULTICALL
		body.Payload = pl
	case "stake":
		body.Type = types.TxType_GOVERNANCE
		body.Recipient = []byte(types.AergoSystem)
		body.Payload = []byte(`{"Name":"v1stake"}`)
	case "unstake":
		body.Type = types.TxType_GOVERNANCE
		body.Recipient = []byte(types.AergoSystem)
		body.Payload = []byte(`{"Name":"v1unstake"}`)
	case "votebp":
		body.Type = types.TxType_GOVERNANCE
		body.Recipient = []byte(types.AergoSystem)
		body.Payload = []byte(`{"Name":"v1voteBP","Args":["16Uiu2HAmBDcLEjBYeEnGU2qDD1KdpEdwDBtN7gqXzNZbHXo8Q841"]}`)
	case "entappend":
		body.Type = types.TxType_GOVERNANCE
		body.Recipient = []byte(types.AergoEnterprise)
		body.Payload = []byte(`{"Name":"appendAdmin","Args":["` + e.addrString(t.Dest) + `"]}`)
	case "entremove":
		body.Type = types.TxType_GOVERNANCE
		body.Recipient = []byte(types.AergoEnterprise)
		body.Payload = []byte(`{"Name":"removeAdmin","Args":["` + e.addrString(t.Dest) + `"]}`)
	case "entconf":
		body.Type = types.TxType_GOVERNANCE
		body.Recipient = []byte(types.AergoEnterprise)
		body.Payload = []byte(fmt.Sprintf(`{"Name":"setConf","Args":["verifkey","v%d"]}`, t.Name))
	case "namecreate":
		body.Type = types.TxType_GOVERNANCE
		body.Recipient = []byte(types.AergoName)
		body.Payload = []byte(`{"Name":"v1createName","Args":["` + vlName(t.Name-200) + `"]}`)
	case "nameupdate":
		body.Type = types.TxType_GOVERNANCE
		body.Recipient = []byte(types.AergoName)
		body.Payload = []byte(`{"Name":"v1updateName","Args":["` + vlName(t.Name-200) + `","` + e.addrString(t.Dest) + `"]}`)
	case "setowner":
		body.Type = types.TxType_GOVERNANCE
		body.Recipient = []byte(types.AergoName)
		body.Payload = []byte(`{"Name":"v1setOwner","Args":["` + e.addrString(t.Dest) + `"]}`)
	default:
		panic("bad kind " + t.Kind)
	}
	tx := &types.Tx{Body: body}
	if k := e.key(t.Signer); k != nil {
		if t.SigForeign {
			local := body.ChainIdHash
			body.ChainIdHash = common.Hasher([]byte("the chain this tx was really signed for"))
			key.SignTx(tx, k)
			body.ChainIdHash = local
			tx.Hash = tx.CalculateTxHash()
		} else {
			key.SignTx(tx, k)
		}
	} else {
		tx.Hash = tx.CalculateTxHash()
	}
	return tx
}

type vlAcc struct {
	Bal   string `json:"b"`
	Nonce uint64 `json:"n"`
	Code  bool   `json:"c"`
	Ex    bool   `json:"x"` // present in state
}
type vlStk struct {
	Amt   string `json:"a"`
	When  uint64 `json:"w"`
	Ex    bool   `json:"x"`
	Voted bool   `json:"v"` // has a BP vote record
}
type vlDump struct {
	Acc   map[string]vlAcc  `json:"acc"`
	Stk   map[string]vlStk  `json:"stk"`
	Total string            `json:"total"`
	Names map[string][2]int `json:"names"`
	Cst   map[string]int64  `json:"cst"`
	Ent   string            `json:"ent"` // aergo.enterprise: admin ids and the verifkey conf (raw, hex)
}

func (e *vlEnv) dump(sdb *statedb.StateDB) *vlDump {
	d := &vlDump{Acc: map[string]vlAcc{}, Stk: map[string]vlStk{}, Names: map[string][2]int{}, Cst: map[string]int64{}}
	for _, id := range e.c.Ids {
		a := e.addr(id)
		st, err := sdb.GetState(types.ToAccountID(a))
		if err != nil {
			panic(err)
		}
		if st == nil {
			d.Acc[fmt.Sprint(id)] = vlAcc{Bal: "0"}
		} else {
			d.Acc[fmt.Sprint(id)] = vlAcc{Bal: st.GetBalanceBigInt().String(), Nonce: st.Nonce, Code: len(st.CodeHash) > 0 || len(st.SourceHash) > 0, Ex: true}
		}
	}
	scs, err := statedb.GetSystemAccountState(sdb)
	if err != nil {
		panic(err)
	}
	for _, id := range e.c.Ids {
		if id < 10 || id >= 100 {
			continue
		}
		data, _ := scs.GetData(dbkey.SystemStaking(e.addr(id)))
		s, _ := system.GetStaking(scs, e.addr(id))
		vdata, _ := scs.GetData(dbkey.SystemVote([]byte(types.OpvoteBP.ID()), e.addr(id)))
		d.Stk[fmt.Sprint(id)] = vlStk{Amt: s.GetAmountBigInt().String(), When: s.GetWhen(), Ex: len(data) != 0, Voted: len(vdata) != 0}
	}
	tot, _ := system.GetStakingTotal(scs)
	d.Total = tot.String()
	ncs, err := statedb.GetNameAccountState(sdb)
	if err != nil {
		panic(err)
	}
	for _, nid := range e.c.Names {
		o, dst := vlNameMap(ncs, e.addr(nid))
		d.Names[fmt.Sprint(nid)] = [2]int{e.idOf(o), e.idOf(dst)}
	}
	if ecs, err := statedb.GetEnterpriseAccountState(sdb); err == nil {
		adm, _ := ecs.GetData(dbkey.EnterpriseAdmins())
		ids := []int{}
		for i := 0; i+types.AddressLength <= len(adm); i += types.AddressLength {
			ids = append(ids, e.idOf(adm[i:i+types.AddressLength]))
		}
		cf, _ := ecs.GetData(dbkey.EnterpriseConf([]byte("verifkey")))
		d.Ent = fmt.Sprintf("%v/%x", ids, cf)
	}
	for _, ck := range e.c.CKeys {
		a := e.addr(int(ck[0]))
		st, _ := sdb.GetState(types.ToAccountID(a))
		if st == nil {
			d.Cst[fmt.Sprintf("%d.%d", ck[0], ck[1])] = 0
			continue
		}
		ccs, err := statedb.OpenContractState(a, st, sdb)
		if err != nil {
			panic(err)
		}
		v, _ := ccs.GetData([]byte(fmt.Sprintf("k%d", ck[1])))
		var x int64
		if len(v) > 0 {
			x = new(big.Int).SetBytes(v).Int64()
		}
		d.Cst[fmt.Sprintf("%d.%d", ck[0], ck[1])] = x
	}
	return d
}

// owner / destination of a name as execution sees them (buffered data, not initial data)
func vlNameMap(ncs *statedb.ContractState, nm []byte) ([]byte, []byte) {
	data, err := ncs.GetData(dbkey.Name(nm))
	if err != nil || len(data) == 0 {
		return nil, nil
	}
	off := 1
	n := int(binary.LittleEndian.Uint64(data[off : off+8]))
	off += 8
	owner := data[off : off+n]
	off += n
	m := int(binary.LittleEndian.Uint64(data[off : off+8]))
	off += 8
	return owner, data[off : off+m]
}

type vlObs struct {
	Case   int     `json:"case"`
	Kind   string  `json:"k"` // init | tx | blockend
	Blk    int     `json:"blk"`
	Tx     int     `json:"tx"`
	Res    string  `json:"res,omitempty"` // ok | err | rej
	Err    string  `json:"errs,omitempty"`
	Status string  `json:"status,omitempty"`
	Fee    string  `json:"fee,omitempty"`
	Gas    uint64  `json:"gas"`
	BpR    string  `json:"bpr,omitempty"`
	Hash   string  `json:"hash,omitempty"`
	D      *vlDump `json:"d,omitempty"`
	// blockend
	Accepted   bool   `json:"accepted"`
	Aborted    bool   `json:"aborted"`
	SumBefore  string `json:"sumBefore,omitempty"`
	SumAfter   string `json:"sumAfter,omitempty"`
	FeeSum     string `json:"feeSum,omitempty"`
	RootSame   *bool  `json:"rootSame,omitempty"`   // block re-executed without its rejected txs gives the same root
	RcptSame   *bool  `json:"rcptSame,omitempty"`
	Unchanged  *bool  `json:"unchanged,omitempty"`  // chain mode, rejected block: sdb root and best block as before
	BestNo     uint64 `json:"bestNo"`
	AddErr     string `json:"addErr,omitempty"`
	NRcpt      int    `json:"nrcpt"`
	Included   []int  `json:"included,omitempty"`
	NamePrice  string `json:"namePrice,omitempty"`
	StakeMin   string `json:"stakeMin,omitempty"`
	GasPrice   string `json:"gasPrice,omitempty"`
}

func vlSum(cs *ChainService, root []byte) *big.Int {
	sdb := cs.sdb.OpenNewStateDB(root)
	d, err := sdb.RawDump()
	if err != nil {
		panic(err)
	}
	s := new(big.Int)
	for _, a := range d.Accounts {
		s.Add(s, a.State.GetBalanceBigInt())
	}
	return s
}

func (e *vlEnv) installVM(scripts map[string]*vlVM) {
	contract.StubCheckFeeDelegation = func(contractAddress, payload, sender []byte, cs *statedb.ContractState) error { return nil }
	contract.StubVMX = func(kind string, cs *statedb.ContractState, payload, id []byte, v *contract.VerifVmCtx) (string, []*types.Event, string, *big.Int, error) {
		sc := scripts[string(v.TxHash)]
		// the real VM fails with "not found contract" when the callee has no code
		if kind == "call" && !v.Receiver.IsContract() && v.Sender != v.Receiver { // MULTICALL: receiver IS the sender object
			return "", nil, "", new(big.Int), errors.New("not found contract")
		}
		if sc == nil {
			return "", nil, "", new(big.Int), errors.New("no script")
		}
		cfee := vlBig(sc.Fee)
		switch sc.Res {
		case "rt":
			return "", nil, "", cfee, errors.New("scripted runtime error")
		case "sys":
			if len(sc.Transfers) == 0 && len(sc.Writes) == 0 {
				return "", nil, "", cfee, contract.VerifSystemErr(errors.New("scripted system error"))
			}
			// otherwise: a system error AFTER partial effects; only the executor's rollback removes them
		}
		// all-or-nothing effects: the contract must be able to pay every transfer
		if cfee.Sign() >= 0 && sc.Res == "ok" {
			total := new(big.Int)
			toSender := new(big.Int)
			for _, tr := range sc.Transfers {
				var to int
				fmt.Sscan(tr[0], &to)
				amt := vlBig(tr[1])
				if amt.Sign() < 0 {
					return "", nil, "", new(big.Int), errors.New("scripted: negative amount")
				}
				taid := types.ToAccountID(e.addr(to))
				if taid == v.Receiver.AccountID() {
					continue
				}
				total.Add(total, amt)
				if taid == v.Sender.AccountID() {
					toSender.Add(toSender, amt)
				}
			}
			if v.Receiver.Balance().Cmp(total) < 0 {
				return "", nil, "", new(big.Int), errors.New("scripted: contract balance too low")
			}
			// the payer must be able to pay base fee + execution fee after the effects (gas bound)
			base := fee.TxBaseFee(v.Bi.ForkVersion, v.Bs.GasPrice, len(payload))
			need := new(big.Int).Add(base, cfee)
			var payer *big.Int
			if v.FeeDelegation {
				payer = new(big.Int).Sub(v.Receiver.Balance(), total)
			} else {
				payer = new(big.Int).Add(v.Sender.Balance(), toSender)
			}
			// with transfers the scripted VM itself refuses (out of gas, no effects); WITHOUT transfers the run
			// completes and contract.Execute's own post-execution balance check has to catch it
			if payer.Cmp(need) < 0 && len(sc.Transfers) > 0 {
				return "", nil, "", new(big.Int), errors.New("scripted: out of gas")
			}
		}
		for _, tr := range sc.Transfers {
			var to int
			fmt.Sscan(tr[0], &to)
			amt := vlBig(tr[1])
			ta := e.addr(to)
			taid := types.ToAccountID(ta)
			switch {
			case taid == v.Receiver.AccountID():
			case taid == v.Sender.AccountID():
				v.Receiver.SubBalance(amt)
				v.Sender.AddBalance(amt)
			default:
				third, err := state.GetAccountState(ta, v.Bs.StateDB)
				if err != nil {
					panic(err)
				}
				v.Receiver.SubBalance(amt)
				third.AddBalance(amt)
				third.PutState()
			}
		}
		for _, w := range sc.Writes {
			cs.SetData([]byte(fmt.Sprintf("k%d", w[0])), big.NewInt(w[1]).Bytes())
		}
		if sc.Res == "sys" {
			return "", nil, "", cfee, contract.VerifSystemErr(errors.New("scripted system error after effects"))
		}
		if kind == "create" {
			cs.SetCode(nil, append([]byte("verif-code-"), id...))
			// like the real VM's Create: remember who deployed the contract
			cs.SetData(dbkey.CreatorMeta(), []byte(types.EncodeAddress(v.Sender.ID())))
		}
		return "", nil, "", cfee, nil
	}
}

func vlClassify(err error, nBefore, nAfter int) string {
	if err != nil {
		return "rej"
	}
	return "ok"
}

func (e *vlEnv) runCase(w *bufio.Writer) {
	c := e.c
	emit := func(o *vlObs) {
		o.Case = c.ID
		b, _ := json.Marshal(o)
		w.Write(b)
		w.WriteByte('\n')
	}
	if c.ZeroFee {
		fee.EnableZeroFee()
	} else {
		fee.DisableZeroFee()
	}
	cs := e.cs
	g, _ := cs.getBlockByNo(0)
	best, _ := cs.GetBestBlock()
	best.BlockHash()
	root := append([]byte{}, cs.sdb.GetRoot()...)
	gp := vlBig(c.GasPrice)
	if c.Mode == "chain" {
		gp = system.GetGasPrice() // the validator uses the system parameter
	}
	for _, id := range c.Ids {
		e.addr(id)
	}
	for _, id := range c.Names {
		e.addr(id)
	}
	// funding
	{
		bs := cs.sdb.NewBlockState(root)
		for _, f := range c.Fund {
			var id int
			fmt.Sscan(f[0], &id)
			st, err := state.GetAccountState(e.addr(id), bs.StateDB)
			if err != nil {
				panic(err)
			}
			st.AddBalance(vlBig(f[1]))
			st.PutState()
		}
		if err := bs.Update(); err != nil {
			panic(err)
		}
		if err := bs.Commit(); err != nil {
			panic(err)
		}
		root = append([]byte{}, bs.GetRoot()...)
		if c.Mode == "chain" {
			if err := cs.sdb.UpdateRoot(bs); err != nil {
				panic(err)
			}
		}
	}
	emit(&vlObs{Kind: "init", D: e.dump(cs.sdb.OpenNewStateDB(root)), SumBefore: vlSum(cs, root).String(),
		GasPrice: gp.String(), NamePrice: system.GetNamePrice().String(), StakeMin: system.GetStakingMinimum().String()})

	scripts := map[string]*vlVM{}
	e.installVM(scripts)
	var coinbase []byte
	if c.Coinbase != 0 {
		coinbase = e.addr(c.Coinbase)
	}
	prev := best
	prevNo := best.BlockNo()
	ts := int64(1000)
	for bi_, blk := range c.Blocks {
		ts++
		var bi *types.BlockHeaderInfo
		if c.Mode == "chain" {
			bi = types.NewBlockHeaderInfoFromPrevBlock(prev, ts, types.DummyBlockVersionner(c.Version))
			if blk.CidMut != "" {
				var id types.ChainID
				if err := id.Read(bi.ChainId); err != nil {
					panic(err)
				}
				switch blk.CidMut {
				case "mainnet":
					id.MainNet = !id.MainNet
				case "publicnet":
					id.PublicNet = !id.PublicNet
				case "magic":
					id.Magic = id.Magic + "x"
				case "consensus":
					id.Consensus = "raft"
				}
				b, err := id.Bytes()
				if err != nil {
					panic(err)
				}
				bi.ChainId = b
			}
		} else {
			no := blk.No
			if no == 0 {
				no = prevNo + 1
			}
			ph := sha256.Sum256([]byte(fmt.Sprintf("verif-prev-%d-%d", c.ID, bi_)))
			bi = &types.BlockHeaderInfo{No: no, Ts: ts, PrevBlockHash: ph[:], ChainId: types.MakeChainId(g.GetHeader().GetChainID(), c.Version), ForkVersion: c.Version}
		}
		cidHash := common.Hasher(bi.ChainId)
		txs := make([]*types.Tx, len(blk.Txs))
		for i := range blk.Txs {
			txs[i] = e.buildTx(&blk.Txs[i], cidHash)
			e.allTxs = append(e.allTxs, txs[i])
			if blk.Txs[i].VM != nil {
				scripts[string(txs[i].Hash)] = blk.Txs[i].VM
			}
		}
		run := func(sel []int, observe bool) (*state.BlockState, []int, bool) {
			bs := cs.sdb.NewBlockState(root, state.SetPrevBlockHash(bi.PrevBlockHash))
			if scs0, err := statedb.GetSystemAccountState(bs.StateDB); err == nil {
				system.InitVotingPowerRank(scs0) // the rank is a global outside the state DB (F12): start from the pre-state
			}
			bs.SetGasPrice(gp)
			bs.Receipts().SetHardFork(cs.cfg.Hardfork, bi.No)
			exec := NewTxExecutor(context.Background(), nil, cs.cdb, bi, contract.BlockFactory)
			var included []int
			aborted := false
			for _, i := range sel {
				t := &blk.Txs[i]
				contract.StubCheckFeeDelegation = func(contractAddress, payload, sender []byte, ccs *statedb.ContractState) error {
					// the real CheckFeeDelegation fails with "not found contract" on an account without code
					if len(ccs.GetCodeHash()) == 0 {
						return errors.New("not found contract")
					}
					if t.FdDeny {
						return types.ErrNotAllowedFeeDelegation
					}
					return nil
				}
				nb := len(bs.Receipts().Get())
				err := exec(bs, types.NewTransaction(txs[i]))
				na := len(bs.Receipts().Get())
				o := &vlObs{Kind: "tx", Blk: bi_, Tx: i, Hash: fmt.Sprintf("%x", txs[i].Hash[:6])}
				if err != nil {
					o.Res = "rej"
					o.Err = err.Error()
					if na != nb {
						o.Err = "RECEIPT-ADDED-ON-REJECT " + o.Err
					}
				} else {
					r := bs.Receipts().Get()[na-1]
					o.Status = r.Status
					o.Fee = new(big.Int).SetBytes(r.FeeUsed).String()
					o.Gas = r.GasUsed
					if r.Status == "ERROR" {
						o.Res = "err"
						o.Err = r.Ret
					} else {
						o.Res = "ok"
					}
				}
				o.BpR = bs.BpReward.String()
				if observe {
					o.D = e.dump(bs.StateDB)
					emit(o)
				}
				if err != nil {
					if blk.Validator && c.Mode != "chain" {
						aborted = true
						break
					}
					if t.Force {
						included = append(included, i)
					}
					continue
				}
				included = append(included, i)
			}
			return bs, included, aborted
		}
		all := make([]int, len(blk.Txs))
		for i := range all {
			all[i] = i
		}
		sumBefore := vlSum(cs, root)
		bs, included, aborted := run(all, true)
		end := &vlObs{Kind: "blockend", Blk: bi_, SumBefore: sumBefore.String(), Included: included, Aborted: aborted}
		if aborted {
			end.Accepted = false
			end.SumAfter = vlSum(cs, root).String()
			emit(end)
			continue
		}
		if err := SendBlockReward(bs, coinbase); err != nil {
			panic(err)
		}
		if err := bs.Update(); err != nil {
			panic(err)
		}
		if err := bs.Commit(); err != nil {
			panic(err)
		}
		newRoot := append([]byte{}, bs.GetRoot()...)
		feeSum := new(big.Int)
		for _, r := range bs.Receipts().Get() {
			feeSum.Add(feeSum, new(big.Int).SetBytes(r.FeeUsed))
		}
		end.FeeSum = feeSum.String()
		end.BpR = bs.BpReward.String()
		end.NRcpt = len(bs.Receipts().Get())
		// the block re-executed without its rejected transactions must reach the same root
		onlyOK := []int{}
		forced := false
		for _, i := range included {
			onlyOK = append(onlyOK, i)
		}
		for _, i := range all {
			if blk.Txs[i].Force {
				forced = true
			}
		}
		if len(onlyOK) != len(all) && !forced {
			bs2, _, _ := run(onlyOK, false)
			SendBlockReward(bs2, coinbase)
			bs2.Update()
			bs2.Commit()
			same := bytes.Equal(bs2.GetRoot(), newRoot)
			rs := bytes.Equal(bs2.Receipts().MerkleRoot(), bs.Receipts().MerkleRoot())
			end.RootSame = &same
			end.RcptSame = &rs
		}
		if c.Mode == "chain" {
			btxs := []*types.Tx{}
			for _, i := range included {
				btxs = append(btxs, txs[i])
			}
			nb := types.NewBlock(bi, newRoot, bs.Receipts(), btxs, coinbase, nil)
			nb.BlockHash()
			oldRoot := append([]byte{}, cs.sdb.GetRoot()...)
			oldBest, _ := cs.GetBestBlock()
			// the voting-power rank is a process global (F12): the producer run above has mutated it; a validating
			// node starts from its committed state
			if scs0, e0 := statedb.GetSystemAccountState(cs.sdb.OpenNewStateDB(cs.sdb.GetRoot())); e0 == nil {
				system.InitVotingPowerRank(scs0)
			}
			// watchdog: a validator that never answers (e.g. verifier goroutines blocked on stale results) is a result
			var err error
			doneCh := make(chan error, 1)
			var used *state.BlockState
			if blk.Deliver == "own" || blk.Deliver == "foreign" {
				// a block state as a block factory hands it over: executed and Update()d, not committed
				used, _, _ = run(included, false)
				SendBlockReward(used, coinbase)
				if blk.Deliver == "foreign" {
					st, _ := state.GetAccountState(e.addr(12), used.StateDB)
					st.AddBalance(big.NewInt(1000000))
					st.PutState()
				}
				if err := used.Update(); err != nil {
					panic(err)
				}
				if scs0, e0 := statedb.GetSystemAccountState(cs.sdb.OpenNewStateDB(cs.sdb.GetRoot())); e0 == nil {
					system.InitVotingPowerRank(scs0)
				}
			}
			go func() { doneCh <- cs.addBlock(nb, used, testPeer) }()
			select {
			case err = <-doneCh:
			case <-time.After(30 * time.Second):
				end.AddErr = "HANG: cs.addBlock did not return within 30s"
				emit(end)
				return
			}
			nowBest, _ := cs.GetBestBlock()
			end.BestNo = nowBest.BlockNo()
			if err != nil {
				end.Accepted = false
				end.AddErr = err.Error()
				un := bytes.Equal(cs.sdb.GetRoot(), oldRoot) && bytes.Equal(nowBest.BlockHash(), oldBest.BlockHash())
				end.Unchanged = &un
				end.SumAfter = vlSum(cs, cs.sdb.GetRoot()).String()
				end.D = e.dump(cs.sdb.OpenNewStateDB(cs.sdb.GetRoot()))
			} else {
				end.Accepted = true
				same := bytes.Equal(cs.sdb.GetRoot(), newRoot) && bytes.Equal(nowBest.BlockHash(), nb.BlockHash())
				end.Unchanged = &same // accepted: node state is exactly the produced block's state
				root = newRoot
				prev = nb
				end.SumAfter = vlSum(cs, root).String()
				end.D = e.dump(cs.sdb.OpenNewStateDB(root))
			}
		} else {
			end.Accepted = true
			root = newRoot
			prevNo = bi.No
			end.SumAfter = vlSum(cs, root).String()
			end.D = e.dump(cs.sdb.OpenNewStateDB(root))
		}
		emit(end)
	}
}

func TestVerifLedgerEngine(t *testing.T) {
	in, err := os.Open(os.Getenv("VERIF_IN"))
	if err != nil {
		t.Fatal(err)
	}
	vlDataDir = t.TempDir()
	defer in.Close()
	out, err := os.Create(os.Getenv("VERIF_OUT"))
	if err != nil {
		t.Fatal(err)
	}
	defer out.Close()
	w := bufio.NewWriterSize(out, 1<<20)
	defer w.Flush()
	sc := bufio.NewScanner(in)
	sc.Buffer(make([]byte, 1<<20), 1<<26)
	var shared *ChainService
	for sc.Scan() {
		line := bytes.TrimSpace(sc.Bytes())
		if len(line) == 0 {
			continue
		}
		c := &vlCase{}
		if err := json.Unmarshal(line, c); err != nil {
			t.Fatal(err)
		}
		sort.Ints(c.Ids)
		e := &vlEnv{keys: map[int]*btcec.PrivateKey{}, addrs: map[int][]byte{}, rev: map[string]int{}, c: c}
		if c.Mode == "chain" {
			vlWorkers = c.Workers
			e.cs = vlMakeChain()
			vlWorkers = 0
		} else {
			if shared == nil {
				shared = vlMakeChain()
			}
			e.cs = shared
		}
		func() {
			defer func() {
				if r := recover(); r != nil {
					b, _ := json.Marshal(&vlObs{Case: c.ID, Kind: "panic", Err: fmt.Sprint(r)})
					w.Write(b)
					w.WriteByte('\n')
				}
			}()
			e.runCase(w)
		}()
		if c.Mode == "chain" {
			e.cs.Close()
		}
	}
}

var _ = name.GetOwner

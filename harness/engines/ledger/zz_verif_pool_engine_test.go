//go:build verif

package mempool

// Producer-path engine (C04, group g7): the REAL mempool (verifyTx, put, removeOnBlockArrival, get) feeding the REAL
// chain.NewTxExecutor, as a block-producing node does.  A case is a list of steps: fund accounts, register / re-point
// account names (each committed as a block the pool is told about), submit signed transactions (sender = address
// or name), produce a block from the pool.  For every transaction the pool hands to the executor the engine reports
// whether it executed and which account it debited.

import (
	"bufio"
	"context"
	"crypto/sha256"
	"encoding/json"
	"fmt"
	"math/big"
	"os"
	"testing"

	"github.com/aergoio/aergo/v2/account/key"
	crypto "github.com/aergoio/aergo/v2/account/key/crypto"
	"github.com/aergoio/aergo/v2/chain"
	"github.com/aergoio/aergo/v2/config"
	"github.com/aergoio/aergo/v2/contract"
	"github.com/aergoio/aergo/v2/contract/name"
	"github.com/aergoio/aergo/v2/state"
	"github.com/aergoio/aergo/v2/state/statedb"
	"github.com/aergoio/aergo/v2/types"
	"github.com/btcsuite/btcd/btcec/v2"
)

type vpStep struct {
	Op     string `json:"op"` // fund | name | repoint | put | produce
	ID     int    `json:"id"`
	Amt    string `json:"amt"`
	Name   int    `json:"name"`
	Owner  int    `json:"owner"`
	To     int    `json:"to"`
	From   int    `json:"from"`
	Signer int    `json:"signer"`
	Nonce  uint64 `json:"nonce"`
}
type vpCase struct {
	ID    int      `json:"id"`
	Steps []vpStep `json:"steps"`
}
type vpAcc struct {
	Bal   string `json:"b"`
	Nonce uint64 `json:"n"`
}
type vpTxObs struct {
	Put     int               `json:"put"` // index of the put step
	Err     string            `json:"err"`
	Before  map[string]vpAcc  `json:"before"`
	After   map[string]vpAcc  `json:"after"`
	Names   map[string][2]int `json:"names"` // name -> owner, destination (state the block is produced on)
}
type vpObs struct {
	Case   int       `json:"case"`
	Step   int       `json:"step"`
	Op     string    `json:"op"`
	Err    string    `json:"err,omitempty"`
	Txs    []vpTxObs `json:"txs,omitempty"`
	PoolN  int       `json:"pooln"`
	Version int32    `json:"version"`
}

func vpKey(id int) (*btcec.PrivateKey, []byte) {
	h := sha256.Sum256([]byte(fmt.Sprintf("verif-pool-account-%d", id)))
	k, _ := btcec.PrivKeyFromBytes(h[:])
	return k, crypto.GenerateAddress(k.PubKey().ToECDSA())
}
func vpName(k int) string { return fmt.Sprintf("verifpool%03d", k) }

func vpRun(c *vpCase, dir string, emit func(*vpObs)) {
	genesis := types.GetTestGenesis()
	sdb := state.NewChainStateDB()
	if err := sdb.Init("memorydb", dir, genesis.Block(), false, nil); err != nil {
		panic(err)
	}
	if err := sdb.SetGenesis(genesis, nil); err != nil {
		panic(err)
	}
	cid := genesis.Block().GetHeader().GetChainID()
	serverCtx := config.NewServerContext("", "")
	cfg := serverCtx.GetDefaultConfig().(*config.Config)
	mp := NewMemPoolService(cfg, nil)
	mp.sdb = sdb
	mp.testConfig = false
	prev := genesis.Block()
	no := uint64(0)
	commit := func(bs *state.BlockState) {
		if err := sdb.Apply(bs); err != nil {
			panic(err)
		}
		no++
		blk := &types.Block{Header: &types.BlockHeader{ChainID: cid, BlockNo: no, PrevBlockHash: prev.BlockHash(), BlocksRootHash: sdb.GetRoot()},
			Body: &types.BlockBody{}}
		if err := mp.removeOnBlockArrival(blk); err != nil {
			panic(err)
		}
		prev = blk
	}
	ids := map[int]bool{}
	names := map[int]bool{}
	rev := map[string]int{}
	addr := func(id int) []byte { _, a := vpKey(id); rev[string(a)] = id; ids[id] = true; return a }
	putTx := map[string]int{}
	dumpAcc := func(sd *statedb.StateDB) map[string]vpAcc {
		m := map[string]vpAcc{}
		for id := range ids {
			st, _ := sd.GetAccountState(types.ToAccountID(addr(id)))
			m[fmt.Sprint(id)] = vpAcc{Bal: st.GetBalanceBigInt().String(), Nonce: st.Nonce}
		}
		return m
	}
	for si, st := range c.Steps {
		o := &vpObs{Case: c.ID, Step: si, Op: st.Op}
		switch st.Op {
		case "fund":
			bs := sdb.NewBlockState(sdb.GetRoot())
			as, _ := state.GetAccountState(addr(st.ID), bs.StateDB)
			amt, _ := new(big.Int).SetString(st.Amt, 10)
			as.AddBalance(amt)
			as.PutState()
			commit(bs)
		case "name", "repoint":
			bs := sdb.NewBlockState(sdb.GetRoot())
			nameAcc, _ := state.GetAccountState([]byte(types.AergoName), bs.StateDB)
			scs, _ := statedb.GetNameAccountState(bs.StateDB)
			var err error
			if st.Op == "name" {
				acc, _ := state.GetAccountState(addr(st.Owner), bs.StateDB)
				err = name.CreateName(scs, &types.TxBody{Account: addr(st.Owner)}, acc, nameAcc, vpName(st.Name))
			} else {
				acc, _ := state.GetAccountState(addr(st.Owner), bs.StateDB)
				err = name.UpdateName(bs, scs, &types.TxBody{Account: addr(st.Owner)}, acc, nameAcc, vpName(st.Name), types.EncodeAddress(addr(st.To)))
			}
			names[st.Name] = true
			if err != nil {
				o.Err = err.Error()
			} else {
				statedb.StageContractState(scs, bs.StateDB)
				commit(bs)
			}
		case "put":
			var account []byte
			if st.From >= 200 {
				account = []byte(vpName(st.From - 200))
			} else {
				account = addr(st.From)
			}
			amt, _ := new(big.Int).SetString(st.Amt, 10)
			tx := &types.Tx{Body: &types.TxBody{Nonce: st.Nonce, Account: account, Recipient: addr(st.To), Amount: amt.Bytes(),
				Type: types.TxType_TRANSFER, ChainIdHash: mp.acceptChainIdHash}}
			k, _ := vpKey(st.Signer)
			key.SignTx(tx, k)
			ptx := types.NewTransaction(tx)
			if err := mp.verifyTx(ptx); err != nil {
				o.Err = "verify: " + err.Error()
			} else if err := mp.put(ptx); err != nil {
				o.Err = "put: " + err.Error()
			} else {
				putTx[string(tx.Hash)] = si
			}
		case "produce", "attempt": // attempt = a block production that is discarded (not committed, pool not told)
			txs, err := mp.get(1 << 20)
			if err != nil {
				o.Err = err.Error()
			}
			bi := types.NewBlockHeaderInfoFromPrevBlock(prev, 1000+int64(si), cfg.Hardfork)
			o.Version = bi.ForkVersion
			exec := chain.NewTxExecutor(context.Background(), nil, nil, bi, contract.BlockFactory)
			bs := state.NewBlockState(sdb.OpenNewStateDB(sdb.GetRoot()))
			bs.SetGasPrice(big.NewInt(50000000000))
			ncs, _ := statedb.GetNameAccountState(sdb.OpenNewStateDB(sdb.GetRoot()))
			nm := map[string][2]int{}
			for k := range names {
				nm[fmt.Sprint(200+k)] = [2]int{rev[string(name.GetOwner(ncs, []byte(vpName(k))))], rev[string(name.GetAddress(ncs, []byte(vpName(k))))]}
			}
			for _, tx := range txs {
				to := vpTxObs{Put: putTx[string(tx.GetHash())], Before: dumpAcc(bs.StateDB), Names: nm}
				if err := exec(bs, tx); err != nil {
					to.Err = err.Error()
				}
				to.After = dumpAcc(bs.StateDB)
				o.Txs = append(o.Txs, to)
			}
			if st.Op == "produce" {
				bs.Update()
				commit(bs)
			}
		}
		o.PoolN = mp.length
		emit(o)
	}
	sdb.Close()
}

func TestVerifPoolEngine(t *testing.T) {
	in, err := os.Open(os.Getenv("VERIF_IN"))
	if err != nil {
		t.Fatal(err)
	}
	defer in.Close()
	out, err := os.Create(os.Getenv("VERIF_OUT"))
	if err != nil {
		t.Fatal(err)
	}
	defer out.Close()
	w := bufio.NewWriter(out)
	defer w.Flush()
	sc := bufio.NewScanner(in)
	sc.Buffer(make([]byte, 1<<20), 1<<24)
	base := t.TempDir()
	n := 0
	for sc.Scan() {
		if len(sc.Bytes()) == 0 {
			continue
		}
		c := &vpCase{}
		if err := json.Unmarshal(sc.Bytes(), c); err != nil {
			t.Fatal(err)
		}
		n++
		dir := fmt.Sprintf("%s/p%d", base, n)
		os.MkdirAll(dir, 0o755)
		func() {
			defer func() {
				if r := recover(); r != nil {
					b, _ := json.Marshal(&vpObs{Case: c.ID, Op: "panic", Err: fmt.Sprint(r)})
					w.Write(b)
					w.WriteByte('\n')
				}
			}()
			vpRun(c, dir, func(o *vpObs) { b, _ := json.Marshal(o); w.Write(b); w.WriteByte('\n') })
		}()
	}
}

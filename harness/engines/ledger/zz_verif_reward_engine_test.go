//go:build verif

package dpos

// Reward engine (C01, group g7): runs the real dpos.sendVotingReward (vault -> winner) on a
// BlockState whose aergo.vault balance, voters (real stake + v1voteBP through
// system.ExecuteSystemTx, which fills the in-memory voting-power rank) and seed (previous block
// hash) are scripted.  One JSON case per line in $VERIF_IN, one observation per line in $VERIF_OUT.

import (
	"bufio"
	"crypto/sha256"
	"encoding/binary"
	"encoding/hex"
	"encoding/json"
	"fmt"
	"math/big"
	"os"
	"testing"

	"github.com/aergoio/aergo/v2/chain"
	"github.com/aergoio/aergo/v2/contract/system"
	"github.com/aergoio/aergo/v2/state"
	"github.com/aergoio/aergo/v2/state/statedb"
	"github.com/aergoio/aergo/v2/types"
)

type vrVoter struct {
	ID    int    `json:"id"`    // 3 = aergo.vault itself, 10.. = ordinary accounts
	Fund  string `json:"fund"`
	Stake string `json:"stake"` // "" = does not stake / vote
}

type vrCase struct {
	ID     int       `json:"id"`
	Vault  string    `json:"vault"`
	Voters []vrVoter `json:"voters"`
	Seed   string    `json:"seed"` // hex, >= 8 bytes: previous block hash
	// composition: when Fees != "" the engine calls chain.SendBlockReward with the DPoS hook installed
	// (chain.DecorateBlockRewardFn(sendVotingReward), as dpos.New does) on a block state whose BpReward = Fees
	Fees     string `json:"fees"`
	Coinbase string `json:"coinbase"` // winner | loser | vault | fresh | none
}

type vrObs struct {
	Case    int               `json:"case"`
	Err     string            `json:"err,omitempty"`
	Before  map[string]string `json:"before"`
	After   map[string]string `json:"after"`
	Winner  int               `json:"winner"` // id, 0 = none appointed
	Reward  string            `json:"reward"`
	SumB    string            `json:"sumBefore"`
	SumA    string            `json:"sumAfter"`
	NonceOK bool              `json:"nonceOK"`
	CbID    int               `json:"cb"` // id of the coinbase account used (0 = none)
}

func vrAddr(id int) []byte {
	switch id {
	case 1:
		return []byte(types.AergoSystem)
	case 3:
		return []byte(types.AergoVault)
	}
	h := sha256.Sum256([]byte(fmt.Sprintf("verif-reward-account-%d", id)))
	return append([]byte{0x02}, h[:]...)
}

func vrBig(s string) *big.Int {
	if s == "" {
		return new(big.Int)
	}
	b, ok := new(big.Int).SetString(s, 10)
	if !ok {
		panic("bad number " + s)
	}
	return b
}

func vrRun(c *vrCase, dir string) (o *vrObs) {
	o = &vrObs{Case: c.ID, Before: map[string]string{}, After: map[string]string{}}
	defer func() {
		if r := recover(); r != nil {
			o.Err = fmt.Sprint("panic: ", r)
		}
	}()
	cdb := state.NewChainStateDB()
	if err := cdb.Init("memorydb", dir, nil, false, nil); err != nil {
		panic(err)
	}
	if err := cdb.SetGenesis(types.GetTestGenesis(), nil); err != nil {
		panic(err)
	}
	seed, err := hex.DecodeString(c.Seed)
	if err != nil || len(seed) < 8 {
		panic("bad seed")
	}
	bs := cdb.NewBlockState(cdb.GetRoot(), state.SetPrevBlockHash(seed))
	scs0, err := statedb.GetSystemAccountState(bs.StateDB)
	if err != nil {
		panic(err)
	}
	system.InitSystemParams(scs0, 3)
	if err := InitVPR(bs.StateDB); err != nil {
		panic(err)
	}
	bi := &types.BlockHeaderInfo{No: 10, ForkVersion: 2}
	ids := []int{1, 3}
	for _, v := range c.Voters {
		if v.ID != 3 {
			ids = append(ids, v.ID)
		}
		a, _ := state.GetAccountState(vrAddr(v.ID), bs.StateDB)
		a.AddBalance(vrBig(v.Fund))
		a.PutState()
	}
	{
		a, _ := state.GetAccountState(vrAddr(3), bs.StateDB)
		a.AddBalance(vrBig(c.Vault))
		a.PutState()
	}
	for _, v := range c.Voters {
		if v.Stake == "" {
			continue
		}
		for _, payload := range []string{`{"Name":"v1stake"}`, `{"Name":"v1voteBP","Args":["16Uiu2HAmBDcLEjBYeEnGU2qDD1KdpEdwDBtN7gqXzNZbHXo8Q841"]}`} {
			sender, _ := state.GetAccountState(vrAddr(v.ID), bs.StateDB)
			receiver, _ := state.GetAccountState([]byte(types.AergoSystem), bs.StateDB)
			scs, err := statedb.OpenContractState(receiver.ID(), receiver.State(), bs.StateDB)
			if err != nil {
				panic(err)
			}
			body := &types.TxBody{Account: vrAddr(v.ID), Recipient: []byte(types.AergoSystem), Payload: []byte(payload), Type: types.TxType_GOVERNANCE}
			if payload == `{"Name":"v1stake"}` {
				body.Amount = vrBig(v.Stake).Bytes()
			}
			if _, err := system.ExecuteSystemTx(scs, body, sender, receiver, bi); err != nil {
				panic(fmt.Sprintf("setup %s by %d: %v", payload, v.ID, err))
			}
			statedb.StageContractState(scs, bs.StateDB)
			sender.PutState()
			if sender.AccountID() != receiver.AccountID() {
				receiver.PutState()
			}
		}
	}
	dump := func(m map[string]string) (*big.Int, map[int]uint64) {
		sum := new(big.Int)
		nonces := map[int]uint64{}
		for _, id := range ids {
			st, _ := bs.StateDB.GetAccountState(types.ToAccountID(vrAddr(id)))
			m[fmt.Sprint(id)] = st.GetBalanceBigInt().String()
			sum.Add(sum, st.GetBalanceBigInt())
			nonces[id] = st.Nonce
		}
		return sum, nonces
	}
	var coinbase []byte
	if c.Fees != "" {
		switch c.Coinbase {
		case "winner": // the account sendVotingReward is going to appoint (same rank, same seed)
			if w, err := system.PickVotingRewardWinner(int64(binary.LittleEndian.Uint64(seed))); err == nil {
				coinbase = w
			} else {
				coinbase = vrAddr(90)
			}
		case "loser":
			for _, v := range c.Voters {
				coinbase = vrAddr(v.ID)
			}
			if w, err := system.PickVotingRewardWinner(int64(binary.LittleEndian.Uint64(seed))); err == nil {
				for _, v := range c.Voters {
					if string(vrAddr(v.ID)) != string(w) {
						coinbase = vrAddr(v.ID)
					}
				}
			}
		case "vault":
			coinbase = vrAddr(3)
		case "fresh":
			coinbase = vrAddr(90)
		}
		known := false
		for _, id := range ids {
			if coinbase != nil && string(vrAddr(id)) == string(coinbase) {
				known = true
				o.CbID = id
			}
		}
		if coinbase != nil && !known {
			ids = append(ids, 90)
			o.CbID = 90
		}
		bs.BpReward.Set(vrBig(c.Fees))
	}
	sb, nb := dump(o.Before)
	if c.Fees != "" {
		chain.DecorateBlockRewardFn(sendVotingReward)
		if err := chain.SendBlockReward(bs, coinbase); err != nil {
			o.Err = err.Error()
		}
	} else if err := sendVotingReward(bs, nil); err != nil {
		o.Err = err.Error()
	}
	sa, na := dump(o.After)
	o.SumB, o.SumA = sb.String(), sa.String()
	o.NonceOK = true
	for id, n := range nb {
		if na[id] != n {
			o.NonceOK = false
		}
	}
	o.Reward = system.GetVotingRewardAmount().String()
	if w := bs.Consensus(); len(w) > 0 {
		o.Winner = -1
		for _, id := range ids {
			if string(vrAddr(id)) == string(w) {
				o.Winner = id
			}
		}
	}
	return o
}

func TestVerifRewardEngine(t *testing.T) {
	in, err := os.Open(os.Getenv("VERIF_IN"))
	if err != nil {
		t.Fatal(err)
	}
	defer in.Close()
	out, err := os.Create(os.Getenv("VERIF_OUT"))
	if err != nil {
		t.Fatal(err)
	}
	defer out.Close()
	w := bufio.NewWriter(out)
	defer w.Flush()
	sc := bufio.NewScanner(in)
	sc.Buffer(make([]byte, 1<<20), 1<<24)
	base := t.TempDir()
	n := 0
	for sc.Scan() {
		if len(sc.Bytes()) == 0 {
			continue
		}
		c := &vrCase{}
		if err := json.Unmarshal(sc.Bytes(), c); err != nil {
			t.Fatal(err)
		}
		n++
		dir := fmt.Sprintf("%s/s%d", base, n)
		os.MkdirAll(dir, 0o755)
		b, _ := json.Marshal(vrRun(c, dir))
		w.Write(b)
		w.WriteByte('\n')
	}
}

//go:build verif

package mempool

// C13 engine: a real MemPool (testConfig = false) over a real in-memory ChainStateDB.
// Every case is a table of transactions and a sequence of operations (put, block arrival
// with a freshly committed account state and a chosen relation to the current best block,
// removeTx, evictTransactions on chosen accounts, get, getUnconfirmed).  After every
// operation the engine dumps what the pool really holds (per-account list, base nonce,
// ready count, hash cache, counters) plus the operation's own result.  A case with
// "threads" runs the per-thread operation lists on real goroutines and dumps the final
// state only.
import (
	"bufio"
	"encoding/json"
	"fmt"
	"math/big"
	"os"
	"runtime"
	"sort"
	"sync"
	"sync/atomic"
	"testing"
	"time"

	"github.com/aergoio/aergo/v2/config"
	"github.com/aergoio/aergo/v2/state"
	"github.com/aergoio/aergo/v2/types"
	"github.com/rs/zerolog"
)

type c13Tx struct {
	Acc     int    `json:"acc"`
	Nonce   uint64 `json:"nonce"`
	Amount  uint64 `json:"amount"`
	Variant int    `json:"variant"`
	Pad     int    `json:"pad"` // extra payload bytes (transactions of different sizes)
}

type c13Op struct {
	Op    string      `json:"op"`
	Tx    int         `json:"tx"`
	State [][2]uint64 `json:"state"` // per account (nonce, balance) of the new best state
	Kind  string      `json:"kind"`  // next | same | jump | fork
	Dirty []int       `json:"dirty"` // senders of the block's transactions
	Accs  []int       `json:"accs"`
	Max   uint32      `json:"max"`
	From  int         `json:"from"`       // bulkput: txs[from:to]
	To    int         `json:"to"`
	TimeoutNs int64   `json:"timeout_ns"` // evictto: evictWorkTimeout for this pass
}

type c13Case struct {
	NAccs   int         `json:"naccs"`
	Named   []bool      `json:"named"`
	Txs     []c13Tx     `json:"txs"`
	Init    [][2]uint64 `json:"init"`
	Ops     []c13Op     `json:"ops"`
	Threads [][]c13Op   `json:"threads"`
}

type c13List struct {
	Acc   int    `json:"acc"`
	Base  uint64 `json:"base"`
	Ready int    `json:"ready"`
	Txs   []int  `json:"txs"`
}

type c13Obs struct {
	Res    string       `json:"res"`
	Len    int          `json:"len"`
	Orphan int          `json:"orphan"`
	Lists  []c13List    `json:"lists"`
	Cache  []int        `json:"cache"`
	Get    [][]int      `json:"get,omitempty"`    // op get: [acc, tx, tx, ...] per account
	Unconf [][][]int    `json:"unconf,omitempty"` // op unconf: per requested account [pooled],[orphaned]
	Extra  []string     `json:"extra,omitempty"`
}

type c13Env struct {
	t      *testing.T
	mp     *MemPool
	sdb    *state.ChainStateDB
	addrs  [][]byte
	keys   [][]byte // list key per account (address)
	body   [][]byte // Body.Account per account (name or address)
	txs    []types.Transaction
	byHash map[types.TxID]int
	byAcc  map[types.AccountID]int
	blkNo  uint64
	cidA   []byte
	cidB   []byte
	curCid []byte
	last   *types.Block
}

const c13HangTimeout = 40 * time.Second

func c13Addr(i int) []byte {
	a := make([]byte, types.AddressLength)
	a[0] = 2
	a[1] = byte(i + 1)
	for j := 2; j < len(a); j++ {
		a[j] = byte(7*j + i)
	}
	return a
}

func (e *c13Env) commitState(st [][2]uint64) []byte {
	s := e.sdb.OpenNewStateDB(nil)
	for i, nb := range st {
		if err := s.PutState(types.ToAccountID(e.keys[i]), &types.State{Nonce: nb[0], Balance: new(big.Int).SetUint64(nb[1]).Bytes()}); err != nil {
			e.t.Fatal(err)
		}
	}
	if err := s.Update(); err != nil {
		e.t.Fatal(err)
	}
	if err := s.Commit(); err != nil {
		e.t.Fatal(err)
	}
	return s.GetRoot()
}

func (e *c13Env) mkBlock(st [][2]uint64, kind string, dirty []int) *types.Block {
	if kind == "same" && e.last != nil {
		// the best block delivered again (same header, hence same id)
		var txs []*types.Tx
		for _, a := range dirty {
			tx := &types.Tx{Body: &types.TxBody{Nonce: 1, Account: e.keys[a], Recipient: e.keys[a], Amount: []byte{1}, Type: types.TxType_TRANSFER}}
			tx.Hash = tx.CalculateTxHash()
			txs = append(txs, tx)
		}
		b := &types.Block{Header: e.last.Header, Body: &types.BlockBody{Txs: txs}}
		b.BlockHash()
		return b
	}
	e.blkNo++
	prev := make([]byte, 32)
	best := e.mp.bestBlockID
	copy(prev, best[:])
	if kind == "jump" || kind == "forkjump" {
		prev[0] ^= 0x55
	}
	if kind == "fork" || kind == "forkjump" {
		if string(e.curCid) == string(e.cidA) {
			e.curCid = e.cidB
		} else {
			e.curCid = e.cidA
		}
	}
	var txs []*types.Tx
	for _, a := range dirty {
		tx := &types.Tx{Body: &types.TxBody{Nonce: 1, Account: e.keys[a], Recipient: e.keys[a], Amount: []byte{1}, Type: types.TxType_TRANSFER}}
		tx.Hash = tx.CalculateTxHash()
		txs = append(txs, tx)
	}
	b := &types.Block{
		Header: &types.BlockHeader{ChainID: e.curCid, PrevBlockHash: prev, BlockNo: e.blkNo, Timestamp: int64(e.blkNo),
			BlocksRootHash: e.commitState(st)},
		Body: &types.BlockBody{Txs: txs},
	}
	b.BlockHash()
	e.last = b
	return b
}

func newC13Env(t *testing.T, c *c13Case, dir string) *c13Env {
	serverCtx := config.NewServerContext("", "")
	cfg := serverCtx.GetDefaultConfig().(*config.Config)
	mp := NewMemPoolService(cfg, nil) // cs == nil: zero fee enabled, sdb injected below
	sdb := state.NewChainStateDB()
	if err := sdb.Init("memorydb", dir, nil, false, nil); err != nil {
		t.Fatal(err)
	}
	mp.sdb = sdb
	e := &c13Env{t: t, mp: mp, sdb: sdb, byHash: map[types.TxID]int{}, byAcc: map[types.AccountID]int{}}
	cid := types.NewChainID()
	cid.PublicNet = true
	cid.Magic = "verif-a"
	e.cidA, _ = cid.Bytes()
	cid2 := *cid
	cid2.Magic = "verif-b"
	e.cidB, _ = cid2.Bytes()
	e.curCid = e.cidA
	for i := 0; i < c.NAccs; i++ {
		a := c13Addr(i)
		e.addrs = append(e.addrs, a)
		e.keys = append(e.keys, a)
		if i < len(c.Named) && c.Named[i] {
			e.body = append(e.body, []byte(fmt.Sprintf("verifname%03d", i)))
		} else {
			e.body = append(e.body, a)
		}
		e.byAcc[types.ToAccountID(a)] = i
	}
	for i, x := range c.Txs {
		tx := &types.Tx{Body: &types.TxBody{Nonce: x.Nonce, Account: e.body[x.Acc], Recipient: e.addrs[(x.Acc+1)%c.NAccs],
			Amount: new(big.Int).SetUint64(x.Amount).Bytes(), Type: types.TxType_TRANSFER}}
		if x.Variant > 0 || x.Pad > 0 {
			tx.Body.Payload = append([]byte{byte(x.Variant)}, make([]byte, x.Pad)...)
		}
		tx.Hash = tx.CalculateTxHash()
		if _, dup := e.byHash[types.ToTxID(tx.Hash)]; dup {
			t.Fatalf("tx table has two entries with one hash (%d)", i)
		}
		ttx := types.NewTransaction(tx)
		if c.Named[x.Acc] {
			ttx.SetVerifedAccount(e.keys[x.Acc])
		}
		e.txs = append(e.txs, ttx)
		e.byHash[types.ToTxID(tx.Hash)] = i
	}
	// what AfterStart does with the best block of the chain service
	mp.setStateDB(e.mkBlock(c.Init, "next", nil))
	return e
}

func errName(err error) string {
	switch err {
	case nil:
		return "ok"
	case types.ErrTxAlreadyInMempool:
		return "already"
	case types.ErrTxNonceTooLow:
		return "toolow"
	case types.ErrSameNonceAlreadyInMempool:
		return "samenonce"
	case types.ErrInsufficientBalance:
		return "balance"
	case types.ErrTxNotFound:
		return "notfound"
	}
	return "err:" + err.Error()
}

func (e *c13Env) idx(tx types.Transaction) int {
	if i, ok := e.byHash[types.ToTxID(tx.GetHash())]; ok {
		return i
	}
	return -1
}

func (e *c13Env) apply(op *c13Op, o *c13Obs) {
	mp := e.mp
	switch op.Op {
	case "put":
		o.Res = errName(mp.put(e.txs[op.Tx]))
	case "block":
		o.Res = errName(mp.removeOnBlockArrival(e.mkBlock(op.State, op.Kind, op.Dirty)))
	case "remove":
		o.Res = errName(mp.removeTx(e.txs[op.Tx].GetTx()))
	case "evict":
		now := time.Now()
		sel := map[int]bool{}
		for _, a := range op.Accs {
			sel[a] = true
		}
		for id, l := range mp.pool {
			if sel[e.byAcc[id]] {
				l.lastTime = time.Time{}
			} else {
				l.lastTime = now.Add(time.Hour)
			}
		}
		mp.evictTransactions()
		o.Res = "ok"
	case "rmrace":
		// two removals of one hash (Kind "twice"), or a removal racing a block arrival (other kinds): all parties are
		// started while the engine holds the pool lock, so each has done whatever it does before locking
		var wg sync.WaitGroup
		var e1, e2 error
		tx := e.txs[op.Tx].GetTx()
		var blk *types.Block
		if op.Kind != "twice" {
			blk = e.mkBlock(op.State, op.Kind, op.Dirty)
		}
		mp.Lock()
		wg.Add(2)
		go func() { defer wg.Done(); e1 = mp.removeTx(tx) }()
		if blk == nil {
			go func() { defer wg.Done(); e2 = mp.removeTx(tx) }()
		} else {
			go func() { defer wg.Done(); mp.removeOnBlockArrival(blk) }()
		}
		time.Sleep(25 * time.Millisecond)
		mp.Unlock()
		wg.Wait()
		if blk == nil {
			switch {
			case (e1 == nil) != (e2 == nil):
				o.Res = "ok" // exactly one of the two removed it
			case e1 == nil:
				o.Res = "err:both removals reported success"
			default:
				o.Res = errName(e1)
			}
		} else {
			o.Res = "ok"
		}
	case "bulkput":
		okc := 0
		for i := op.From; i < op.To && i < len(e.txs); i++ {
			if mp.put(e.txs[i]) == nil {
				okc++
			}
		}
		o.Res = "ok"
		o.Extra = append(o.Extra, fmt.Sprintf("order:accepted=%d", okc))
	case "evictto":
		// an eviction pass with a work timeout that expires during the pass
		now := time.Now()
		sel := map[int]bool{}
		for _, a := range op.Accs {
			sel[a] = true
		}
		for id, l := range mp.pool {
			if sel[e.byAcc[id]] {
				l.lastTime = time.Time{}
			} else {
				l.lastTime = now.Add(time.Hour)
			}
		}
		evictWorkTimeout = time.Duration(op.TimeoutNs)
		mp.evictTransactions()
		evictWorkTimeout = time.Hour
		o.Res = "ok"
	case "get":
		txs, err := mp.get(op.Max)
		o.Res = errName(err)
		per := map[int][]int{}
		var order []int
		for _, tx := range txs {
			a := tx.GetBody().GetAccount()
			if tx.HasVerifedAccount() {
				a = tx.GetVerifedAccount()
			}
			ai := e.byAcc[types.ToAccountID(a)]
			if _, ok := per[ai]; !ok {
				order = append(order, ai)
			}
			per[ai] = append(per[ai], e.idx(tx))
		}
		sort.Ints(order)
		o.Get = [][]int{}
		for _, ai := range order {
			o.Get = append(o.Get, append([]int{ai}, per[ai]...))
		}
	case "unconf":
		var accs []types.Address
		for _, a := range op.Accs {
			accs = append(accs, types.Address(e.keys[a]))
		}
		if len(accs) == 0 {
			o.Res = "skip"
			return
		}
		u := mp.getUnconfirmed(accs, false)
		o.Res = "ok"
		o.Unconf = [][][]int{}
		for _, x := range u {
			p := []int{}
			for _, s := range x.Pooled.IDs {
				p = append(p, e.idxOfIDString(s))
			}
			q := []int{}
			for _, s := range x.Orphaned.IDs {
				q = append(q, e.idxOfIDString(s))
			}
			o.Unconf = append(o.Unconf, [][]int{p, q})
		}
	case "putrace":
		// a submission whose validation (no pool lock) and insertion (under the lock) are
		// separated by a block arrival: hold the pool lock, let the block notification queue
		// for it first, then start the submission (it validates against the old state and
		// queues behind), then release the lock.
		blk := e.mkBlock(op.State, op.Kind, op.Dirty)
		var seq int32
		var blockAt, putAt int32
		var perr error
		var wg sync.WaitGroup
		mp.Lock()
		wg.Add(2)
		go func() { defer wg.Done(); mp.removeOnBlockArrival(blk); blockAt = atomic.AddInt32(&seq, 1) }()
		time.Sleep(15 * time.Millisecond)
		go func() { defer wg.Done(); perr = mp.put(e.txs[op.Tx]); putAt = atomic.AddInt32(&seq, 1) }()
		time.Sleep(25 * time.Millisecond)
		mp.Unlock()
		wg.Wait()
		o.Res = errName(perr)
		if blockAt < putAt {
			o.Extra = append(o.Extra, "order:block-first")
		} else {
			o.Extra = append(o.Extra, "order:put-first")
		}
	case "exist":
		if mp.exist(e.txs[op.Tx].GetHash()) != nil {
			o.Res = "yes"
		} else {
			o.Res = "no"
		}
	default:
		e.t.Fatalf("unknown op %q", op.Op)
	}
}

func (e *c13Env) idxOfIDString(s string) int {
	for id, i := range e.byHash {
		if id.String() == s {
			return i
		}
	}
	return -1
}

func (e *c13Env) dump(o *c13Obs) {
	mp := e.mp
	o.Len, o.Orphan = mp.Size()
	o.Lists = []c13List{}
	for id, l := range mp.pool {
		ai, ok := e.byAcc[id]
		if !ok {
			ai = -1
			o.Extra = append(o.Extra, "list under unknown account "+id.String())
		}
		if ok && types.ToAccountID(l.account) != id {
			o.Extra = append(o.Extra, "list account field differs from its map key")
		}
		x := c13List{Acc: ai, Base: l.base.GetNonce(), Ready: l.ready, Txs: []int{}}
		for _, tx := range l.list {
			x.Txs = append(x.Txs, e.idx(tx))
		}
		o.Lists = append(o.Lists, x)
	}
	sort.Slice(o.Lists, func(i, j int) bool { return o.Lists[i].Acc < o.Lists[j].Acc })
	o.Cache = []int{}
	mp.cache.Range(func(k, v interface{}) bool {
		i, ok := e.byHash[k.(types.TxID)]
		if !ok {
			i = -1
		}
		if ok && e.idx(v.(types.Transaction)) != i {
			o.Extra = append(o.Extra, "cache value differs from its key")
		}
		o.Cache = append(o.Cache, i)
		return true
	})
	sort.Ints(o.Cache)
}

func TestVerifC13Engine(t *testing.T) {
	in, err := os.Open(os.Getenv("VERIF_IN"))
	if err != nil {
		t.Skip("no VERIF_IN")
	}
	defer in.Close()
	out, _ := os.Create(os.Getenv("VERIF_OUT"))
	defer out.Close()
	w := bufio.NewWriter(out)
	defer w.Flush()
	zerolog.SetGlobalLevel(zerolog.Disabled) // the pool logs every rejected put
	evictPeriod = 0
	evictWorkTimeout = time.Hour
	dir, _ := os.MkdirTemp("", "verif-c13")
	defer os.RemoveAll(dir)

	sc := bufio.NewScanner(in)
	sc.Buffer(make([]byte, 1<<20), 1<<26)
	n := 0
	for sc.Scan() {
		var c c13Case
		if err := json.Unmarshal(sc.Bytes(), &c); err != nil {
			t.Fatal(err)
		}
		n++
		e := newC13Env(t, &c, fmt.Sprintf("%s/%d", dir, n))
		var res []c13Obs
		if len(c.Threads) > 0 {
			var wg sync.WaitGroup
			start := make(chan struct{})
			var mu sync.Mutex // block construction commits to the state store; serialise that part only
			for _, ops := range c.Threads {
				wg.Add(1)
				go func(ops []c13Op) {
					defer wg.Done()
					<-start
					for i := range ops {
						var o c13Obs
						if ops[i].Op == "block" || ops[i].Op == "evict" {
							// these are issued by one goroutine each in the node (actor / monitor)
							mu.Lock()
							e.apply(&ops[i], &o)
							mu.Unlock()
						} else {
							e.apply(&ops[i], &o)
						}
					}
				}(ops)
			}
			close(start)
			done := make(chan struct{})
			go func() { wg.Wait(); close(done) }()
			select {
			case <-done:
			case <-time.After(c13HangTimeout):
				// a goroutine never came back: report and stop (goroutines cannot be killed)
				buf := make([]byte, 1<<20)
				buf = buf[:runtime.Stack(buf, true)]
				o := c13Obs{Res: "hang", Lists: []c13List{}, Cache: []int{}, Extra: []string{string(buf)}}
				b, _ := json.Marshal([]c13Obs{o})
				fmt.Fprintln(w, string(b))
				w.Flush()
				out.Close()
				os.Exit(0)
			}
			var o c13Obs
			o.Res = "final"
			e.dump(&o)
			res = append(res, o)
		} else {
			var o0 c13Obs
			o0.Res = "init"
			e.dump(&o0)
			res = append(res, o0)
			for i := range c.Ops {
				var o c13Obs
				e.apply(&c.Ops[i], &o)
				e.dump(&o)
				res = append(res, o)
			}
		}
		b, _ := json.Marshal(res)
		fmt.Fprintln(w, string(b))
		e.sdb.Close()
	}
}

// ---------------------------------------------------------------- list level
type c13LOp struct {
	Op     string `json:"op"` // put | remove | filter | get
	ID     int    `json:"id"`
	Nonce  uint64 `json:"nonce"`
	Amount uint64 `json:"amount"`
	Bal    uint64 `json:"bal"`
}
type c13LCase struct {
	Base [2]uint64 `json:"base"`
	Ops  []c13LOp  `json:"ops"`
}
type c13LObs struct {
	Res     string `json:"res"`
	Diff    int    `json:"diff"`
	Base    uint64 `json:"base"`
	Ready   int    `json:"ready"`
	Txs     []int  `json:"txs"`
	Nonces  []uint64 `json:"nonces"`
	Removed []int  `json:"removed"`
	Got     []int  `json:"got"`
}

// TestVerifC13List drives a real txList directly (Put / RemoveTx / FilterByState / Get with
// arbitrary nonces, including nonces at and below the base).
func TestVerifC13List(t *testing.T) {
	in, err := os.Open(os.Getenv("VERIF_IN"))
	if err != nil {
		t.Skip("no VERIF_IN")
	}
	defer in.Close()
	out, _ := os.Create(os.Getenv("VERIF_OUT"))
	defer out.Close()
	w := bufio.NewWriter(out)
	defer w.Flush()
	zerolog.SetGlobalLevel(zerolog.Disabled)
	serverCtx := config.NewServerContext("", "")
	cfg := serverCtx.GetDefaultConfig().(*config.Config)
	mp := NewMemPoolService(cfg, nil)
	mp.bestBlockInfo = &types.BlockHeaderInfo{No: 1}
	acc := c13Addr(0)
	sc := bufio.NewScanner(in)
	sc.Buffer(make([]byte, 1<<20), 1<<26)
	for sc.Scan() {
		var c c13LCase
		if err := json.Unmarshal(sc.Bytes(), &c); err != nil {
			t.Fatal(err)
		}
		st := func(n, b uint64) *types.State { return &types.State{Nonce: n, Balance: new(big.Int).SetUint64(b).Bytes()} }
		tl := newTxList(acc, st(c.Base[0], c.Base[1]), mp)
		byHash := map[types.TxID]int{}
		mk := func(op *c13LOp) types.Transaction {
			tx := &types.Tx{Body: &types.TxBody{Nonce: op.Nonce, Account: acc, Recipient: c13Addr(1),
				Amount: new(big.Int).SetUint64(op.Amount).Bytes(), Payload: []byte{byte(op.ID), byte(op.ID >> 8)}, Type: types.TxType_TRANSFER}}
			tx.Hash = tx.CalculateTxHash()
			byHash[types.ToTxID(tx.Hash)] = op.ID
			return types.NewTransaction(tx)
		}
		made := map[int]types.Transaction{}
		ids := func(l []types.Transaction) []int {
			r := []int{}
			for _, x := range l {
				r = append(r, byHash[types.ToTxID(x.GetHash())])
			}
			return r
		}
		var res []c13LObs
		for i := range c.Ops {
			op := &c.Ops[i]
			o := c13LObs{Res: "ok", Removed: []int{}, Got: []int{}}
			switch op.Op {
			case "put":
				tx := mk(op)
				made[op.ID] = tx
				d, err := tl.Put(tx)
				o.Diff, o.Res = d, errName(err)
			case "remove":
				tx, ok := made[op.ID]
				if !ok {
					tx = mk(op)
				}
				d, removed := tl.RemoveTx(tx.GetTx())
				o.Diff = d
				if removed != nil {
					o.Removed = ids([]types.Transaction{removed})
				} else {
					o.Res = "notfound"
				}
			case "filter":
				d, removed := tl.FilterByState(st(op.Nonce, op.Bal))
				o.Diff = d
				o.Removed = ids(removed)
			case "get":
				o.Got = ids(tl.Get())
			}
			o.Base, o.Ready = tl.base.GetNonce(), tl.ready
			o.Txs = ids(tl.list)
			o.Nonces = []uint64{}
			for _, x := range tl.list {
				o.Nonces = append(o.Nonces, x.GetBody().GetNonce())
			}
			res = append(res, o)
		}
		b, _ := json.Marshal(res)
		fmt.Fprintln(w, string(b))
	}
}

//go:build verif

package p2p

// C18 block-receive engine (package p2p, cgo-free overlay): the real
// BlocksChunkReceiver.ReceiveResp / handleInWaiting and the real syncManager handlers
// (HandleBlockProducedNotice, HandleNewBlockNotice, HandleGetBlockResponse) with gomock
// doubles for the peer, the actor service and the chain accessor.
// Cases from $VERIF_IN, one JSON observation per case to $VERIF_OUT.
import (
	"bufio"
	"bytes"
	"encoding/hex"
	"encoding/json"
	"fmt"
	"os"
	"testing"
	"time"

	"github.com/aergoio/aergo-lib/log"
	"github.com/aergoio/aergo/v2/chain"
	"github.com/aergoio/aergo/v2/p2p/p2pcommon"
	"github.com/aergoio/aergo/v2/p2p/p2pmock"
	"github.com/aergoio/aergo/v2/types"
	"github.com/aergoio/aergo/v2/types/message"
	"github.com/golang/mock/gomock"
)

type vfBlk struct {
	Hash   string `json:"hash"`
	Big    bool   `json:"big"`    // body above chain.MaxBlockSize()
	Serial uint64 `json:"serial"` // carried in Header.BlockNo: identifies the block content
	Nil    bool   `json:"nil"`
	// observation only: Hash field == sha256 digest of the block's own header
	Consistent bool `json:"consistent"`
}

type vfStep struct {
	Expired bool    `json:"expired"`
	Body    string  `json:"body"` // "blocks", "status_bad", "other_ok", "other_bad"
	Blocks  []vfBlk `json:"blocks"`
	HasNext bool    `json:"has_next"`
}

type vfSmOp struct {
	Op     string  `json:"op"` // "produced", "notice", "response"
	Block  vfBlk   `json:"block"`
	Hash   string  `json:"hash"`
	Known  bool    `json:"known"`
	Blocks []vfBlk `json:"blocks"`
}

type vfRecvCase struct {
	Kind   string   `json:"kind"` // "recv" | "sm" | "consts"
	Hashes []string `json:"hashes"`
	// RealIDs: every symbolic hash (byte i repeated 32 times) is replaced, in the calls made to the
	// receiver, by the sha256 digest of the header {BlockNo: i}; a block {hash: sym(i), serial: i} is then
	// a genuine block, {hash: sym(i), serial: j<>i} a block announcing an identifier that is not the digest
	// of its header.  Observations are translated back to the symbolic hashes.
	RealIDs bool     `json:"real_ids"`
	Steps  []vfStep `json:"steps"`
	Ops    []vfSmOp `json:"ops"`
}

type vfTell struct {
	Err    int     `json:"err"` // 0 none (blocks delivered), 1..6 error kinds, 99 other
	Blocks []vfBlk `json:"blocks"`
}

type vfStepObs struct {
	Status   int      `json:"status"`
	Offset   int      `json:"offset"`
	Tells    []vfTell `json:"tells"`
	Consumed int      `json:"consumed"`
	Panic    string   `json:"panic,omitempty"`
}

type vfSmObs struct {
	Code     int    `json:"code"` // 0 nothing sent, 3 AddBlock to chain service, 4 GetBlockInfos back, 9 panic
	CacheLen int    `json:"cachelen"`
	FwdHash  string `json:"fwd_hash,omitempty"`
	FwdSer   uint64 `json:"fwd_serial"`
	Sent     int    `json:"sent"`
}

type vfRecvObs struct {
	Steps  []vfStepObs `json:"steps,omitempty"`
	Ops    []vfSmObs   `json:"ops,omitempty"`
	Consts []int       `json:"consts,omitempty"`
}

var vfBigPayload = make([]byte, 12000)

func vfMkBlock(b vfBlk) *types.Block {
	if b.Nil {
		return nil
	}
	h, _ := hex.DecodeString(b.Hash)
	blk := &types.Block{Hash: h, Header: &types.BlockHeader{BlockNo: b.Serial}, Body: &types.BlockBody{}}
	if len(b.Hash) == 0 {
		blk.Hash = nil
	}
	if b.Big {
		blk.Body.Txs = []*types.Tx{{Body: &types.TxBody{Payload: vfBigPayload}}}
	}
	return blk
}

func vfDescribe(blk *types.Block) vfBlk {
	if blk == nil {
		return vfBlk{Nil: true}
	}
	digest := (&types.Block{Header: blk.Header}).BlockHash()
	return vfBlk{Hash: hex.EncodeToString(blk.Hash), Big: blk.Size() > int(chain.MaxBlockSize()), Serial: blk.GetHeader().GetBlockNo(),
		Consistent: bytes.Equal(digest, blk.Hash)}
}

// vfReal maps a symbolic hash (hex) to the digest of the header {BlockNo: first byte}; vfSym is the inverse.
var vfSym = map[string]string{}

func vfReal(sym string) string {
	b, _ := hex.DecodeString(sym)
	if len(b) == 0 {
		return sym
	}
	d := hex.EncodeToString((&types.Block{Header: &types.BlockHeader{BlockNo: uint64(b[0])}}).BlockHash())
	vfSym[d] = sym
	return d
}

func vfErrCode(err error) int {
	switch err {
	case nil:
		return 0
	case message.RemotePeerFailError:
		return 1
	case message.MissingHashError:
		return 2
	case message.TooManyBlocksError:
		return 3
	case message.UnexpectedBlockError:
		return 4
	case message.TooBigBlockError:
		return 5
	case message.TooFewBlocksError:
		return 6
	}
	return 99
}

func TestVerifC18BlkRecvEngine(t *testing.T) {
	in, err := os.Open(os.Getenv("VERIF_IN"))
	if err != nil {
		t.Skip("no VERIF_IN")
	}
	defer in.Close()
	out, _ := os.Create(os.Getenv("VERIF_OUT"))
	defer out.Close()
	w := bufio.NewWriter(out)
	defer w.Flush()
	chain.Init(4096, "", false, 1, 1)
	logger := log.NewLogger("verif")
	ctrl := gomock.NewController(t) // never Finish()ed: canceled receivers leave a goroutine that consumes the request id later

	sc := bufio.NewScanner(in)
	sc.Buffer(make([]byte, 1<<20), 1<<26)
	for sc.Scan() {
		var c vfRecvCase
		if err := json.Unmarshal(sc.Bytes(), &c); err != nil {
			t.Fatalf("bad case: %v", err)
		}
		var o vfRecvObs
		switch c.Kind {
		case "consts":
			o.Consts = []int{DefaultGlobalBlockCacheSize, int(chain.MaxBlockSize()), types.HashIDLength}
		case "recv":
			var tells []vfTell
			consumed := 0
			mockActor := p2pmock.NewMockActorService(ctrl)
			mockActor.EXPECT().TellRequest(message.SyncerSvc, gomock.Any()).DoAndReturn(func(a string, arg *message.GetBlockChunksRsp) {
				tl := vfTell{Err: vfErrCode(arg.Err)}
				for _, b := range arg.Blocks {
					d := vfDescribe(b)
					if c.RealIDs {
						if sym, ok := vfSym[d.Hash]; ok {
							d.Hash = sym
						}
					}
					tl.Blocks = append(tl.Blocks, d)
				}
				tells = append(tells, tl)
			}).AnyTimes()
			mockMF := p2pmock.NewMockMoFactory(ctrl)
			mockMo := createDummyMo(ctrl)
			mockMF.EXPECT().NewMsgRequestOrderWithReceiver(gomock.Any(), gomock.Any(), gomock.Any()).Return(mockMo).AnyTimes()
			mockPeer := p2pmock.NewMockRemotePeer(ctrl)
			mockPeer.EXPECT().ID().Return(dummyPeerID).AnyTimes()
			mockPeer.EXPECT().Name().Return("verif-peer").AnyTimes()
			mockPeer.EXPECT().MF().Return(mockMF).AnyTimes()
			mockPeer.EXPECT().SendMessage(gomock.Any()).AnyTimes()
			mockPeer.EXPECT().ConsumeRequest(gomock.Any()).DoAndReturn(func(id p2pcommon.MsgID) p2pcommon.MsgOrder {
				consumed++
				return nil
			}).AnyTimes()
			hashes := make([]message.BlockHash, len(c.Hashes))
			for i, h := range c.Hashes {
				if c.RealIDs {
					h = vfReal(h)
				}
				hashes[i], _ = hex.DecodeString(h)
			}
			br := NewBlockReceiver(mockActor, mockPeer, 77, hashes, time.Hour)
			br.StartGet()
			msg := p2pcommon.NewSimpleMsgVal(p2pcommon.GetBlocksResponse, sampleMsgID)
			for _, st := range c.Steps {
				var body p2pcommon.MessageBody
				switch st.Body {
				case "blocks", "status_bad":
					r := &types.GetBlockResponse{HasNext: st.HasNext, Status: types.ResultStatus_OK}
					if st.Body == "status_bad" {
						r.Status = types.ResultStatus_INTERNAL
					}
					for _, b := range st.Blocks {
						if c.RealIDs {
							b.Hash = vfReal(b.Hash)
						}
						r.Blocks = append(r.Blocks, vfMkBlock(b))
					}
					body = r
				case "other_ok":
					body = &types.GetAncestorResponse{Status: types.ResultStatus_OK}
				default:
					body = &types.Ping{}
				}
				if st.Expired {
					br.timeout = time.Now().Add(-time.Second)
				} else {
					br.timeout = time.Now().Add(time.Hour)
				}
				tells = nil
				before := consumed
				wasWaiting := br.status == receiverStatusWaiting
				var so vfStepObs
				func() {
					defer func() {
						if r := recover(); r != nil {
							so.Panic = fmt.Sprint(r)
						}
					}()
					br.ReceiveResp(msg, body)
				}()
				so.Status, so.Offset, so.Tells = int(br.status), br.offset, tells
				so.Consumed = 2 // not compared: a canceled receiver consumes asynchronously
				if wasWaiting {
					so.Consumed = consumed - before
				}
				o.Steps = append(o.Steps, so)
			}
		case "sm":
			var sent []interface{}
			var sentTo []string
			known := false
			mockPM := p2pmock.NewMockPeerManager(ctrl)
			mockActor := p2pmock.NewMockActorService(ctrl)
			mockCA := p2pmock.NewMockChainAccessor(ctrl)
			mockActor.EXPECT().GetChainAccessor().Return(mockCA).AnyTimes()
			mockCA.EXPECT().GetBlock(gomock.Any()).DoAndReturn(func(h []byte) (*types.Block, error) {
				if known {
					return &types.Block{Hash: h, Header: &types.BlockHeader{}}, nil
				}
				return nil, fmt.Errorf("not found")
			}).AnyTimes()
			mockActor.EXPECT().SendRequest(gomock.Any(), gomock.Any()).DoAndReturn(func(to string, m interface{}) {
				sentTo = append(sentTo, to)
				sent = append(sent, m)
			}).AnyTimes()
			mockPeer := p2pmock.NewMockRemotePeer(ctrl)
			mockPeer.EXPECT().ID().Return(dummyPeerID).AnyTimes()
			mockPeer.EXPECT().Name().Return("verif-peer").AnyTimes()
			sm := newSyncManager(mockActor, mockPM, logger).(*syncManager)
			msg := p2pcommon.NewSimpleMsgVal(p2pcommon.GetBlocksResponse, sampleMsgID)
			for _, op := range c.Ops {
				sent, sentTo = nil, nil
				var so vfSmObs
				func() {
					defer func() {
						if r := recover(); r != nil {
							so.Code = 9
						}
					}()
					switch op.Op {
					case "produced":
						sm.HandleBlockProducedNotice(mockPeer, vfMkBlock(op.Block))
					case "notice":
						known = op.Known
						h, _ := hex.DecodeString(op.Hash)
						sm.HandleNewBlockNotice(mockPeer, &types.NewBlockNotice{BlockHash: h, BlockNo: 5})
					case "response":
						r := &types.GetBlockResponse{}
						for _, b := range op.Blocks {
							r.Blocks = append(r.Blocks, vfMkBlock(b))
						}
						sm.HandleGetBlockResponse(mockPeer, msg, r)
					}
				}()
				so.Sent = len(sent)
				if so.Code != 9 && len(sent) == 1 {
					switch m := sent[0].(type) {
					case *message.AddBlock:
						if sentTo[0] == message.ChainSvc {
							so.Code = 3
							so.FwdHash, so.FwdSer = hex.EncodeToString(m.Block.Hash), m.Block.GetHeader().GetBlockNo()
						} else {
							so.Code = 98
						}
					case *message.GetBlockInfos:
						so.Code = 4
						if len(m.Hashes) == 1 {
							so.FwdHash = hex.EncodeToString(m.Hashes[0])
						}
					default:
						so.Code = 98
					}
				} else if so.Code != 9 && len(sent) > 1 {
					so.Code = 97
				}
				so.CacheLen = sm.blkCache.Len()
				o.Ops = append(o.Ops, so)
			}
		default:
			t.Fatalf("unknown kind %q", c.Kind)
		}
		b, _ := json.Marshal(o)
		fmt.Fprintln(w, string(b))
	}
}

//go:build verif

package types

// C18 blockid engine: what identifier types.Block.BlockHash()/BlockID() report for a block
// as it arrives from the network (Hash field supplied by the sender), against the sha256
// digest of its own header (calculateBlockHash on a copy whose Hash field is empty).
import (
	"bufio"
	"bytes"
	"encoding/hex"
	"encoding/json"
	"fmt"
	"os"
	"testing"

	"github.com/aergoio/aergo/v2/internal/enc/proto"
)

type vfBlockCase struct {
	BlockNo   uint64 `json:"no"`
	Ts        int64  `json:"ts"`
	Prev      string `json:"prev"`
	Coinbase  string `json:"coinbase"`
	HashField string `json:"hash_field"` // "" = empty; "genuine" = the real digest; else hex
	AlterHdr  bool   `json:"alter_hdr"`  // change the header after the Hash field was fixed
	Wire      bool   `json:"wire"`       // marshal + unmarshal the block (as a relay would send it)
}

type vfBlockObs struct {
	Field     string `json:"field"`      // Hash field as received
	Digest    string `json:"digest"`     // digest of the received header
	BlockHash string `json:"block_hash"` // BlockHash() of the received block
	BlockID   string `json:"block_id"`   // BlockID() (32-byte array form)
	FieldNow  string `json:"field_now"`  // Hash field after BlockHash() (it memoises)
}

func TestVerifC18BlockIDEngine(t *testing.T) {
	in, err := os.Open(os.Getenv("VERIF_IN"))
	if err != nil {
		t.Skip("no VERIF_IN")
	}
	defer in.Close()
	out, _ := os.Create(os.Getenv("VERIF_OUT"))
	defer out.Close()
	w := bufio.NewWriter(out)
	defer w.Flush()
	sc := bufio.NewScanner(in)
	sc.Buffer(make([]byte, 1<<20), 1<<26)
	for sc.Scan() {
		var c vfBlockCase
		if err := json.Unmarshal(sc.Bytes(), &c); err != nil {
			t.Fatalf("bad case: %v", err)
		}
		prev, _ := hex.DecodeString(c.Prev)
		cb, _ := hex.DecodeString(c.Coinbase)
		hdr := &BlockHeader{ChainID: []byte{3, 0, 0, 0, 1, 1, 'a', '/', 'b'}, PrevBlockHash: prev, BlockNo: c.BlockNo,
			Timestamp: c.Ts, BlocksRootHash: bytes.Repeat([]byte{1}, 32), TxsRootHash: bytes.Repeat([]byte{2}, 32),
			ReceiptsRootHash: bytes.Repeat([]byte{3}, 32), Confirms: 1, CoinbaseAccount: cb}
		blk := &Block{Header: hdr, Body: &BlockBody{}}
		genuine := append([]byte{}, (&Block{Header: hdr}).BlockHash()...)
		switch c.HashField {
		case "":
			blk.Hash = nil
		case "genuine":
			blk.Hash = genuine
		default:
			blk.Hash, _ = hex.DecodeString(c.HashField)
		}
		if c.AlterHdr {
			hdr.Timestamp++
		}
		recv := blk
		if c.Wire {
			b, err := proto.Encode(blk)
			if err != nil {
				t.Fatal(err)
			}
			recv = &Block{}
			if err := proto.Decode(b, recv); err != nil {
				t.Fatal(err)
			}
		}
		var o vfBlockObs
		o.Field = hex.EncodeToString(recv.Hash)
		o.Digest = hex.EncodeToString((&Block{Header: recv.Header}).calculateBlockHash())
		o.BlockHash = hex.EncodeToString(recv.BlockHash())
		id := recv.BlockID()
		o.BlockID = hex.EncodeToString(id[:])
		o.FieldNow = hex.EncodeToString(recv.Hash)
		b, _ := json.Marshal(o)
		fmt.Fprintln(w, string(b))
	}
}

//go:build verif

package chain

// C18 chain-level reproduction of F8 (thorough tier): the real ChainService.addBlock on
//  (1) a valid block whose Hash field is forged: which identifier it is stored / becomes
//      best under;
//  (2) an altered (invalid) block announcing the identifier of a genuine block, then the
//      genuine block: errBlocks poisoning;
//  (3) control: the genuine block alone.
// One JSON observation per scenario to $VERIF_OUT.
import (
	"bufio"
	"bytes"
	"context"
	"encoding/hex"
	"encoding/json"
	"fmt"
	"math/big"
	"os"
	"testing"

	"github.com/aergoio/aergo/v2/account/key"
	keycrypto "github.com/aergoio/aergo/v2/account/key/crypto"
	"github.com/aergoio/aergo/v2/config"
	"github.com/aergoio/aergo/v2/contract"
	"github.com/aergoio/aergo/v2/internal/common"
	"github.com/aergoio/aergo/v2/state"
	"github.com/aergoio/aergo/v2/types"
	"github.com/btcsuite/btcd/btcec/v2"
)

type vf18Acct struct {
	k    *btcec.PrivateKey
	addr []byte
}

func vf18NewAcct() *vf18Acct {
	k, _ := btcec.NewPrivateKey()
	return &vf18Acct{k, keycrypto.GenerateAddress(k.PubKey().ToECDSA())}
}

func vf18Tx(from, to *vf18Acct, nonce uint64, amt int64, cid []byte) *types.Tx {
	tx := &types.Tx{Body: &types.TxBody{Nonce: nonce, Account: from.addr, Recipient: to.addr,
		Amount: big.NewInt(amt).Bytes(), Type: types.TxType_TRANSFER, ChainIdHash: common.Hasher(cid)}}
	key.SignTx(tx, from.k)
	return tx
}

// produce a block on top of prev by executing txs with the real executor
func vf18Produce(cs *ChainService, prev *types.Block, ts int64, txs []*types.Tx) *types.Block {
	bi := types.NewBlockHeaderInfoFromPrevBlock(prev, ts, types.DummyBlockVersionner(0))
	bs := cs.sdb.NewBlockState(prev.GetHeader().GetBlocksRootHash(), state.SetPrevBlockHash(prev.BlockHash()))
	bs.SetGasPrice(big.NewInt(0))
	bs.Receipts().SetHardFork(cs.cfg.Hardfork, bi.No)
	exec := NewTxExecutor(context.Background(), nil, cs.cdb, bi, contract.BlockFactory)
	for _, tx := range txs {
		if err := exec(bs, types.NewTransaction(tx)); err != nil {
			panic(err)
		}
	}
	if err := bs.Update(); err != nil {
		panic(err)
	}
	if err := bs.Commit(); err != nil {
		panic(err)
	}
	return types.NewBlock(bi, bs.GetRoot(), bs.Receipts(), txs, nil, nil)
}

var vf18Dirs []string

func vf18Chain() *ChainService {
	serverCtx := config.NewServerContext("", "")
	testCfg = serverCtx.GetDefaultConfig().(*config.Config)
	testCfg.DbType = "memorydb"
	dir, err := os.MkdirTemp("", "verif-c18-chain-")
	if err != nil {
		panic(err)
	}
	vf18Dirs = append(vf18Dirs, dir)
	testCfg.DataDir = dir
	testCfg.EnableTestmode = true
	dfltUseMempool = false
	cs := NewChainService(testCfg)
	cs.SetChainConsensus(&StubConsensus{})
	return cs
}

type vf18Obs struct {
	Scenario        string `json:"scenario"`
	Digest          string `json:"digest"`      // sha256 digest of the (genuine) header
	Announced       string `json:"announced"`   // Hash field of the block handed to addBlock
	AddErr          string `json:"add_err"`     // first addBlock
	BestIsAnnounced bool   `json:"best_is_announced"`
	UnderAnnounced  bool   `json:"stored_under_announced"`
	UnderDigest     bool   `json:"stored_under_digest"`
	GenuineErr      string `json:"genuine_err"` // addBlock of the genuine block afterwards ("-" = not run)
	GenuineStored   bool   `json:"genuine_stored"`
}

func vf18Err(e error) string {
	if e == nil {
		return ""
	}
	return e.Error()
}

func TestVerifC18ChainF8Engine(t *testing.T) {
	outp := os.Getenv("VERIF_OUT")
	if outp == "" {
		t.Skip("no VERIF_OUT")
	}
	out, _ := os.Create(outp)
	defer out.Close()
	w := bufio.NewWriter(out)
	defer w.Flush()
	emit := func(o vf18Obs) {
		b, _ := json.Marshal(o)
		fmt.Fprintln(w, string(b))
	}
	a, b := vf18NewAcct(), vf18NewAcct()
	defer func() {
		for _, d := range vf18Dirs {
			os.RemoveAll(d)
		}
	}()

	// (1) forged Hash field on an otherwise valid block
	{
		cs := vf18Chain()
		g, _ := cs.getBlockByNo(0)
		cid := g.GetHeader().GetChainID()
		X1 := vf18Produce(cs, g, 2000, []*types.Tx{vf18Tx(a, b, 1, 10, cid)})
		real := append([]byte{}, X1.BlockHash()...)
		forged := *X1
		forged.Hash = bytes.Repeat([]byte{0xAB}, 32)
		o := vf18Obs{Scenario: "forged", Digest: hex.EncodeToString(real), Announced: hex.EncodeToString(forged.Hash), GenuineErr: "-"}
		o.AddErr = vf18Err(cs.addBlock(&forged, nil, testPeer))
		best, _ := cs.GetBestBlock()
		o.BestIsAnnounced = bytes.Equal(best.BlockHash(), forged.Hash)
		_, e1 := cs.getBlock(forged.Hash)
		_, e2 := cs.getBlock(real)
		o.UnderAnnounced, o.UnderDigest = e1 == nil, e2 == nil
		emit(o)
	}
	// (2) altered block announcing the genuine identifier, then the genuine block
	{
		cs := vf18Chain()
		g, _ := cs.getBlockByNo(0)
		cid := g.GetHeader().GetChainID()
		Y1 := vf18Produce(cs, g, 3000, []*types.Tx{vf18Tx(a, b, 1, 10, cid)})
		real := append([]byte{}, Y1.BlockHash()...)
		bad := *Y1
		hdr := *Y1.Header
		hdr.BlocksRootHash = append([]byte{}, g.GetHeader().GetBlocksRootHash()...)
		bad.Header = &hdr
		bad.Hash = append([]byte{}, real...)
		o := vf18Obs{Scenario: "poison", Digest: hex.EncodeToString(real), Announced: hex.EncodeToString(bad.Hash)}
		o.AddErr = vf18Err(cs.addBlock(&bad, nil, testPeer))
		o.GenuineErr = vf18Err(cs.addBlock(Y1, nil, testPeer))
		_, e2 := cs.getBlock(real)
		o.UnderDigest, o.GenuineStored = e2 == nil, e2 == nil
		emit(o)
	}
	// (3) control: the genuine block alone (empty Hash field as produced)
	{
		cs := vf18Chain()
		g, _ := cs.getBlockByNo(0)
		cid := g.GetHeader().GetChainID()
		Z1 := vf18Produce(cs, g, 4000, []*types.Tx{vf18Tx(a, b, 1, 10, cid)})
		Z1.Hash = nil
		digest := (&types.Block{Header: Z1.Header}).BlockHash()
		o := vf18Obs{Scenario: "control", Digest: hex.EncodeToString(digest), Announced: "", GenuineErr: "-"}
		o.AddErr = vf18Err(cs.addBlock(Z1, nil, testPeer))
		best, _ := cs.GetBestBlock()
		o.BestIsAnnounced = bytes.Equal(best.BlockHash(), digest)
		_, e2 := cs.getBlock(digest)
		o.UnderDigest, o.GenuineStored = e2 == nil, e2 == nil
		emit(o)
	}
}

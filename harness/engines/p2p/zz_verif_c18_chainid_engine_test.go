//go:build verif

package chain

// C18 chain-identifier engine (package chain, cgo-free overlay): the real ChainService.addBlock
// (addBlockInternal, orphan pool, resolveOrphan) on arrival scripts mixing honest blocks and
// blocks whose header carries another chain identifier (other magic / consensus / public or
// main-net flag / version / empty), as direct children of the best block, as orphans resolved
// later, after the honest block of the same height, and in two-deep orphan chains.
// Blocks are header-only (no transactions), built on the node's own genesis; every block gets a
// label ("h5" honest, "f5:magic" foreign variant of h5, "f6:magic^" foreign child of a foreign
// block) and all observations are reported with labels.
import (
	"bufio"
	"encoding/json"
	"fmt"
	"os"
	"sort"
	"strings"
	"testing"

	"github.com/aergoio/aergo/v2/internal/enc/proto"
	"github.com/aergoio/aergo/v2/types"
)

type vfCIStep struct {
	No     uint64 `json:"no"`     // height of the block delivered
	Kind   string `json:"kind"`   // "honest" | "magic" | "cons" | "pub" | "main" | "version" | "empty"
	Parent string `json:"parent"` // "" = honest parent; "same" = the variant of the same kind of height no-1
}

type vfCICase struct {
	Height int        `json:"height"` // honest blocks 1..height are on the node before the script starts
	Total  int        `json:"total"`  // honest blocks generated (>= every height used)
	Steps  []vfCIStep `json:"steps"`
}

type vfCIStepObs struct {
	Label   string   `json:"label"`
	Err     string   `json:"err"`
	Cls     int      `json:"cls"` // 0 nil, 2 invalid chain id, 3 errored-blocks cache, 9 other error
	Best    string   `json:"best"`
	Stored  []string `json:"stored"`  // labels of blocks retrievable by hash (beyond the initial chain)
	Main    []string `json:"main"`    // labels on the main chain from height+1 on
	Orphans []string `json:"orphans"` // labels in the orphan pool
	Foreign bool     `json:"foreign"` // ValidChildOf(genesis) is false for the delivered block
	Panic   string   `json:"panic,omitempty"`
}

type vfCIObs struct {
	Steps []vfCIStepObs `json:"steps"`
}

func vfCIVariant(h *types.Block, kind string, prev []byte) *types.Block {
	b := proto.Clone(h).(*types.Block)
	id := types.NewChainID()
	if err := id.Read(h.GetHeader().GetChainID()); err != nil {
		panic(err)
	}
	switch kind {
	case "magic":
		id.Magic = "some-other-chain"
	case "cons":
		id.Consensus = "raft"
	case "pub":
		id.PublicNet = !id.PublicNet
	case "main":
		id.MainNet = !id.MainNet
	case "version":
		id.Version = id.Version + 7
	}
	if kind == "empty" {
		b.Header.ChainID = nil
	} else if kind != "honest" {
		cid, err := id.Bytes()
		if err != nil {
			panic(err)
		}
		b.Header.ChainID = cid
	}
	if prev != nil {
		b.Header.PrevBlockHash = prev
	}
	b.Hash = nil
	b.BlockHash()
	return b
}

func TestVerifC18ChainIDEngine(t *testing.T) {
	in, err := os.Open(os.Getenv("VERIF_IN"))
	if err != nil {
		t.Skip("no VERIF_IN")
	}
	defer in.Close()
	out, _ := os.Create(os.Getenv("VERIF_OUT"))
	defer out.Close()
	w := bufio.NewWriter(out)
	defer w.Flush()
	defer func() {
		for _, d := range vf18Dirs {
			os.RemoveAll(d)
		}
	}()
	sc := bufio.NewScanner(in)
	sc.Buffer(make([]byte, 1<<20), 1<<26)
	for sc.Scan() {
		var c vfCICase
		if err := json.Unmarshal(sc.Bytes(), &c); err != nil {
			t.Fatalf("bad case: %v", err)
		}
		cs := vf18Chain()
		g, _ := cs.getBlockByNo(0)
		stub := InitStubBlockChain([]*types.Block{g}, c.Total)
		label := map[string]string{}
		byLabel := map[string]*types.Block{}
		reg := func(l string, b *types.Block) *types.Block {
			label[string(b.BlockHash())] = l
			byLabel[l] = b
			return b
		}
		for i := 1; i <= c.Total; i++ {
			reg(fmt.Sprintf("h%d", i), stub.GetBlockByNo(uint64(i)))
		}
		for i := 1; i <= c.Height; i++ {
			if err := cs.addBlock(stub.GetBlockByNo(uint64(i)), nil, testPeer); err != nil {
				t.Fatalf("set-up: honest block %d refused: %v", i, err)
			}
		}
		name := func(h []byte) string {
			if l, ok := label[string(h)]; ok {
				return l
			}
			return "?"
		}
		var o vfCIObs
		for _, st := range c.Steps {
			var so vfCIStepObs
			func() {
				defer func() {
					if r := recover(); r != nil {
						so.Panic, so.Cls = fmt.Sprint(r), 9
					}
				}()
				var blk *types.Block
				l := fmt.Sprintf("h%d", st.No)
				if st.Kind == "honest" && st.Parent == "" {
					blk = stub.GetBlockByNo(st.No)
				} else {
					l = fmt.Sprintf("f%d:%s", st.No, st.Kind)
					var prev []byte
					if st.Parent == "same" {
						l += "^"
						pl := fmt.Sprintf("f%d:%s", st.No-1, st.Kind)
						pb, ok := byLabel[pl]
						if !ok {
							pb = reg(pl, vfCIVariant(stub.GetBlockByNo(st.No-1), st.Kind, nil))
						}
						prev = pb.BlockHash()
					}
					if b0, ok := byLabel[l]; ok {
						blk = b0
					} else {
						blk = reg(l, vfCIVariant(stub.GetBlockByNo(st.No), st.Kind, prev))
					}
				}
				so.Label = l
				so.Foreign = !blk.ValidChildOf(g)
				// deliver a copy, as a relay would (the service memoises into the block it is given)
				err := cs.addBlock(proto.Clone(blk).(*types.Block), nil, testPeer)
				if err != nil {
					so.Err = err.Error()
					switch {
					case strings.HasPrefix(so.Err, "invalid chain id"):
						so.Cls = 2
					case err == ErrBlockCachedErrLRU:
						so.Cls = 3
					default:
						so.Cls = 9
					}
				}
			}()
			best, _ := cs.GetBestBlock()
			so.Best = name(best.BlockHash())
			for l, b := range byLabel {
				if b.BlockNo() > uint64(c.Height) {
					if _, err := cs.getBlock(b.BlockHash()); err == nil {
						so.Stored = append(so.Stored, l)
					}
				}
			}
			sort.Strings(so.Stored)
			for no := uint64(c.Height) + 1; no <= best.BlockNo(); no++ {
				if b, err := cs.getBlockByNo(no); err == nil {
					so.Main = append(so.Main, name(b.BlockHash()))
				} else {
					so.Main = append(so.Main, "-")
				}
			}
			for _, ob := range cs.op.cache {
				so.Orphans = append(so.Orphans, name(ob.Block.BlockHash()))
			}
			sort.Strings(so.Orphans)
			o.Steps = append(o.Steps, so)
		}
		b, _ := json.Marshal(o)
		fmt.Fprintln(w, string(b))
	}
}

//go:build verif

package v030

// C18 frame engine: the real V030ReadWriter.WriteMsg / ReadMsg (p2p/v030/v030io.go) on
// cases read from $VERIF_IN, one JSON observation per line to $VERIF_OUT.
//   op "write": message fields -> bytes written into a bytes.Buffer (or the error class)
//   op "read":  an arbitrary byte stream (hex) -> decoded fields / error class / recovered
//               panic / unread rest / heap bytes allocated during ReadMsg
//   op "readbig": header (hex) followed by `avail` zero bytes (payload not echoed)
//   op "versions": p2pcommon.AcceptedInboundVersions and the constants
// p2pcommon.MaxPayloadLength (a package variable) is set per case.
import (
	"bufio"
	"bytes"
	"encoding/hex"
	"encoding/json"
	"fmt"
	"io"
	"os"
	"runtime"
	"strings"
	"testing"

	"github.com/aergoio/aergo/v2/p2p/p2pcommon"
)

type vfFrameCase struct {
	Op       string        `json:"op"`
	Max      uint32        `json:"max"` // 0 = the real limit
	Proto    uint32        `json:"proto"`
	Ts       int64         `json:"ts"`
	ID       string        `json:"id"`
	Orig     string        `json:"orig"`
	Payload  string        `json:"payload"`
	DeclLen  int64         `json:"decl_len"` // -1: len(payload) through the real MessageValue
	Stream   string        `json:"stream"`
	Chunk    int           `json:"chunk"` // >0: the underlying reader returns at most that many bytes per Read
	Avail    int           `json:"avail"`
	Msgs     []vfStreamMsg `json:"msgs,omitempty"`     // op "stream": messages written to and read from ONE connection
	Scribble bool          `json:"scribble,omitempty"` // op "stream": overwrite each delivered payload after the next read (a handler reusing it)
}

type vfStreamMsg struct {
	Proto   uint32 `json:"proto"`
	Ts      int64  `json:"ts"`
	ID      string `json:"id"`
	Orig    string `json:"orig"`
	Payload string `json:"payload"`
	// op "stream2" only: declared length through vfMsg (0 / absent or -1 = len(payload) through the real MessageValue)
	DeclLen int64 `json:"decl_len,omitempty"`
	UseDecl bool  `json:"use_decl,omitempty"`
}

// vfWriteObs: one WriteMsg call on the long-lived writer of op "stream2".
type vfWriteObs struct {
	Cls     int    `json:"cls"`     // 0 ok, 1 invalid payload size, 2 too big payload, 3 other error, 4 panic
	Err     string `json:"err"`
	Emitted int    `json:"emitted"` // bytes that reached the underlying buffer during this call
}

type vfStreamObs struct {
	Op     string        `json:"op"`
	Err    string        `json:"err"`
	Cls    int           `json:"cls"`
	Wire   string        `json:"wire"`    // what the single writer put on the wire
	AtRead []vfStreamMsg `json:"at_read"` // each message as seen immediately after its ReadMsg returned
	Held   []vfStreamMsg `json:"held"`    // the same Message objects, looked at only after the whole stream was read
	EndCls int           `json:"end_cls"` // class of the read that ended the loop (1 = clean header error / EOF)
	Max    uint32        `json:"max"`
	// op "stream2"
	Writes     []vfWriteObs `json:"writes,omitempty"`
	WireBefore string       `json:"wire_before,omitempty"` // the wire before the final explicit Flush of the writer
}

// vfStream2: like vfStream, but the single writer is also handed messages it must refuse (payload above
// the limit, declared length different from len(payload)) and goes on after each refusal, as a peer's
// write loop does; the bytes reaching the connection are counted per call, the writer's bufio.Writer is
// flushed explicitly at the end, and ONE reader reads the wire to its end.
func vfStream2(c *vfFrameCase) (o vfStreamObs) {
	o.Op = "stream2"
	var buf bytes.Buffer
	wr := NewV030ReadWriter(bytes.NewReader(nil), &buf, nil)
	for i := range c.Msgs {
		x := &c.Msgs[i]
		payload, _ := hex.DecodeString(x.Payload)
		var msg p2pcommon.Message
		if x.UseDecl {
			msg = &vfMsg{x.Proto, uint32(x.DeclLen), x.Ts, vfID(x.ID), vfID(x.Orig), payload}
		} else {
			msg = p2pcommon.NewMessageValue(p2pcommon.SubProtocol(x.Proto), vfID(x.ID), vfID(x.Orig), x.Ts, payload)
		}
		before := buf.Len()
		var wo vfWriteObs
		func() {
			defer func() {
				if r := recover(); r != nil {
					wo.Cls, wo.Err = 4, fmt.Sprint("panic: ", r)
				}
			}()
			if err := wr.WriteMsg(msg); err != nil {
				wo.Err = err.Error()
				switch {
				case strings.Contains(wo.Err, "Invalid payload size"):
					wo.Cls = 1
				case strings.Contains(wo.Err, "too big payload"):
					wo.Cls = 2
				default:
					wo.Cls = 3
				}
			}
		}()
		wo.Emitted = buf.Len() - before
		o.Writes = append(o.Writes, wo)
	}
	o.WireBefore = hex.EncodeToString(buf.Bytes())
	wr.w.Flush()
	o.Wire = hex.EncodeToString(buf.Bytes())
	var under io.Reader = bytes.NewReader(buf.Bytes())
	if c.Chunk > 0 {
		under = &vfChunkReader{under, c.Chunk}
	}
	rd := NewV030ReadWriter(bufio.NewReaderSize(under, 4096), io.Discard, nil)
	var held []p2pcommon.Message
	func() {
		defer func() {
			if r := recover(); r != nil {
				o.Cls, o.Err, o.EndCls = 4, fmt.Sprint("panic: ", r), 4
			}
		}()
		for {
			m, err := rd.ReadMsg()
			if err != nil {
				switch {
				case strings.Contains(err.Error(), "too big payload"):
					o.EndCls = 2
				case strings.HasPrefix(err.Error(), "failed to read paylod"):
					o.EndCls = 3
				default:
					o.EndCls = 1
				}
				return
			}
			held = append(held, m)
		}
	}()
	for _, m := range held {
		o.Held = append(o.Held, vfSnap(m))
	}
	return
}

func vfSnap(m p2pcommon.Message) vfStreamMsg {
	id, og := m.ID(), m.OriginalID()
	return vfStreamMsg{Proto: m.Subprotocol().Uint32(), Ts: m.Timestamp(), ID: hex.EncodeToString(id[:]), Orig: hex.EncodeToString(og[:]),
		Payload: hex.EncodeToString(m.Payload())}
}

// vfStream: one V030ReadWriter writes every message, another one reads the resulting byte stream to its
// end.  The reader keeps every Message it was handed (as a peer's read loop hands them to asynchronous
// handlers) and they are compared with what was written only after ALL frames have been read: a payload,
// id array or header buffer shared between the messages of one connection shows up here and nowhere else.
func vfStream(c *vfFrameCase) (o vfStreamObs) {
	o.Op = "stream"
	defer func() {
		if r := recover(); r != nil {
			o.Cls, o.Err = 4, fmt.Sprint("panic: ", r)
		}
	}()
	var buf bytes.Buffer
	wr := NewV030ReadWriter(bytes.NewReader(nil), &buf, nil)
	for i := range c.Msgs {
		x := &c.Msgs[i]
		payload, _ := hex.DecodeString(x.Payload)
		msg := p2pcommon.NewMessageValue(p2pcommon.SubProtocol(x.Proto), vfID(x.ID), vfID(x.Orig), x.Ts, payload)
		if err := wr.WriteMsg(msg); err != nil {
			o.Cls, o.Err = 3, err.Error()
			return
		}
		// the caller reuses its buffer after WriteMsg returned: must not change what was written
		for j := range payload {
			payload[j] ^= 0xff
		}
	}
	o.Wire = hex.EncodeToString(buf.Bytes())
	var under io.Reader = bytes.NewReader(buf.Bytes())
	if c.Chunk > 0 {
		under = &vfChunkReader{under, c.Chunk}
	}
	rd := NewV030ReadWriter(bufio.NewReaderSize(under, 4096), io.Discard, nil)
	var held []p2pcommon.Message
	for {
		m, err := rd.ReadMsg()
		if err != nil {
			switch {
			case strings.Contains(err.Error(), "too big payload"):
				o.EndCls = 2
			case strings.HasPrefix(err.Error(), "failed to read paylod"):
				o.EndCls = 3
			default:
				o.EndCls = 1
			}
			break
		}
		o.AtRead = append(o.AtRead, vfSnap(m))
		held = append(held, m)
	}
	for _, m := range held {
		o.Held = append(o.Held, vfSnap(m))
	}
	if c.Scribble {
		// a handler that scribbles over the payload it was given must not affect the other messages
		for i, m := range held {
			p := m.Payload()
			for j := range p {
				p[j] = byte(i)
			}
		}
		for i, m := range held {
			s := vfSnap(m)
			want := make([]byte, len(m.Payload()))
			for j := range want {
				want[j] = byte(i)
			}
			if s.Payload != hex.EncodeToString(want) {
				o.Err = fmt.Sprintf("payload of held message %d changed when another message's payload was overwritten", i)
			}
		}
	}
	return
}

type vfFrameObs struct {
	Op      string   `json:"op"`
	Err     string   `json:"err"`
	Cls     int      `json:"cls"` // read: 0 ok 1 header 2 too big 3 payload 4 panic; write: 0 ok 1 size 2 big 3 other 4 panic
	Bytes   string   `json:"bytes,omitempty"`
	Proto   uint32   `json:"proto"`
	Len     uint32   `json:"len"`
	Ts      int64    `json:"ts"`
	ID      string   `json:"id,omitempty"`
	Orig    string   `json:"orig,omitempty"`
	Payload string   `json:"payload"`
	PayLen  int      `json:"paylen"`
	PayZero bool     `json:"payzero"`
	Rest    string   `json:"rest"`
	RestLen int      `json:"restlen"`
	Alloc   uint64   `json:"alloc"`
	Max     uint32   `json:"max"`
	Vers    []uint32 `json:"vers,omitempty"`
	Consts  []uint32 `json:"consts,omitempty"`
}

// vfMsg lets the declared length differ from len(payload) (WriteMsg's first check).
type vfMsg struct {
	proto   uint32
	declLen uint32
	ts      int64
	id      p2pcommon.MsgID
	orig    p2pcommon.MsgID
	payload []byte
}

func (m *vfMsg) Subprotocol() p2pcommon.SubProtocol { return p2pcommon.SubProtocol(m.proto) }
func (m *vfMsg) Length() uint32                     { return m.declLen }
func (m *vfMsg) Timestamp() int64                   { return m.ts }
func (m *vfMsg) ID() p2pcommon.MsgID                { return m.id }
func (m *vfMsg) OriginalID() p2pcommon.MsgID        { return m.orig }
func (m *vfMsg) Payload() []byte                    { return m.payload }

type vfChunkReader struct {
	r io.Reader
	n int
}

func (c *vfChunkReader) Read(p []byte) (int, error) {
	if len(p) > c.n {
		p = p[:c.n]
	}
	return c.r.Read(p)
}

func vfID(s string) (id p2pcommon.MsgID) {
	b, _ := hex.DecodeString(s)
	copy(id[:], b)
	return
}

func vfWrite(c *vfFrameCase) (o vfFrameObs) {
	o.Op = "write"
	defer func() {
		if r := recover(); r != nil {
			o.Cls, o.Err = 4, fmt.Sprint("panic: ", r)
		}
	}()
	payload, _ := hex.DecodeString(c.Payload)
	var msg p2pcommon.Message
	if c.DeclLen < 0 {
		msg = p2pcommon.NewMessageValue(p2pcommon.SubProtocol(c.Proto), vfID(c.ID), vfID(c.Orig), c.Ts, payload)
	} else {
		msg = &vfMsg{c.Proto, uint32(c.DeclLen), c.Ts, vfID(c.ID), vfID(c.Orig), payload}
	}
	var buf bytes.Buffer
	rw := NewV030ReadWriter(bytes.NewReader(nil), &buf, nil)
	err := rw.WriteMsg(msg)
	if err != nil {
		o.Err = err.Error()
		switch {
		case strings.Contains(o.Err, "Invalid payload size"):
			o.Cls = 1
		case strings.Contains(o.Err, "too big payload"):
			o.Cls = 2
		default:
			o.Cls = 3
		}
	}
	o.Bytes = hex.EncodeToString(buf.Bytes())
	return
}

func vfRead(stream []byte, chunk int, echo bool) (o vfFrameObs) {
	o.Op = "read"
	var rw *V030ReadWriter
	var under io.Reader = bytes.NewReader(stream)
	if chunk > 0 {
		under = &vfChunkReader{under, chunk}
	}
	rw = NewV030ReadWriter(bufio.NewReaderSize(under, 4096), io.Discard, nil)
	func() {
		defer func() {
			if r := recover(); r != nil {
				o.Cls, o.Err = 4, fmt.Sprint("panic: ", r)
			}
		}()
		var m0, m1 runtime.MemStats
		runtime.ReadMemStats(&m0)
		msg, err := rw.ReadMsg()
		runtime.ReadMemStats(&m1)
		o.Alloc = m1.TotalAlloc - m0.TotalAlloc
		if err != nil {
			o.Err = err.Error()
			switch {
			case strings.Contains(o.Err, "too big payload"):
				o.Cls = 2
			case strings.HasPrefix(o.Err, "failed to read paylod"):
				o.Cls = 3
			default:
				o.Cls = 1
			}
			return
		}
		o.Proto = msg.Subprotocol().Uint32()
		o.Len = msg.Length()
		o.Ts = msg.Timestamp()
		id, og := msg.ID(), msg.OriginalID()
		o.ID, o.Orig = hex.EncodeToString(id[:]), hex.EncodeToString(og[:])
		p := msg.Payload()
		o.PayLen = len(p)
		if echo {
			o.Payload = hex.EncodeToString(p)
		} else {
			o.PayZero = true
			for _, b := range p {
				if b != 0 {
					o.PayZero = false
					break
				}
			}
		}
	}()
	if o.Cls == 0 {
		rest, _ := io.ReadAll(rw.r)
		o.RestLen = len(rest)
		if echo {
			o.Rest = hex.EncodeToString(rest)
		}
	}
	return
}

func TestVerifC18FrameEngine(t *testing.T) {
	in, err := os.Open(os.Getenv("VERIF_IN"))
	if err != nil {
		t.Skip("no VERIF_IN")
	}
	defer in.Close()
	out, _ := os.Create(os.Getenv("VERIF_OUT"))
	defer out.Close()
	w := bufio.NewWriter(out)
	defer w.Flush()
	realMax := p2pcommon.MaxPayloadLength
	defer func() { p2pcommon.MaxPayloadLength = realMax }()

	sc := bufio.NewScanner(in)
	sc.Buffer(make([]byte, 1<<20), 1<<28)
	for sc.Scan() {
		var c vfFrameCase
		if err := json.Unmarshal(sc.Bytes(), &c); err != nil {
			t.Fatalf("bad case: %v", err)
		}
		if c.Max == 0 {
			p2pcommon.MaxPayloadLength = realMax
		} else {
			p2pcommon.MaxPayloadLength = c.Max
		}
		var o vfFrameObs
		if c.Op == "stream2" {
			so := vfStream2(&c)
			so.Max = p2pcommon.MaxPayloadLength
			b, _ := json.Marshal(so)
			fmt.Fprintln(w, string(b))
			continue
		}
		if c.Op == "stream" {
			so := vfStream(&c)
			so.Max = p2pcommon.MaxPayloadLength
			b, _ := json.Marshal(so)
			fmt.Fprintln(w, string(b))
			continue
		}
		switch c.Op {
		case "write":
			o = vfWrite(&c)
		case "read":
			s, _ := hex.DecodeString(c.Stream)
			o = vfRead(s, c.Chunk, true)
		case "readbig":
			h, _ := hex.DecodeString(c.Stream)
			s := make([]byte, len(h)+c.Avail)
			copy(s, h)
			o = vfRead(s, c.Chunk, false)
			o.Op = "readbig"
		case "versions":
			o.Op = "versions"
			for _, v := range p2pcommon.AcceptedInboundVersions {
				o.Vers = append(o.Vers, v.Uint32())
			}
			o.Consts = []uint32{p2pcommon.P2PVersion031.Uint32(), p2pcommon.P2PVersion032.Uint32(),
				p2pcommon.P2PVersion033.Uint32(), p2pcommon.P2PVersion200.Uint32(), p2pcommon.P2PVersionUnknown.Uint32(),
				uint32(msgHeaderLength), realMax}
		default:
			t.Fatalf("unknown op %q", c.Op)
		}
		o.Max = p2pcommon.MaxPayloadLength
		b, _ := json.Marshal(o)
		fmt.Fprintln(w, string(b))
	}
}

//go:build verif

package v200

// C18 handshake engine for the 2.0.0 handshaker (p2p/v200).  The package's own
// v200handshake_test.go is masked in the build overlay (its init() loads a key file by a
// relative path); this file brings its own fixtures.
// mode "check": the real V200Handshaker.checkRemoteStatus on a types.Status built from the
//               case; the GoAway notice is read back from the real V030ReadWriter.
// mode "recv":  the status travels as a real StatusRequest frame: WriteMsg -> bytes ->
//               receiveRemoteStatus (ReadMsg + protobuf decoding) -> checkRemoteStatus.
import (
	"bufio"
	"bytes"
	"context"
	"encoding/hex"
	"encoding/json"
	"fmt"
	"io"
	"os"
	"testing"

	"github.com/aergoio/aergo-lib/log"
	"github.com/aergoio/aergo/v2/p2p/p2pcommon"
	"github.com/aergoio/aergo/v2/p2p/p2putil"
	v030 "github.com/aergoio/aergo/v2/p2p/v030"
	"github.com/btcsuite/btcd/btcec/v2"
	"time"
	"github.com/aergoio/aergo/v2/types"
)


var (
	vfAgentID, vfOtherID types.PeerID
	vfBPIDs              [4]types.PeerID
	vfBPKeys             [4]*btcec.PrivateKey
)

func init() {
	mk := func() (*btcec.PrivateKey, types.PeerID) {
		k, _ := btcec.NewPrivateKey()
		id, _ := types.IDFromPublicKey(p2putil.ConvertPubToLibP2P(k.PubKey()))
		return k, id
	}
	_, vfAgentID = mk()
	_, vfOtherID = mk()
	for i := range vfBPKeys {
		vfBPKeys[i], vfBPIDs[i] = mk()
	}
}

type vfChain struct {
	V     int32  `json:"v"`
	Pub   bool   `json:"pub"`
	Main  bool   `json:"main"`
	Magic string `json:"magic"`
	Cons  string `json:"cons"`
}

func (c vfChain) id() *types.ChainID {
	return &types.ChainID{Version: c.V, PublicNet: c.Pub, MainNet: c.Main, Magic: c.Magic, Consensus: c.Cons}
}

type vfLocal struct {
	Chain   vfChain `json:"chain"`  // static chain id (0.3.1 / 0.3.2); base of the per-height id
	V0      int32   `json:"v0"`     // version below Fork
	V1      int32   `json:"v1"`     // version from Fork on
	Fork    uint64  `json:"fork"`
	Genesis string  `json:"genesis"`
	Peer    string  `json:"peer"`
}

type vfStatus struct {
	Chain     *vfChain `json:"chain"`      // encoded with the real ChainID.Bytes()
	ChainRaw  string   `json:"chain_raw"`  // or raw bytes (hex) when Chain is nil
	BestHash  string   `json:"best_hash"`
	Height    uint64   `json:"height"`
	Addr      string   `json:"addr"`
	NilSender bool     `json:"nil_sender"`
	Peer      string   `json:"peer"`
	Genesis   string   `json:"genesis"`
	Role      int32    `json:"role"`
	Producers []string `json:"producers"`
	BadCert   bool     `json:"bad_cert"`
	NoAddrs   bool     `json:"no_addrs"`  // leave Sender.Addresses empty (default: one multiaddr so that the 0.3.x fix-up is not involved)
	// 2.0.0 role / certificate rule with real keys: peer ids "@agent"/"@other", producers "@bp0".."@bp3"
	Certs []vfCertSpec `json:"certs"`
}

type vfCertSpec struct {
	BP      int    `json:"bp"`      // signing producer key index
	Agent   string `json:"agent"`   // "@agent" or "@other": the agent id the certificate is issued for
	Tamper  bool   `json:"tamper"`  // flip a signature byte
	Expired bool   `json:"expired"` // validity period in the past
}

type vfCertObs struct {
	Valid bool   `json:"valid"` // by construction: signed by the producer key, in its validity period
	Agent string `json:"agent"`
	BP    string `json:"bp"`
}

type vfDecoded struct {
	OK        bool     `json:"ok"`
	ChainID   string   `json:"chain_id"`
	BestHash  string   `json:"best_hash"`
	Height    uint64   `json:"height"`
	NilSender bool     `json:"nil_sender"`
	Addr      string   `json:"addr"`
	NAddrs    int      `json:"naddrs"`
	Port      uint32   `json:"port"`
	Peer      string   `json:"peer"`
	Genesis   string   `json:"genesis"`
	Role      int32    `json:"role"`
	Producers []string `json:"producers"`
	NCerts    int      `json:"ncerts"`
}

type vfHSCase struct {
	HS     int      `json:"hs"` // 31, 32, 33, 200
	Mode   string   `json:"mode"`
	Local  vfLocal  `json:"local"`
	Status vfStatus `json:"status"`
	// frame-level variations of the inbound stream (modes "inbound"/"recv")
	FrameProto uint32 `json:"frame_proto"` // sub-protocol of the frame carrying the status (0 = StatusRequest)
	Keep       int    `json:"keep"`        // >0: keep only that many bytes of the frame
	Cut        int    `json:"cut"`         // >0: drop that many bytes from the end of the frame
	RawStream  string `json:"raw_stream"`  // if set: the inbound stream is exactly these bytes (hex); "-" = empty stream
	PayloadRaw string `json:"payload_raw"` // if set: the frame's payload is exactly these bytes (hex) instead of the marshalled status; "-" = empty
}

type vfHSObs struct {
	Accepted bool   `json:"accepted"`
	Err      string `json:"err"`
	GoAway   string `json:"goaway"`
	Cls      int    `json:"cls"`
	ChainID  string `json:"chain_id"` // the status chain id bytes actually used
	Stream   string `json:"stream"`   // the inbound byte stream actually used (frame modes)
	MaxLen   uint32 `json:"maxlen"`   // p2pcommon.MaxPayloadLength in force
	PeerUsed      string      `json:"peer_used"`      // status peer id actually used (hex)
	LocalPeerUsed string      `json:"local_peer_used"`
	ProducersUsed []string    `json:"producers_used"`
	CertsUsed     []vfCertObs `json:"certs_used"`
	Dec           *vfDecoded  `json:"dec,omitempty"` // payload_raw: what protobuf decoding of the payload gives
	// what the handshaker reports about the remote peer after an accepted status ("-" = not available in this mode)
	ResPeer string `json:"res_peer"`
	ResHash string `json:"res_hash"`
	ResNo   uint64 `json:"res_no"`
	ResSet  bool   `json:"res_set"`
	Panic    bool   `json:"panic"`
}

type vfVM struct{ l vfLocal }

func (v vfVM) FindBestP2PVersion(versions []p2pcommon.P2PVersion) p2pcommon.P2PVersion {
	return p2pcommon.P2PVersionUnknown
}
func (v vfVM) GetVersionedHandshaker(version p2pcommon.P2PVersion, peerID types.PeerID, rwc io.ReadWriteCloser) (p2pcommon.VersionedHandshaker, error) {
	return nil, fmt.Errorf("unused")
}
func (v vfVM) GetBestChainID() *types.ChainID { return v.GetChainID(0) }
func (v vfVM) GetChainID(no types.BlockNo) *types.ChainID {
	c := v.l.Chain.id()
	if no < v.l.Fork {
		c.Version = v.l.V0
	} else {
		c.Version = v.l.V1
	}
	return c
}

func vfHex(s string) []byte {
	b, _ := hex.DecodeString(s)
	return b
}

func vfBuildStatus(s *vfStatus) (*types.Status, []byte) {
	var cid []byte
	if s.Chain != nil {
		cid, _ = s.Chain.id().Bytes()
	} else {
		cid = vfHex(s.ChainRaw)
	}
	st := &types.Status{ChainID: cid, BestBlockHash: vfHex(s.BestHash), BestHeight: s.Height, Genesis: vfHex(s.Genesis)}
	if !s.NilSender {
		pa := &types.PeerAddress{Address: s.Addr, Port: 7846, PeerID: vfHex(s.Peer), Role: types.PeerRole(s.Role), Version: "v2.0.0"}
		for _, p := range s.Producers {
			pa.ProducerIDs = append(pa.ProducerIDs, vfPeerRef(p))
		}
		pa.PeerID = vfPeerRef(s.Peer)
		if !s.NoAddrs {
			pa.Addresses = []string{"/ip4/192.168.1.10/tcp/7846"}
		}
		st.Sender = pa
	}
	if s.BadCert {
		st.Certificates = []*types.AgentCertificate{{CertVersion: 1, BPID: []byte{1, 2, 3}}}
	}
	for _, cs := range s.Certs {
		ttl := time.Hour
		if cs.Expired {
			ttl = -time.Hour
		}
		c, err := p2putil.NewAgentCertV1(vfBPIDs[cs.BP], types.PeerID(vfPeerRef(cs.Agent)), vfBPKeys[cs.BP], []string{"192.168.1.10"}, ttl)
		if err != nil {
			panic(err)
		}
		pc, err := p2putil.ConvertCertToProto(c)
		if err != nil {
			panic(err)
		}
		if cs.Tamper {
			pc.Signature[len(pc.Signature)-1] ^= 1
		}
		st.Certificates = append(st.Certificates, pc)
	}
	return st, cid
}


// vfPeerRef: "@agent", "@other", "@bp<i>" name real peer ids generated at start-up; anything else is hex.
func vfPeerRef(s string) []byte {
	switch {
	case s == "@agent":
		return []byte(vfAgentID)
	case s == "@other":
		return []byte(vfOtherID)
	case len(s) == 4 && s[:3] == "@bp":
		return []byte(vfBPIDs[int(s[3]-'0')])
	}
	return vfHex(s)
}

func vfDecode(payload []byte) *vfDecoded {
	d := &vfDecoded{}
	st := &types.Status{}
	if err := p2putil.UnmarshalMessageBody(payload, st); err != nil {
		return d
	}
	d.OK = true
	d.ChainID, d.BestHash, d.Height = hex.EncodeToString(st.ChainID), hex.EncodeToString(st.BestBlockHash), st.BestHeight
	d.Genesis, d.NCerts = hex.EncodeToString(st.Genesis), len(st.Certificates)
	if st.Sender == nil {
		d.NilSender = true
		return d
	}
	d.Addr, d.NAddrs, d.Peer, d.Role = st.Sender.Address, len(st.Sender.Addresses), hex.EncodeToString(st.Sender.PeerID), int32(st.Sender.Role)
	d.Port = st.Sender.Port
	for _, p := range st.Sender.ProducerIDs {
		d.Producers = append(d.Producers, hex.EncodeToString(p))
	}
	return d
}

var vfGoAwayClass = map[string]int{"malformed message": 20, "unexpected message type": 21, "malformed status message": 23, "wrong status": 1, "different chainID": 2, "wrong block hash": 3,
	"invalid peer address": 4, "Inconsistent peerID": 5, "different genesis block": 6, "invalid certificate works": 7}

// vfLastGoAway decodes the frames written to buf with the real reader and returns the
// message of the last GoAway notice ("" if none).
func vfLastGoAway(buf *bytes.Buffer) string {
	rd := v030.NewV030ReadWriter(bytes.NewReader(buf.Bytes()), io.Discard, nil)
	last := ""
	for {
		m, err := rd.ReadMsg()
		if err != nil {
			return last
		}
		if m.Subprotocol() == p2pcommon.GoAway {
			ga := &types.GoAwayNotice{}
			if p2putil.UnmarshalMessageBody(m.Payload(), ga) == nil {
				last = ga.Message
			}
		}
	}
}

type vfRWC struct {
	io.Reader
	io.Writer
}

func (vfRWC) Close() error { return nil }

func vfClassify(o *vfHSObs, err error, goaway string) {
	o.Accepted = err == nil
	o.GoAway = goaway
	if err != nil {
		o.Err = err.Error()
		if c, ok := vfGoAwayClass[goaway]; ok {
			o.Cls = c
		} else if goaway == "" {
			o.Cls = 22 // refused without sending a GoAway (e.g. the peer sent one)
		} else {
			o.Cls = 99
		}
	}
}

func TestVerifC18HS200Engine(t *testing.T) {
	in, err := os.Open(os.Getenv("VERIF_IN"))
	if err != nil {
		t.Skip("no VERIF_IN")
	}
	defer in.Close()
	out, _ := os.Create(os.Getenv("VERIF_OUT"))
	defer out.Close()
	w := bufio.NewWriter(out)
	defer w.Flush()
	logger := log.NewLogger("verif")

	sc := bufio.NewScanner(in)
	sc.Buffer(make([]byte, 1<<20), 1<<26)
	for sc.Scan() {
		var c vfHSCase
		if err := json.Unmarshal(sc.Bytes(), &c); err != nil {
			t.Fatalf("bad case: %v", err)
		}
		var o vfHSObs
		func() {
			defer func() {
				if r := recover(); r != nil {
					o.Panic, o.Err, o.Cls = true, fmt.Sprint("panic: ", r), 98
				}
			}()
			st, cid := vfBuildStatus(&c.Status)
			o.ChainID = hex.EncodeToString(cid)
			o.LocalPeerUsed = hex.EncodeToString(vfPeerRef(c.Local.Peer))
			if st.Sender != nil {
				o.PeerUsed = hex.EncodeToString(st.Sender.PeerID)
				for _, p := range st.Sender.ProducerIDs {
					o.ProducersUsed = append(o.ProducersUsed, hex.EncodeToString(p))
				}
			}
			for _, cs := range c.Status.Certs {
				o.CertsUsed = append(o.CertsUsed, vfCertObs{Valid: !cs.Tamper && !cs.Expired, Agent: hex.EncodeToString(vfPeerRef(cs.Agent)),
					BP: hex.EncodeToString([]byte(vfBPIDs[cs.BP]))})
			}
			var written bytes.Buffer
			var input bytes.Buffer
			if c.Mode == "recv" {
				body, err := p2putil.MarshalMessageBody(st)
				if err != nil {
					panic(err)
				}
				if c.PayloadRaw == "-" {
					body = []byte{}
				} else if c.PayloadRaw != "" {
					body = vfHex(c.PayloadRaw)
				}
				if c.PayloadRaw != "" {
					o.Dec = vfDecode(body)
				}
				sp := p2pcommon.StatusRequest
				if c.FrameProto != 0 {
					sp = p2pcommon.SubProtocol(c.FrameProto)
				}
				msg := p2pcommon.NewMessageValue(sp, p2pcommon.NewMsgID(), p2pcommon.EmptyID, 1700000000000000000, body)
				fw := v030.NewV030ReadWriter(bytes.NewReader(nil), &input, nil)
				if err := fw.WriteMsg(msg); err != nil {
					panic(err)
				}
				if c.Keep > 0 && c.Keep < input.Len() {
					input.Truncate(c.Keep)
				}
				if c.Cut > 0 && c.Cut <= input.Len() {
					input.Truncate(input.Len() - c.Cut)
				}
				if c.RawStream == "-" {
					input.Reset()
				} else if c.RawStream != "" {
					input.Reset()
					input.Write(vfHex(c.RawStream))
				}
				o.Stream = hex.EncodeToString(input.Bytes())
				o.MaxLen = p2pcommon.MaxPayloadLength
			}
			h := &V200Handshaker{vm: vfVM{c.Local}, logger: logger, peerID: types.PeerID(vfPeerRef(c.Local.Peer)),
				localGenesisHash: vfHex(c.Local.Genesis)}
			h.msgRW = v030.NewV030MsgPipe(vfRWC{&input, &written})
			var hsErr error
			if c.Mode == "recv" {
				var rst *types.Status
				rst, hsErr = h.receiveRemoteStatus(context.Background())
				if hsErr == nil {
					hsErr = h.checkRemoteStatus(rst)
				}
			} else {
				hsErr = h.checkRemoteStatus(st)
			}
			vfClassify(&o, hsErr, vfLastGoAway(&written))
			if hsErr == nil {
				o.ResSet, o.ResPeer, o.ResHash, o.ResNo = true, hex.EncodeToString([]byte(h.remoteMeta.ID)), hex.EncodeToString(h.remoteHash[:]), h.remoteNo
			}
		}()
		b, _ := json.Marshal(o)
		fmt.Fprintln(w, string(b))
	}
}

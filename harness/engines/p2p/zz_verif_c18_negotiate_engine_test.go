//go:build verif

package p2p

// C18 negotiate engine (thorough tier; package p2p needs the cgo-free overlay): the real
// defaultVersionManager.FindBestP2PVersion on lists of requested versions, and which
// handshaker type GetVersionedHandshaker would pick is observed through the version only.
import (
	"bufio"
	"encoding/json"
	"fmt"
	"os"
	"testing"

	"github.com/aergoio/aergo/v2/p2p/p2pcommon"
)

func TestVerifC18NegotiateEngine(t *testing.T) {
	in, err := os.Open(os.Getenv("VERIF_IN"))
	if err != nil {
		t.Skip("no VERIF_IN")
	}
	defer in.Close()
	out, _ := os.Create(os.Getenv("VERIF_OUT"))
	defer out.Close()
	w := bufio.NewWriter(out)
	defer w.Flush()
	vm := &defaultVersionManager{}
	sc := bufio.NewScanner(in)
	for sc.Scan() {
		var req []uint32
		if err := json.Unmarshal(sc.Bytes(), &req); err != nil {
			t.Fatalf("bad case: %v", err)
		}
		vs := make([]p2pcommon.P2PVersion, len(req))
		for i, v := range req {
			vs[i] = p2pcommon.P2PVersion(v)
		}
		fmt.Fprintln(w, vm.FindBestP2PVersion(vs).Uint32())
	}
}

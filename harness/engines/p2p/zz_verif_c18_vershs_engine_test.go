//go:build verif

package p2p

// C18 versioned-handshake engine (package p2p, cgo-free overlay): whole connections through
// the REAL InboundWireHandshaker / OutboundWireHandshaker, the REAL defaultVersionManager
// (FindBestP2PVersion, GetVersionedHandshaker) and the real versioned handshakers and
// framing, over an in-memory stream.  Observed: accepted / refused, the GoAway message, the
// wire-handshake answer, and for op "type" the concrete type GetVersionedHandshaker returns.
import (
	"bufio"
	"bytes"
	"encoding/hex"
	"encoding/json"
	"fmt"
	"io"
	"os"
	"testing"
	"time"

	"github.com/aergoio/aergo-lib/log"
	"github.com/aergoio/aergo/v2/chain"
	"github.com/aergoio/aergo/v2/p2p/p2pcommon"
	"github.com/aergoio/aergo/v2/p2p/p2pmock"
	"github.com/aergoio/aergo/v2/p2p/p2putil"
	v030 "github.com/aergoio/aergo/v2/p2p/v030"
	"github.com/aergoio/aergo/v2/types"
	"github.com/golang/mock/gomock"
)

type vfVChain struct {
	V     int32  `json:"v"`
	Pub   bool   `json:"pub"`
	Main  bool   `json:"main"`
	Magic string `json:"magic"`
	Cons  string `json:"cons"`
}

func (c vfVChain) id() *types.ChainID {
	return &types.ChainID{Version: c.V, PublicNet: c.Pub, MainNet: c.Main, Magic: c.Magic, Consensus: c.Cons}
}

type vfVCase struct {
	Op       string   `json:"op"`       // "type" | "inbound" | "outbound"
	Versions []uint32 `json:"versions"` // inbound: versions the remote offers; outbound/type: [version the listener answers]
	// local node: static chain id = Chain; per-height id has version V0 below Fork, V1 from Fork on
	Chain vfVChain `json:"chain"`
	V0    int32    `json:"v0"`
	V1    int32    `json:"v1"`
	Fork  uint64   `json:"fork"`
	// remote status
	SChain    vfVChain `json:"schain"`
	Genesis   string   `json:"genesis"` // "local" | "other" | hex
	Peer      string   `json:"peer"`    // "conn" (the connection's peer id) | hex
	BestHash  string   `json:"best_hash"`
	Height    uint64   `json:"height"`
	Addr      string   `json:"addr"`
	NilSender bool     `json:"nil_sender"`
}

type vfVObs struct {
	Type     string `json:"type"`     // concrete type of the handshaker, "" on error
	TypeErr  string `json:"type_err"`
	Accepted bool   `json:"accepted"`
	Err      string `json:"err"`
	GoAway   string `json:"goaway"`
	Cls      int    `json:"cls"`     // 0 accepted, 1..7 GoAway classes, 20.. frame level, 98 no handshaker / no version, 99 other
	WireResp string `json:"wire_resp"` // inbound: the 8-byte answer to the wire handshake request
	Panic    string `json:"panic,omitempty"`
	ChainID  string `json:"chain_id"` // status chain id bytes used
	GenUsed  string `json:"gen_used"`
	LocalGen string `json:"local_gen"`
	PeerUsed string `json:"peer_used"`
	ConnPeer string `json:"conn_peer"`
	ResPeer  string `json:"res_peer"`
	ResNo    uint64 `json:"res_no"`
}

type vfVPipe struct {
	r io.Reader
	w *bytes.Buffer
}

func (p *vfVPipe) Read(b []byte) (int, error)  { return p.r.Read(b) }
func (p *vfVPipe) Write(b []byte) (int, error) { return p.w.Write(b) }
func (p *vfVPipe) Close() error                { return nil }

var vfVGoAway = map[string]int{"malformed message": 20, "unexpected message type": 21, "malformed status message": 23, "wrong status": 1,
	"different chainID": 2, "wrong block hash": 3, "invalid peer address": 4, "Inconsistent peerID": 5, "different genesis block": 6, "invalid certificate works": 7}

// last GoAway notice among the frames in b ("" if none)
func vfVLastGoAway(b []byte) string {
	rd := v030.NewV030ReadWriter(bytes.NewReader(b), io.Discard, nil)
	last := ""
	for {
		m, err := rd.ReadMsg()
		if err != nil {
			return last
		}
		if m.Subprotocol() == p2pcommon.GoAway {
			ga := &types.GoAwayNotice{}
			if p2putil.UnmarshalMessageBody(m.Payload(), ga) == nil {
				last = ga.Message
			}
		}
	}
}

func TestVerifC18VersHSEngine(t *testing.T) {
	in, err := os.Open(os.Getenv("VERIF_IN"))
	if err != nil {
		t.Skip("no VERIF_IN")
	}
	defer in.Close()
	out, _ := os.Create(os.Getenv("VERIF_OUT"))
	defer out.Close()
	w := bufio.NewWriter(out)
	defer w.Flush()
	logger := log.NewLogger("verif")
	ctrl := gomock.NewController(t)
	savedGenesis := chain.Genesis
	defer func() { chain.Genesis = savedGenesis }()
	connPeer := types.RandomPeerID()
	localMeta := p2pcommon.NewMetaWith1Addr(types.RandomPeerID(), "192.168.1.3", 7846, "v2.0.0")
	bestBlock := &types.Block{Hash: bytes.Repeat([]byte{0x5a}, 32), Header: &types.BlockHeader{BlockNo: 100}}

	sc := bufio.NewScanner(in)
	sc.Buffer(make([]byte, 1<<20), 1<<26)
	for sc.Scan() {
		var c vfVCase
		if err := json.Unmarshal(sc.Bytes(), &c); err != nil {
			t.Fatalf("bad case: %v", err)
		}
		var o vfVObs
		func() {
			defer func() {
				if r := recover(); r != nil {
					o.Panic, o.Cls = fmt.Sprint(r), 97
				}
			}()
			localChainID := c.Chain.id()
			chain.Genesis = &types.Genesis{ID: *localChainID, Timestamp: 1234567}
			localGen := append([]byte{}, chain.Genesis.Block().BlockHash()...)
			otherGen := (&types.Genesis{ID: *localChainID, Timestamp: 7654321}).Block().BlockHash()
			o.LocalGen, o.ConnPeer = hex.EncodeToString(localGen), hex.EncodeToString([]byte(connPeer))

			mockIS := p2pmock.NewMockInternalService(ctrl)
			mockPM := p2pmock.NewMockPeerManager(ctrl)
			mockActor := p2pmock.NewMockActorService(ctrl)
			mockCA := p2pmock.NewMockChainAccessor(ctrl)
			mockCM := p2pmock.NewMockCertificateManager(ctrl)
			mockPM.EXPECT().SelfMeta().Return(localMeta).AnyTimes()
			mockIS.EXPECT().SelfMeta().Return(localMeta).AnyTimes()
			mockIS.EXPECT().CertificateManager().Return(mockCM).AnyTimes()
			mockIS.EXPECT().GetChainAccessor().Return(mockCA).AnyTimes()
			mockActor.EXPECT().GetChainAccessor().Return(mockCA).AnyTimes()
			mockCA.EXPECT().GetBestBlock().Return(bestBlock, nil).AnyTimes()
			mockCA.EXPECT().ChainID(gomock.Any()).DoAndReturn(func(no types.BlockNo) *types.ChainID {
				cp := *localChainID
				if no < c.Fork {
					cp.Version = c.V0
				} else {
					cp.Version = c.V1
				}
				return &cp
			}).AnyTimes()
			vm := newDefaultVersionManager(mockIS, mockActor, mockPM, mockCA, logger, localChainID)

			if c.Op == "type" {
				h, err := vm.GetVersionedHandshaker(p2pcommon.P2PVersion(c.Versions[0]), connPeer, &vfVPipe{bytes.NewReader(nil), &bytes.Buffer{}})
				if err != nil {
					o.TypeErr = err.Error()
				} else {
					o.Type = fmt.Sprintf("%T", h)
				}
				return
			}
			// the remote peer's status
			cid, _ := c.SChain.id().Bytes()
			gen := localGen
			switch c.Genesis {
			case "local":
			case "other":
				gen = otherGen
			default:
				gen, _ = hex.DecodeString(c.Genesis)
			}
			peer := []byte(connPeer)
			if c.Peer != "conn" {
				peer, _ = hex.DecodeString(c.Peer)
			}
			bh, _ := hex.DecodeString(c.BestHash)
			st := &types.Status{ChainID: cid, BestBlockHash: bh, BestHeight: c.Height, Version: "v2.0.0", Genesis: gen}
			if !c.NilSender {
				st.Sender = &types.PeerAddress{Address: c.Addr, Port: 7846, PeerID: peer, Role: types.PeerRole_Producer, Version: "v2.0.0",
					Addresses: []string{"/ip4/192.168.1.2/tcp/7846"}}
			}
			o.ChainID, o.GenUsed, o.PeerUsed = hex.EncodeToString(cid), hex.EncodeToString(gen), hex.EncodeToString(peer)
			body, err := p2putil.MarshalMessageBody(st)
			if err != nil {
				panic(err)
			}
			frame := p2pcommon.NewMessageValue(p2pcommon.StatusRequest, p2pcommon.NewMsgID(), p2pcommon.EmptyID, time.Now().UnixNano(), body)
			inb := bytes.NewBuffer(nil)
			vs := make([]p2pcommon.P2PVersion, len(c.Versions))
			for i, v := range c.Versions {
				vs[i] = p2pcommon.P2PVersion(v)
			}
			if c.Op == "inbound" {
				inb.Write(p2pcommon.HSHeadReq{Magic: p2pcommon.MAGICMain, Versions: vs}.Marshal())
			} else {
				inb.Write(p2pcommon.HSHeadResp{Magic: p2pcommon.MAGICMain, RespCode: c.Versions[0]}.Marshal())
			}
			if err := v030.NewV030ReadWriter(nil, inb, nil).WriteMsg(frame); err != nil {
				panic(err)
			}
			outb := bytes.NewBuffer(nil)
			stream := &vfVPipe{r: inb, w: outb}
			var res *p2pcommon.HandshakeResult
			var hsErr error
			if c.Op == "inbound" {
				res, hsErr = NewInboundHSHandler(mockPM, mockActor, vm, logger, localChainID, connPeer).Handle(stream, 5*time.Second)
				written := outb.Bytes()
				if len(written) >= 8 {
					o.WireResp = hex.EncodeToString(written[:8])
					o.GoAway = vfVLastGoAway(written[8:])
				}
			} else {
				res, hsErr = NewOutboundHSHandler(mockPM, mockActor, vm, logger, localChainID, connPeer).Handle(stream, 5*time.Second)
				written := outb.Bytes()
				skip := 8 + 4*len(p2pcommon.AttemptingOutboundVersions)
				if len(written) >= skip {
					o.WireResp = hex.EncodeToString(written[:skip])
					o.GoAway = vfVLastGoAway(written[skip:])
				}
			}
			o.Accepted = hsErr == nil && res != nil
			if hsErr != nil {
				o.Err = hsErr.Error()
				if k, ok := vfVGoAway[o.GoAway]; ok {
					o.Cls = k
				} else if o.Err == "not supported version" || (len(o.Err) > 10 && o.Err[:10] == "no matched") {
					o.Cls = 98
				} else {
					o.Cls = 99
				}
			} else if res != nil {
				o.ResPeer, o.ResNo = hex.EncodeToString([]byte(res.Meta.ID)), res.BestBlockNo
			}
		}()
		b, _ := json.Marshal(o)
		fmt.Fprintln(w, string(b))
	}
}

//go:build verif

package p2p

// C18 wire-handshake engine (package p2p, cgo-free overlay): the real HSHeadReq/HSHeadResp
// Marshal, baseWireHandshaker.readWireHSRequest / readWireHSResp on arbitrary bytes, and
// InboundWireHandshaker.handleInboundPeer with the real FindBestP2PVersion; the versioned
// handshaker is a stub that records the version it was created for and the bytes left.
import (
	"bufio"
	"bytes"
	"context"
	"encoding/hex"
	"encoding/json"
	"fmt"
	"io"
	"os"
	"runtime"
	"testing"

	"github.com/aergoio/aergo-lib/log"
	"github.com/aergoio/aergo/v2/internal/enc/proto"
	"github.com/aergoio/aergo/v2/p2p/p2pcommon"
	"github.com/aergoio/aergo/v2/p2p/p2putil"
	v030 "github.com/aergoio/aergo/v2/p2p/v030"
	"github.com/aergoio/aergo/v2/types"
)

type vfWireCase struct {
	Op       string   `json:"op"` // marshal | read | wire | wireout | resp | readresp | consts | maxblock
	Magic    uint32   `json:"magic"`
	Versions []uint32 `json:"versions"`
	Code     uint32   `json:"code"`
	Stream   string   `json:"stream"`
	Chunk    int      `json:"chunk"`
}

type vfWireObs struct {
	Op       string   `json:"op"`
	Cls      int      `json:"cls"` // read: 0 ok, 1 transport/io, 2 bad count, 4 panic
	Err      string   `json:"err"`
	Bytes    string   `json:"bytes"`
	Magic    uint32   `json:"magic"`
	Versions []uint32 `json:"versions"`
	Code     uint32   `json:"code"`
	Rest     string   `json:"rest"`
	Alloc    uint64   `json:"alloc"`
	Resp     string   `json:"resp"`   // bytes written back by handleInboundPeer
	Chosen   uint32   `json:"chosen"` // version the versioned handshaker was created for (0 = none)
	Accepted bool     `json:"accepted"`
	Consts   []uint32 `json:"consts,omitempty"`
	Sizes    []int    `json:"sizes,omitempty"`
}

type vfWireRWC struct {
	io.Reader
	io.Writer
}

func (vfWireRWC) Close() error { return nil }

type vfStubHS struct {
	rest []byte
}

func (s *vfStubHS) DoForOutbound(ctx context.Context) (*p2pcommon.HandshakeResult, error) {
	return &p2pcommon.HandshakeResult{}, nil
}
func (s *vfStubHS) DoForInbound(ctx context.Context) (*p2pcommon.HandshakeResult, error) {
	return &p2pcommon.HandshakeResult{}, nil
}
func (s *vfStubHS) GetMsgRW() p2pcommon.MsgReadWriter { return nil }

// vfWireVM: the real FindBestP2PVersion, a recording GetVersionedHandshaker.
type vfWireVM struct {
	defaultVersionManager
	chosen uint32
	rest   []byte
}

func (v *vfWireVM) GetVersionedHandshaker(version p2pcommon.P2PVersion, peerID types.PeerID, rwc io.ReadWriteCloser) (p2pcommon.VersionedHandshaker, error) {
	v.chosen = version.Uint32()
	v.rest, _ = io.ReadAll(rwc)
	return &vfStubHS{}, nil
}

type vfSmallReader struct {
	r io.Reader
	n int
}

func (c *vfSmallReader) Read(p []byte) (int, error) {
	if len(p) > c.n {
		p = p[:c.n]
	}
	return c.r.Read(p)
}

func TestVerifC18WireHSEngine(t *testing.T) {
	in, err := os.Open(os.Getenv("VERIF_IN"))
	if err != nil {
		t.Skip("no VERIF_IN")
	}
	defer in.Close()
	out, _ := os.Create(os.Getenv("VERIF_OUT"))
	defer out.Close()
	w := bufio.NewWriter(out)
	defer w.Flush()
	logger := log.NewLogger("verif")
	sc := bufio.NewScanner(in)
	sc.Buffer(make([]byte, 1<<20), 1<<26)
	for sc.Scan() {
		var c vfWireCase
		if err := json.Unmarshal(sc.Bytes(), &c); err != nil {
			t.Fatalf("bad case: %v", err)
		}
		o := vfWireObs{Op: c.Op}
		func() {
			defer func() {
				if r := recover(); r != nil {
					o.Cls, o.Err = 4, fmt.Sprint("panic: ", r)
				}
			}()
			stream, _ := hex.DecodeString(c.Stream)
			var rd io.Reader = bytes.NewReader(stream)
			under := rd
			if c.Chunk > 0 {
				rd = &vfSmallReader{rd, c.Chunk}
			}
			switch c.Op {
			case "consts":
				o.Consts = []uint32{p2pcommon.MAGICMain, p2pcommon.HSError, p2pcommon.HSCodeWrongHSReq, p2pcommon.HSCodeNoMatchedVersion,
					p2pcommon.HSMaxVersionCnt, p2pcommon.HSMagicLength, p2pcommon.HSVerCntLength, p2pcommon.HSVersionLength}
			case "maxblock":
				// a block whose Size() is the largest legal one (hard body limit + DefaultMaxHdrSize): is every message carrying
				// it within MaxPayloadLength, and does it survive WriteMsg / ReadMsg at the real limit?
				maxBlock := int(types.BlockSizeHardLimit()) + types.DefaultMaxHdrSize
				blk := &types.Block{Hash: bytes.Repeat([]byte{7}, 32), Header: &types.BlockHeader{ChainID: bytes.Repeat([]byte{1}, 40),
					PrevBlockHash: bytes.Repeat([]byte{2}, 32), BlockNo: 1 << 40, Timestamp: 1 << 60, BlocksRootHash: bytes.Repeat([]byte{3}, 32),
					TxsRootHash: bytes.Repeat([]byte{4}, 32), ReceiptsRootHash: bytes.Repeat([]byte{5}, 32), Confirms: 1 << 40,
					PubKey: bytes.Repeat([]byte{6}, 33), CoinbaseAccount: bytes.Repeat([]byte{8}, 33), Sign: bytes.Repeat([]byte{9}, 72)},
					Body: &types.BlockBody{Txs: []*types.Tx{{Hash: bytes.Repeat([]byte{1}, 32), Body: &types.TxBody{Payload: []byte{}}}}}}
				pad := maxBlock - blk.Size()
				blk.Body.Txs[0].Body.Payload = make([]byte, pad)
				for blk.Size() > maxBlock { // the length prefix of the payload grew
					blk.Body.Txs[0].Body.Payload = blk.Body.Txs[0].Body.Payload[:len(blk.Body.Txs[0].Body.Payload)-1]
				}
				resp := &types.GetBlockResponse{Status: types.ResultStatus_OK, Blocks: []*types.Block{blk}, HasNext: true}
				notice := &types.BlockProducedNotice{ProducerID: bytes.Repeat([]byte{1}, 39), BlockNo: 1 << 40, Block: blk}
				rb, _ := p2putil.MarshalMessageBody(resp)
				nb, _ := p2putil.MarshalMessageBody(notice)
				o.Sizes = []int{maxBlock, blk.Size(), proto.Size(blk), len(rb), len(nb), int(p2pcommon.MaxPayloadLength),
					int(types.BlockSizeHardLimit()), types.DefaultMaxHdrSize}
				var wire bytes.Buffer
				rw := v030.NewV030ReadWriter(bytes.NewReader(nil), &wire, nil)
				msg := p2pcommon.NewMessageValue(p2pcommon.GetBlocksResponse, p2pcommon.NewMsgID(), p2pcommon.NewMsgID(), 1, rb)
				if err := rw.WriteMsg(msg); err != nil {
					o.Err = "write: " + err.Error()
					break
				}
				back, err := v030.NewV030ReadWriter(bytes.NewReader(wire.Bytes()), io.Discard, nil).ReadMsg()
				if err != nil {
					o.Err = "read: " + err.Error()
					break
				}
				o.Accepted = bytes.Equal(back.Payload(), rb)
			case "marshal":
				vs := make([]p2pcommon.P2PVersion, len(c.Versions))
				for i, v := range c.Versions {
					vs[i] = p2pcommon.P2PVersion(v)
				}
				o.Bytes = hex.EncodeToString(p2pcommon.HSHeadReq{Magic: c.Magic, Versions: vs}.Marshal())
			case "resp":
				o.Bytes = hex.EncodeToString(p2pcommon.HSHeadResp{Magic: c.Magic, RespCode: c.Code}.Marshal())
			case "read":
				h := &baseWireHandshaker{logger: logger}
				var m0, m1 runtime.MemStats
				runtime.ReadMemStats(&m0)
				req, err := h.readWireHSRequest(rd)
				runtime.ReadMemStats(&m1)
				o.Alloc = m1.TotalAlloc - m0.TotalAlloc
				if err != nil {
					o.Err = err.Error()
					o.Cls = 1
					if len(o.Err) >= 21 && o.Err[:21] == "invalid version count" {
						o.Cls = 2
					}
				} else {
					o.Magic = req.Magic
					for _, v := range req.Versions {
						o.Versions = append(o.Versions, v.Uint32())
					}
					rest, _ := io.ReadAll(under)
					o.Rest = hex.EncodeToString(rest)
				}
			case "readresp":
				h := &baseWireHandshaker{logger: logger}
				resp, err := h.readWireHSResp(rd)
				if err != nil {
					o.Err, o.Cls = err.Error(), 1
				} else {
					o.Magic, o.Code = resp.Magic, resp.RespCode
					rest, _ := io.ReadAll(under)
					o.Rest = hex.EncodeToString(rest)
				}
			case "wireout":
				// the real OutboundWireHandshaker.handleOutboundPeer: what it writes first, and what it does with the response bytes
				vm := &vfWireVM{}
				var written bytes.Buffer
				h := &OutboundWireHandshaker{baseWireHandshaker{verM: vm, logger: logger, peerID: dummyPeerID}}
				res, err := h.handleOutboundPeer(context.Background(), vfWireRWC{rd, &written})
				o.Accepted = err == nil && res != nil
				if err != nil {
					o.Err = err.Error()
				}
				o.Resp = hex.EncodeToString(written.Bytes())
				o.Chosen = vm.chosen
				o.Rest = hex.EncodeToString(vm.rest)
				for _, v := range p2pcommon.AttemptingOutboundVersions {
					o.Versions = append(o.Versions, v.Uint32())
				}
			case "wire":
				vm := &vfWireVM{}
				var written bytes.Buffer
				h := &InboundWireHandshaker{baseWireHandshaker{verM: vm, logger: logger, peerID: dummyPeerID}}
				res, err := h.handleInboundPeer(context.Background(), vfWireRWC{rd, &written})
				o.Accepted = err == nil && res != nil
				if err != nil {
					o.Err = err.Error()
				}
				o.Resp = hex.EncodeToString(written.Bytes())
				o.Chosen = vm.chosen
				o.Rest = hex.EncodeToString(vm.rest)
			default:
				panic("unknown op " + c.Op)
			}
		}()
		b, _ := json.Marshal(o)
		fmt.Fprintln(w, string(b))
	}
}

//go:build verif

package raftv2

// C16 engine (in-package test of consensus/impl/raftv2, added through the build overlay).
//
// kind "wal": drives the real chain.ChainDB raft functions (WriteRaftEntry, WriteHardState,
//   WriteSnapshot, WriteIdentity, ClearWAL, ResetWAL) and WalDB.SaveEntry on an in-memory
//   aergo-lib store; after every operation everything is read back twice — through the
//   live ChainDB and through a NEW ChainDB built on the same store (restart) —
//   GetRaftEntryLastIdx, GetRaftEntry(1..maxi), GetRaftEntryIndexOfBlock/OfBlock for every
//   block, hard state, snapshot, identity, conf-change progress, WalDB.ReadAll(snapshot),
//   WalDB.ReadAll(nil).
// kind "val": Cluster.validateChangeMembership on a cluster built from the case.
// kind "seq": sequences of requests: validateChangeMembership, then the real Cluster.addMember
//   (applied) / removeMember when accepted; applied and removed id sets after every request.
// kind "eta": raftServer.entriesToApply; kind "ts": raftServer.triggerSnapshot on a real MemoryStorage / WalDB;
// kind "prop": Cluster.submitProposal / makeProposal / AfterConfChange (the single proposal slot).
// WAL histories additionally run raftServer.replayWAL on every state (the hand-over of the stored log to the
// consensus library's MemoryStorage) and ChainDB.HasWal; request sequences can restart the cluster through
// ChainSnapshotter.createSnapshotData + Cluster.Recover.
// kind "en":  Cluster.isEnableChangeMembership with a raftServer whose raft node is a fake
//   returning the raft Status (progress map) of the case.

import (
	"bufio"
	"encoding/json"
	"fmt"
	"os"
	"sort"
	"testing"
	"time"

	"github.com/aergoio/aergo-lib/db"
	"github.com/aergoio/aergo/v2/chain"
	"github.com/aergoio/aergo/v2/consensus"
	"github.com/aergoio/aergo/v2/types"
	raftlib "github.com/aergoio/etcd/raft"
	"github.com/aergoio/etcd/raft/raftpb"
	"github.com/libp2p/go-libp2p/core/crypto"
	"github.com/rs/zerolog"
)

var c16PeerID, _ = types.IDB58Decode("16Uiu2HAkvaAMCHkd9hZ6hQkdDLKoXP4eLJSqkMF1YqkSNy5v9SVn")

type c16Case struct {
	Kind string `json:"kind"`
	// wal
	Maxi   int             `json:"maxi"`
	Blocks []int           `json:"blocks"`
	CCIDs  []uint64        `json:"ccids"`
	Ops    [][]interface{} `json:"ops"`
	// val
	Applied [][]int64 `json:"applied"`
	Removed [][]int64 `json:"removed"`
	T       int       `json:"t"`
	M       []int64   `json:"m"`
	// en
	Sid    uint64    `json:"sid"`
	Leader bool      `json:"leader"`
	Self   uint64    `json:"self"`
	Last   uint64    `json:"last"`
	Gap    uint64    `json:"gap"`
	Progs  [][]int64 `json:"progs"`
	Nid    uint64    `json:"nid"`
	// seq
	Reqs [][]int64 `json:"reqs"`
	// wal: HasWal queries (name, peer id)
	Qs [][]int64 `json:"qs"`
	// eta / ts / prop
	Applied64 uint64          `json:"appliedidx"`
	Idxs      []uint64        `json:"idxs"`
	Idx       uint64          `json:"idx"`
	Snap      uint64          `json:"snap"`
	Freq      uint64          `json:"freq"`
	Catchup   uint64          `json:"catchup"`
	Cap       int             `json:"cap"`
	POps      [][]interface{} `json:"pops"`
	Health    []int64         `json:"health"`
	COps      [][]interface{} `json:"cops"`
}

const unknownID = 7777777

type walEnv struct {
	store    db.DB
	cdb      *chain.ChainDB
	blocks   map[int]*types.Block
	byHash   map[string]int64 // block hash -> block id
	byData   map[string]int64 // marshalled block / conf change / snapshot data -> id
	bestSnap []byte
}

func (e *walEnv) block(id int) *types.Block {
	if b, ok := e.blocks[id]; ok {
		return b
	}
	bi := &types.BlockHeaderInfo{No: types.BlockNo(1 + id%7), Ts: int64(1000 + id), PrevBlockHash: make([]byte, 32), ChainId: []byte{1}}
	b := types.NewBlock(bi, make([]byte, 32), &types.Receipts{}, nil, []byte("cb"), nil)
	h := b.BlockHash() // WalDB.convertFromRaft calls BlockHash() before WriteRaftEntry
	e.blocks[id] = b
	e.byHash[string(h)] = int64(id)
	data, _ := marshalEntryData(b)
	e.byData[string(data)] = int64(id)
	return b
}

func (e *walEnv) ccData(data uint64, ccid uint64) []byte {
	m := consensus.Member{MemberAttr: types.MemberAttr{ID: data, Name: fmt.Sprintf("n%d", data), Address: "/ip4/127.0.0.1/tcp/10001", PeerID: []byte(c16PeerID)}}
	ctx, _ := json.Marshal(&m)
	cc := raftpb.ConfChange{ID: ccid, Type: raftpb.ConfChangeAddNode, NodeID: data, Context: ctx}
	b, _ := cc.Marshal()
	e.byData[string(b)] = int64(data)
	return b
}

func (e *walEnv) snapData(id uint64) []byte {
	sd := consensus.SnapshotData{Chain: consensus.ChainSnapshot{No: types.BlockNo(id), Hash: []byte{byte(id)}}}
	b, _ := sd.Encode()
	e.byData[string(b)] = int64(id)
	return b
}

func u(x interface{}) uint64 { return uint64(x.(float64)) }

func (e *walEnv) exec(op []interface{}) {
	switch op[0].(string) {
	case "write", "save":
		items := op[1].([]interface{})
		var ents []*consensus.WalEntry
		var blocks []*types.Block
		var ccs []*raftpb.ConfChange
		var rents []raftpb.Entry
		for _, it := range items {
			f := it.([]interface{})
			typ, term, index, data, ccid := u(f[0]), u(f[1]), u(f[2]), u(f[3]), u(f[4])
			switch typ {
			case 0:
				b := e.block(int(data))
				ents = append(ents, &consensus.WalEntry{Type: consensus.EntryBlock, Term: term, Index: index, Data: b.BlockHash()})
				blocks = append(blocks, b)
				ccs = append(ccs, nil)
				d, _ := marshalEntryData(b)
				rents = append(rents, raftpb.Entry{Type: raftpb.EntryNormal, Term: term, Index: index, Data: d})
			case 1:
				ents = append(ents, &consensus.WalEntry{Type: consensus.EntryEmpty, Term: term, Index: index})
				blocks = append(blocks, nil)
				ccs = append(ccs, nil)
				rents = append(rents, raftpb.Entry{Type: raftpb.EntryNormal, Term: term, Index: index})
			default:
				d := e.ccData(data, ccid)
				ents = append(ents, &consensus.WalEntry{Type: consensus.EntryConfChange, Term: term, Index: index, Data: d})
				blocks = append(blocks, nil)
				ccs = append(ccs, &raftpb.ConfChange{ID: ccid})
				rents = append(rents, raftpb.Entry{Type: raftpb.EntryConfChange, Term: term, Index: index, Data: d})
			}
		}
		if op[0].(string) == "write" {
			if err := e.cdb.WriteRaftEntry(ents, blocks, ccs); err != nil {
				panic(err)
			}
		} else {
			hs := raftpb.HardState{}
			if len(op) > 2 {
				h := op[2].([]interface{})
				hs = raftpb.HardState{Term: u(h[0]), Vote: u(h[1]), Commit: u(h[2])}
			}
			if err := NewWalDB(e.cdb).SaveEntry(hs, rents); err != nil {
				panic(err)
			}
		}
	case "hard":
		if err := e.cdb.WriteHardState(&raftpb.HardState{Term: u(op[1]), Vote: u(op[2]), Commit: u(op[3])}); err != nil {
			panic(err)
		}
	case "snap":
		s := raftpb.Snapshot{Metadata: raftpb.SnapshotMetadata{Index: u(op[1]), Term: u(op[2])}, Data: e.snapData(u(op[3]))}
		if err := e.cdb.WriteSnapshot(&s); err != nil {
			panic(err)
		}
	case "ident":
		id := consensus.RaftIdentity{ClusterID: u(op[1]), ID: u(op[2]), Name: fmt.Sprintf("n%d", u(op[3])), PeerID: fmt.Sprintf("p%d", u(op[4]))}
		if err := e.cdb.WriteIdentity(&id); err != nil {
			panic(err)
		}
	case "clear":
		e.cdb.ClearWAL()
	case "reset":
		if err := e.cdb.ResetWAL(&types.HardStateInfo{Term: u(op[1]), Commit: u(op[2])}); err != nil {
			panic(err)
		}
	default:
		panic("unknown op")
	}
}

func numOf(s string, prefix string) int64 {
	var n int64
	if _, err := fmt.Sscanf(s, prefix+"%d", &n); err != nil {
		return unknownID
	}
	return n
}

func (e *walEnv) dataID(b []byte) int64 {
	if id, ok := e.byData[string(b)]; ok {
		return id
	}
	if string(b) == string(e.bestSnap) {
		return 0
	}
	return unknownID
}

func errCode(err error) int64 {
	switch err {
	case chain.ErrNoWalEntry:
		return 1
	case chain.ErrMismatchedEntry:
		return 2
	case chain.ErrNoWalEntryForBlock:
		return 3
	case ErrWalGetHardState:
		return 4
	case ErrWalEntryTooLowTerm:
		return 5
	case ErrInvalidWalEntry, ErrWalConvBlock:
		return 7
	}
	if _, ok := err.(*chain.ErrNoBlock); ok {
		return 6
	}
	return 99
}

func (e *walEnv) encWalEntry(n []int64, w *consensus.WalEntry) []int64 {
	var d int64
	switch w.Type {
	case consensus.EntryBlock:
		if id, ok := e.byHash[string(w.Data)]; ok {
			d = id
		} else {
			d = unknownID
		}
	case consensus.EntryEmpty:
		if len(w.Data) != 0 {
			d = unknownID
		}
	default:
		d = e.dataID(w.Data)
	}
	return append(n, 0, int64(w.Type), int64(w.Term), int64(w.Index), d)
}

func (e *walEnv) encRaftEntries(n []int64, ents []raftpb.Entry) []int64 {
	n = append(n, int64(len(ents)))
	for _, r := range ents {
		n = append(n, int64(r.Type), int64(r.Term), int64(r.Index))
		if r.Data == nil {
			n = append(n, 0)
		} else {
			n = append(n, 1, e.dataID(r.Data))
		}
	}
	return n
}

func (e *walEnv) observe(cdb *chain.ChainDB, c *c16Case) []int64 {
	var n []int64
	last, err := cdb.GetRaftEntryLastIdx()
	if err != nil {
		panic(err)
	}
	n = append(n, int64(last))
	for i := 1; i <= c.Maxi; i++ {
		w, err := cdb.GetRaftEntry(uint64(i))
		if err != nil {
			n = append(n, errCode(err))
		} else {
			n = e.encWalEntry(n, w)
		}
	}
	for _, b := range c.Blocks {
		idx, err := cdb.GetRaftEntryIndexOfBlock(e.block(b).BlockHash())
		if err != nil {
			n = append(n, errCode(err))
		} else {
			n = append(n, 0, int64(idx))
		}
	}
	for _, b := range c.Blocks {
		w, err := cdb.GetRaftEntryOfBlock(e.block(b).BlockHash())
		if err != nil {
			n = append(n, errCode(err))
		} else {
			n = e.encWalEntry(n, w)
		}
	}
	hs, err := cdb.GetHardState()
	if err != nil {
		n = append(n, 0)
	} else {
		n = append(n, 1, int64(hs.Term), int64(hs.Vote), int64(hs.Commit))
	}
	snap, err := cdb.GetSnapshot()
	if err != nil {
		panic(err)
	}
	if snap == nil {
		n = append(n, 0)
	} else {
		n = append(n, 1, int64(snap.Metadata.Index), int64(snap.Metadata.Term), e.dataID(snap.Data))
	}
	id, err := cdb.GetIdentity()
	if err != nil {
		panic(err)
	}
	encID := func(n []int64, id *consensus.RaftIdentity) []int64 {
		if id == nil {
			return append(n, 0)
		}
		return append(n, 1, int64(id.ClusterID), int64(id.ID), numOf(id.Name, "n"), numOf(id.PeerID, "p"))
	}
	n = encID(n, id)
	for _, cc := range c.CCIDs {
		p, err := cdb.GetConfChangeProgress(cc)
		if err != nil {
			panic(err)
		}
		if p != nil {
			n = append(n, 1)
		} else {
			n = append(n, 0)
		}
	}
	wal := NewWalDB(cdb)
	rid, rhs, ents, err := wal.ReadAll(snap)
	if err != nil {
		n = append(n, errCode(err))
	} else {
		n = append(n, 0)
		n = encID(n, rid)
		n = append(n, 1, int64(rhs.Term), int64(rhs.Vote), int64(rhs.Commit))
		n = e.encRaftEntries(n, ents)
	}
	_, _, ents, err = wal.ReadAll(nil)
	if err != nil {
		n = append(n, errCode(err))
	} else {
		n = append(n, 0)
		n = e.encRaftEntries(n, ents)
	}
	n = e.observeServer(n, cdb, c, snap, id)
	return n
}

// replayWAL stops the process (logger.Fatal) when ReadAll fails or the identity cannot be recovered: it is only
// called when neither happens; the model says "does not start" (0) for the same states
func (e *walEnv) observeServer(n []int64, cdb *chain.ChainDB, c *c16Case, snap *raftpb.Snapshot, id *consensus.RaftIdentity) []int64 {
	wal := NewWalDB(cdb)
	_, _, _, rerr := wal.ReadAll(snap)
	// (a stored snapshot with index 0 is refused by MemoryStorage.ApplySnapshot: Fatal as well)
	if id == nil || id.ClusterID == 0 || rerr != nil || (snap != nil && snap.Metadata.Index == 0) {
		n = append(n, 0)
	} else {
		cl := mkCluster(nil, nil)
		cl.identity = consensus.RaftIdentity{Name: id.Name, PeerID: id.PeerID}
		rs := &raftServer{walDB: wal, cluster: cl}
		ok := func() (ok bool) {
			defer func() {
				if x := recover(); x != nil {
					ok = false
				}
			}()
			return rs.replayWAL(snap) == nil
		}()
		if !ok {
			n = append(n, 2)
		} else {
			ms := rs.raftStorage
			first, _ := ms.FirstIndex()
			last, _ := ms.LastIndex()
			hs, _, _ := ms.InitialState()
			sn, _ := ms.Snapshot()
			n = append(n, 1, int64(sn.Metadata.Index), int64(sn.Metadata.Term), int64(first), int64(last), int64(rs.lastIndex),
				1, int64(hs.Term), int64(hs.Vote), int64(hs.Commit))
			var ents []raftpb.Entry
			if first <= last {
				ents, _ = ms.Entries(first, last+1, 1<<62)
			}
			n = e.encRaftEntries(n, ents)
		}
	}
	for _, q := range c.Qs {
		okw, err := cdb.HasWal(consensus.RaftIdentity{Name: fmt.Sprintf("n%d", q[0]), PeerID: fmt.Sprintf("p%d", q[1])})
		switch {
		case okw:
			n = append(n, 0)
		case err == nil:
			n = append(n, 1)
		case err == chain.ErrWalNotEqualIdentityName:
			n = append(n, 2)
		case err == chain.ErrWalNotEqualIdentityPeerID:
			n = append(n, 3)
		case err == chain.ErrWalNoHardState:
			n = append(n, 4)
		default:
			n = append(n, 99)
		}
	}
	return n
}

// ---- journaling store: every committed transaction, bulk flush and direct write is one unit;
// a crash leaves a prefix of the units of the operation in progress ----
type jop struct {
	del  bool
	k, v []byte
}
type jdb struct {
	db.DB
	units [][]jop
}

func (d *jdb) Set(k, v []byte) {
	d.units = append(d.units, []jop{{false, append([]byte{}, k...), append([]byte{}, v...)}})
	d.DB.Set(k, v)
}
func (d *jdb) Delete(k []byte) {
	d.units = append(d.units, []jop{{true, append([]byte{}, k...), nil}})
	d.DB.Delete(k)
}
func (d *jdb) NewTx() db.Transaction { return &jtx{d: d} }
func (d *jdb) NewBulk() db.Bulk      { return &jtx{d: d} }

type jtx struct {
	d   *jdb
	ops []jop
}

func (t *jtx) Set(k, v []byte) {
	t.ops = append(t.ops, jop{false, append([]byte{}, k...), append([]byte{}, v...)})
}
func (t *jtx) Delete(k []byte) { t.ops = append(t.ops, jop{true, append([]byte{}, k...), nil}) }
func (t *jtx) Commit() {
	if len(t.ops) == 0 {
		return
	}
	t.d.units = append(t.d.units, t.ops)
	for _, o := range t.ops {
		if o.del {
			t.d.DB.Delete(o.k)
		} else {
			t.d.DB.Set(o.k, o.v)
		}
	}
	t.ops = nil
}
func (t *jtx) Flush()       { t.Commit() }
func (t *jtx) Discard()     { t.ops = nil }
func (t *jtx) DiscardLast() { t.ops = nil }

// storeFromUnits builds a fresh store holding exactly the first n units.
func storeFromUnits(t *testing.T, units [][]jop, n int) db.DB {
	s := db.NewDB(db.MemoryImpl, t.TempDir())
	for _, u := range units[:n] {
		for _, o := range u {
			if o.del {
				s.Delete(o.k)
			} else {
				s.Set(o.k, o.v)
			}
		}
	}
	return s
}

type c16WalStep struct {
	P     int       `json:"p,omitempty"`
	Pre   []int64   `json:"pre"`
	Post  []int64   `json:"post"`
	Crash [][]int64 `json:"crash"` // what a restarted node reads after the first 1, 2, .. units of this operation only
}

func runWal(t *testing.T, c *c16Case) interface{} {
	store := &jdb{DB: db.NewDB(db.MemoryImpl, t.TempDir())} // never closed: nothing is written to disk
	e := &walEnv{store: store, blocks: map[int]*types.Block{}, byHash: map[string]int64{}, byData: map[string]int64{}}
	cdb, err := chain.VerifNewChainDBOnStore(store)
	if err != nil {
		t.Fatal(err)
	}
	if err := cdb.VerifAddGenesis(types.GetTestGenesis()); err != nil {
		t.Fatal(err)
	}
	e.cdb = cdb
	best, _ := cdb.GetBestBlock()
	e.bestSnap, _ = consensus.NewSnapshotData(nil, nil, best).Encode()
	var steps []c16WalStep
	for _, op := range c.Ops {
		var st c16WalStep
		func() {
			defer func() {
				if x := recover(); x != nil {
					st = c16WalStep{P: 1}
				}
			}()
			n0 := len(store.units)
			e.exec(op)
			for k := 1; k < len(store.units)-n0; k++ {
				ccdb, err := chain.VerifNewChainDBOnStore(storeFromUnits(t, store.units, n0+k))
				if err != nil {
					panic(err)
				}
				st.Crash = append(st.Crash, e.observe(ccdb, c))
			}
			st.Pre = e.observe(e.cdb, c)
			ncdb, err := chain.VerifNewChainDBOnStore(store) // restart
			if err != nil {
				panic(err)
			}
			e.cdb = ncdb
			st.Post = e.observe(e.cdb, c)
		}()
		steps = append(steps, st)
		if st.P != 0 {
			break
		}
	}
	return map[string]interface{}{"steps": steps}
}

// ---------------------------------------------------------------- membership

func mkMember(a []int64) *consensus.Member {
	m := &consensus.Member{}
	m.ID = uint64(a[0])
	if a[1] != 0 {
		m.Name = fmt.Sprintf("n%d", a[1])
	}
	if a[2] != 0 {
		if a[2] < 1000 {
			m.Address = fmt.Sprintf("/ip4/127.0.0.1/tcp/%d", 10000+a[2])
		} else {
			m.Address = fmt.Sprintf("not-a-multiaddr-%d", a[2])
		}
	}
	if a[3] != 0 {
		m.PeerID = []byte(fmt.Sprintf("peer%d", a[3]))
	}
	return m
}

func mkCluster(applied, removed [][]int64) *Cluster {
	cl := &Cluster{members: newMembers(MembersNameInit), appliedMembers: newMembers(MembersNameApplied), removedMembers: newMembers(MembersNameRemoved)}
	for _, a := range applied {
		cl.appliedMembers.add(mkMember(a))
	}
	for _, a := range removed {
		cl.removedMembers.add(mkMember(a))
	}
	return cl
}

func valCode(err error) int64 {
	switch err {
	case nil:
		return 0
	case ErrCCMemberIsNil:
		return 1
	case consensus.ErrInvalidMemberID:
		return 2
	case ErrCCAlreadyRemoved:
		return 3
	case ErrInvalidMember:
		return 4
	case ErrCCAlreadyAdded:
		return 5
	case ErrDupBP:
		return 6
	case ErrCCNoMemberToRemove:
		return 7
	case ErrInvCCType:
		return 8
	}
	return 99
}

func runVal(c *c16Case) interface{} {
	cl := mkCluster(c.Applied, c.Removed)
	var m *consensus.Member
	if c.M != nil {
		m = mkMember(c.M)
	}
	cc := &raftpb.ConfChange{Type: raftpb.ConfChangeType(c.T)}
	if m != nil {
		cc.NodeID = m.ID
	}
	code := valCode(cl.validateChangeMembership(cc, m, true))
	return map[string]interface{}{"code": code}
}

var c16Peers [][]byte

// valid libp2p peer ids (addMember / removeMember parse the member's peer id)
func c16Peer(i int64) []byte {
	for int64(len(c16Peers)) <= i {
		_, pub, _ := crypto.GenerateKeyPair(crypto.Secp256k1, 256)
		id, _ := types.IDFromPublicKey(pub)
		c16Peers = append(c16Peers, []byte(id))
	}
	return c16Peers[i]
}

func mkMemberP(a []int64) *consensus.Member {
	m := mkMember(a)
	m.PeerID = nil
	if a[3] != 0 {
		m.PeerID = c16Peer(a[3])
	}
	return m
}

func sortedIDs(m map[uint64]*consensus.Member) []uint64 {
	ids := make([]uint64, 0, len(m))
	for id := range m {
		ids = append(ids, id)
	}
	sort.Slice(ids, func(i, j int) bool { return ids[i] < ids[j] })
	return ids
}

func copyMembers(dst *Cluster, src *Cluster) {
	for _, id := range sortedIDs(src.appliedMembers.MapByID) {
		m := *src.appliedMembers.MapByID[id]
		dst.appliedMembers.add(&m)
		dst.members.add(&m)
	}
	// removed members in the order of removal does not matter for the id index; the name index keeps the last one added
	for _, id := range sortedIDs(src.removedMembers.MapByID) {
		m := *src.removedMembers.MapByID[id]
		dst.removedMembers.add(&m)
	}
}

func memberIDs(ms []*consensus.Member) []uint64 {
	ids := make([]uint64, 0, len(ms))
	for _, m := range ms {
		ids = append(ids, m.ID)
	}
	sort.Slice(ids, func(i, j int) bool { return ids[i] < ids[j] })
	return ids
}

func runSeq(c *c16Case) interface{} {
	cl := mkCluster(nil, nil)
	for _, a := range c.Applied {
		m := mkMemberP(a)
		cl.appliedMembers.add(m)
		cl.members.add(m)
	}
	lag := mkCluster(nil, nil) // the lagging follower: the cluster as it was at the last mark (request type 8)
	copyMembers(lag, cl)
	var everRemoved []*consensus.Member // every member a validated remove request took out, in this order
	type step struct {
		Code    int64    `json:"code"`
		Applied []uint64 `json:"applied"`
		Removed []uint64 `json:"removed"`
		// snapshot round trips only
		SnapM  []uint64 `json:"snapm,omitempty"` // ids listed in the snapshot data (members / removed members)
		SnapR  []uint64 `json:"snapr,omitempty"`
		LenM   int      `json:"lenm"` // sizes of the id-indexed maps when the snapshot was taken
		LenR   int      `json:"lenr"`
		Probe  []int64  `json:"probe,omitempty"`  // per ever-removed member: code of validateChangeMembership(AddNode, that member) on the recovered cluster
		IsRem  []bool   `json:"isrem,omitempty"`  // per ever-removed member: IsIDRemoved on the recovered cluster
		Probed []uint64 `json:"probed,omitempty"` // their ids
	}
	var steps []step
	for _, r := range c.Reqs {
		if r[0] == 8 {
			lag = mkCluster(nil, nil)
			copyMembers(lag, cl)
			steps = append(steps, step{Code: 0, Applied: sortedIDs(cl.appliedMembers.MapByID), Removed: sortedIDs(cl.removedMembers.MapByID)})
			continue
		}
		if r[0] == 9 {
			// snapshot round trip: createSnapshotData of the running cluster, encode, decode + Recover into
			// (r[1] = 0) a cluster that still has the initial configuration (restart), (1) an empty cluster,
			// (2) the lagging follower
			cs := &raftpb.ConfState{Nodes: sortedIDs(cl.appliedMembers.MapByID)}
			blk := types.NewBlock(&types.BlockHeaderInfo{No: 1, Ts: 1, PrevBlockHash: make([]byte, 32), ChainId: []byte{1}}, make([]byte, 32), &types.Receipts{}, nil, nil, nil)
			lenM, lenR := len(cl.appliedMembers.MapByID), len(cl.removedMembers.MapByID)
			sd, err := (&ChainSnapshotter{}).createSnapshotData(cl, blk, cs)
			if err != nil {
				panic(err)
			}
			data, _ := sd.Encode()
			var dec consensus.SnapshotData
			if err := dec.Decode(data); err != nil {
				panic(err)
			}
			stale := mkCluster(nil, nil)
			switch r[1] {
			case 0:
				for _, a := range c.Applied {
					m := mkMemberP(a)
					stale.appliedMembers.add(m)
					stale.members.add(m)
				}
			case 2:
				copyMembers(stale, lag)
			}
			eq, err := stale.Recover(&raftpb.Snapshot{Data: data})
			code := int64(0)
			if err != nil {
				code = 98
			} else if eq {
				code = 10
			}
			cl = stale
			st := step{Code: code, Applied: sortedIDs(cl.appliedMembers.MapByID), Removed: sortedIDs(cl.removedMembers.MapByID),
				SnapM: memberIDs(dec.Members), SnapR: memberIDs(dec.RemovedMembers), LenM: lenM, LenR: lenR}
			for _, old := range everRemoved {
				m := *old
				cc := &raftpb.ConfChange{Type: raftpb.ConfChangeAddNode, NodeID: m.ID}
				st.Probe = append(st.Probe, valCode(cl.validateChangeMembership(cc, &m, true)))
				st.IsRem = append(st.IsRem, cl.IsIDRemoved(m.ID))
				st.Probed = append(st.Probed, m.ID)
			}
			steps = append(steps, st)
			continue
		}
		m := mkMemberP(r[1:])
		cc := &raftpb.ConfChange{Type: raftpb.ConfChangeType(r[0]), NodeID: m.ID}
		err := cl.validateChangeMembership(cc, m, true)
		code := valCode(err)
		if err == nil {
			if r[0] == 0 {
				if e := cl.addMember(m, true); e != nil {
					code = 98
				}
			} else {
				var full consensus.Member
				if am := cl.appliedMembers.MapByID[m.ID]; am != nil {
					full = *am
				}
				if e := cl.removeMember(m); e != nil {
					code = 98
				} else {
					everRemoved = append(everRemoved, &full)
				}
			}
		}
		steps = append(steps, step{Code: code, Applied: sortedIDs(cl.appliedMembers.MapByID), Removed: sortedIDs(cl.removedMembers.MapByID)})
	}
	return map[string]interface{}{"steps": steps}
}

func runEta(c *c16Case) interface{} {
	rs := &raftServer{}
	rs.appliedIndex = c.Applied64
	var ents []raftpb.Entry
	for _, i := range c.Idxs {
		ents = append(ents, raftpb.Entry{Index: i, Term: 1})
	}
	if len(ents) > 0 && ents[0].Index > rs.appliedIndex+1 {
		return map[string]interface{}{"obs": []uint64{0}} // logger.Fatal in the code
	}
	res := []uint64{1}
	func() {
		defer func() {
			if x := recover(); x != nil {
				res = []uint64{2}
			}
		}()
		for _, en := range rs.entriesToApply(ents) {
			res = append(res, en.Index)
		}
	}()
	return map[string]interface{}{"obs": res}
}

func runTs(t *testing.T, c *c16Case) interface{} {
	store := db.NewDB(db.MemoryImpl, t.TempDir())
	cdb, err := chain.VerifNewChainDBOnStore(store)
	if err != nil {
		t.Fatal(err)
	}
	cl := mkCluster(nil, nil)
	m := mkMemberP([]int64{1, 1, 1, 1})
	cl.appliedMembers.add(m)
	ms := raftlib.NewMemoryStorage()
	if c.Snap > 0 {
		ms.ApplySnapshot(raftpb.Snapshot{Metadata: raftpb.SnapshotMetadata{Index: c.Snap, Term: 1}})
	}
	var ents []raftpb.Entry
	for i := c.Snap + 1; i <= c.Idx+3; i++ {
		ents = append(ents, raftpb.Entry{Index: i, Term: 1})
	}
	ms.Append(ents)
	blk := types.NewBlock(&types.BlockHeaderInfo{No: 1, Ts: 1, PrevBlockHash: make([]byte, 32), ChainId: []byte{1}}, make([]byte, 32), &types.Receipts{}, nil, nil, nil)
	rs := &raftServer{cluster: cl, raftStorage: ms, walDB: NewWalDB(cdb), snapshotter: &ChainSnapshotter{},
		snapshotIndex: c.Snap, snapFrequency: c.Freq, confState: &raftpb.ConfState{Nodes: []uint64{1}}}
	rs.commitProgress.connect = commitEntry{block: blk, index: c.Idx, term: 1}
	old := ConfSnapshotCatchUpEntriesN
	ConfSnapshotCatchUpEntriesN = c.Catchup
	defer func() { ConfSnapshotCatchUpEntriesN = old }()
	rs.triggerSnapshot()
	sn, _ := cdb.GetSnapshot()
	if sn == nil {
		return map[string]interface{}{"obs": []uint64{0}, "snapidx": rs.snapshotIndex}
	}
	first, _ := ms.FirstIndex()
	return map[string]interface{}{"obs": []uint64{1, sn.Metadata.Index, first - 1, rs.snapshotIndex}, "snapidx": rs.snapshotIndex}
}

func runProp(c *c16Case) interface{} {
	cl := mkCluster(nil, nil)
	cl.appliedMembers.add(mkMemberP([]int64{1, 1, 1, 1}))
	cl.confChangeC = make(chan *consensus.ConfChangePropose, c.Cap)
	type st struct {
		Code  int64  `json:"code"`
		Saved uint64 `json:"saved"`
		Chan  int    `json:"chan"`
	}
	var steps []st
	for _, op := range c.POps {
		code := int64(0)
		switch op[0].(string) {
		case "submit":
			err := cl.submitProposal(&consensus.ConfChangePropose{Cc: &raftpb.ConfChange{ID: u(op[1])}}, true)
			switch err {
			case nil:
			case ErrPendingConfChange:
				code = 1
			case ErrConfChangeChannelBusy:
				code = 2
			default:
				code = 99
			}
		case "make":
			req := &types.MembershipChange{Type: types.MembershipChangeType_REMOVE_MEMBER, RequestID: u(op[1]), Attr: &types.MemberAttr{ID: 1}}
			_, err := cl.makeProposal(req, true)
			switch err {
			case nil:
			case ErrPendingConfChange:
				code = 1
			default:
				code = 99
			}
		case "after":
			cl.AfterConfChange(&raftpb.ConfChange{ID: u(op[1])}, nil, nil)
		case "take":
			select {
			case <-cl.confChangeC:
			default:
				code = 3
			}
		case "timeout":
			// the caller of ChangeMembership waiting for the reply gives up (recvConfChangeReply, time-out branch)
			old := MaxConfChangeTimeOut
			MaxConfChangeTimeOut = time.Millisecond
			_, err := cl.recvConfChangeReply(make(chan *consensus.ConfChangeReply))
			MaxConfChangeTimeOut = old
			code = 99
			if err == ErrConChangeTimeOut {
				code = 4
			}
		}
		saved := uint64(0)
		if cl.savedChange != nil {
			saved = cl.savedChange.Cc.ID
		}
		steps = append(steps, st{code, saved, len(cl.confChangeC)})
	}
	return map[string]interface{}{"steps": steps}
}

// kind "cm": the real Cluster.ChangeMembership path (makeProposal, isEnableChangeMembership against a faked raft
// status, submitProposal, recvConfChangeReply) with the raft loop played by the case: proposals accepted go to the
// channel (= the raft log, in order) and are applied by "apply" ops (validateChangeMembership, removeMember,
// AfterConfChange) — possibly after the requester timed out.
func runCM(c *c16Case) interface{} {
	old := MaxConfChangeTimeOut
	MaxConfChangeTimeOut = 5 * time.Millisecond
	defer func() { MaxConfChangeTimeOut = old }()
	MaxSlowNodeGap = 10
	cl := mkCluster(nil, nil)
	cl.identity.ID = 1
	for i := range c.Health {
		m := mkMemberP([]int64{int64(i + 1), int64(i + 1), int64(i + 1), int64(i + 1)})
		cl.appliedMembers.add(m)
		cl.members.add(m)
	}
	cl.confChangeC = make(chan *consensus.ConfChangePropose, 16)
	node := &fakeRaftNode{}
	setStatus := func() {
		st := raftlib.Status{ID: 1, Progress: map[uint64]raftlib.Progress{}}
		for id := range cl.appliedMembers.MapByID {
			ps := raftlib.ProgressStateReplicate
			if c.Health[id-1] == 0 {
				ps = raftlib.ProgressStateProbe
			}
			st.Progress[id] = raftlib.Progress{State: ps}
		}
		node.st = st
	}
	setStatus()
	rs := &raftServer{cluster: cl, node: node, raftStorage: raftlib.NewMemoryStorage()}
	rs.leaderStatus.IsLeader = true
	rs.leaderStatus.Leader = 1
	cl.rs = rs
	type st struct {
		Code    int64    `json:"code"`
		Saved   uint64   `json:"saved"`
		Chan    int      `json:"chan"`
		Applied []uint64 `json:"applied"`
	}
	var steps []st
	reqID := uint64(100)
	for _, op := range c.COps {
		code := int64(0)
		switch op[0].(string) {
		case "remove":
			reqID++
			req := &types.MembershipChange{Type: types.MembershipChangeType_REMOVE_MEMBER, RequestID: reqID, Attr: &types.MemberAttr{ID: u(op[1])}}
			_, err := cl.ChangeMembership(req, u(op[2]) == 0)
			switch err {
			case nil:
			case ErrPendingConfChange:
				code = 1
			case ErrConfChangeChannelBusy:
				code = 2
			case ErrConChangeTimeOut:
				code = 4 // accepted, handed to raft, the requester gave up waiting
			case ErrRemoveHealthyNode, ErrUnhealtyNodeExist:
				code = 5
			case ErrCCNoMemberToRemove, ErrCCAlreadyRemoved, consensus.ErrInvalidMemberID:
				code = 6
			default:
				code = 99
			}
		case "apply":
			select {
			case p := <-cl.confChangeC:
				m := consensus.NewMember("", "", types.PeerID(""), nil, 0)
				m.SetMemberID(p.Cc.NodeID)
				err := cl.validateChangeMembership(p.Cc, m, true)
				if err == nil {
					if e := cl.removeMember(m); e != nil {
						code = 98
					}
					setStatus()
				} else {
					code = 7 // the committed change is skipped at apply time
				}
				cl.AfterConfChange(p.Cc, m, err)
			default:
				code = 3
			}
		}
		saved := uint64(0)
		if cl.savedChange != nil {
			saved = cl.savedChange.Cc.ID
		}
		steps = append(steps, st{code, saved, len(cl.confChangeC), sortedIDs(cl.appliedMembers.MapByID)})
	}
	return map[string]interface{}{"steps": steps}
}

type fakeRaftNode struct {
	raftlib.Node
	st raftlib.Status
}

func (f *fakeRaftNode) Status() raftlib.Status { return f.st }

func runEn(c *c16Case) interface{} {
	MaxSlowNodeGap = c.Gap
	cl := mkCluster(nil, nil)
	cl.identity.ID = c.Self
	st := raftlib.Status{ID: c.Sid, Progress: map[uint64]raftlib.Progress{}}
	for _, p := range c.Progs {
		st.Progress[uint64(p[0])] = raftlib.Progress{State: raftlib.ProgressStateType(p[1]), Match: uint64(p[2])}
	}
	ms := raftlib.NewMemoryStorage()
	if c.Last > 0 {
		if err := ms.ApplySnapshot(raftpb.Snapshot{Metadata: raftpb.SnapshotMetadata{Index: c.Last, Term: 1}}); err != nil {
			panic(err)
		}
	}
	rs := &raftServer{cluster: cl, node: &fakeRaftNode{st: st}, raftStorage: ms}
	rs.leaderStatus.IsLeader = c.Leader
	cl.rs = rs
	cc := &raftpb.ConfChange{Type: raftpb.ConfChangeType(c.T), NodeID: c.Nid}
	err := cl.isEnableChangeMembership(cc)
	code := int64(99)
	switch err {
	case nil:
		code = 0
	case ErrRaftStatusEmpty:
		code = 1
	case ErrUnhealtyNodeExist:
		code = 2
	case ErrNotExitRaftProgress:
		code = 3
	case ErrRemoveHealthyNode:
		code = 4
	case ErrInvalidMembershipReqType:
		code = 5
	}
	states := []int64{}
	cp, err2 := rs.GetClusterProgress()
	if err2 == nil && cp.MemberProgresses != nil {
		for _, p := range c.Progs {
			if mp, ok := cp.MemberProgresses[uint64(p[0])]; ok {
				states = append(states, int64(mp.Status))
			} else {
				states = append(states, 99)
			}
		}
	}
	return map[string]interface{}{"code": code, "states": states, "n": cp.N}
}

func TestVerifC16Engine(t *testing.T) {
	in, err := os.Open(os.Getenv("VERIF_IN"))
	if err != nil {
		t.Skip("no VERIF_IN")
	}
	zerolog.SetGlobalLevel(zerolog.FatalLevel) // the packages log every call
	defer in.Close()
	out, _ := os.Create(os.Getenv("VERIF_OUT"))
	defer out.Close()
	w := bufio.NewWriter(out)
	defer w.Flush()
	enc := json.NewEncoder(w)
	sc := bufio.NewScanner(in)
	sc.Buffer(make([]byte, 1<<20), 1<<28)
	for sc.Scan() {
		var c c16Case
		if err := json.Unmarshal(sc.Bytes(), &c); err != nil {
			t.Fatal(err)
		}
		var res interface{}
		switch c.Kind {
		case "wal":
			res = runWal(t, &c)
		case "val":
			res = runVal(&c)
		case "en":
			res = runEn(&c)
		case "seq":
			res = runSeq(&c)
		case "eta":
			res = runEta(&c)
		case "ts":
			res = runTs(t, &c)
		case "prop":
			res = runProp(&c)
		case "cm":
			res = runCM(&c)
		}
		if err := enc.Encode(res); err != nil {
			t.Fatal(err)
		}
	}
}

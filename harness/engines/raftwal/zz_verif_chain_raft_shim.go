//go:build verif

package chain

// C16 shim (added to package chain through the build overlay, nothing rewritten): a ChainDB
// over a caller-supplied store, so that "restart" is a new ChainDB on the same store.

import (
	"github.com/aergoio/aergo-lib/db"
	"github.com/aergoio/aergo/v2/types"
)

// VerifNewChainDBOnStore builds a ChainDB on store and loads the chain data from it,
// as ChainDB.Init does after opening the database.
func VerifNewChainDBOnStore(store db.DB) (*ChainDB, error) {
	cdb := NewChainDB()
	cdb.store = store
	if err := cdb.loadChainData(); err != nil {
		return nil, err
	}
	return cdb, nil
}

// VerifAddGenesis stores the genesis block (needed by ResetWAL, which snapshots the best block).
func (cdb *ChainDB) VerifAddGenesis(g *types.Genesis) error { return cdb.addGenesisBlock(g) }

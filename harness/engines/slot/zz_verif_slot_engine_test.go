//go:build verif

package slot

// C09 engine (in-package, added through the build overlay): evaluates the real slot
// arithmetic on the cases of $VERIF_IN and prints one observation per line.
import (
	"bufio"
	"fmt"
	"os"
	"runtime"
	"testing"
	"time"
)

func TestVerifSlotEngine(t *testing.T) {
	in, err := os.Open(os.Getenv("VERIF_IN"))
	if err != nil {
		t.Skip("no VERIF_IN")
	}
	defer in.Close()
	out, _ := os.Create(os.Getenv("VERIF_OUT"))
	defer out.Close()
	w := bufio.NewWriter(out)
	defer w.Flush()
	sc := bufio.NewScanner(in)
	sc.Buffer(make([]byte, 1<<20), 1<<26)
	for sc.Scan() {
		var kind string
		var ivSec, n, a, b int64
		k, _ := fmt.Sscan(sc.Text(), &kind, &ivSec, &n, &a, &b)
		if k < 4 {
			continue
		}
		Init(ivSec)
		switch kind {
		case "S": // slot observables of timestamp a (ns)
			s := NewFromUnixNano(a)
			fmt.Fprintf(w, "S %d %d %d %d %d %d %d\n", ivSec, n, a, s.timeMs, s.prevIndex, s.nextIndex, s.NextBpIndex(uint16(n)))
		case "F": // IsFuture of (now + a ns) against the wall clock
			n0 := time.Now().UnixNano()
			ts := n0 + a
			r := NewFromUnixNano(ts).IsFuture()
			n1 := time.Now().UnixNano()
			fmt.Fprintf(w, "F %d %d %d %d %v\n", ivSec, ts, n0, n1, r)
		case "C": // clock bracket, a times: the slot of Now() is the slot of a clock reading taken between n0 and n1
			for i := int64(0); i < a; i++ {
				n0 := time.Now().UnixNano()
				s := Now()
				n1 := time.Now().UnixNano()
				// RemainingTimeMS reads the clock too: bracket its millisecond
				m0 := nsToMs(time.Now().UnixNano())
				rem := s.RemainingTimeMS()
				m1 := nsToMs(time.Now().UnixNano())
				fmt.Fprintf(w, "C %d %d %d %d %d %d %d %d %d %d\n", ivSec, n0, s.timeNs, n1, s.timeMs, s.prevIndex, s.nextIndex, m0, rem, m1)
			}
			// Time(t) is the slot of t's own nanoseconds
			t0 := time.Unix(0, b)
			s := Time(t0)
			fmt.Fprintf(w, "T %d %d %d %d %d %d\n", ivSec, b, s.timeNs, s.timeMs, s.prevIndex, s.nextIndex)
		case "P": // phase probe (thorough tier): a probes within b seconds, IsFuture asked in the last half ms of a slot
			runtime.LockOSThread()
			ivNs := ivSec * 1000000000
			deadline := time.Now().Add(time.Duration(b) * time.Second)
			for probes := int64(0); probes < a && time.Now().Before(deadline); {
				t0 := time.Now().UnixNano()
				if ph := t0 % ivNs; ph < 520000 || ph > 900000 {
					continue
				}
				k := msToNextIndex(nsToMs(t0))
				ts := ((k+1)*blockIntervalMs + 1 + (probes*397)%blockIntervalMs) * 1000000 // a millisecond of slot k+2
				got := NewFromUnixNano(ts).IsFuture()
				t1 := time.Now().UnixNano()
				near := NewFromUnixNano(((k)*blockIntervalMs + 1 + (probes*397)%blockIntervalMs) * 1000000).IsFuture() // slot k+1
				t2 := time.Now().UnixNano()
				fmt.Fprintf(w, "P %d %d %d %d %v %d %v\n", ivSec, t0, ts, t1, got, t2, near)
				probes++
				time.Sleep(time.Duration(ivNs-100000000) * time.Nanosecond)
			}
			runtime.UnlockOSThread()
		case "R": // relations between two timestamps
			s1, s2 := NewFromUnixNano(a), NewFromUnixNano(b)
			fmt.Fprintf(w, "R %d %d %d %v %v %v\n", ivSec, a, b, Equal(s1, s2), IsNextTo(s1, s2), LessEqual(s1, s2))
		}
	}
}

//go:build verif

package slot

// C09 engine (in-package, added through the build overlay): evaluates the real slot
// arithmetic on the cases of $VERIF_IN and prints one observation per line.
import (
	"bufio"
	"fmt"
	"os"
	"testing"
	"time"
)

func TestVerifSlotEngine(t *testing.T) {
	in, err := os.Open(os.Getenv("VERIF_IN"))
	if err != nil {
		t.Skip("no VERIF_IN")
	}
	defer in.Close()
	out, _ := os.Create(os.Getenv("VERIF_OUT"))
	defer out.Close()
	w := bufio.NewWriter(out)
	defer w.Flush()
	sc := bufio.NewScanner(in)
	sc.Buffer(make([]byte, 1<<20), 1<<26)
	for sc.Scan() {
		var kind string
		var ivSec, n, a, b int64
		k, _ := fmt.Sscan(sc.Text(), &kind, &ivSec, &n, &a, &b)
		if k < 4 {
			continue
		}
		Init(ivSec)
		switch kind {
		case "S": // slot observables of timestamp a (ns)
			s := NewFromUnixNano(a)
			fmt.Fprintf(w, "S %d %d %d %d %d %d %d\n", ivSec, n, a, s.timeMs, s.prevIndex, s.nextIndex, s.NextBpIndex(uint16(n)))
		case "F": // IsFuture of (now + a ns) against the wall clock
			n0 := time.Now().UnixNano()
			ts := n0 + a
			r := NewFromUnixNano(ts).IsFuture()
			n1 := time.Now().UnixNano()
			fmt.Fprintf(w, "F %d %d %d %d %v\n", ivSec, ts, n0, n1, r)
		case "R": // relations between two timestamps
			s1, s2 := NewFromUnixNano(a), NewFromUnixNano(b)
			fmt.Fprintf(w, "R %d %d %d %v %v %v\n", ivSec, a, b, Equal(s1, s2), IsNextTo(s1, s2), LessEqual(s1, s2))
		}
	}
}

//go:build verif

package state

// C12 engine (in-package test of package state, added through the build overlay).
// Drives the exported state API on a fresh in-memory store per trace:
//   StateDB.GetState/PutState, statedb.OpenContractStateAccount, ContractState.SetData/
//   DeleteData/GetData/Snapshot/Rollback, statedb.StageContractState,
//   BlockState.Snapshot/Rollback, StateDB.Update/Commit, NewStateDB at the committed root,
// and prints after every operation everything the model predicts: every account, every
// key through every live handle, every cached storage (revision, dirty, export(), index
// stacks, trie root), the account buffer's export() and the state root.
//
// Calls that are outside the contract of the Go functions are not executed and reported
// as "p" like a recovered panic (the model reports Panic for both): a rollback revision
// above the buffer's current revision (Go would re-slice beyond len: capacity dependent),
// staging through a handle whose storage is already nil, an unknown handle/snapshot index.

import (
	"bufio"
	"bytes"
	"encoding/hex"
	"encoding/json"
	"fmt"
	"math/big"
	"os"
	"testing"

	"github.com/aergoio/aergo-lib/db"
	"github.com/aergoio/aergo/v2/internal/common"
	"github.com/aergoio/aergo/v2/state/statedb"
	"github.com/aergoio/aergo/v2/types"
)

type c12Trace struct {
	Ua  []string        `json:"ua"`
	Uk  []string        `json:"uk"`
	Ops [][]interface{} `json:"ops"`
}

type c12Obs struct {
	P  int      `json:"p,omitempty"`
	A  []int64  `json:"a"`    // accounts
	H  []int64  `json:"h"`    // handle table
	C  []int64  `json:"c"`    // cached storages
	B  []int64  `json:"b"`    // account buffer
	AH []int64  `json:"ah"`   // AccountState handles
	HS []int64  `json:"hs"`   // the State embedded in each ContractState handle
	L  []int64  `json:"last"` // result of the last result-returning call
	R  []string `json:"r"`    // roots
}

type c12CSnap struct {
	h   int
	rev statedb.Snapshot
}

type c12Env struct {
	store   db.DB
	sdb     *statedb.StateDB
	bs      *BlockState
	ua      [][]byte
	aids    []types.AccountID
	uk      [][]byte
	kids    []types.HashID
	handles []*statedb.ContractState
	snaps   []BlockSnapshot
	csnaps  []c12CSnap
	ahs     []*AccountState
	csdb    *ChainStateDB
	roots   [][]byte
	ssnaps  []statedb.Snapshot
	last    []int64
	chash   map[string]int64        // code / source hash -> id
	known   map[string]*types.State // leaf hash -> account state seen in the account buffer
	vhash   map[string]int64        // leaf hash -> storage value id
}

func c12Val(v int64) []byte {
	if v == 0 {
		return []byte{}
	}
	return []byte{byte(v)}
}

func c12ValID(b []byte) int64 {
	if len(b) == 0 {
		return 0
	}
	return int64(b[0])
}

func argI(op []interface{}, i int) int { return int(op[i].(float64)) }

// GetRoot() of an empty trie is nil and stays nil (an empty non-nil root would make setMarker write the
// marker under sha256(""), which is also the data key of an all-empty State)
func c12CopyRoot(r []byte) []byte {
	if len(r) == 0 {
		return nil
	}
	return append([]byte{}, r...)
}

func c12Code(c int64) []byte   { return []byte{0xC0, byte(c)} }
func c12Src(c int64) []byte    { return []byte{0x50, byte(c), 0x01} }
func c12RawKey(k int64) []byte { return []byte{'r', 'a', 'w', byte(k)} }

func (e *c12Env) hashID(h []byte) int64 {
	if len(h) == 0 {
		return 0
	}
	if id, ok := e.chash[string(h)]; ok {
		return id
	}
	return -7777
}

func (e *c12Env) fields(st *types.State) []int64 {
	return []int64{new(big.Int).SetBytes(st.Balance).Int64(), int64(st.Nonce), e.hashID(st.CodeHash), int64(st.SqlRecoveryPoint), e.hashID(st.SourceHash)}
}

func (e *c12Env) resetCaller() {
	e.handles, e.snaps, e.csnaps, e.ahs, e.ssnaps, e.last = nil, nil, nil, nil, nil, nil
}

type c12OOC struct{}

func (e *c12Env) keyCode(k []byte) int64 {
	for i, a := range e.aids {
		if string(a[:]) == string(k) {
			return -int64(1 + i)
		}
	}
	for i, h := range e.kids {
		if string(h[:]) == string(k) {
			return -int64(1001 + i)
		}
	}
	return -9999
}

func (e *c12Env) exec(op []interface{}) {
	switch op[0].(string) {
	case "put":
		aid := e.aids[argI(op, 1)]
		st, err := e.sdb.GetState(aid)
		if err != nil {
			panic(err)
		}
		if st == nil {
			st = &types.State{}
		} else {
			st = st.Clone()
		}
		st.Balance = new(big.Int).SetInt64(int64(argI(op, 2))).Bytes()
		if err := e.sdb.PutState(aid, st); err != nil {
			panic(err)
		}
	case "open":
		cs, err := statedb.OpenContractStateAccount(e.ua[argI(op, 1)], e.sdb)
		if err != nil {
			panic(err)
		}
		e.handles = append(e.handles, cs)
	case "set", "del", "stage", "csnap":
		h := argI(op, 1)
		if h < 0 || h >= len(e.handles) {
			panic(c12OOC{})
		}
		cs := e.handles[h]
		switch op[0].(string) {
		case "set":
			if err := cs.SetData(e.uk[argI(op, 2)], c12Val(int64(argI(op, 3)))); err != nil {
				panic(err)
			}
		case "del":
			if err := cs.DeleteData(e.uk[argI(op, 2)]); err != nil {
				panic(err)
			}
		case "stage":
			if cs.VerifStorage() == nil {
				panic(c12OOC{})
			}
			if err := statedb.StageContractState(cs, e.sdb); err != nil {
				panic(err)
			}
		case "csnap":
			e.csnaps = append(e.csnaps, c12CSnap{h, cs.Snapshot()})
		}
	case "aget":
		as, err := GetAccountState(e.ua[argI(op, 1)], e.sdb)
		if err != nil {
			panic(err)
		}
		e.ahs = append(e.ahs, as)
	case "aadd", "asub", "aput", "areset":
		h := argI(op, 1)
		if h < 0 || h >= len(e.ahs) {
			panic(c12OOC{})
		}
		as := e.ahs[h]
		switch op[0].(string) {
		case "aadd":
			as.AddBalance(big.NewInt(int64(argI(op, 2))))
		case "asub":
			as.SubBalance(big.NewInt(int64(argI(op, 2))))
		case "aput":
			if err := as.PutState(); err != nil {
				panic(err)
			}
		case "areset":
			as.Reset()
		}
	case "acreate":
		as, err := CreateAccountState(e.ua[argI(op, 1)], e.sdb)
		if err == nil {
			e.ahs = append(e.ahs, as)
		}
	case "asetf", "openas":
		h := argI(op, 1)
		if h < 0 || h >= len(e.ahs) {
			panic(c12OOC{})
		}
		as := e.ahs[h]
		if op[0].(string) == "openas" {
			cs, err := statedb.OpenContractState(as.ID(), as.State(), e.sdb)
			if err != nil {
				panic(err)
			}
			e.handles = append(e.handles, cs)
			break
		}
		v := uint64(argI(op, 3))
		switch argI(op, 2) {
		case 1:
			as.SetNonce(v)
		case 2:
			if v == 0 {
				as.SetCodeHash(nil)
			} else {
				as.SetCodeHash(common.Hasher(c12Code(int64(v))))
			}
		case 3:
			as.SetRP(v)
		default:
			panic(c12OOC{})
		}
	case "setcode", "getcode", "rawset", "rawget":
		h := argI(op, 1)
		if h < 0 || h >= len(e.handles) {
			panic(c12OOC{})
		}
		cs := e.handles[h]
		switch op[0].(string) {
		case "setcode":
			var src []byte
			if argI(op, 3) != 0 {
				src = c12Src(int64(argI(op, 3)))
			}
			if err := cs.SetCode(src, c12Code(int64(argI(op, 2)))); err != nil {
				panic(err)
			}
		case "getcode":
			code, err := cs.GetCode()
			if err != nil {
				panic(err)
			}
			if code == nil {
				e.last = []int64{0}
			} else if len(code) == 2 && code[0] == 0xC0 {
				e.last = []int64{1, int64(code[1])}
			} else {
				e.last = []int64{1, -7777}
			}
		case "rawset":
			if err := cs.SetRawKV(c12RawKey(int64(argI(op, 2))), c12Val(int64(argI(op, 3)))); err != nil {
				panic(err)
			}
		case "rawget":
			v, err := cs.GetRawKV(c12RawKey(int64(argI(op, 2))))
			if err != nil {
				panic(err)
			}
			if v == nil {
				e.last = []int64{0}
			} else {
				e.last = []int64{1, c12ValID(v)}
			}
		}
	case "ssnap":
		e.ssnaps = append(e.ssnaps, e.sdb.Snapshot())
	case "srb":
		j := argI(op, 1)
		if j < 0 || j >= len(e.ssnaps) || int(e.ssnaps[j]) > e.sdb.Buffer.VerifNextIdx() {
			panic(c12OOC{})
		}
		if err := e.sdb.Rollback(e.ssnaps[j]); err != nil {
			panic(err)
		}
	case "setroot":
		i := argI(op, 1)
		if i < 0 || i >= len(e.roots) {
			panic(c12OOC{})
		}
		if len(e.roots[i]) != 0 && i%2 == 1 {
			if err := e.sdb.Revert(types.ToHashID(e.roots[i])); err != nil {
				panic(err)
			}
		} else if err := e.sdb.SetRoot(e.roots[i]); err != nil {
			panic(err)
		}
	case "reopenat":
		i := argI(op, 1)
		if i < 0 || i >= len(e.roots) {
			panic(c12OOC{})
		}
		if err := e.csdb.SetRoot(e.roots[i]); err != nil {
			panic(err)
		}
		e.bs = e.csdb.NewBlockState(e.csdb.GetRoot())
		e.sdb = e.bs.StateDB
		e.resetCaller()
	case "apply":
		if err := e.csdb.Apply(e.bs); err != nil {
			panic(err)
		}
		if string(e.csdb.GetRoot()) != string(e.sdb.GetRoot()) {
			panic("main root differs from the applied block state root")
		}
		e.roots = append(e.roots, c12CopyRoot(e.sdb.GetRoot()))
		e.bs = e.csdb.NewBlockState(e.csdb.GetRoot())
		e.sdb = e.bs.StateDB
		e.resetCaller()
	case "snap":
		e.snaps = append(e.snaps, e.bs.Snapshot())
	case "rb":
		i := argI(op, 1)
		if i < 0 || i >= len(e.snaps) {
			panic(c12OOC{})
		}
		sn := e.snaps[i]
		for _, aid := range e.allCached() {
			if rev, ok := sn.storage[aid]; ok {
				if rev > e.sdb.Cache.VerifStorage(aid).Buffer.VerifNextIdx() {
					panic(c12OOC{})
				}
			}
		}
		if int(sn.state) > e.sdb.Buffer.VerifNextIdx() {
			// the cache part would already have run in Go; the model stops here as well
			panic(c12OOC{})
		}
		if err := e.bs.Rollback(sn); err != nil {
			panic(err)
		}
	case "crb":
		j := argI(op, 1)
		if j < 0 || j >= len(e.csnaps) {
			panic(c12OOC{})
		}
		t := e.csnaps[j]
		cs := e.handles[t.h]
		if st := cs.VerifStorage(); st != nil && int(t.rev) > st.Buffer.VerifNextIdx() {
			panic(c12OOC{})
		}
		if err := cs.Rollback(t.rev); err != nil {
			panic(err)
		}
	case "update":
		if err := e.sdb.Update(); err != nil {
			panic(err)
		}
	case "commit":
		if err := e.sdb.Commit(); err != nil {
			panic(err)
		}
		e.roots = append(e.roots, c12CopyRoot(e.sdb.GetRoot()))
	case "reopen":
		if len(e.roots)%2 == 0 {
			e.sdb = statedb.NewStateDB(e.store, e.sdb.GetRoot(), false)
		} else {
			e.sdb = e.sdb.Clone()
		}
		e.bs = NewBlockState(e.sdb)
		e.resetCaller()
	case "clear":
		e.handles, e.csnaps, e.ahs = nil, nil, nil
	default:
		panic("unknown op")
	}
}

// cached contracts of the universe (the engine stages only universe contracts)
func (e *c12Env) allCached() []types.AccountID {
	var res []types.AccountID
	for _, aid := range e.aids {
		if e.sdb.Cache.VerifStorage(aid) != nil {
			res = append(res, aid)
		}
	}
	return res
}

func (e *c12Env) learn() {
	for _, v := range e.sdb.Buffer.VerifValues() {
		if st, ok := v.(*types.State); ok && st != nil {
			cp := st.Clone()
			cp.SourceHash = st.SourceHash // Clone omits it
			e.known[string(statedb.VerifHash(st))] = cp
		}
	}
}

func encOpt(nums []int64, b []byte) []int64 {
	if b == nil {
		return append(nums, 0)
	}
	return append(nums, 1, c12ValID(b))
}

func (e *c12Env) observe() c12Obs {
	e.learn()
	var n, secA, secH, secC, secAH []int64
	var r1, r3, rb, r4 []string
	for _, aid := range e.aids {
		st, err := e.sdb.GetState(aid)
		if err != nil {
			panic(err)
		}
		if st == nil {
			n = append(n, 0)
		} else {
			n = append(append(n, 1), e.fields(st)...)
			r1 = append(r1, hex.EncodeToString(st.StorageRoot))
		}
	}
	secA, n = n, nil
	n = append(n, int64(len(e.handles)))
	for _, cs := range e.handles {
		st := cs.VerifStorage()
		if st == nil {
			n = append(n, 0)
			continue
		}
		n = append(n, 1, int64(st.Buffer.VerifNextIdx()))
		for _, k := range e.uk {
			v, err := cs.GetData(k)
			if err != nil {
				panic(err)
			}
			n = encOpt(n, v)
		}
		for _, k := range e.uk {
			if cs.HasKey(k) {
				n = append(n, 1)
			} else {
				n = append(n, 0)
			}
		}
		for _, k := range e.uk {
			v, err := cs.GetInitialData(k)
			if err != nil {
				panic(err)
			}
			n = encOpt(n, v)
		}
	}
	secH, n = n, nil
	for _, aid := range e.aids {
		st := e.sdb.Cache.VerifStorage(aid)
		if st == nil {
			n = append(n, 0)
			continue
		}
		d := int64(0)
		if st.VerifDirty() {
			d = 1
		}
		keys, vals := st.Buffer.VerifExport()
		n = append(n, 1, int64(st.Buffer.VerifNextIdx()), d, int64(len(keys)))
		for i := range keys {
			n = append(n, e.keyCode(keys[i]))
			if len(vals[i]) == 1 && vals[i][0] == 0 {
				n = append(n, 0)
			} else if id, ok := e.vhash[string(vals[i])]; ok {
				n = append(n, 1, id)
			} else {
				n = append(n, 1, -7777)
			}
		}
		for _, kid := range e.kids {
			stk, ok := st.Buffer.VerifStack(kid)
			if !ok {
				n = append(n, 0)
				continue
			}
			n = append(n, int64(len(stk)+1))
			for _, x := range stk {
				n = append(n, int64(x))
			}
		}
		r3 = append(r3, hex.EncodeToString(st.Trie.Root))
	}
	secC, n = n, nil
	keys, vals := e.sdb.Buffer.VerifExport()
	n = append(n, int64(e.sdb.Buffer.VerifNextIdx()), int64(len(keys)))
	for i := range keys {
		n = append(n, e.keyCode(keys[i]))
		if st, ok := e.known[string(vals[i])]; ok {
			n = append(n, e.fields(st)...)
			rb = append(rb, hex.EncodeToString(st.StorageRoot))
		} else {
			n = append(n, -7777, 0, 0, 0, 0)
			rb = append(rb, "unknown:"+hex.EncodeToString(vals[i]))
		}
	}
	secAH = append(secAH, int64(len(e.ahs)))
	for _, as := range e.ahs {
		isNew := int64(0)
		if as.IsNew() {
			isNew = 1
		}
		isC := int64(0)
		if as.IsContract() {
			isC = 1
		}
		secAH = append(append(secAH, e.fields(as.State())...), isNew, isC)
		r4 = append(r4, hex.EncodeToString(as.StorageRoot()))
	}
	var secHS []int64
	var r5 []string
	secHS = append(secHS, int64(len(e.handles)))
	for _, cs := range e.handles {
		secHS = append(secHS, e.fields(cs.State)...)
		r5 = append(r5, hex.EncodeToString(cs.State.StorageRoot))
	}
	secL := append([]int64{int64(len(e.last))}, e.last...)
	r := append(append(append(append(append(r1, r3...), rb...), r4...), r5...), hex.EncodeToString(e.sdb.GetRoot()))
	return c12Obs{A: secA, H: secH, C: secC, B: n, AH: secAH, HS: secHS, L: secL, R: r}
}

func (e *c12Env) stepObs(op []interface{}) (o c12Obs) {
	defer func() {
		if x := recover(); x != nil {
			if os.Getenv("VERIF_DEBUG") != "" {
				println("verif-debug: op panicked:", fmtAny(x))
			}
			o = c12Obs{P: 1}
		}
	}()
	e.exec(op)
	return e.observe()
}

func fmtAny(x interface{}) string {
	if e, ok := x.(error); ok {
		return e.Error()
	}
	if s, ok := x.(string); ok {
		return s
	}
	if _, ok := x.(c12OOC); ok {
		return "out-of-contract call (not executed)"
	}
	return "panic value of another type"
}

func TestVerifC12Engine(t *testing.T) {
	in, err := os.Open(os.Getenv("VERIF_IN"))
	if err != nil {
		t.Skip("no VERIF_IN")
	}
	defer in.Close()
	out, _ := os.Create(os.Getenv("VERIF_OUT"))
	defer out.Close()
	w := bufio.NewWriter(out)
	defer w.Flush()
	vhash := map[string]int64{}
	for v := int64(0); v < 256; v++ {
		vhash[string(statedb.VerifHash(c12Val(v)))] = v
	}
	chash := map[string]int64{}
	for v := int64(1); v < 256; v++ {
		chash[string(common.Hasher(c12Code(v)))] = v
		chash[string(common.Hasher(c12Src(v)))] = v
	}
	dir := t.TempDir()
	sc := bufio.NewScanner(in)
	sc.Buffer(make([]byte, 1<<20), 1<<28)
	enc := json.NewEncoder(w)
	for sc.Scan() {
		var tr c12Trace
		if err := json.Unmarshal(sc.Bytes(), &tr); err != nil {
			t.Fatal(err)
		}
		csdb := NewChainStateDB()
		if err := csdb.Init(string(db.MemoryImpl), dir, nil, false, nil); err != nil {
			t.Fatal(err)
		}
		e := &c12Env{store: csdb.store, csdb: csdb, known: map[string]*types.State{}, vhash: vhash, chash: chash}
		e.bs = csdb.NewBlockState(csdb.GetRoot())
		e.sdb = e.bs.StateDB
		for _, a := range tr.Ua {
			e.ua = append(e.ua, []byte(a))
			e.aids = append(e.aids, types.ToAccountID([]byte(a)))
		}
		for _, k := range tr.Uk {
			e.uk = append(e.uk, []byte(k))
			e.kids = append(e.kids, types.GetHashID([]byte(k)))
		}
		obs := make([]c12Obs, 0, len(tr.Ops))
		for _, op := range tr.Ops {
			o := e.stepObs(op)
			obs = append(obs, o)
			if o.P != 0 {
				break
			}
		}
		if err := enc.Encode(map[string]interface{}{"obs": obs}); err != nil {
			t.Fatal(err)
		}
	}
}

// TestVerifC12Alias reports which objects handed out or taken in by the state API are the
// buffered objects themselves (evidence for the aliasing contract; nothing is asserted).
func TestVerifC12Alias(t *testing.T) {
	outp := os.Getenv("VERIF_OUT")
	if outp == "" {
		t.Skip("no VERIF_OUT")
	}
	store := db.NewDB(db.MemoryImpl, t.TempDir())
	sdb := statedb.NewStateDB(store, nil, false)
	res := map[string]bool{}
	aid := types.ToAccountID([]byte("a0"))
	in := &types.State{Balance: []byte{5}}
	sdb.PutState(aid, in)
	in.Balance = []byte{6}
	st, _ := sdb.GetState(aid)
	res["PutState_keeps_callers_pointer"] = st.Balance[0] == 6
	st.Balance = []byte{7}
	st2, _ := sdb.GetState(aid)
	res["GetState_returns_buffered_pointer"] = st2.Balance[0] == 7
	as, _ := GetAccountState([]byte("a0"), sdb)
	as.AddBalance(big.NewInt(1))
	st3, _ := sdb.GetState(aid)
	res["AccountState_newState_is_a_copy_before_PutState"] = st3.Balance[0] == 7
	as.PutState()
	as.AddBalance(big.NewInt(1))
	st4, _ := sdb.GetState(aid)
	res["AccountState_aliases_buffer_after_PutState"] = new(big.Int).SetBytes(st4.Balance).Int64() == 9
	cs, _ := statedb.OpenContractStateAccount([]byte("c0"), sdb)
	v := []byte{1, 2}
	cs.SetData([]byte("k0"), v)
	v[0] = 9
	g, _ := cs.GetData([]byte("k0"))
	res["SetData_keeps_callers_slice"] = g[0] == 9
	g[1] = 8
	g2, _ := cs.GetData([]byte("k0"))
	res["GetData_returns_buffered_slice"] = g2[1] == 8
	b, _ := json.Marshal(res)
	os.WriteFile(outp, b, 0644)
}

// TestVerifC12Fault: StateDB.Update with a fault.  Several contract storages with staged writes, some of them
// unable to update (their storage root names a trie node that is not in the store).  What is visible before and
// after the call (buffer revision, every account state, the root, storage reads through the handles) is reported;
// each case is repeated because the storages are walked in map order.
type c12FaultCase struct {
	Plain     int  `json:"plain"`
	Healthy   int  `json:"healthy"`
	Bad       int  `json:"bad"`
	Precommit bool `json:"precommit"`
	Trials    int  `json:"trials"`
}

type c12FaultView struct {
	Rev    int      `json:"rev"`
	States []string `json:"states"`
	Root   string   `json:"root"`
	Reads  []string `json:"reads,omitempty"`
}

type c12FaultTrial struct {
	Err    bool         `json:"err"`
	Before c12FaultView `json:"before"`
	After  c12FaultView `json:"after"`
}

func TestVerifC12Fault(t *testing.T) {
	inp, outp := os.Getenv("VERIF_IN"), os.Getenv("VERIF_OUT")
	if inp == "" || outp == "" {
		t.Skip("no VERIF_IN / VERIF_OUT")
	}
	raw, err := os.ReadFile(inp)
	if err != nil {
		t.Fatal(err)
	}
	var cases []c12FaultCase
	if err := json.Unmarshal(raw, &cases); err != nil {
		t.Fatal(err)
	}
	var out [][]c12FaultTrial
	for _, c := range cases {
		var trials []c12FaultTrial
		for tr := 0; tr < c.Trials; tr++ {
			store := db.NewDB(db.MemoryImpl, t.TempDir())
			sdb := statedb.NewStateDB(store, nil, false)
			var ids [][]byte
			for i := 0; i < c.Plain; i++ {
				id := []byte(fmt.Sprintf("c12f_plain_%02d", i))
				ids = append(ids, id)
				if err := sdb.PutState(types.ToAccountID(id), &types.State{Nonce: uint64(i + 1), Balance: []byte{byte(10 + i)}}); err != nil {
					t.Fatal(err)
				}
			}
			var hids [][]byte
			for i := 0; i < c.Healthy; i++ {
				id := []byte(fmt.Sprintf("c12f_contract_%02d", i))
				ids = append(ids, id)
				hids = append(hids, id)
			}
			if c.Precommit {
				for i, id := range hids {
					cs, err := statedb.OpenContractState(id, &types.State{Nonce: 1}, sdb)
					if err != nil {
						t.Fatal(err)
					}
					cs.SetData([]byte("k0"), []byte{byte(100 + i)})
					statedb.StageContractState(cs, sdb)
				}
				if err := sdb.Update(); err != nil {
					t.Fatal(err)
				}
				if err := sdb.Commit(); err != nil {
					t.Fatal(err)
				}
			}
			for i, id := range hids {
				var cs *statedb.ContractState
				var err error
				if c.Precommit {
					cs, err = statedb.OpenContractStateAccount(id, sdb)
				} else {
					cs, err = statedb.OpenContractState(id, &types.State{}, sdb)
				}
				if err != nil {
					t.Fatal(err)
				}
				cs.SetData([]byte("k"), []byte{byte(i + 1)})
				statedb.StageContractState(cs, sdb)
			}
			for i := 0; i < c.Bad; i++ {
				id := []byte(fmt.Sprintf("c12f_bad_%02d", i))
				ids = append(ids, id)
				bogus := bytes.Repeat([]byte{0xAB, byte(i)}, 16)
				cs, err := statedb.OpenContractState(id, &types.State{StorageRoot: bogus}, sdb)
				if err != nil {
					t.Fatal(err)
				}
				cs.SetData([]byte("k"), []byte{0xFF})
				statedb.StageContractState(cs, sdb)
			}
			view := func(reads bool) c12FaultView {
				v := c12FaultView{Rev: int(sdb.Snapshot()), Root: hex.EncodeToString(sdb.GetRoot())}
				for _, id := range ids {
					st, err := sdb.GetState(types.ToAccountID(id))
					switch {
					case err != nil:
						v.States = append(v.States, "error")
					case st == nil:
						v.States = append(v.States, "nil")
					default:
						v.States = append(v.States, fmt.Sprintf("%d/%x/%x/%x", st.Nonce, st.Balance, st.StorageRoot, st.CodeHash))
					}
				}
				if reads {
					for _, id := range hids {
						// a fresh handle (a staged one has given its storage away); it shares the cached storage
						var cs *statedb.ContractState
						var err error
						if c.Precommit {
							cs, err = statedb.OpenContractStateAccount(id, sdb)
						} else {
							cs, err = statedb.OpenContractState(id, &types.State{}, sdb)
						}
						if err != nil {
							v.Reads = append(v.Reads, "open-error")
							continue
						}
						g, err := cs.GetData([]byte("k"))
						if err != nil {
							v.Reads = append(v.Reads, "error")
						} else {
							v.Reads = append(v.Reads, hex.EncodeToString(g))
						}
					}
				}
				return v
			}
			tr := c12FaultTrial{Before: view(true)}
			tr.Err = sdb.Update() != nil
			tr.After = view(true)
			trials = append(trials, tr)
		}
		out = append(out, trials)
	}
	b, _ := json.Marshal(out)
	os.WriteFile(outp, b, 0644)
}

//go:build verif

package statedb

// C12 shim (added to package statedb through the build overlay, nothing rewritten):
// read-only accessors with exported names on the unexported buffer/cache types, so that the
// engine in package state can observe the undo log itself (export(), index stacks,
// revision counter) next to the values read through the public API.

import "github.com/aergoio/aergo/v2/types"

// VerifNextIdx is stateBuffer.nextIdx (== snapshot()).
func (buffer *stateBuffer) VerifNextIdx() int { return buffer.snapshot() }

// VerifLen is len(stateBuffer.entries).
func (buffer *stateBuffer) VerifLen() int { return len(buffer.entries) }

// VerifExport is the real stateBuffer.export().
func (buffer *stateBuffer) VerifExport() ([][]byte, [][]byte) { return buffer.export() }

// VerifValues returns the value of every live entry (oldest first).
func (buffer *stateBuffer) VerifValues() []interface{} {
	res := make([]interface{}, len(buffer.entries))
	for i, et := range buffer.entries {
		res[i] = et.Value()
	}
	return res
}

// VerifStack returns the index stack of key (top first) and whether the key is indexed.
func (buffer *stateBuffer) VerifStack(key types.HashID) ([]int, bool) {
	stk, ok := buffer.indexes[key]
	if !ok {
		return nil, false
	}
	if stk == nil {
		return []int{}, true
	}
	res := make([]int, 0, len(*stk))
	for i := len(*stk) - 1; i >= 0; i-- {
		res = append(res, (*stk)[i])
	}
	return res, true
}

// VerifStorage is the cached bufferedStorage of a contract (nil when not staged).
func (cache *storageCache) VerifStorage(aid types.AccountID) *bufferedStorage { return cache.get(aid) }

// VerifDirty is bufferedStorage.dirty.
func (storage *bufferedStorage) VerifDirty() bool { return storage.dirty }

// VerifStorage is the bufferedStorage a handle points to (nil after StageContractState).
func (cs *ContractState) VerifStorage() *bufferedStorage { return cs.storage }

// VerifHash is the leaf hash export() emits for a value.
func VerifHash(v interface{}) []byte { return newValueEntry(types.HashID{}, v).Hash() }

//go:build verif

package chain

// C17 chain-side engine: the real ChainService.getAnchorsNew (asking node) and the real
// ChainService.findAncestor (answering node) on real chain databases.  The answering node
// holds a main chain and stored side branches; the asking node's chain follows the main
// chain or one of the side branches up to a height and continues on its own.  Every block
// gets a symbolic id (chain index * 100000 + height) so that the Finder model can be
// evaluated on the same chains.
import (
	"bufio"
	"encoding/json"
	"fmt"
	"os"
	"testing"

	"github.com/aergoio/aergo/v2/config"
	"github.com/aergoio/aergo/v2/types"
	"github.com/rs/zerolog"
)

type c17ChainCase struct {
	M     int      `json:"m"`     // answering node: main chain height
	Sides [][2]int `json:"sides"` // stored side branches: (fork height on main, number of blocks)
	On    int      `json:"on"`    // asking node follows: -1 main, i side branch i
	Common int     `json:"common"` // ... up to this height
	Len   int      `json:"len"`   // asking node's best height
	Extra []int    `json:"extra"` // extra anchors appended to the list (symbolic: -1 unknown hash, i>=0: tip of side branch i)
}

type c17ChainObs struct {
	Anchors []int64 `json:"anchors"` // symbolic ids of the anchor hashes sent
	LastNo  uint64  `json:"lastno"`
	AncNo   int64   `json:"ancno"` // -1: no ancestor
	AncID   int64   `json:"ancid"`
	OnAnswererMain bool `json:"on_answerer_main"`
	OnAskerMain    bool `json:"on_asker_main"`
	Asker   []int64 `json:"asker"`   // ids of the asking node's main chain by height
	Main    []int64 `json:"main"`    // ids of the answering node's main chain by height
	Err     string  `json:"err"`
}

func c17NewCS(t *testing.T) *ChainService {
	serverCtx := config.NewServerContext("", "")
	cfg := serverCtx.GetDefaultConfig().(*config.Config)
	cfg.DbType = "memorydb"
	cfg.DataDir = t.TempDir() // memorydb dumps to its directory on close: never share ~/.aergo
	cfg.EnableTestmode = false // the test-mode genesis carries a fresh timestamp
	cfg.UseTestnet = true // a fixed genesis block: both nodes must share it
	dfltUseMempool = false
	cs := NewChainService(cfg)
	cs.SetChainConsensus(&StubConsensus{})
	return cs
}

func TestVerifC17Chain(t *testing.T) {
	in, err := os.Open(os.Getenv("VERIF_IN"))
	if err != nil {
		t.Skip("no VERIF_IN")
	}
	defer in.Close()
	out, _ := os.Create(os.Getenv("VERIF_OUT"))
	defer out.Close()
	w := bufio.NewWriter(out)
	defer w.Flush()
	zerolog.SetGlobalLevel(zerolog.Disabled)

	sc := bufio.NewScanner(in)
	sc.Buffer(make([]byte, 1<<20), 1<<26)
	for sc.Scan() {
		var c c17ChainCase
		if err := json.Unmarshal(sc.Bytes(), &c); err != nil {
			t.Fatal(err)
		}
		var o c17ChainObs
		o.AncNo, o.AncID = -1, -1
		ids := map[string]int64{}
		name := func(b *types.Block, chainIdx int) {
			k := string(b.BlockHash())
			if _, ok := ids[k]; !ok {
				ids[k] = int64(chainIdx)*100000 + int64(b.BlockNo())
			}
		}
		answerer := c17NewCS(t)
		asker := c17NewCS(t)
		g, _ := answerer.getBlockByNo(0)
		g2, _ := asker.getBlockByNo(0)
		if string(g.BlockHash()) != string(g2.BlockHash()) {
			t.Fatal("the two chain services do not share a genesis block")
		}
		mainChain := InitStubBlockChain([]*types.Block{g}, c.M)
		for i := 0; i <= c.M; i++ {
			name(mainChain.Blocks[i], 1)
		}
		for i := 1; i <= c.M; i++ {
			if err := answerer.addBlock(mainChain.Blocks[i], nil, "verif"); err != nil {
				t.Fatal(err)
			}
		}
		var sides []*StubBlockChain
		for si, s := range c.Sides {
			sb := InitStubBlockChain(mainChain.Blocks[0:s[0]+1], s[1])
			for i := s[0] + 1; i <= s[0]+s[1]; i++ {
				name(sb.Blocks[i], 2+si)
				if err := answerer.addBlock(sb.Blocks[i], nil, "verif"); err != nil {
					t.Fatal(err)
				}
			}
			sides = append(sides, sb)
		}
		best, _ := answerer.GetBestBlock()
		if string(best.BlockHash()) != string(mainChain.BestBlock.BlockHash()) {
			o.Err = "side branch became the main chain of the answering node (case generator)"
		}
		follow := mainChain
		if c.On >= 0 {
			follow = sides[c.On]
		}
		askChain := InitStubBlockChain(follow.Blocks[0:c.Common+1], c.Len-c.Common)
		for i := 0; i <= c.Len; i++ {
			name(askChain.Blocks[i], 9)
		}
		for i := 1; i <= c.Len; i++ {
			if err := asker.addBlock(askChain.Blocks[i], nil, "verif"); err != nil {
				t.Fatal(err)
			}
		}
		for i := 0; i <= c.Len; i++ {
			o.Asker = append(o.Asker, ids[string(askChain.Blocks[i].BlockHash())])
		}
		for i := 0; i <= c.M; i++ {
			o.Main = append(o.Main, ids[string(mainChain.Blocks[i].BlockHash())])
		}
		anchors, lastNo, aerr := asker.getAnchorsNew()
		if aerr != nil {
			o.Err = "getAnchorsNew: " + aerr.Error()
		}
		o.LastNo = lastNo
		for _, x := range c.Extra {
			if x < 0 {
				anchors = append(anchors, []byte(fmt.Sprintf("unknown-hash-%032d", -x)))
			} else if x < len(sides) {
				anchors = append(anchors, sides[x].BestBlock.BlockHash())
			}
		}
		for _, h := range anchors {
			if id, ok := ids[string(h)]; ok {
				o.Anchors = append(o.Anchors, id)
			} else {
				o.Anchors = append(o.Anchors, 7777777)
			}
		}
		anc, ferr := answerer.findAncestor(anchors)
		if anc != nil {
			o.AncNo = int64(anc.No)
			if id, ok := ids[string(anc.Hash)]; ok {
				o.AncID = id
			}
			if mh, e := answerer.GetHashByNo(anc.No); e == nil && string(mh) == string(anc.Hash) {
				o.OnAnswererMain = true
			}
			if ah, e := asker.GetHashByNo(anc.No); e == nil && string(ah) == string(anc.Hash) {
				o.OnAskerMain = true
			}
		} else if ferr != ErrorNoAncestor {
			o.Err = fmt.Sprintf("findAncestor: nil ancestor with error %v", ferr)
		}
		b, _ := json.Marshal(o)
		fmt.Fprintln(w, string(b))
		w.Flush()
		answerer.Close()
		asker.Close()
	}
}

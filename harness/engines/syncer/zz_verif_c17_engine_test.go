//go:build verif

package syncer

// C17 engines.
//
// TestVerifC17Steps: the real BlockFetcher + BlockProcessor objects driven one select-loop
// iteration at a time (the body of BlockFetcher.Start's loop is replayed verbatim by
// c17Driver.iterate: event handler, stopSyncer on error, then schedule()), with a recording
// requester instead of the actor hub.  Responses are scripted by the case (any peer, any
// blocks, errors, stale AddBlockRsp, timeouts chosen per task).  After every event the
// engine dumps the messages sent (GetBlockChunks, AddBlock, SyncStop) and the queues.
//
// TestVerifC17Real: the repository's StubSyncer/StubRequester with the real Syncer, Finder,
// HashFetcher, BlockFetcher goroutines on generated local/remote chain pairs with per-peer
// fault hooks and a watchdog.
import (
	"bufio"
	"bytes"
	"encoding/binary"
	"encoding/json"
	"errors"
	"fmt"
	"os"
	"sync"
	"testing"
	"time"

	"github.com/aergoio/aergo/v2/chain"
	"github.com/aergoio/aergo/v2/types"
	"github.com/aergoio/aergo/v2/types/message"
	"github.com/rs/zerolog"
)

// ---------------------------------------------------------------- step engine
type c17Blk [3]uint64 // no, hash id, parent hash id

type c17Event struct {
	Ev     string   `json:"ev"` // hashset | chunk | addrsp | tick | quit
	Start  uint64   `json:"start"`
	Ids    []uint64 `json:"ids"`
	Peer   int      `json:"peer"`
	Blocks []c17Blk `json:"blocks"`
	Err    bool     `json:"err"`
	No     uint64   `json:"no"`
	Hash   uint64   `json:"hash"`
	NoHash bool     `json:"nohash"`
	Timed  []uint64 `json:"timed"`
	// abstract forms, made concrete by the engine against what is outstanding
	N     int    `json:"n"`     // hashset: number of hashes to push
	Which int    `json:"which"` // answer: index into the requests sent so far; tick: see Whichs
	Fault string `json:"fault"`
	Whichs []int `json:"whichs"`
}

type c17StepCase struct {
	Anc        c17Blk     `json:"anc"`
	Target     uint64     `json:"target"`
	NPeers     int        `json:"npeers"`
	FetchSize  int        `json:"fetch"`
	MaxTasks   int        `json:"maxtasks"`
	MaxPending int        `json:"maxpending"`
	Events     []c17Event `json:"events"`
	List       []uint64   `json:"list"`   // the hash list the remote serves, from anc+1
	Blocks     []c17Blk   `json:"blocks"` // the blocks the peers hold (no, hash id, parent id)
}

type c17Out struct {
	K      string   `json:"k"` // req | add | stop
	Peer   int      `json:"peer"`
	Ids    []uint64 `json:"ids,omitempty"`
	B      *c17Blk  `json:"b,omitempty"`
	ErrCls int      `json:"err,omitempty"`
}

type c17State struct {
	Running [][3]int64  `json:"running"` // start, peer, retry
	Pending []uint64    `json:"pending"`
	Retry   [][2]uint64 `json:"retry"` // start, retry
	Free    [][2]int    `json:"free"`  // no, failcnt
	Bad     int         `json:"bad"`
	ConnQ   []uint64    `json:"connq"`
	Cur     int64       `json:"cur"`  // hash id of curBlock, -1
	Prev    uint64      `json:"prev"` // hash id of prevBlock
	Stopped bool        `json:"stopped"`
}

type c17StepObs struct {
	Cev   c17Event `json:"cev"` // the concrete event that was applied
	Outs  []c17Out `json:"outs"`
	State c17State `json:"state"`
}

func c17Hash(id uint64) []byte {
	b := make([]byte, 8)
	binary.BigEndian.PutUint64(b, id)
	return b
}
func c17ID(h []byte) uint64 {
	if len(h) != 8 {
		return 1<<63 + uint64(len(h))
	}
	return binary.BigEndian.Uint64(h)
}
func c17Block(b c17Blk) *types.Block {
	return &types.Block{Hash: c17Hash(b[1]), Header: &types.BlockHeader{BlockNo: b[0], PrevBlockHash: c17Hash(b[2])}}
}
func c17PeerID(i int) types.PeerID { return types.PeerID([]byte(fmt.Sprintf("peer-%d", i))) }

func c17ErrClass(err error) int {
	var sm *ErrSyncMsg
	switch {
	case err == nil:
		return 0
	case err == ErrAllPeerBad:
		return 1
	case err == errC17Rsp:
		return 2
	case errors.As(err, &sm):
		return 3
	case err == ErrSyncerPanic:
		return 4
	}
	return 9
}

var errC17Rsp = errors.New("scripted response error")

// recording requester
type c17Req struct {
	npeers int
	outs   []c17Out
	reqs   []c17Out // every GetBlockChunks sent so far
	adds   []c17Blk // AddBlock submissions not yet acknowledged
	acked  []c17Blk
}

func (r *c17Req) record(msg interface{}) {
	switch m := msg.(type) {
	case *message.GetBlockChunks:
		o := c17Out{K: "req", Peer: -1}
		for i := 0; i < r.npeers; i++ {
			if c17PeerID(i) == m.ToWhom {
				o.Peer = i
			}
		}
		for _, h := range m.Hashes {
			o.Ids = append(o.Ids, c17ID(h))
		}
		r.outs = append(r.outs, o)
		r.reqs = append(r.reqs, o)
	case *message.AddBlock:
		b := c17Blk{m.Block.GetHeader().GetBlockNo(), c17ID(m.Block.GetHash()), c17ID(m.Block.GetHeader().GetPrevBlockHash())}
		r.outs = append(r.outs, c17Out{K: "add", B: &b})
		r.adds = append(r.adds, b)
	case *message.SyncStop:
		r.outs = append(r.outs, c17Out{K: "stop", ErrCls: c17ErrClass(m.Err)})
	}
}
func (r *c17Req) RequestTo(target string, msg interface{}) { r.record(msg) }
func (r *c17Req) TellTo(target string, msg interface{})    { r.record(msg) }
func (r *c17Req) RequestToFutureResult(target string, msg interface{}, timeout time.Duration, tip string) (interface{}, error) {
	if _, ok := msg.(*message.GetPeers); ok {
		peers := make([]*message.PeerInfo, r.npeers)
		for i := range peers {
			peers[i] = &message.PeerInfo{Addr: &types.PeerAddress{PeerID: []byte(c17PeerID(i))}, State: types.RUNNING}
		}
		return &message.GetPeersRsp{Peers: peers}, nil
	}
	return nil, errors.New("unexpected future request")
}

type c17Driver struct {
	bf      *BlockFetcher
	req     *c17Req
	stopped bool
}

// one iteration of the select loop in BlockFetcher.Start (tick / response), followed by schedule()
func (d *c17Driver) iterate(tick bool, msg interface{}) {
	bf := d.bf
	defer func() {
		// RecoverSyncer
		if r := recover(); r != nil {
			stopSyncer(bf.compRequester, bf.GetSeq(), NameBlockFetcher, ErrSyncerPanic)
			d.stopped = true
		}
	}()
	if tick {
		if err := bf.checkTaskTimeout(); err != nil {
			stopSyncer(bf.compRequester, bf.GetSeq(), bf.name, err)
			d.stopped = true
			return
		}
	} else {
		if err := bf.blockProcessor.run(msg); err != nil {
			stopSyncer(bf.compRequester, bf.GetSeq(), bf.name, err)
			d.stopped = true
			return
		}
	}
	// schedule() would block in searchCandidateTask waiting for the first hash set
	if bf.curHashSet == nil && len(bf.hfCh) == 0 && bf.retryQueue.Len() == 0 && bf.pendingQueue.Len() == 0 {
		return
	}
	if err := bf.schedule(); err != nil {
		if err == ErrQuitBlockFetcher {
			d.stopped = true
			return
		}
		stopSyncer(bf.compRequester, bf.GetSeq(), bf.name, err)
		d.stopped = true
	}
}

func (d *c17Driver) dump() c17State {
	bf := d.bf
	s := c17State{Running: [][3]int64{}, Pending: []uint64{}, Retry: [][2]uint64{}, Free: [][2]int{}, ConnQ: []uint64{}, Cur: -1, Stopped: d.stopped}
	for e := bf.runningQueue.Front(); e != nil; e = e.Next() {
		t := e.Value.(*FetchTask)
		p := int64(-1)
		if t.syncPeer != nil {
			p = int64(t.syncPeer.No)
		}
		s.Running = append(s.Running, [3]int64{int64(t.startNo), p, int64(t.retry)})
	}
	for e := bf.pendingQueue.Front(); e != nil; e = e.Next() {
		s.Pending = append(s.Pending, e.Value.(*FetchTask).startNo)
	}
	for e := bf.retryQueue.Front(); e != nil; e = e.Next() {
		t := e.Value.(*FetchTask)
		s.Retry = append(s.Retry, [2]uint64{t.startNo, uint64(t.retry)})
	}
	for e := bf.peers.freePeers.Front(); e != nil; e = e.Next() {
		p := e.Value.(*SyncPeer)
		s.Free = append(s.Free, [2]int{p.No, p.FailCnt})
	}
	s.Bad = bf.peers.bad
	bp := bf.blockProcessor
	for _, c := range bp.connQueue {
		s.ConnQ = append(s.ConnQ, c.firstNo)
	}
	if bp.curBlock != nil {
		s.Cur = int64(c17ID(bp.curBlock.GetHash()))
	}
	s.Prev = c17ID(bp.prevBlock.GetHash())
	return s
}

// c17Concrete turns an abstract event (answer the i-th request with fault f, acknowledge the
// oldest submission, ...) into a concrete one against the current outstanding work.
func c17Concrete(c *c17StepCase, r *c17Req, bf *BlockFetcher, ev c17Event, consumed *int) c17Event {
	byID := map[uint64]c17Blk{}
	for _, b := range c.Blocks {
		byID[b[1]] = b
	}
	switch ev.Ev {
	case "hashset":
		if ev.N > 0 {
			n := ev.N
			if *consumed+n > len(c.List) {
				n = len(c.List) - *consumed
			}
			ev.Start = c.Anc[0] + 1 + uint64(*consumed)
			ev.Ids = append([]uint64{}, c.List[*consumed:*consumed+n]...)
			ev.N = 0
			if len(bf.hfCh) == 0 && n > 0 {
				*consumed += n
			}
			if n == 0 {
				ev.Ev = "nop"
			}
		}
	case "answer":
		ev.Ev = "chunk"
		// the request answered: a running task (default) or, for fault "stale", any request ever sent
		var qPeer int
		var qIds []uint64
		if ev.Fault == "stale" {
			if len(r.reqs) == 0 {
				ev.Ev = "nop"
				return ev
			}
			q := r.reqs[((ev.Which%len(r.reqs))+len(r.reqs))%len(r.reqs)]
			qPeer, qIds = q.Peer, q.Ids
		} else {
			var run []*FetchTask
			for e := bf.runningQueue.Front(); e != nil; e = e.Next() {
				run = append(run, e.Value.(*FetchTask))
			}
			if len(run) == 0 {
				ev.Ev = "nop"
				return ev
			}
			t := run[((ev.Which%len(run))+len(run))%len(run)]
			qPeer = t.syncPeer.No
			for _, h := range t.hashes {
				qIds = append(qIds, c17ID(h))
			}
		}
		ev.Peer = qPeer
		ev.Blocks = nil
		for _, id := range qIds {
			b, ok := byID[id]
			if !ok {
				b = c17Blk{0, id, 0}
			}
			ev.Blocks = append(ev.Blocks, b)
		}
		n := len(ev.Blocks)
		switch ev.Fault {
		case "err":
			ev.Err = true
		case "empty":
			ev.Blocks = nil
		case "short":
			ev.Blocks = ev.Blocks[:n-1]
		case "long":
			last := ev.Blocks[n-1]
			ev.Blocks = append(ev.Blocks, c17Blk{last[0] + 1, last[1] + 1000, last[1]})
		case "unlinked":
			ev.Blocks[n-1][2] += 5000
		case "wrongno":
			ev.Blocks[0][0] += 3
		case "wrongpeer":
			ev.Peer = (ev.Peer + 1) % c.NPeers
		case "wronghash":
			ev.Blocks[n-1][1] += 7000
		}
		ev.Fault = ""
	case "ack":
		ev.Ev = "addrsp"
		var b c17Blk
		switch {
		case len(r.adds) > 0 && ev.Fault != "stale":
			b = r.adds[0]
			if ev.Fault == "" || ev.Fault == "ok" {
				r.acked = append(r.acked, b)
				r.adds = r.adds[1:]
			}
		case len(r.acked) > 0 && ev.Fault == "stale":
			b = r.acked[len(r.acked)-1]
		case ev.Fault == "early":
			b = c17Blk{c.Anc[0] + 1, 424242, c.Anc[1]}
		default:
			ev.Ev = "nop" // nothing to acknowledge
			return ev
		}
		ev.No, ev.Hash = b[0], b[1]
		switch ev.Fault {
		case "err":
			ev.Err = true
		case "nohash":
			ev.NoHash = true
		case "wrongno":
			ev.No++
		case "wronghash":
			ev.Hash += 9000
		}
		ev.Fault = ""
	case "tick":
		ev.Timed = nil
		var starts []uint64
		for e := bf.runningQueue.Front(); e != nil; e = e.Next() {
			starts = append(starts, e.Value.(*FetchTask).startNo)
		}
		for _, w := range ev.Whichs {
			if len(starts) > 0 {
				ev.Timed = append(ev.Timed, starts[((w%len(starts))+len(starts))%len(starts)])
			}
		}
		ev.Whichs = nil
	}
	return ev
}

func TestVerifC17Steps(t *testing.T) {
	in, err := os.Open(os.Getenv("VERIF_IN"))
	if err != nil {
		t.Skip("no VERIF_IN")
	}
	defer in.Close()
	out, _ := os.Create(os.Getenv("VERIF_OUT"))
	defer out.Close()
	w := bufio.NewWriter(out)
	defer w.Flush()
	zerolog.SetGlobalLevel(zerolog.Disabled)

	sc := bufio.NewScanner(in)
	sc.Buffer(make([]byte, 1<<20), 1<<26)
	for sc.Scan() {
		var c c17StepCase
		if err := json.Unmarshal(sc.Bytes(), &c); err != nil {
			t.Fatal(err)
		}
		cfg := *SyncerCfg
		cfg.maxBlockReqSize = c.FetchSize
		cfg.maxBlockReqTasks = c.MaxTasks
		cfg.maxPendingConn = c.MaxPending
		cfg.fetchTimeOut = time.Hour
		req := &c17Req{npeers: c.NPeers}
		ctx := types.NewSyncCtx(7, c17PeerID(0), c.Target, c.Anc[0], nil)
		ctx.SetAncestor(c17Block(c.Anc))
		bf := newBlockFetcher(ctx, req, &cfg)
		bf.hfCh = make(chan *HashSet, 1) // same channel, with room for one waiting hash set
		d := &c17Driver{bf: bf, req: req}
		if err := bf.init(); err != nil {
			t.Fatal(err)
		}
		var res []c17StepObs
		var cevs []c17Event
		consumed := 0
		afterStop := 0
		for _, ev := range c.Events {
			req.outs = []c17Out{}
			if d.stopped {
				afterStop++
			}
			if afterStop > 2 {
				ev = c17Event{Ev: "nop"} // the loop has exited: later events are not even looked at
			}
			ev = c17Concrete(&c, req, bf, ev, &consumed)
			cevs = append(cevs, ev)
			if !d.stopped {
				switch ev.Ev {
				case "hashset":
					if len(bf.hfCh) == 0 {
						hs := &HashSet{Count: len(ev.Ids), StartNo: ev.Start}
						for _, id := range ev.Ids {
							hs.Hashes = append(hs.Hashes, c17Hash(id))
						}
						bf.hfCh <- hs
					}
				case "chunk":
					m := &message.GetBlockChunksRsp{Seq: 7, ToWhom: c17PeerID(ev.Peer)}
					for _, b := range ev.Blocks {
						m.Blocks = append(m.Blocks, c17Block(b))
					}
					if ev.Err {
						m.Err = errC17Rsp
					}
					d.iterate(false, m)
				case "addrsp":
					m := &message.AddBlockRsp{BlockNo: ev.No, BlockHash: c17Hash(ev.Hash)}
					if ev.NoHash {
						m.BlockHash = nil
					}
					if ev.Err {
						m.Err = errC17Rsp
					}
					d.iterate(false, m)
				case "tick":
					for e := bf.runningQueue.Front(); e != nil; e = e.Next() {
						task := e.Value.(*FetchTask)
						task.started = time.Now()
						for _, s := range ev.Timed {
							if s == task.startNo {
								task.started = time.Now().Add(-2 * time.Hour)
							}
						}
					}
					d.iterate(true, nil)
				case "quit":
					d.stopped = true
				case "nop":
				}
			}
			res = append(res, c17StepObs{Cev: ev, Outs: req.outs, State: d.dump()})
		}
		b, _ := json.Marshal(res)
		fmt.Fprintln(w, string(b))
	}
}

// ---------------------------------------------------------------- real goroutines
type c17PeerSpec struct {
	Chain string `json:"chain"` // "remote" | "splice" | "alt"
	Mode  string `json:"mode"`  // ok | silent | error | short | long | unlinked | wrongno | slow
	After int    `json:"after"` // the fault starts with the (After+1)-th request to this peer
}

type c17RealCase struct {
	Common    int           `json:"common"`    // height of the last common block (fork point)
	LocalLen  int           `json:"locallen"`  // local best height
	RemoteLen int           `json:"remotelen"` // remote best height
	Target    int           `json:"target"`
	SpliceAt  int           `json:"spliceat"`  // >0: peer 0 serves remote[0..spliceat] ++ alt[spliceat+1..]
	FullScan  bool          `json:"fullscan"`
	FetchSize int           `json:"fetch"`
	HashReq   int           `json:"hashreq"`
	Peers     []c17PeerSpec `json:"peers"`
	LieAnc    int           `json:"lieanc"`    // >=0: the target peer reports this remote height as ancestor; -2: reports none
	Second    bool          `json:"second"`    // start a second session after the first one stopped
	StaleAdd  bool          `json:"staleadd"`  // replay an AddBlockRsp of session 1 into session 2
	TimeoutMs int           `json:"timeoutms"`
	// HashFetcher response timer (package var dfltTimeout) and a slow answer to the K-th GetHashes request:
	// HashMode "hold": the answer enters the mailbox directly in front of the HashFetcher's timeout SyncStop;
	// "after": directly behind it; "delay": answered HashDelayMs after the request
	AncFlood    int    `json:"ancflood"` // first session: the anchor list stops above genesis and the peer keeps answering GetSyncAncestor with an ancestor below the lowest anchor, every TimeoutMs/3, this many times
	Stale2      bool   `json:"stale2"` // second session: a poisoned copy with the PREVIOUS session's sequence number precedes every sequenced response
	HfTimeoutMs int    `json:"hftimeoutms"`
	HashK       int    `json:"hashk"`
	HashMode    string `json:"hashmode"`
	HashDelayMs int    `json:"hashdelayms"`
}

type c17Add struct {
	No     uint64 `json:"no"`
	Hash   string `json:"hash"`
	Prev   string `json:"prev"`
	OnHash bool   `json:"onhash"` // hash is the served hash list's entry at that height
}

type c17Session struct {
	Clean    string   `json:"clean"` // "" or what was left behind after the session ended
	DurMs    int64    `json:"durms"` // SyncStart to final notification
	HC       int      `json:"hc"`    // highest common block of the local and the served chain when the session started
	Injected int      `json:"injected"`
	Started  bool     `json:"started"`
	Ancestor int64    `json:"ancestor"` // FinderResult ancestor height, -1 none
	AncOnLocal  bool  `json:"anc_on_local"`
	AncOnRemote bool  `json:"anc_on_remote"`
	Adds     []c17Add `json:"adds"`
	Stop     string   `json:"stop"` // ok | err:<text> | hang
	Stops    int      `json:"stops"`
	LocalBest int     `json:"local_best"`
}

type c17RealObs struct {
	S1 c17Session  `json:"s1"`
	S2 *c17Session `json:"s2,omitempty"`
}

func c17RunSession(t *testing.T, c *c17RealCase, local, served *chain.StubBlockChain, peers []*StubPeer, target int, stale *message.AddBlockRsp) (c17Session, *message.AddBlockRsp) {
	testCfg := *SyncerCfg
	testCfg.maxBlockReqSize = c.FetchSize
	testCfg.maxHashReqSize = uint64(c.HashReq)
	testCfg.useFullScanOnly = c.FullScan
	testCfg.fetchTimeOut = time.Duration(c.TimeoutMs) * time.Millisecond
	testCfg.debugContext = &SyncerDebug{t: t, expAncestor: -9}
	ss := NewTestSyncer(t, local, served, peers, &testCfg)
	c17Hub = ss.stubRequester
	var ses c17Session
	ses.Ancestor = -1
	var mu sync.Mutex
	var lastAdd *message.AddBlockRsp
	notify := make(chan error, 1)
	notStarted := make(chan struct{}, 1)
	quit := make(chan struct{})
	hubDone := make(chan struct{})
	injected := false
	ses.HC = -1
	for i := 0; i <= local.Best && i <= served.Best; i++ {
		if bytes.Equal(local.Hashes[i], served.Hashes[i]) {
			ses.HC = i
		}
	}
	// a message of an earlier session (sequence number - 1) of the same type, with content that would derail the session
	poison := func(x interface{}) interface{} {
		junk := []byte("stale-message-of-the-previous-session-00")[:32]
		switch m := x.(type) {
		case *message.GetSyncAncestorRsp:
			return &message.GetSyncAncestorRsp{Seq: m.Seq - 1, Ancestor: &types.BlockInfo{Hash: local.Hashes[0], No: 0}}
		case *message.GetHashByNoRsp:
			return &message.GetHashByNoRsp{Seq: m.Seq - 1, BlockHash: junk}
		case *message.GetHashesRsp:
			hs := make([]message.BlockHash, len(m.Hashes))
			for i := range hs {
				hs[i] = junk
			}
			return &message.GetHashesRsp{Seq: m.Seq - 1, PrevInfo: m.PrevInfo, Hashes: hs, Count: m.Count}
		case *message.GetBlockChunksRsp:
			return &message.GetBlockChunksRsp{Seq: m.Seq - 1, ToWhom: m.ToWhom, Err: errC17Rsp}
		case *message.FinderResult:
			return &message.FinderResult{Seq: m.Seq - 1, Ancestor: &types.BlockInfo{Hash: local.Hashes[0], No: 0}}
		case *message.CloseFetcher:
			return &message.CloseFetcher{Seq: m.Seq - 1, FromWho: NameBlockFetcher}
		case *message.SyncStop:
			return &message.SyncStop{Seq: m.Seq - 1, FromWho: "stale", Err: errC17Rsp}
		}
		return nil
	}
	toSyncer := func(x interface{}) {
		if c.Stale2 && c17SecondSession && ss.realSyncer.isRunning {
			if p := poison(x); p != nil {
				mu.Lock()
				ses.Injected++
				mu.Unlock()
				ss.realSyncer.handleMessage(p)
			}
		}
		ss.realSyncer.handleMessage(x)
	}
	hashReqs := 0
	slow := c.HashK > 0 && stale == nil && !c17SecondSession
	var heldRsp *message.GetHashesRsp
	handle := func(msg interface{}) {
		switch m := msg.(type) {
		case *message.SyncStart:
			ss.realSyncer.handleMessage(msg)
			if !ss.realSyncer.isRunning {
				notStarted <- struct{}{} // request ignored (target not above the local best)
				return
			}
			mu.Lock()
			ses.Started = true
			mu.Unlock()
		case *message.FinderResult:
			mu.Lock()
			if m.Ancestor != nil {
				ses.Ancestor = int64(m.Ancestor.No)
				onLocal := int(m.Ancestor.No) <= local.Best && bytes.Equal(local.Hashes[m.Ancestor.No], m.Ancestor.Hash)
				ses.AncOnLocal = onLocal
				if int(m.Ancestor.No) <= served.Best && bytes.Equal(served.Hashes[m.Ancestor.No], m.Ancestor.Hash) {
					ses.AncOnRemote = true
				}
				if m.Err == nil && onLocal {
					local.Rollback(m.Ancestor) // what the chain service does when the first child arrives
				}
			}
			mu.Unlock()
			toSyncer(msg)
		case *message.AddBlock:
			b := m.Block
			a := c17Add{No: b.BlockNo(), Hash: fmt.Sprintf("%x", b.BlockHash()[:6]), Prev: fmt.Sprintf("%x", b.GetHeader().GetPrevBlockHash()[:6])}
			if int(b.BlockNo()) <= served.Best && bytes.Equal(served.Hashes[b.BlockNo()], b.BlockHash()) {
				a.OnHash = true
			}
			mu.Lock()
			ses.Adds = append(ses.Adds, a)
			mu.Unlock()
			if stale != nil && !injected {
				injected = true
				ss.stubRequester.TellTo(message.SyncerSvc, stale) // a late response of the previous session
			}
			err := local.AddBlock(b)
			rsp := &message.AddBlockRsp{BlockNo: b.BlockNo(), BlockHash: b.GetHash(), Err: err}
			mu.Lock()
			lastAdd = rsp
			mu.Unlock()
			ss.stubRequester.TellTo(message.SyncerSvc, rsp)
		case *message.SyncStop:
			mu.Lock()
			ses.Stops++
			mu.Unlock()
			// Syncer.Receive drops everything but SyncStart while no session is running
			deliver := func(x interface{}) {
				if ss.realSyncer.isRunning {
					toSyncer(x)
				}
			}
			if heldRsp != nil && m.Err == ErrHashFetcherTimeout {
				r := heldRsp
				heldRsp = nil
				if c.HashMode == "hold" {
					deliver(r) // mailbox order: late response, then the timeout stop
					deliver(msg)
				} else {
					deliver(msg)
					deliver(r)
				}
			} else {
				deliver(msg)
			}
		default:
			if isOtherActorRequest(msg) {
				if _, ok := msg.(*message.GetAnchors); ok && c.AncFlood > 0 && !c17SecondSession && local.Best >= 2 {
					// an anchor list that does not reach genesis (as on a chain higher than 496 blocks)
					rsp := message.GetAnchorsRsp{Hashes: [][]byte{local.Hashes[local.Best], local.Hashes[local.Best-1]}, LastNo: uint64(local.Best - 1)}
					ss.stubRequester.sendReply(StubRequestResult{rsp, nil})
				} else if ga, ok := msg.(*message.GetSyncAncestor); ok && c.AncFlood > 0 && !c17SecondSession && local.Best >= 2 {
					go func() {
						for i := 0; i < c.AncFlood; i++ {
							time.Sleep(time.Duration(c.TimeoutMs) * time.Millisecond / 3)
							ss.stubRequester.TellTo(message.SyncerSvc, &message.GetSyncAncestorRsp{Seq: ga.Seq,
								Ancestor: &types.BlockInfo{Hash: local.Hashes[0], No: 0}}) // below the lowest anchor: ignored by the finder
						}
					}()
				} else if ga, ok := msg.(*message.GetSyncAncestor); ok && c.LieAnc != -1 {
					var anc *types.BlockInfo
					if c.LieAnc >= 0 && c.LieAnc <= served.Best {
						anc = &types.BlockInfo{Hash: served.Hashes[c.LieAnc], No: uint64(c.LieAnc)}
					}
					ss.stubRequester.TellTo(message.SyncerSvc, &message.GetSyncAncestorRsp{Seq: ga.Seq, Ancestor: anc})
				} else if gh, ok := msg.(*message.GetHashes); ok {
					// StubSyncer.GetHashes asserts; answer without asserting
					hashes, herr := served.GetHashes(gh.PrevInfo, gh.Count)
					rsp := &message.GetHashesRsp{Seq: gh.Seq, PrevInfo: gh.PrevInfo, Hashes: hashes, Count: uint64(len(hashes)), Err: herr}
					hashReqs++
					if slow && hashReqs == c.HashK {
						switch c.HashMode {
						case "hold", "after":
							heldRsp = rsp // delivered next to the HashFetcher's timeout stop
						case "delay":
							go func() {
								time.Sleep(time.Duration(c.HashDelayMs) * time.Millisecond)
								ss.stubRequester.TellTo(message.SyncerSvc, rsp)
							}()
						}
						return
					}
					ss.stubRequester.TellTo(message.SyncerSvc, rsp)
				} else {
					ss.handleActorMsg(msg)
				}
			} else {
				toSyncer(msg)
			}
		}
	}
	// the hub: like StubSyncer.start, but observing and never asserting
	go func() {
		defer close(hubDone)
		for {
			select {
			case msg := <-ss.stubRequester.sendCh:
				handle(msg)
			case <-quit:
				return
			}
		}
	}()
	t0 := time.Now()
	ss.stubRequester.TellTo(message.SyncerSvc, &message.SyncStart{PeerID: targetPeerID, TargetNo: uint64(target), NotifyC: notify})
	stop := ""
	select {
	case err := <-notify:
		if err == nil {
			stop = "ok"
		} else {
			stop = "err:" + err.Error()
		}
	case <-notStarted:
		stop = "not-started"
	case <-time.After(c17Watchdog):
		stop = "hang"
		c17Hangs++
	}
	ses.DurMs = time.Since(t0).Milliseconds()
	close(quit)
	if stop != "hang" {
		<-hubDone // (a hub stuck inside Syncer.Reset never comes back)
		// the session end is clean: nothing of the session is left behind
		rs := ss.realSyncer
		switch {
		case stop != "not-started" && rs.isRunning:
			ses.Clean = "syncer still marked running"
		case rs.finder != nil || rs.hashFetcher != nil || rs.blockFetcher != nil:
			ses.Clean = "a component of the ended session is still attached"
		case rs.ctx != nil:
			ses.Clean = "sync context not cleared"
		}
	} else {
		ses.Clean = "Reset did not return / no final notification within the watchdog"
	}
	mu.Lock()
	defer mu.Unlock()
	ses.Stop = stop
	ses.LocalBest = local.Best
	return ses, lastAdd
}

const c17Watchdog = 15 * time.Second

var c17SecondSession bool

var c17Hangs int // after a few sessions that never ended the remaining cases are skipped

func TestVerifC17Real(t *testing.T) {
	in, err := os.Open(os.Getenv("VERIF_IN"))
	if err != nil {
		t.Skip("no VERIF_IN")
	}
	defer in.Close()
	out, _ := os.Create(os.Getenv("VERIF_OUT"))
	defer out.Close()
	w := bufio.NewWriter(out)
	defer w.Flush()
	zerolog.SetGlobalLevel(zerolog.Disabled)
	if os.Getenv("VERIF_DEBUG") != "" {
		zerolog.SetGlobalLevel(zerolog.DebugLevel)
	}

	// block pools shared by all cases: a trunk and an alternative branch per fork height
	const maxLen = 40
	trunk := chain.InitStubBlockChain(nil, maxLen+1) // heights 0..maxLen
	alts := map[int]*chain.StubBlockChain{}
	altOf := func(common int) *chain.StubBlockChain {
		if a, ok := alts[common]; ok {
			return a
		}
		a := chain.InitStubBlockChain(trunk.Blocks[0:common+1], maxLen-common)
		alts[common] = a
		return a
	}
	prefix := func(src *chain.StubBlockChain, n int) *chain.StubBlockChain {
		return chain.InitStubBlockChain(src.Blocks[0:n+1], 0)
	}

	sc := bufio.NewScanner(in)
	sc.Buffer(make([]byte, 1<<20), 1<<26)
	for sc.Scan() {
		var c c17RealCase
		if err := json.Unmarshal(sc.Bytes(), &c); err != nil {
			t.Fatal(err)
		}
		// local = trunk[0..common] ++ alt[common+1..locallen]; remote = trunk[0..remotelen]
		local := prefix(altOf(c.Common), c.LocalLen)
		remote := prefix(trunk, c.RemoteLen)
		served := remote
		if c.SpliceAt > 0 {
			// spliced hash list: remote up to SpliceAt, then a branch forking below it
			other := altOf(0)
			served = chain.NewStubBlockChain(maxLen)
			for i := 0; i <= c.RemoteLen; i++ {
				b := remote.Blocks[i]
				if i > c.SpliceAt {
					b = other.Blocks[i]
				}
				served.Best = i
				served.Hashes[i] = b.BlockHash()
				served.Blocks[i] = b
				served.BestBlock = b
			}
		}
		var peers []*StubPeer
		for i, ps := range c.Peers {
			p := NewStubPeer(i, uint64(c.RemoteLen), served)
			spec := ps
			cnt := 0
			if spec.Mode != "ok" {
				pp := p
				pp.HookGetBlockChunkRsp = func(msgReq *message.GetBlockChunks) {
					cnt++
					blocks, berr := pp.blockChain.GetBlocks(msgReq.Hashes)
					send := func(bl []*types.Block, e error) {
						c17Hub.TellTo(message.SyncerSvc, &message.GetBlockChunksRsp{Seq: msgReq.Seq, ToWhom: msgReq.ToWhom, Blocks: bl, Err: e})
					}
					if cnt <= spec.After || berr != nil {
						send(blocks, berr)
						return
					}
					switch spec.Mode {
					case "silent":
					case "error":
						send(nil, errC17Rsp)
					case "short":
						send(blocks[:len(blocks)-1], nil)
					case "long":
						extra := pp.blockChain.Blocks[blocks[len(blocks)-1].BlockNo()+1]
						if extra != nil {
							blocks = append(append([]*types.Block{}, blocks...), extra)
						}
						send(blocks, nil)
					case "unlinked":
						o := altOf(0).Blocks[blocks[len(blocks)-1].BlockNo()]
						bl := append([]*types.Block{}, blocks...)
						bl[len(bl)-1] = o
						send(bl, nil)
					case "wrongno":
						bl := append([]*types.Block{}, blocks...)
						first := *bl[0]
						hdr := *first.Header
						hdr.BlockNo += 3
						first.Header = &hdr
						bl[0] = &first
						send(bl, nil)
					case "slow":
						go func() { time.Sleep(30 * time.Millisecond); send(blocks, nil) }()
					}
				}
			}
			peers = append(peers, p)
		}
		var obs c17RealObs
		var last *message.AddBlockRsp
		c17Hub = nil
		if c17Hangs >= 3 {
			obs.S1 = c17Session{Stop: "skipped", Ancestor: -1}
			b, _ := json.Marshal(obs)
			fmt.Fprintln(w, string(b))
			continue
		}
		if c.HfTimeoutMs > 0 {
			dfltTimeout = time.Duration(c.HfTimeoutMs) * time.Millisecond
		} else {
			dfltTimeout = 180 * time.Second
		}
		c17SecondSession = false
		obs.S1, last = c17RunSessionHub(t, &c, local, served, peers, c.Target, nil)
		c17SecondSession = true
		if c.Second {
			var stale *message.AddBlockRsp
			if c.StaleAdd {
				stale = last
			}
			for _, p := range peers {
				p.HookGetBlockChunkRsp = nil // the faulty peers recovered
			}
			n2 := c.RemoteLen + 4
			if n2 > maxLen {
				n2 = maxLen
			}
			c.LieAnc = -1 // the target peer answers truthfully in the second session
			remote2 := prefix(trunk, n2)
			for _, p := range peers {
				p.blockChain = remote2
			}
			s2, _ := c17RunSessionHub(t, &c, local, remote2, peers, n2, stale)
			obs.S2 = &s2
		}
		b, _ := json.Marshal(obs)
		fmt.Fprintln(w, string(b))
		w.Flush()
	}
}

// the requester of the session in progress (the peer hooks answer through it)
var c17Hub *StubRequester

func c17RunSessionHub(t *testing.T, c *c17RealCase, local, served *chain.StubBlockChain, peers []*StubPeer, target int, stale *message.AddBlockRsp) (c17Session, *message.AddBlockRsp) {
	return c17RunSession(t, c, local, served, peers, target, stale)
}

// TestVerifC17Seq: Syncer.verifySeq on every message type the Syncer consumes that carries a session
// sequence number, sent as the senders send it (pointer), with an old, the current and a future number.
func TestVerifC17Seq(t *testing.T) {
	out, err := os.Create(os.Getenv("VERIF_OUT"))
	if err != nil {
		t.Skip("no VERIF_OUT")
	}
	defer out.Close()
	zerolog.SetGlobalLevel(zerolog.Disabled)
	sy := NewSyncer(nil, chain.InitStubBlockChain(nil, 1), nil)
	sy.Seq = 5
	res := map[string][3]bool{}
	for i, q := range []uint64{4, 5, 6} {
		msgs := map[string]interface{}{
			"GetSyncAncestorRsp": &message.GetSyncAncestorRsp{Seq: q},
			"GetHashByNoRsp":     &message.GetHashByNoRsp{Seq: q},
			"GetHashesRsp":       &message.GetHashesRsp{Seq: q},
			"GetBlockChunksRsp":  &message.GetBlockChunksRsp{Seq: q},
			"FinderResult":       &message.FinderResult{Seq: q},
			"SyncStop":           &message.SyncStop{Seq: q},
			"CloseFetcher":       &message.CloseFetcher{Seq: q},
		}
		for name, m := range msgs {
			r := res[name]
			r[i] = sy.verifySeq(m)
			res[name] = r
		}
	}
	b, _ := json.Marshal(res)
	fmt.Fprintln(out, string(b))
}

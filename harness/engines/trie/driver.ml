(* OCaml driver around the model extracted from coq/Trie (Extraction with ExtrOcamlBasic
   only; built by checks/C10.py and checks/C11.py inside build/<id>/ocaml).  The hash
   function argument of the model is supplied here: [toy_hash] is the OCaml twin of
   coq/Trie/ToyHash.v and of toyHash in the Go engine (OCaml's native int is 63 bits wide,
   so + and * wrap exactly like Coq's Uint63 / Go's uint64 masked to 63 bits).

   Protocol (stdin, one record per line, fields separated by blanks, '-' = empty):
     Q k1 k2 ..            keys queried after every batch (hex)
     B k v k v ..          a batch; v = '-' for DefaultLeaf
     O root g1 g2 ..       what the implementation reported after that batch
     L 0|1 climit          before the batches: also run the batch-storage model (BatchModel.v);
                           1 = AtomicUpdate; climit = Trie.CacheHeightLimit
     SR j                  instead of B: the instance is pointed back at the root after batch j
     K k:v ..              liveCache reported by the implementation, compared with the model's
     U k:v k:v ..          updatedNodes reported by the implementation after that Update
                           (key : serializeBatch, sorted by key), compared byte for byte with the
                           model's [upd]; also compares the batch-level root and abs_batch_store
     C                     Commit (batch-storage model)
     E                     end of case: prints "ok" or "diff <batch> <model root> <model gets>"
                           (or "bdiff <batch> <what>" for the batch-storage model)
     P at key              (C11) model proof of key against the tree after batch <at>:
                           prints "proof inc pk pv height bitmap ap1,ap2,..  apc1,apc2.."
     V kind root key value pk length bitmap ap1,ap2,..   (C11) model verifier verdict: "1"/"0"
     T hex                 prints toy_hash of the bytes (test vectors)
*)
open Trie_model

let rec pos_of_int i = if i = 1 then XH else if i land 1 = 1 then XI (pos_of_int (i lsr 1)) else XO (pos_of_int (i lsr 1))
let n_of_int i = if i = 0 then N0 else Npos (pos_of_int i)
let rec int_of_pos = function XH -> 1 | XO p -> 2 * int_of_pos p | XI p -> 2 * int_of_pos p + 1
let int_of_n = function N0 -> 0 | Npos p -> int_of_pos p
let rec nat_of_int i = if i = 0 then O else S (nat_of_int (i - 1))
let rec int_of_nat = function O -> 0 | S n -> 1 + int_of_nat n

let bytes_of_hex s =
  if s = "-" then [] else
  let n = String.length s / 2 in
  List.init n (fun i -> n_of_int (int_of_string ("0x" ^ String.sub s (2 * i) 2)))
let hex_of_bytes l =
  if l = [] then "-" else String.concat "" (List.map (fun b -> Printf.sprintf "%02x" (int_of_n b)) l)

let lane m seed data =
  let x = List.fold_left (fun acc b -> acc * m + int_of_n b + 1) seed data in
  let x = x lxor (x lsr 29) in
  let x = x * 0x1b873593cc9e2d51 in
  x lxor (x lsr 32)
let lane_bytes x = List.map (fun sh -> n_of_int ((x lsr sh) land 255)) [56; 48; 40; 32; 24; 16; 8; 0]
let toy_hash data =
  lane_bytes (lane 0x100000001b3 0x2bf29ce484222325 data)
  @ lane_bytes (lane 0x5851f42d4c957f2d 0x14057b7ef767814f data)
  @ lane_bytes (lane 0x2545f4914f6cdd1d 0x1234567890abcdef data)
  @ lane_bytes (lane 0x369dea0f31a53f85 0x0fedcba987654321 data)

let th256 = nat_of_int 256
let split_ws s = List.filter (fun x -> x <> "") (String.split_on_char ' ' s)
let split_commas s = if s = "-" then [] else String.split_on_char ',' s
let oget = function None -> "-" | Some v -> hex_of_bytes v

let () =
  let q = ref [] in
  let t = ref E in
  let hist = ref [] in          (* trees after each batch, most recent first *)
  let nb = ref 0 in
  let diff = ref None in
  let blevel = ref None in      (* Some atomic *)
  let bst = ref { db = []; upd = []; cache = [] } in
  let climit = ref (nat_of_int 257) in
  let broot = ref [] in
  let berr = ref false in
  (try
    while true do
      let line = input_line stdin in
      match split_ws line with
      | "Q" :: ks -> q := List.map (fun k -> bytes_to_bits (bytes_of_hex k)) ks
      | "B" :: kvs ->
          let rec pairs = function
            | k :: v :: tl -> (bytes_to_bits (bytes_of_hex k), (if v = "-" then None else Some (bytes_of_hex v))) :: pairs tl
            | _ -> [] in
          let ps = pairs kvs in
          t := trie_update th256 !t ps;
          hist := !t :: !hist;
          (match !blevel with
           | Some atomic when not !berr ->
               (match trie_update_b toy_hash atomic !climit !bst !broot ps with
                | Some (st', r) -> bst := st'; broot := r
                | None -> berr := true;
                    if !diff = None then diff := Some (Printf.sprintf "bdiff %d model-load-error" !nb))
           | _ -> ())
      | ["L"; a; cl] -> blevel := Some (a = "1"); climit := nat_of_int (int_of_string cl)
      | ["SR"; j] ->
          (* the instance is pointed back at the root after batch j: store and cache stay *)
          let tj = List.nth (List.rev !hist) (int_of_string j) in
          t := tj; hist := tj :: !hist;
          (match !blevel with Some _ -> broot := root toy_hash th256 tj | None -> ())
      | "K" :: ents ->
          (match !blevel with
           | Some _ when not !berr && !diff = None ->
               let bi = !nb - 1 in
               let mine = List.sort compare (List.map (fun (k, b) -> hex_of_bytes k ^ ":" ^ hex_of_bytes (serialize_batch b)) !bst.cache) in
               let theirs = List.sort compare ents in
               if mine <> theirs then begin
                 let only l1 l2 = List.filter (fun x -> not (List.mem x l2)) l1 in
                 diff := Some (Printf.sprintf "bdiff %d liveCache model-only=[%s] impl-only=[%s]" bi
                                 (String.concat " " (only mine theirs)) (String.concat " " (only theirs mine)))
               end
           | _ -> ())
      | "U" :: ents ->
          (* nb was already advanced by the O record of this batch *)
          (match !blevel with
           | Some atomic when not !berr && !diff = None ->
               let bi = !nb - 1 in
               let mine = List.sort compare (List.map (fun (k, b) -> hex_of_bytes k ^ ":" ^ hex_of_bytes (serialize_batch b)) !bst.upd) in
               let theirs = List.sort compare ents in
               let mroot = hex_of_bytes !broot in
               let troot = hex_of_bytes (root toy_hash th256 !t) in
               if mroot <> troot then diff := Some (Printf.sprintf "bdiff %d root batch-model=%s tree-model=%s" bi mroot troot)
               else if mine <> theirs then begin
                 let only l1 l2 = List.filter (fun x -> not (List.mem x l2)) l1 in
                 diff := Some (Printf.sprintf "bdiff %d updatedNodes model-only=[%s] impl-only=[%s]" bi
                                 (String.concat " " (only mine theirs)) (String.concat " " (only theirs mine)))
               end else
                 (match abs_batch_store !bst !broot with
                  | Some t' when t' = !t -> ()
                  | _ -> diff := Some (Printf.sprintf "bdiff %d abs_batch_store differs from the tree model" bi))
           | _ -> ())
      | ["C"] -> (match !blevel with Some _ -> bst := commit_store !bst | None -> ())
      | "O" :: r :: gs ->
          let mr = hex_of_bytes (root toy_hash th256 !t) in
          let mg = List.map (fun k -> oget (get !t k)) !q in
          if !diff = None && (mr <> r || mg <> gs) then
            diff := Some (Printf.sprintf "diff %d %s %s" !nb mr (String.concat " " mg));
          incr nb
      | ["E"] ->
          print_endline (match !diff with None -> "ok" | Some d -> d);
          q := []; t := E; hist := []; nb := 0; diff := None;
          blevel := None; bst := { db = []; upd = []; cache = [] }; broot := []; berr := false; climit := nat_of_int 257
      | ["R"; tg] ->
          (* Revert to the root after batch <tg>: keys the model deletes (sorted), and the index
             pastTries is cut at (first past root equal to the target) *)
          let h = Array.of_list (List.rev !hist) in
          let rt i = hex_of_bytes (root toy_hash th256 h.(i)) in
          let target = int_of_string tg in
          let first = ref target in
          for i = target - 1 downto 0 do if rt i = rt target then first := i done;
          let later = Array.to_list (Array.sub h (!first + 1) (Array.length h - !first - 1)) in
          let dels = List.sort compare (List.map hex_of_bytes (revert_dels toy_hash h.(target) later)) in
          Printf.printf "dels %d %s\n" !first (if dels = [] then "-" else String.concat "," dels)
      | ["T"; hx] -> print_endline (hex_of_bytes (toy_hash (bytes_of_hex hx)))
      | rest -> Driver_c11.handle toy_hash th256 (List.rev !hist) rest
    done
  with End_of_file -> ())

(* C11 records of the driver protocol (see driver.ml):
     P at key
         model proof of key against the tree after batch <at> (0-based):
         "proof <inc> <pk> <pv> <height> <bitmap> <ap,..> <apc,..>"   ('-' = empty)
     V kind root key value pk length bitmap ap,..
         model verifier verdict "1"/"0"; kind = I | N | IC | NC
     VS ..  the same with SHA-256 as the hash function (proofs produced by the node itself)
     S hex  prints SHA-256 of the bytes (test vector)
     RS k:v k:v ..   prints "root <hex>": SHA-256 root of the model tree with exactly these leaves *)
open Trie_model

let rec pos_of_int i = if i = 1 then XH else if i land 1 = 1 then XI (pos_of_int (i lsr 1)) else XO (pos_of_int (i lsr 1))
let n_of_int i = if i = 0 then N0 else Npos (pos_of_int i)
let rec int_of_pos = function XH -> 1 | XO p -> 2 * int_of_pos p | XI p -> 2 * int_of_pos p + 1
let int_of_n = function N0 -> 0 | Npos p -> int_of_pos p
let rec nat_of_int i = if i = 0 then O else S (nat_of_int (i - 1))
let rec int_of_nat = function O -> 0 | S n -> 1 + int_of_nat n
let bytes_of_hex s =
  if s = "-" then [] else
  let n = String.length s / 2 in
  List.init n (fun i -> n_of_int (int_of_string ("0x" ^ String.sub s (2 * i) 2)))
let hex_of_bytes l =
  if l = [] then "-" else String.concat "" (List.map (fun b -> Printf.sprintf "%02x" (int_of_n b)) l)
let split_commas s = if s = "-" then [] else String.split_on_char ',' s
let join_commas l = if l = [] then "-" else String.concat "," l

let rec bits_to_hex = function
  | b7 :: b6 :: b5 :: b4 :: b3 :: b2 :: b1 :: b0 :: tl ->
      let v = List.fold_left (fun acc b -> 2 * acc + (if b then 1 else 0)) 0 [b7; b6; b5; b4; b3; b2; b1; b0] in
      Printf.sprintf "%02x" v ^ bits_to_hex tl
  | _ -> ""

(* an audit-path element may be empty (corrupted proofs): encode as "." *)
let ap_of_field s = List.map (fun x -> if x = "." then [] else bytes_of_hex x) (split_commas s)
let ap_to_field l = join_commas (List.map (fun x -> if x = [] then "." else hex_of_bytes x) l)

(* SHA-256 (FIPS 180-4) on byte lists, for proofs produced by the node itself (the chain level
   cannot run with the toy hash).  32-bit words in OCaml's 63-bit ints, masked. *)
let sha_k = [|
  0x428a2f98; 0x71374491; 0xb5c0fbcf; 0xe9b5dba5; 0x3956c25b; 0x59f111f1; 0x923f82a4; 0xab1c5ed5;
  0xd807aa98; 0x12835b01; 0x243185be; 0x550c7dc3; 0x72be5d74; 0x80deb1fe; 0x9bdc06a7; 0xc19bf174;
  0xe49b69c1; 0xefbe4786; 0x0fc19dc6; 0x240ca1cc; 0x2de92c6f; 0x4a7484aa; 0x5cb0a9dc; 0x76f988da;
  0x983e5152; 0xa831c66d; 0xb00327c8; 0xbf597fc7; 0xc6e00bf3; 0xd5a79147; 0x06ca6351; 0x14292967;
  0x27b70a85; 0x2e1b2138; 0x4d2c6dfc; 0x53380d13; 0x650a7354; 0x766a0abb; 0x81c2c92e; 0x92722c85;
  0xa2bfe8a1; 0xa81a664b; 0xc24b8b70; 0xc76c51a3; 0xd192e819; 0xd6990624; 0xf40e3585; 0x106aa070;
  0x19a4c116; 0x1e376c08; 0x2748774c; 0x34b0bcb5; 0x391c0cb3; 0x4ed8aa4a; 0x5b9cca4f; 0x682e6ff3;
  0x748f82ee; 0x78a5636f; 0x84c87814; 0x8cc70208; 0x90befffa; 0xa4506ceb; 0xbef9a3f7; 0xc67178f2 |]
let m32 = 0xffffffff
let rotr x n = ((x lsr n) lor (x lsl (32 - n))) land m32
let sha256_ints (data : int list) : int list =
  let n = List.length data in
  let padlen = let r = (n + 9) mod 64 in if r = 0 then 0 else 64 - r in
  let bitlen = n * 8 in
  let msg = Array.of_list (data @ [0x80] @ List.init padlen (fun _ -> 0)
                           @ List.init 8 (fun i -> (bitlen lsr (8 * (7 - i))) land 255)) in
  let h = [| 0x6a09e667; 0xbb67ae85; 0x3c6ef372; 0xa54ff53a; 0x510e527f; 0x9b05688c; 0x1f83d9ab; 0x5be0cd19 |] in
  let w = Array.make 64 0 in
  for blk = 0 to Array.length msg / 64 - 1 do
    for t = 0 to 15 do
      let o = blk * 64 + 4 * t in
      w.(t) <- (msg.(o) lsl 24) lor (msg.(o + 1) lsl 16) lor (msg.(o + 2) lsl 8) lor msg.(o + 3)
    done;
    for t = 16 to 63 do
      let s0 = rotr w.(t - 15) 7 lxor rotr w.(t - 15) 18 lxor (w.(t - 15) lsr 3) in
      let s1 = rotr w.(t - 2) 17 lxor rotr w.(t - 2) 19 lxor (w.(t - 2) lsr 10) in
      w.(t) <- (w.(t - 16) + s0 + w.(t - 7) + s1) land m32
    done;
    let a = ref h.(0) and b = ref h.(1) and c = ref h.(2) and d = ref h.(3)
    and e = ref h.(4) and f = ref h.(5) and g = ref h.(6) and hh = ref h.(7) in
    for t = 0 to 63 do
      let s1 = rotr !e 6 lxor rotr !e 11 lxor rotr !e 25 in
      let ch = (!e land !f) lxor ((lnot !e) land m32 land !g) in
      let t1 = (!hh + s1 + ch + sha_k.(t) + w.(t)) land m32 in
      let s0 = rotr !a 2 lxor rotr !a 13 lxor rotr !a 22 in
      let maj = (!a land !b) lxor (!a land !c) lxor (!b land !c) in
      let t2 = (s0 + maj) land m32 in
      hh := !g; g := !f; f := !e; e := (!d + t1) land m32; d := !c; c := !b; b := !a; a := (t1 + t2) land m32
    done;
    h.(0) <- (h.(0) + !a) land m32; h.(1) <- (h.(1) + !b) land m32; h.(2) <- (h.(2) + !c) land m32; h.(3) <- (h.(3) + !d) land m32;
    h.(4) <- (h.(4) + !e) land m32; h.(5) <- (h.(5) + !f) land m32; h.(6) <- (h.(6) + !g) land m32; h.(7) <- (h.(7) + !hh) land m32
  done;
  List.concat (List.map (fun x -> [(x lsr 24) land 255; (x lsr 16) land 255; (x lsr 8) land 255; x land 255]) (Array.to_list h))
let sha256 (data : n list) : n list = List.map n_of_int (sha256_ints (List.map int_of_n data))

let verdict hashf kind root key value pk length bitmap ap =
  let root = bytes_of_hex root and key = bytes_of_hex key and value = bytes_of_hex value
  and pk = bytes_of_hex pk and ap = ap_of_field ap in
  let bm = bytes_to_bits (bytes_of_hex bitmap) in
  let len = nat_of_int (max 0 (int_of_string length)) in
  match kind with
  | "I" -> verify_inclusion hashf root ap key value
  | "N" -> verify_non_inclusion hashf root ap key value pk
  | "IC" -> verify_inclusion_c hashf root bm key value ap len
  | "NC" -> verify_non_inclusion_c hashf root ap len bm key value pk
  | _ -> false

let handle toy h hist (rest : string list) =
  match rest with
  | ["P"; at; key] ->
      let t = List.nth hist (int_of_string at) in
      let (((mp, inc), pk), pv) = mproof toy h [] t (bytes_to_bits (bytes_of_hex key)) in
      let ((bm, apc), height) = compress mp in
      Printf.printf "proof %d %s %s %d %s %s %s\n" (if inc then 1 else 0) (hex_of_bytes pk) (hex_of_bytes pv)
        (int_of_nat height) (let s = bits_to_hex bm in if s = "" then "-" else s) (ap_to_field mp) (ap_to_field apc)
  | ["V"; kind; root; key; value; pk; length; bitmap; ap] ->
      print_endline (if verdict toy kind root key value pk length bitmap ap then "1" else "0")
  | ["VS"; kind; root; key; value; pk; length; bitmap; ap] ->      (* same with SHA-256 *)
      print_endline (if verdict sha256 kind root key value pk length bitmap ap then "1" else "0")
  | "RS" :: ents ->
      (* root, under SHA-256, of the tree holding exactly the given k:v leaves (one sorted batch on
         the empty tree); used for the storage tries and the account trie of the statedb level *)
      let ps = List.map (fun e -> match String.split_on_char ':' e with
                                  | [k; v] -> (bytes_to_bits (bytes_of_hex k), Some (bytes_of_hex v))
                                  | _ -> failwith "RS") (List.sort compare ents) in
      Printf.printf "root %s\n" (hex_of_bytes (root sha256 h (trie_update h E ps)))
  | ["S"; hx] -> print_endline (hex_of_bytes (sha256 (bytes_of_hex hx)))
  | [] -> ()
  | x :: _ -> Printf.printf "unknown record %s\n" x

(* C11 records of the driver protocol (see driver.ml):
     P at key
         model proof of key against the tree after batch <at> (0-based):
         "proof <inc> <pk> <pv> <height> <bitmap> <ap,..> <apc,..>"   ('-' = empty)
     V kind root key value pk length bitmap ap,..
         model verifier verdict "1"/"0"; kind = I | N | IC | NC *)
open Trie_model

let rec pos_of_int i = if i = 1 then XH else if i land 1 = 1 then XI (pos_of_int (i lsr 1)) else XO (pos_of_int (i lsr 1))
let n_of_int i = if i = 0 then N0 else Npos (pos_of_int i)
let rec int_of_pos = function XH -> 1 | XO p -> 2 * int_of_pos p | XI p -> 2 * int_of_pos p + 1
let int_of_n = function N0 -> 0 | Npos p -> int_of_pos p
let rec nat_of_int i = if i = 0 then O else S (nat_of_int (i - 1))
let rec int_of_nat = function O -> 0 | S n -> 1 + int_of_nat n
let bytes_of_hex s =
  if s = "-" then [] else
  let n = String.length s / 2 in
  List.init n (fun i -> n_of_int (int_of_string ("0x" ^ String.sub s (2 * i) 2)))
let hex_of_bytes l =
  if l = [] then "-" else String.concat "" (List.map (fun b -> Printf.sprintf "%02x" (int_of_n b)) l)
let split_commas s = if s = "-" then [] else String.split_on_char ',' s
let join_commas l = if l = [] then "-" else String.concat "," l

let rec bits_to_hex = function
  | b7 :: b6 :: b5 :: b4 :: b3 :: b2 :: b1 :: b0 :: tl ->
      let v = List.fold_left (fun acc b -> 2 * acc + (if b then 1 else 0)) 0 [b7; b6; b5; b4; b3; b2; b1; b0] in
      Printf.sprintf "%02x" v ^ bits_to_hex tl
  | _ -> ""

(* an audit-path element may be empty (corrupted proofs): encode as "." *)
let ap_of_field s = List.map (fun x -> if x = "." then [] else bytes_of_hex x) (split_commas s)
let ap_to_field l = join_commas (List.map (fun x -> if x = [] then "." else hex_of_bytes x) l)

let handle toy h hist (rest : string list) =
  match rest with
  | ["P"; at; key] ->
      let t = List.nth hist (int_of_string at) in
      let (((mp, inc), pk), pv) = mproof toy h [] t (bytes_to_bits (bytes_of_hex key)) in
      let ((bm, apc), height) = compress mp in
      Printf.printf "proof %d %s %s %d %s %s %s\n" (if inc then 1 else 0) (hex_of_bytes pk) (hex_of_bytes pv)
        (int_of_nat height) (let s = bits_to_hex bm in if s = "" then "-" else s) (ap_to_field mp) (ap_to_field apc)
  | ["V"; kind; root; key; value; pk; length; bitmap; ap] ->
      let root = bytes_of_hex root and key = bytes_of_hex key and value = bytes_of_hex value
      and pk = bytes_of_hex pk and ap = ap_of_field ap in
      let bm = bytes_to_bits (bytes_of_hex bitmap) in
      let len = nat_of_int (max 0 (int_of_string length)) in
      let ok = match kind with
        | "I" -> verify_inclusion toy root ap key value
        | "N" -> verify_non_inclusion toy root ap key value pk
        | "IC" -> verify_inclusion_c toy root bm key value ap len
        | "NC" -> verify_non_inclusion_c toy root ap len bm key value pk
        | _ -> false in
      print_endline (if ok then "1" else "0")
  | [] -> ()
  | x :: _ -> Printf.printf "unknown record %s\n" x

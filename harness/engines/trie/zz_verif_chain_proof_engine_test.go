//go:build verif

package chain

// C11 engine, chain level: a real ChainStateDB (Badger, private temp dir) receives block
// states (funded accounts, names registered through contract/name, one contract with storage
// variables); a ChainWorker answers GetStateAndProof / GetStateQuery exactly as for the RPC
// layer (stub actor context); every returned proof is verified the way a light client does:
// the trie key is derived from the proof's OWN Key field, the value from the returned state,
// the root is the one the request named (or the latest).
import (
	"bufio"
	"encoding/hex"
	"encoding/json"
	"fmt"
	"math/big"
	"os"
	"sort"
	"testing"

	"github.com/aergoio/aergo-actor/actor"
	"github.com/aergoio/aergo-lib/db"
	"github.com/aergoio/aergo/v2/contract/name"
	"github.com/aergoio/aergo/v2/internal/common"
	"github.com/aergoio/aergo/v2/internal/enc/proto"
	"github.com/aergoio/aergo/v2/pkg/trie"
	"github.com/aergoio/aergo/v2/state"
	"github.com/aergoio/aergo/v2/state/statedb"
	"github.com/aergoio/aergo/v2/types"
	"github.com/aergoio/aergo/v2/types/message"
)

type vcCtx struct {
	actor.Context
	msg interface{}
	rsp interface{}
}

func (c *vcCtx) Message() interface{}         { return c.msg }
func (c *vcCtx) Respond(response interface{}) { c.rsp = response }

type vcRound struct {
	Bal   map[string]int64  `json:"bal"`   // account index -> amount added
	Names map[string]int    `json:"names"` // 12-character name -> owner account index
	Vars  map[string]string `json:"vars"`  // contract variable -> value ("" = delete)
}

type vcCase struct {
	NAcc     int       `json:"nacc"`
	Contract int       `json:"contract"` // account index of the contract
	Rounds   []vcRound `json:"rounds"`
	QNames   []string  `json:"qnames"` // names to query (registered or not), incl. special accounts
	QVars    []string  `json:"qvars"`
	// malformed storage keys (hex, shorter or longer than 32 bytes) sent in GetStateQuery.StorageKeys
	QBadKeys []string `json:"qbadkeys"`
}

// one verifier query, in the format of the trie engine's vtQuery (hash = "sha")
type vcProof struct {
	Label     string   `json:"label"`
	Account   string   `json:"account"` // what the request carried (hex)
	Round     int      `json:"round"`   // root the verifier holds: after this round
	UseRoot   bool     `json:"use_root"`
	Comp      bool     `json:"comp"`
	Inclusion bool     `json:"inclusion"`
	Key       string   `json:"key"` // proof.Key (hex)
	Balance   string   `json:"balance"`
	Value     string   `json:"value"` // contract variable value
	Verified  bool     `json:"verified"`
	Root      string   `json:"root"`
	TrieKey   string   `json:"triekey"`
	TrieVal   string   `json:"trieval"`
	PK        string   `json:"pk"`
	PV        string   `json:"pv"`
	AP        []string `json:"ap"`
	Bitmap    string   `json:"bitmap"`
	Height    int      `json:"height"`
	Err       string   `json:"err"`
}

func vcAddr(i int) []byte {
	a := make([]byte, types.AddressLength)
	a[0] = 2
	h := common.Hasher([]byte(fmt.Sprintf("verif-account-%d", i)))
	copy(a[1:], h)
	return a
}

func vcHexs(bs [][]byte) []string {
	r := make([]string, len(bs))
	for i, b := range bs {
		r[i] = fmt.Sprintf("%x", b)
	}
	return r
}

func vcVerify(root []byte, incl, comp bool, key, val, pk, pv, bitmap []byte, ap [][]byte, height int) bool {
	vt := trie.NewTrie(root, common.Hasher, nil)
	if incl {
		if comp {
			return vt.VerifyInclusionC(bitmap, key, val, ap, height)
		}
		return vt.VerifyInclusion(ap, key, val)
	}
	if comp {
		return vt.VerifyNonInclusionC(ap, height, bitmap, key, pv, pk)
	}
	return vt.VerifyNonInclusion(ap, key, pv, pk)
}

func vcAccountObs(label string, account []byte, round int, useRoot, comp bool, root []byte, p *types.AccountProof) vcProof {
	o := vcProof{Label: label, Account: fmt.Sprintf("%x", account), Round: round, UseRoot: useRoot, Comp: comp}
	o.Inclusion = p.GetInclusion()
	o.Key = fmt.Sprintf("%x", p.GetKey())
	// light client: the trie key is the hash of the account the proof says it is about
	key := types.ToAccountID(p.GetKey())
	var val []byte
	if p.GetInclusion() {
		raw, err := proto.Encode(p.GetState())
		if err != nil {
			o.Err = err.Error()
			return o
		}
		val = common.Hasher(raw)
		o.Balance = p.GetState().GetBalanceBigInt().String()
	}
	o.Root, o.TrieKey, o.TrieVal = fmt.Sprintf("%x", root), fmt.Sprintf("%x", key[:]), fmt.Sprintf("%x", val)
	o.PK, o.PV = fmt.Sprintf("%x", p.GetProofKey()), fmt.Sprintf("%x", p.GetProofVal())
	o.AP, o.Bitmap, o.Height = vcHexs(p.GetAuditPath()), fmt.Sprintf("%x", p.GetBitmap()), int(p.GetHeight())
	o.Verified = vcVerify(root, p.GetInclusion(), comp, key[:], val, p.GetProofKey(), p.GetProofVal(), p.GetBitmap(), p.GetAuditPath(), int(p.GetHeight()))
	return o
}

func vcVarObs(label string, contract []byte, varName string, round int, comp bool, sroot []byte, p *types.ContractVarProof) vcProof {
	o := vcProof{Label: label, Account: fmt.Sprintf("%x", contract), Round: round, UseRoot: true, Comp: comp}
	o.Inclusion = p.GetInclusion()
	o.Key = fmt.Sprintf("%x", p.GetKey())
	var val []byte
	if p.GetInclusion() {
		val = common.Hasher(p.GetValue())
		o.Value = string(p.GetValue())
	}
	// the trie key of a variable is the (already hashed) storage key the proof is labelled with
	o.Root, o.TrieKey, o.TrieVal = fmt.Sprintf("%x", sroot), fmt.Sprintf("%x", p.GetKey()), fmt.Sprintf("%x", val)
	o.PK, o.PV = fmt.Sprintf("%x", p.GetProofKey()), fmt.Sprintf("%x", p.GetProofVal())
	o.AP, o.Bitmap, o.Height = vcHexs(p.GetAuditPath()), fmt.Sprintf("%x", p.GetBitmap()), int(p.GetHeight())
	o.Verified = vcVerify(sroot, p.GetInclusion(), comp, p.GetKey(), val, p.GetProofKey(), p.GetProofVal(), p.GetBitmap(), p.GetAuditPath(), int(p.GetHeight()))
	_ = varName
	return o
}

func vcRunCase(t *testing.T, c *vcCase) (obs []vcProof, errs string) {
	defer func() {
		if r := recover(); r != nil {
			errs = fmt.Sprint("panic: ", r)
		}
	}()
	dir, err := os.MkdirTemp("", "verif-c11-chain")
	if err != nil {
		return nil, err.Error()
	}
	defer os.RemoveAll(dir)
	csdb := state.NewChainStateDB()
	if err := csdb.Init(string(db.BadgerImpl), dir, nil, false, nil); err != nil {
		return nil, err.Error()
	}
	defer csdb.Close()
	var roots [][]byte
	for _, r := range c.Rounds {
		bs := csdb.NewBlockState(csdb.GetRoot())
		idx := make([]string, 0, len(r.Bal))
		for k := range r.Bal {
			idx = append(idx, k)
		}
		sort.Strings(idx)
		for _, k := range idx {
			var i int
			fmt.Sscanf(k, "%d", &i)
			as, err := state.GetAccountState(vcAddr(i), bs.StateDB)
			if err != nil {
				return nil, err.Error()
			}
			as.AddBalance(big.NewInt(r.Bal[k]))
			if err := as.PutState(); err != nil {
				return nil, err.Error()
			}
		}
		if len(r.Names) > 0 {
			scs, err := statedb.GetNameAccountState(bs.StateDB)
			if err != nil {
				return nil, err.Error()
			}
			ns := make([]string, 0, len(r.Names))
			for n := range r.Names {
				ns = append(ns, n)
			}
			sort.Strings(ns)
			for _, n := range ns {
				owner := vcAddr(r.Names[n])
				sender, _ := state.GetAccountState(owner, bs.StateDB)
				receiver, _ := state.GetAccountState([]byte(types.AergoName), bs.StateDB)
				tx := &types.TxBody{Account: owner, Recipient: []byte(types.AergoName)}
				if err := name.CreateName(scs, tx, sender, receiver, n); err != nil {
					return nil, err.Error()
				}
			}
			if err := statedb.StageContractState(scs, bs.StateDB); err != nil {
				return nil, err.Error()
			}
		}
		if len(r.Vars) > 0 {
			cs, err := statedb.OpenContractStateAccount(vcAddr(c.Contract), bs.StateDB)
			if err != nil {
				return nil, err.Error()
			}
			vs := make([]string, 0, len(r.Vars))
			for v := range r.Vars {
				vs = append(vs, v)
			}
			sort.Strings(vs)
			for _, v := range vs {
				if r.Vars[v] == "" {
					cs.DeleteData([]byte(v))
				} else {
					cs.SetData([]byte(v), []byte(r.Vars[v]))
				}
			}
			if err := statedb.StageContractState(cs, bs.StateDB); err != nil {
				return nil, err.Error()
			}
		}
		if err := csdb.Apply(bs); err != nil {
			return nil, err.Error()
		}
		roots = append(roots, append([]byte{}, csdb.GetRoot()...))
	}
	cw := &ChainWorker{Core: &Core{sdb: csdb}}
	last := len(roots) - 1
	ask := func(account, root []byte, comp bool) (*types.AccountProof, error) {
		ctx := &vcCtx{msg: &message.GetStateAndProof{Account: account, Root: root, Compressed: comp}}
		cw.Receive(ctx)
		rsp, ok := ctx.rsp.(message.GetStateAndProofRsp)
		if !ok {
			return nil, fmt.Errorf("unexpected response %T", ctx.rsp)
		}
		return rsp.StateProof, rsp.Err
	}
	type target struct {
		label   string
		account []byte
	}
	var targets []target
	for i := 0; i < c.NAcc; i++ {
		targets = append(targets, target{fmt.Sprintf("address:%d", i), vcAddr(i)})
	}
	for _, n := range c.QNames {
		targets = append(targets, target{"name:" + n, []byte(n)})
	}
	for _, comp := range []bool{false, true} {
		for rj := 0; rj <= last; rj++ {
			for _, useRoot := range []bool{true, false} {
				if !useRoot && rj != last {
					continue
				}
				var rootArg []byte
				if useRoot {
					rootArg = roots[rj]
				}
				for _, tg := range targets {
					p, err := ask(tg.account, rootArg, comp)
					if err != nil || p == nil {
						obs = append(obs, vcProof{Label: tg.label, Account: fmt.Sprintf("%x", tg.account), Round: rj, UseRoot: useRoot, Comp: comp, Err: fmt.Sprint("GetStateAndProof: ", err)})
						continue
					}
					obs = append(obs, vcAccountObs(tg.label, tg.account, rj, useRoot, comp, roots[rj], p))
				}
				// contract variables through GetStateQuery, by address and by every name
				ctargets := []target{{"contract-address", vcAddr(c.Contract)}}
				for _, n := range c.QNames {
					ctargets = append(ctargets, target{"contract-name:" + n, []byte(n)})
				}
				keys := make([][]byte, len(c.QVars))
				for i, v := range c.QVars {
					keys[i] = common.Hasher([]byte(v))
				}
				for _, tg := range ctargets {
					ctx := &vcCtx{msg: &message.GetStateQuery{ContractAddress: tg.account, StorageKeys: keys, Root: rootArg, Compressed: comp}}
					cw.Receive(ctx)
					rsp, ok := ctx.rsp.(message.GetStateQueryRsp)
					if !ok || rsp.Err != nil || rsp.Result == nil {
						obs = append(obs, vcProof{Label: "query:" + tg.label, Account: fmt.Sprintf("%x", tg.account), Round: rj, UseRoot: useRoot, Comp: comp, Err: fmt.Sprint("GetStateQuery: ", rsp.Err)})
						continue
					}
					cp := rsp.Result.GetContractProof()
					co := vcAccountObs("query:"+tg.label, tg.account, rj, useRoot, comp, roots[rj], cp)
					obs = append(obs, co)
					if !cp.GetInclusion() {
						continue
					}
					sroot := cp.GetState().GetStorageRoot()
					for vi, vp := range rsp.Result.GetVarProofs() {
						obs = append(obs, vcVarObs("var:"+tg.label+":"+c.QVars[vi], tg.account, c.QVars[vi], rj, comp, sroot, vp))
					}
					if tg.label != "contract-address" || rj != last {
						continue
					}
					// malformed storage keys, one query each (a panic inside Receive is what the actor's
					// mailbox would recover)
					for _, hk := range c.QBadKeys {
						bk, _ := hex.DecodeString(hk)
						bo := vcProof{Label: "badvar:" + hk, Account: fmt.Sprintf("%x", tg.account), Round: rj, UseRoot: useRoot, Comp: comp}
						func() {
							defer func() {
								if r := recover(); r != nil {
									bo.Err = fmt.Sprint("panic: ", r)
								}
							}()
							bctx := &vcCtx{msg: &message.GetStateQuery{ContractAddress: tg.account, StorageKeys: [][]byte{bk}, Root: rootArg, Compressed: comp}}
							cw.Receive(bctx)
							brsp, ok := bctx.rsp.(message.GetStateQueryRsp)
							if !ok || brsp.Err != nil || brsp.Result == nil || len(brsp.Result.GetVarProofs()) != 1 {
								bo.Err = fmt.Sprint("GetStateQuery: ", brsp.Err)
								return
							}
							bo = vcVarObs("badvar:"+hk, tg.account, hk, rj, comp, brsp.Result.GetContractProof().GetState().GetStorageRoot(), brsp.Result.GetVarProofs()[0])
							bo.UseRoot = useRoot
						}()
						obs = append(obs, bo)
					}
				}
			}
		}
	}
	return obs, ""
}

func TestVerifChainProofs(t *testing.T) {
	in, err := os.Open(os.Getenv("VERIF_IN"))
	if err != nil {
		t.Skip("no VERIF_IN")
	}
	defer in.Close()
	out, _ := os.Create(os.Getenv("VERIF_OUT"))
	defer out.Close()
	w := bufio.NewWriterSize(out, 1<<20)
	defer w.Flush()
	sc := bufio.NewScanner(in)
	sc.Buffer(make([]byte, 1<<20), 1<<26)
	for sc.Scan() {
		var c vcCase
		if err := json.Unmarshal(sc.Bytes(), &c); err != nil {
			t.Fatal(err)
		}
		obs, e := vcRunCase(t, &c)
		b, _ := json.Marshal(map[string]interface{}{"obs": obs, "err": e,
			"sha_vec": fmt.Sprintf("%x", common.Hasher([]byte("abc")))})
		w.Write(b)
		w.WriteByte('\n')
	}
}

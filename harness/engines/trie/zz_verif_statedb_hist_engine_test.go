//go:build verif

package statedb

// C10 engine, statedb level: histories of BLOCKS over the two-level state (account trie whose
// contract leaves carry the root of a per-contract storage trie).  Every block is applied the
// way the node applies it (chain/chainhandle.go executeBlock): a FRESH StateDB opened on the
// parent root, contract storage writes/deletes + PutState + StageContractState, ONE Update, ONE
// Commit.  After every block a fresh StateDB opened on the new root reads everything back; after
// the last block every historical root is read again; the surviving contents after every block
// are rebuilt in ONE block on an empty store (history independence of the state root).  The same
// history is also run on one long-lived StateDB (the usage of the unit tests).
import (
	"bufio"
	"encoding/json"
	"fmt"
	"os"
	"sort"
	"testing"

	"github.com/aergoio/aergo-lib/db"
	"github.com/aergoio/aergo/v2/internal/common"
	"github.com/aergoio/aergo/v2/types"
)

type vhBlock struct {
	Contracts map[string]map[string]string `json:"contracts"` // contract -> variable -> value ("" = delete)
	Accounts  map[string]uint64            `json:"accounts"`  // plain account -> nonce
}

type vhCase struct {
	Blocks    []vhBlock `json:"blocks"`
	Contracts []string  `json:"qcontracts"`
	Vars      []string  `json:"qvars"`
	Accts     []string  `json:"qaccts"`
}

type vhView struct {
	Root   string                       `json:"root"`
	SRoots map[string]string            `json:"sroots"` // contract -> storage root in its account leaf ("" = empty)
	Exists map[string]bool              `json:"exists"` // account (contract or plain) present in the account trie
	Vals   map[string]map[string]string `json:"vals"`   // contract -> variable -> value (present ones)
	Nonces map[string]uint64            `json:"nonces"`
	Err    string                       `json:"err"`
}

type vhOut struct {
	Views   []vhView `json:"views"`   // fresh instance on the root after block i, read right after block i
	Final   []vhView `json:"final"`   // fresh instance on the root after block i, read after the last block
	Rebuilt []string `json:"rebuilt"` // state root of the surviving contents after block i, written in ONE block on an empty store
	Long    []string `json:"long"`    // state roots of the same history on one long-lived StateDB
	Err     string   `json:"err"`
}

func vhHex(b []byte) string { return fmt.Sprintf("%x", b) }

func vhSortedKeys(m map[string]map[string]string) []string {
	ks := make([]string, 0, len(m))
	for k := range m {
		ks = append(ks, k)
	}
	sort.Strings(ks)
	return ks
}

// one block on sdb: returns the error text ("" = fine)
func vhApply(sdb *StateDB, b vhBlock) string {
	for _, cn := range vhSortedKeys(b.Contracts) {
		cs, err := OpenContractStateAccount([]byte(cn), sdb)
		if err != nil {
			return "open " + cn + ": " + err.Error()
		}
		for k, v := range b.Contracts[cn] {
			if v == "" {
				err = cs.DeleteData([]byte(k))
			} else {
				err = cs.SetData([]byte(k), []byte(v))
			}
			if err != nil {
				return "write " + cn + "." + k + ": " + err.Error()
			}
		}
		if err := sdb.PutState(types.ToAccountID([]byte(cn)), cs.State); err != nil {
			return err.Error()
		}
		if err := StageContractState(cs, sdb); err != nil {
			return "stage " + cn + ": " + err.Error()
		}
	}
	for name, nonce := range b.Accounts {
		if err := sdb.PutState(types.ToAccountID([]byte(name)), &types.State{Nonce: nonce}); err != nil {
			return err.Error()
		}
	}
	if err := sdb.Update(); err != nil {
		return "update: " + err.Error()
	}
	if err := sdb.Commit(); err != nil {
		return "commit: " + err.Error()
	}
	return ""
}

func vhRead(store db.DB, root []byte, c *vhCase) vhView {
	v := vhView{Root: vhHex(root), SRoots: map[string]string{}, Exists: map[string]bool{}, Vals: map[string]map[string]string{}, Nonces: map[string]uint64{}}
	sdb := NewStateDB(store, root, false)
	for _, cn := range c.Contracts {
		aid := types.ToAccountID([]byte(cn))
		st, err := sdb.GetState(aid)
		if err != nil {
			v.Err = "state " + cn + ": " + err.Error()
			return v
		}
		v.Exists[cn] = st != nil
		cs, err := OpenContractStateAccount([]byte(cn), sdb)
		if err != nil {
			v.Err = "open " + cn + ": " + err.Error()
			return v
		}
		v.SRoots[cn] = vhHex(common.Compactz(cs.State.GetStorageRoot()))
		vals := map[string]string{}
		for _, k := range c.Vars {
			val, err := cs.GetData([]byte(k))
			if err != nil {
				v.Err = "read " + cn + "." + k + ": " + err.Error()
				return v
			}
			if len(val) > 0 {
				vals[k] = string(val)
			}
		}
		v.Vals[cn] = vals
	}
	for _, an := range c.Accts {
		st, err := sdb.GetState(types.ToAccountID([]byte(an)))
		if err != nil {
			v.Err = "state " + an + ": " + err.Error()
			return v
		}
		v.Exists[an] = st != nil
		if st != nil {
			v.Nonces[an] = st.GetNonce()
		}
	}
	return v
}

func TestVerifStateDBHistories(t *testing.T) {
	in, err := os.Open(os.Getenv("VERIF_IN"))
	if err != nil {
		t.Skip("no VERIF_IN")
	}
	defer in.Close()
	out, _ := os.Create(os.Getenv("VERIF_OUT"))
	defer out.Close()
	w := bufio.NewWriterSize(out, 1<<20)
	defer w.Flush()
	sc := bufio.NewScanner(in)
	sc.Buffer(make([]byte, 1<<20), 1<<26)
	for sc.Scan() {
		var c vhCase
		if err := json.Unmarshal(sc.Bytes(), &c); err != nil {
			t.Fatal(err)
		}
		var o vhOut
		func() {
			store := db.NewDB(db.MemoryImpl, "/nonexistent-verif-statedb-store")
			lstore := db.NewDB(db.MemoryImpl, "/nonexistent-verif-statedb-store")
			long := NewStateDB(lstore, nil, false)
			// ground truth kept by the engine for the one-block rebuild (plain map semantics)
			stor := map[string]map[string]string{}
			accts := map[string]uint64{}
			var parent []byte
			var roots [][]byte
			for bi, b := range c.Blocks {
				sdb := NewStateDB(store, parent, false)
				if e := vhApply(sdb, b); e != "" {
					o.Err = fmt.Sprintf("block %d: %s", bi, e)
					return
				}
				parent = append([]byte{}, sdb.GetRoot()...)
				roots = append(roots, parent)
				o.Views = append(o.Views, vhRead(store, parent, &c))
				if e := vhApply(long, b); e != "" {
					o.Err = fmt.Sprintf("long-lived, block %d: %s", bi, e)
					return
				}
				o.Long = append(o.Long, vhHex(long.GetRoot()))
				for cn, ws := range b.Contracts {
					if stor[cn] == nil {
						stor[cn] = map[string]string{}
					}
					for k, v := range ws {
						if v == "" {
							delete(stor[cn], k)
						} else {
							stor[cn][k] = v
						}
					}
				}
				for a, n := range b.Accounts {
					accts[a] = n
				}
				rb := vhBlock{Contracts: map[string]map[string]string{}, Accounts: accts}
				for cn, m := range stor {
					rb.Contracts[cn] = m
				}
				fresh := NewStateDB(db.NewDB(db.MemoryImpl, "/nonexistent-verif-statedb-store"), nil, false)
				if e := vhApply(fresh, rb); e != "" {
					o.Err = "rebuild: " + e
					return
				}
				o.Rebuilt = append(o.Rebuilt, vhHex(fresh.GetRoot()))
			}
			for _, r := range roots {
				o.Final = append(o.Final, vhRead(store, r, &c))
			}
		}()
		b, _ := json.Marshal(o)
		w.Write(b)
		w.WriteByte('\n')
	}
}

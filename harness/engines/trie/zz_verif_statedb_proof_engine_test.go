//go:build verif

package statedb

// C11 engine, statedb level: real StateDB (accounts + one contract storage) over a memory
// store, several Update+Commit rounds; GetAccountAndProof / GetVarAndProof (plain and
// compressed, latest root and historical roots) fed to the real trie verifiers.
import (
	"bufio"
	"bytes"
	"encoding/hex"
	"encoding/json"
	"fmt"
	"math/big"
	"os"
	"testing"

	"github.com/aergoio/aergo-lib/db"
	"github.com/aergoio/aergo/v2/internal/common"
	"github.com/aergoio/aergo/v2/pkg/trie"
	"github.com/aergoio/aergo/v2/types"
)

type vsRound struct {
	Accounts map[string]uint64 `json:"accounts"` // name -> nonce (balance = nonce*1000)
	Vars     map[string]string `json:"vars"`     // contract variable -> value ("" = delete)
}

type vsCase struct {
	Rounds   []vsRound `json:"rounds"`
	QAccts   []string  `json:"qaccts"`
	QVars    []string  `json:"qvars"`
	Contract string    `json:"contract"`
	// after the last round: puts/storage writes left PENDING on the live StateDB
	Pending *vsRound `json:"pending"`
	// malformed storage keys (hex; shorter or longer than 32 bytes), asked against the last
	// committed storage root: GetStateQuery forwards the client's StorageKeys unchanged
	QBadKeys []string `json:"qbadkeys"`
}

type vsObs struct {
	Kind      string `json:"kind"` // account | var
	Name      string `json:"name"`
	Round     int    `json:"round"`
	UseRoot   bool   `json:"use_root"` // root passed explicitly (historical) or nil (latest)
	Comp      bool   `json:"comp"`
	Inclusion bool   `json:"inclusion"`
	Verified  bool   `json:"verified"`
	Nonce     uint64 `json:"nonce"`
	Value     string `json:"value"`
	Err       string `json:"err"`
	Phase     string `json:"phase"` // "" committed; "buffered" = pending puts before Update; "updated" = after Update, before Commit; "committed" = after that Commit
}

func hexs(b []byte) string { return fmt.Sprintf("%x", b) }

func vsVerify(root []byte, incl bool, comp bool, key, val, pk, pv, bitmap []byte, ap [][]byte, height int) bool {
	vt := trie.NewTrie(root, common.Hasher, nil)
	if incl {
		if comp {
			return vt.VerifyInclusionC(bitmap, key, val, ap, height)
		}
		return vt.VerifyInclusion(ap, key, val)
	}
	if comp {
		return vt.VerifyNonInclusionC(ap, height, bitmap, key, pv, pk)
	}
	return vt.VerifyNonInclusion(ap, key, pv, pk)
}

func TestVerifStateDBProofs(t *testing.T) {
	in, err := os.Open(os.Getenv("VERIF_IN"))
	if err != nil {
		t.Skip("no VERIF_IN")
	}
	defer in.Close()
	out, _ := os.Create(os.Getenv("VERIF_OUT"))
	defer out.Close()
	w := bufio.NewWriterSize(out, 1<<20)
	defer w.Flush()
	sc := bufio.NewScanner(in)
	sc.Buffer(make([]byte, 1<<20), 1<<26)
	for sc.Scan() {
		var c vsCase
		if err := json.Unmarshal(sc.Bytes(), &c); err != nil {
			t.Fatal(err)
		}
		store := db.NewDB(db.MemoryImpl, "/nonexistent-verif-statedb-store")
		sdb := NewStateDB(store, nil, false)
		var obs []vsObs
		var roots, sroots [][]byte
		for ri, r := range c.Rounds {
			for name, nonce := range r.Accounts {
				st := &types.State{Nonce: nonce, Balance: new(big.Int).SetUint64(nonce * 1000).Bytes()}
				if err := sdb.PutState(types.ToAccountID([]byte(name)), st); err != nil {
					t.Fatal(err)
				}
			}
			if len(r.Vars) > 0 {
				cs, err := OpenContractStateAccount([]byte(c.Contract), sdb)
				if err != nil {
					t.Fatal(err)
				}
				for k, v := range r.Vars {
					if v == "" {
						cs.DeleteData([]byte(k))
					} else {
						cs.SetData([]byte(k), []byte(v))
					}
				}
				if err := StageContractState(cs, sdb); err != nil {
					t.Fatal(err)
				}
			}
			if err := sdb.Update(); err != nil {
				t.Fatal(err)
			}
			if err := sdb.Commit(); err != nil {
				t.Fatal(err)
			}
			roots = append(roots, append([]byte{}, sdb.GetRoot()...))
			cst, _ := sdb.GetAccountState(types.ToAccountID([]byte(c.Contract)))
			sroots = append(sroots, append([]byte{}, common.Compactz(cst.GetStorageRoot())...))
			// proofs against every committed root so far, through the latest StateDB
			for rj := 0; rj <= ri; rj++ {
				for _, comp := range []bool{false, true} {
					for _, useRoot := range []bool{true, false} {
						if !useRoot && rj != ri {
							continue
						}
						var rootArg []byte
						if useRoot {
							rootArg = roots[rj]
						}
						for _, name := range c.QAccts {
							id := types.ToAccountID([]byte(name))
							o := vsObs{Kind: "account", Name: name, Round: rj, UseRoot: useRoot, Comp: comp}
							p, err := sdb.GetAccountAndProof(id[:], rootArg, comp)
							if err != nil {
								o.Err = err.Error()
							} else {
								o.Inclusion = p.Inclusion
								var val []byte
								if p.Inclusion {
									o.Nonce = p.State.GetNonce()
									val = getHashBytes(p.State)
								}
								o.Verified = vsVerify(roots[rj], p.Inclusion, comp, id[:], val, p.ProofKey, p.ProofVal, p.Bitmap, p.AuditPath, int(p.Height))
							}
							obs = append(obs, o)
						}
						// light-client flow: the storage root is taken out of the VERIFIED account
						// proof of the contract, not from the node's own state object
						cid := types.ToAccountID([]byte(c.Contract))
						cp, cerr := sdb.GetAccountAndProof(cid[:], roots[rj], comp)
						oc := vsObs{Kind: "contract", Name: c.Contract, Round: rj, UseRoot: true, Comp: comp}
						var proved []byte
						if cerr != nil {
							oc.Err = cerr.Error()
						} else {
							oc.Inclusion = cp.Inclusion
							if cp.Inclusion {
								oc.Verified = vsVerify(roots[rj], true, comp, cid[:], getHashBytes(cp.State), cp.ProofKey, cp.ProofVal, cp.Bitmap, cp.AuditPath, int(cp.Height))
								proved = common.Compactz(cp.State.GetStorageRoot())
								oc.Value = hexs(proved)
								oc.Nonce = cp.State.GetNonce()
							}
						}
						obs = append(obs, oc)
						if !bytes.Equal(proved, sroots[rj]) {
							obs = append(obs, vsObs{Kind: "contract", Name: c.Contract, Round: rj, Err: "storage root in the proved state differs from the contract's storage root"})
						}
						if len(proved) == 0 {
							continue
						}
						sroots[rj] = proved
						for _, vn := range c.QVars {
							key := types.GetHashID([]byte(vn))
							o := vsObs{Kind: "var", Name: vn, Round: rj, UseRoot: true, Comp: comp}
							p, err := sdb.GetVarAndProof(key[:], sroots[rj], comp)
							if err != nil {
								o.Err = err.Error()
							} else {
								o.Inclusion = p.Inclusion
								var val []byte
								if p.Inclusion {
									o.Value = string(p.Value)
									val = common.Hasher(p.Value)
								}
								o.Verified = vsVerify(sroots[rj], p.Inclusion, comp, key[:], val, p.ProofKey, p.ProofVal, p.Bitmap, p.AuditPath, int(p.Height))
							}
							obs = append(obs, o)
						}
					}
				}
			}
		}
		if len(c.QBadKeys) > 0 && len(sroots) > 0 && len(sroots[len(sroots)-1]) > 0 {
			last := len(c.Rounds) - 1
			sroot := sroots[last]
			for _, comp := range []bool{false, true} {
				for _, hk := range c.QBadKeys {
					key, _ := hex.DecodeString(hk)
					o := vsObs{Kind: "badvar", Name: hk, Round: last, UseRoot: true, Comp: comp}
					func() {
						var p *types.ContractVarProof
						defer func() {
							if r := recover(); r != nil {
								if p == nil {
									o.Err = fmt.Sprintf("panic in GetVarAndProof: %v", r)
								} else {
									o.Value = fmt.Sprintf("verifier panic: %v", r)
								}
							}
						}()
						var err error
						p, err = sdb.GetVarAndProof(key, sroot, comp)
						if err != nil {
							o.Err = err.Error()
							p = nil
							return
						}
						o.Inclusion = p.Inclusion
						var val []byte
						if p.Inclusion {
							val = common.Hasher(p.Value)
						}
						o.Verified = vsVerify(sroot, p.Inclusion, comp, key, val, p.ProofKey, p.ProofVal, p.Bitmap, p.AuditPath, int(p.Height))
					}()
					obs = append(obs, o)
				}
			}
		}
		if c.Pending != nil {
			last := len(c.Rounds) - 1
			vsPut := func() {
				for name, nonce := range c.Pending.Accounts {
					st := &types.State{Nonce: nonce, Balance: new(big.Int).SetUint64(nonce * 1000).Bytes()}
					sdb.PutState(types.ToAccountID([]byte(name)), st)
				}
				if len(c.Pending.Vars) > 0 {
					cs, err := OpenContractStateAccount([]byte(c.Contract), sdb)
					if err != nil {
						t.Fatal(err)
					}
					for k, v := range c.Pending.Vars {
						if v == "" {
							cs.DeleteData([]byte(k))
						} else {
							cs.SetData([]byte(k), []byte(v))
						}
					}
					StageContractState(cs, sdb)
				}
			}
			query := func(phase string) {
				cur := append([]byte{}, sdb.GetRoot()...)
				for _, comp := range []bool{false, true} {
					for _, useRoot := range []bool{false, true} {
						var rootArg []byte
						if useRoot {
							rootArg = cur
						}
						for _, name := range c.QAccts {
							id := types.ToAccountID([]byte(name))
							o := vsObs{Kind: "account", Name: name, Round: last, UseRoot: useRoot, Comp: comp, Phase: phase}
							p, err := sdb.GetAccountAndProof(id[:], rootArg, comp)
							if err != nil {
								o.Err = err.Error()
							} else {
								o.Inclusion = p.Inclusion
								var val []byte
								if p.Inclusion {
									o.Nonce = p.State.GetNonce()
									val = getHashBytes(p.State)
								}
								o.Verified = vsVerify(cur, p.Inclusion, comp, id[:], val, p.ProofKey, p.ProofVal, p.Bitmap, p.AuditPath, int(p.Height))
							}
							obs = append(obs, o)
						}
					}
					// variables against the contract's current storage root (state buffer first: after Update
					// this is the root of the updated, not yet committed storage trie)
					cid := types.ToAccountID([]byte(c.Contract))
					if cst, err := sdb.GetAccountState(cid); err == nil && cst != nil {
						sroot := append([]byte{}, common.Compactz(cst.GetStorageRoot())...)
						if len(sroot) != 0 {
							for _, vn := range c.QVars {
								key := types.GetHashID([]byte(vn))
								o := vsObs{Kind: "var", Name: vn, Round: last, UseRoot: true, Comp: comp, Phase: phase}
								p, err := sdb.GetVarAndProof(key[:], sroot, comp)
								if err != nil {
									o.Err = err.Error()
								} else {
									o.Inclusion = p.Inclusion
									var val []byte
									if p.Inclusion {
										o.Value = string(p.Value)
										val = common.Hasher(p.Value)
									}
									o.Verified = vsVerify(sroot, p.Inclusion, comp, key[:], val, p.ProofKey, p.ProofVal, p.Bitmap, p.AuditPath, int(p.Height))
								}
								obs = append(obs, o)
							}
						}
					}
				}
			}
			vsPut()
			query("buffered")
			if err := sdb.Update(); err != nil {
				t.Fatal(err)
			}
			query("updated")
			if err := sdb.Commit(); err != nil {
				t.Fatal(err)
			}
			query("committed")
		}
		b, _ := json.Marshal(obs)
		w.Write(b)
		w.WriteByte('\n')
	}
}

//go:build verif

package trie

// C10 / C11 engine.  Runs the real Trie (Update / AtomicUpdate / Commit / Get, fresh
// instances over the same store at historical roots, MerkleProof(Compressed)(R) and the
// four verifiers) on op sequences read from $VERIF_IN, one JSON case per line, and writes
// one JSON observation per line to $VERIF_OUT.  The hash function is a parameter of
// trie.NewTrie: "sha" = common.Hasher (SHA-256), "toy" = toyHash below, the Go twin of
// coq/Trie/ToyHash.v, so that the model's root can be compared byte for byte.
import (
	"bufio"
	"bytes"
	"encoding/hex"
	"encoding/json"
	"fmt"
	"os"
	"sort"
	"testing"

	"github.com/aergoio/aergo-lib/db"
	"github.com/aergoio/aergo/v2/internal/common"
)

const toyMask = uint64(1)<<63 - 1

func toyLane(m, seed uint64, data [][]byte) []byte {
	x := seed
	for _, d := range data {
		for _, b := range d {
			x = (x*m + uint64(b) + 1) & toyMask
		}
	}
	x ^= x >> 29
	x = (x * 0x1b873593cc9e2d51) & toyMask
	x ^= x >> 32
	out := make([]byte, 8)
	for i := 0; i < 8; i++ {
		out[i] = byte(x >> uint(56-8*i))
	}
	return out
}

func toyHash(data ...[]byte) []byte {
	out := make([]byte, 0, 32)
	out = append(out, toyLane(0x100000001b3, 0x2bf29ce484222325, data)...)
	out = append(out, toyLane(0x5851f42d4c957f2d, 0x14057b7ef767814f, data)...)
	out = append(out, toyLane(0x2545f4914f6cdd1d, 0x1234567890abcdef, data)...)
	out = append(out, toyLane(0x369dea0f31a53f85, 0x0fedcba987654321, data)...)
	return out
}

// memorydb loads <dir>/database when opened and writes it on Close: open it on a directory
// that does not exist and never Close it, so every store starts empty and stays in memory.
func vtNewStore() db.DB {
	return db.NewDB(db.MemoryImpl, "/nonexistent-verif-trie-store")
}

func pickHash(name string) func(data ...[]byte) []byte {
	if name == "toy" {
		return toyHash
	}
	return common.Hasher
}

type vtBatch struct {
	K      []string `json:"k"` // hex keys, sorted by the generator
	V      []string `json:"v"` // hex values; "00" = DefaultLeaf
	Commit bool     `json:"commit"`
	// SetRoot != nil: no update; the same instance is pointed back at the root after batch
	// *SetRoot (Trie.Root = oldRoot, what StateDB.SetRoot does on a reorganisation)
	SetRoot *int `json:"setroot"`
}

type vtCase struct {
	Hash    string    `json:"hash"`
	Atomic  bool      `json:"atomic"`
	Batches []vtBatch `json:"batches"`
	Q       []string  `json:"q"`      // keys to Get / prove after every batch
	Proofs  int       `json:"proofs"` // 0 none, 1 final root, 2 also every committed root
	Dump    bool      `json:"dump"`   // dump updatedNodes (key, serialized batch) after every Update
	// CacheLimit != nil: Trie.CacheHeightLimit of the instance (default TrieHeight+1: no cache)
	CacheLimit *int `json:"cache_limit"`
}

type vtProof struct {
	At     int      `json:"at"` // index of the batch whose root is proved against
	Fresh  bool     `json:"fresh"`
	Key    string   `json:"key"`
	Root   string   `json:"root"`
	AP     []string `json:"ap"`
	Inc    bool     `json:"inc"`
	PK     string   `json:"pk"`
	PV     string   `json:"pv"`
	Bitmap string   `json:"bitmap"`
	APC    []string `json:"apc"`
	Height int      `json:"height"`
	IncC   bool     `json:"incc"`
	PKC    string   `json:"pkc"`
	PVC    string   `json:"pvc"`
	OK     bool     `json:"ok"`  // honest plain proof accepted by the matching verifier
	OKC    bool     `json:"okc"` // honest compressed proof accepted
	Err    string   `json:"err"`
}

type vtReopen struct {
	After int      `json:"after"` // batch index of the commit just done
	At    int      `json:"at"`    // batch index of the historical root opened
	Root  string   `json:"root"`
	Gets  []string `json:"gets"`
	Err   string   `json:"err"`
}

type vtObs struct {
	Roots   []string      `json:"roots"`
	Upd     [][][2]string `json:"upd"`   // per batch: updatedNodes as (key, serializeBatch) sorted by key
	Cache   [][][2]string `json:"cache"` // per batch: liveCache, same format
	Fresh   []string      `json:"fresh"` // root of a new trie built from the surviving pairs in one batch
	Gets    [][]string    `json:"gets"`
	Reopen  []vtReopen    `json:"reopen"`
	Proofs  []vtProof     `json:"proofs"`
	Err     string        `json:"err"`
	ToyVec0 string        `json:"toyvec0"`
	ToyVec1 string        `json:"toyvec1"`
}

func hx(b []byte) string { return hex.EncodeToString(b) }
func unhx(s string) []byte {
	b, err := hex.DecodeString(s)
	if err != nil {
		panic(err)
	}
	if len(b) == 0 {
		return nil
	}
	return b
}
func hxs(bs [][]byte) []string {
	r := make([]string, len(bs))
	for i, b := range bs {
		r[i] = hx(b)
	}
	return r
}
func unhxs(ss []string) [][]byte {
	r := make([][]byte, len(ss))
	for i, s := range ss {
		r[i] = unhx(s)
	}
	return r
}

func vtGets(tr *Trie, q [][]byte) ([]string, error) {
	res := make([]string, len(q))
	for i, k := range q {
		v, err := tr.Get(k)
		if err != nil {
			return nil, err
		}
		res[i] = hx(v)
	}
	return res, nil
}

func vtProve(tr *Trie, at int, fresh bool, useR bool, root []byte, key []byte) (p vtProof) {
	p.At, p.Fresh, p.Key, p.Root = at, fresh, hx(key), hx(root)
	defer func() {
		if r := recover(); r != nil {
			p.Err = fmt.Sprint("panic: ", r)
		}
	}()
	var ap, apc [][]byte
	var inc, incc bool
	var pk, pv, pkc, pvc, bitmap []byte
	var height int
	var err error
	if useR {
		ap, inc, pk, pv, err = tr.MerkleProofR(key, root)
	} else {
		ap, inc, pk, pv, err = tr.MerkleProof(key)
	}
	if err != nil {
		p.Err = err.Error()
		return
	}
	if useR {
		bitmap, apc, height, incc, pkc, pvc, err = tr.MerkleProofCompressedR(key, root)
	} else {
		bitmap, apc, height, incc, pkc, pvc, err = tr.MerkleProofCompressed(key)
	}
	if err != nil {
		p.Err = err.Error()
		return
	}
	p.AP, p.Inc, p.PK, p.PV = hxs(ap), inc, hx(pk), hx(pv)
	p.Bitmap, p.APC, p.Height, p.IncC, p.PKC, p.PVC = hx(bitmap), hxs(apc), height, incc, hx(pkc), hx(pvc)
	// the verifiers read s.Root: use a verifier instance rooted at the proved root
	vt := NewTrie(root, tr.hash, nil)
	if inc {
		p.OK = vt.VerifyInclusion(ap, key, pv)
		p.OKC = vt.VerifyInclusionC(bitmap, key, pvc, apc, height)
	} else {
		p.OK = vt.VerifyNonInclusion(ap, key, pv, pk)
		p.OKC = vt.VerifyNonInclusionC(apc, height, bitmap, key, pvc, pkc)
	}
	return
}

func vtRunCase(c *vtCase) (o vtObs) {
	defer func() {
		if r := recover(); r != nil {
			o.Err = fmt.Sprint("panic: ", r)
		}
	}()
	hash := pickHash(c.Hash)
	store := vtNewStore()
	tr := NewTrie(nil, hash, store)
	if c.CacheLimit != nil {
		tr.CacheHeightLimit = *c.CacheLimit
	}
	q := unhxs(c.Q)
	cur := map[string][]byte{}
	var snaps []map[string][]byte
	var allRoots [][]byte
	type hist struct {
		at   int
		root []byte
	}
	var committed []hist
	for bi, b := range c.Batches {
		keys, vals := unhxs(b.K), unhxs(b.V)
		var root []byte
		var err error
		if b.SetRoot != nil {
			tr.Root = append([]byte{}, allRoots[*b.SetRoot]...)
			if len(tr.Root) == 0 {
				tr.Root = nil
			}
			root = tr.Root
			cur = map[string][]byte{}
			for k, v := range snaps[*b.SetRoot] {
				cur[k] = v
			}
		} else if c.Atomic {
			root, err = tr.AtomicUpdate(keys, vals)
		} else {
			root, err = tr.Update(keys, vals)
		}
		if err != nil {
			o.Err = fmt.Sprintf("batch %d: %v", bi, err)
			return
		}
		root = append([]byte{}, root...)
		o.Roots = append(o.Roots, hx(root))
		allRoots = append(allRoots, root)
		if c.Dump {
			cents := make([][2]string, 0, len(tr.db.liveCache))
			for k, b := range tr.db.liveCache {
				cents = append(cents, [2]string{hx(k[:]), hx(tr.db.serializeBatch(b))})
			}
			sort.Slice(cents, func(i, j int) bool { return cents[i][0] < cents[j][0] })
			o.Cache = append(o.Cache, cents)
		}
		if c.Dump {
			ents := make([][2]string, 0, len(tr.db.updatedNodes))
			for k, b := range tr.db.updatedNodes {
				ents = append(ents, [2]string{hx(k[:]), hx(tr.db.serializeBatch(b))})
			}
			sort.Slice(ents, func(i, j int) bool { return ents[i][0] < ents[j][0] })
			o.Upd = append(o.Upd, ents)
		}
		for i, k := range keys {
			if bytes.Equal(vals[i], DefaultLeaf) {
				delete(cur, string(k))
			} else {
				cur[string(k)] = vals[i]
			}
		}
		snap := map[string][]byte{}
		for k, v := range cur {
			snap[k] = v
		}
		snaps = append(snaps, snap)
		g, err := vtGets(tr, q)
		if err != nil {
			o.Err = fmt.Sprintf("get after batch %d: %v", bi, err)
			return
		}
		o.Gets = append(o.Gets, g)
		// fresh trie holding exactly the surviving pairs, one batch, separate store
		{
			ks := make([]string, 0, len(cur))
			for k := range cur {
				ks = append(ks, k)
			}
			sort.Strings(ks)
			fk := make([][]byte, len(ks))
			fv := make([][]byte, len(ks))
			for i, k := range ks {
				fk[i] = []byte(k)
				fv[i] = append([]byte{}, cur[k]...)
			}
			fs := vtNewStore()
			ft := NewTrie(nil, hash, fs)
			var fr []byte
			if len(fk) > 0 {
				fr, err = ft.Update(fk, fv)
				if err != nil {
					o.Err = fmt.Sprintf("fresh build after batch %d: %v", bi, err)
					return
				}
			}
			o.Fresh = append(o.Fresh, hx(fr))
		}
		if b.Commit && b.SetRoot == nil {
			if err := tr.Commit(); err != nil {
				o.Err = fmt.Sprintf("commit %d: %v", bi, err)
				return
			}
			committed = append(committed, hist{bi, root})
			for _, h := range committed {
				ro := vtReopen{After: bi, At: h.at, Root: hx(h.root)}
				ft := NewTrie(h.root, hash, store)
				g, err := vtGets(ft, q)
				if err != nil {
					ro.Err = err.Error()
				}
				ro.Gets = g
				o.Reopen = append(o.Reopen, ro)
			}
		}
	}
	if c.Proofs >= 1 && len(c.Batches) > 0 {
		last := len(c.Batches) - 1
		for _, k := range q {
			o.Proofs = append(o.Proofs, vtProve(tr, last, false, false, tr.Root, k))
		}
	}
	if c.Proofs >= 2 {
		for _, h := range committed {
			ft := NewTrie(h.root, hash, store)
			for _, k := range q {
				o.Proofs = append(o.Proofs, vtProve(ft, h.at, true, false, h.root, k))
				// and through the live instance with the *R entry points
				o.Proofs = append(o.Proofs, vtProve(tr, h.at, false, true, h.root, k))
			}
		}
	}
	return
}

func vtOpen(t *testing.T) (*bufio.Scanner, *bufio.Writer, func()) {
	in, err := os.Open(os.Getenv("VERIF_IN"))
	if err != nil {
		t.Skip("no VERIF_IN")
	}
	out, err := os.Create(os.Getenv("VERIF_OUT"))
	if err != nil {
		t.Fatal(err)
	}
	w := bufio.NewWriterSize(out, 1<<20)
	sc := bufio.NewScanner(in)
	sc.Buffer(make([]byte, 1<<20), 1<<28)
	return sc, w, func() { w.Flush(); out.Close(); in.Close() }
}

func TestVerifTrieOps(t *testing.T) {
	sc, w, done := vtOpen(t)
	defer done()
	for sc.Scan() {
		var c vtCase
		if err := json.Unmarshal(sc.Bytes(), &c); err != nil {
			t.Fatal(err)
		}
		o := vtRunCase(&c)
		o.ToyVec0 = hx(toyHash())
		o.ToyVec1 = hx(toyHash([]byte{1, 2, 3}, []byte{255, 0}))
		b, _ := json.Marshal(&o)
		w.Write(b)
		w.WriteByte('\n')
	}
}

// ---- verifier queries (honest and corrupted proofs) ----
type vtQuery struct {
	Hash   string   `json:"hash"`
	Kind   string   `json:"kind"` // I, N, IC, NC
	Root   string   `json:"root"`
	AP     []string `json:"ap"`
	Bitmap string   `json:"bitmap"`
	Length int      `json:"length"`
	Key    string   `json:"key"`
	Value  string   `json:"value"`
	PK     string   `json:"pk"`
}

// result: 1 accepted, 0 rejected, 2 the verifier panicked (malformed input)
func vtVerify(qy *vtQuery) (res int) {
	defer func() {
		if r := recover(); r != nil {
			res = 2
		}
	}()
	vt := NewTrie(unhx(qy.Root), pickHash(qy.Hash), nil)
	ap := unhxs(qy.AP)
	// the verifiers index ap elements as given; keep empty elements as empty slices
	key, value, pk, bitmap := unhx(qy.Key), unhx(qy.Value), unhx(qy.PK), unhx(qy.Bitmap)
	var ok bool
	switch qy.Kind {
	case "I":
		ok = vt.VerifyInclusion(ap, key, value)
	case "N":
		ok = vt.VerifyNonInclusion(ap, key, value, pk)
	case "IC":
		ok = vt.VerifyInclusionC(bitmap, key, value, ap, qy.Length)
	case "NC":
		ok = vt.VerifyNonInclusionC(ap, qy.Length, bitmap, key, value, pk)
	}
	if ok {
		return 1
	}
	return 0
}

func TestVerifTrieVerify(t *testing.T) {
	sc, w, done := vtOpen(t)
	defer done()
	for sc.Scan() {
		var qy vtQuery
		if err := json.Unmarshal(sc.Bytes(), &qy); err != nil {
			t.Fatal(err)
		}
		fmt.Fprintf(w, "%d\n", vtVerify(&qy))
	}
}

// ---- Revert / Stash / LoadCache (C10, item: trie_revert.go, trie_cache.go) ----
type vtRevCase struct {
	Hash    string    `json:"hash"`
	Batches []vtBatch `json:"batches"` // every batch is committed
	Target  int       `json:"target"`  // revert to the root after batch <target>
	Q       []string  `json:"q"`
	Stash   bool      `json:"stash"` // instead of Revert: one more uncommitted Update then Stash
}

type vtRevObs struct {
	Roots      []string   `json:"roots"`
	Gets       [][]string `json:"gets"`
	RevertErr  string     `json:"revert_err"`
	RootAfter  string     `json:"root_after"`
	GetsAfter  []string   `json:"gets_after"`
	PastLen    int        `json:"past_len"`
	Readable   []string   `json:"readable"` // per batch index: "" ok, else error of a fresh instance at that root
	FreshGets  [][]string `json:"fresh_gets"`
	Dels       []string   `json:"dels"`       // keys collected by Revert (nodesToRevert[:32]), sorted
	LiveCache  int        `json:"live_cache"` // entries in liveCache at the end (LoadCache called on a fresh instance)
	CacheLimit int        `json:"cache_limit"`
	Err        string     `json:"err"`
}

func vtRunRevert(c *vtRevCase) (o vtRevObs) {
	defer func() {
		if r := recover(); r != nil {
			o.Err = fmt.Sprint("panic: ", r)
		}
	}()
	hash := pickHash(c.Hash)
	store := vtNewStore()
	tr := NewTrie(nil, hash, store)
	q := unhxs(c.Q)
	var roots [][]byte
	for bi, b := range c.Batches {
		root, err := tr.Update(unhxs(b.K), unhxs(b.V))
		if err != nil {
			o.Err = fmt.Sprintf("batch %d: %v", bi, err)
			return
		}
		if c.Stash && bi == len(c.Batches)-1 {
			// the last batch stays uncommitted and is stashed
			if err := tr.Stash(true); err != nil {
				o.RevertErr = err.Error()
			}
			break
		}
		if err := tr.Commit(); err != nil {
			o.Err = err.Error()
			return
		}
		root = append([]byte{}, root...)
		roots = append(roots, root)
		o.Roots = append(o.Roots, hx(root))
		g, err := vtGets(tr, q)
		if err != nil {
			o.Err = err.Error()
			return
		}
		o.Gets = append(o.Gets, g)
	}
	if !c.Stash {
		if err := tr.Revert(roots[c.Target]); err != nil {
			o.RevertErr = err.Error()
		}
		for _, n := range tr.db.nodesToRevert {
			if len(n) >= HashLength {
				o.Dels = append(o.Dels, hx(n[:HashLength]))
			} else {
				o.Dels = append(o.Dels, hx(n))
			}
		}
		sort.Strings(o.Dels)
	}
	o.RootAfter = hx(tr.Root)
	o.PastLen = len(tr.pastTries)
	if g, err := vtGets(tr, q); err != nil {
		o.Err = "get after revert: " + err.Error()
	} else {
		o.GetsAfter = g
	}
	for _, r := range roots {
		ft := NewTrie(r, hash, store)
		g, err := vtGets(ft, q)
		if err != nil {
			o.Readable = append(o.Readable, err.Error())
			o.FreshGets = append(o.FreshGets, nil)
		} else {
			o.Readable = append(o.Readable, "")
			o.FreshGets = append(o.FreshGets, g)
		}
	}
	// LoadCache with the node's configuration: CacheHeightLimit = TrieHeight+1
	ft := NewTrie(nil, hash, store)
	o.CacheLimit = ft.CacheHeightLimit
	if len(roots) > 0 {
		ft.LoadCache(roots[len(roots)-1])
		o.LiveCache = len(ft.db.liveCache)
	}
	return
}

func TestVerifTrieRevert(t *testing.T) {
	sc, w, done := vtOpen(t)
	defer done()
	for sc.Scan() {
		var c vtRevCase
		if err := json.Unmarshal(sc.Bytes(), &c); err != nil {
			t.Fatal(err)
		}
		o := vtRunRevert(&c)
		b, _ := json.Marshal(&o)
		w.Write(b)
		w.WriteByte('\n')
	}
}

"""Election family for other checks (C09: "the key belongs to a CURRENT block producer").
run_election_family(ctx) builds the C08 election engine (real dpos.NewStatus + bp.Cluster +
bp.Snapshots + system.GetRankers) in ctx.workdir, runs the election scenarios of lib/c08gen.py
(chains crossing the election boundaries, forks that commit different rankings at a reference
height in both arrival orders and are followed past the boundary where the snapshot becomes the
producer set, reorganisations ending right after a boundary, restarts around every boundary) and
evaluates the direct predicates on the implementation's observations:
  * the producer set in force is the ranking committed by the main-chain block at the reference
    height (cut at its BPCOUNT) -- the set IsBlockValid uses for the next block;
  * a restarted node has the same producer set as the running one.
Returns a list of {"key", "what", "replay"}; keys start with the caller's property id.  Failures
whose signature is the known finding F34 (g5 numbering F23; same ranking cut at another BPCOUNT) are returned under
the key "<id>:bp-snapshot-bpcount-from-memory" so that the caller can list it as known."""
import importlib.util
import json
import os
import vf
import c08gen as G


def _c08():
    spec = importlib.util.spec_from_file_location("check_C08_lib", os.path.join(vf.VERIF, "checks", "C08.py"))
    m = importlib.util.module_from_spec(spec)
    spec.loader.exec_module(m)
    return m


def run_election_family(ctx, include_f23=False):
    """Run C08's election scenarios (corpus + generator, incl. forks across an election boundary
    continued past the next boundary, both arrival orders) on the real NewStatus/bp.Snapshots/
    GetRankers of ctx's tree and return the producer-set findings as a list of
    {"key", "what", "replay"}; keys "<ctx.id>:producer-set-not-function-of-chain" and
    "<ctx.id>:producer-set-differs-after-restart" (the F34 class (g5 numbering F23), same ranking cut at another
    BPCOUNT, only with include_f23=True as "<ctx.id>:bp-snapshot-bpcount-from-memory").
    Empty list on an unchanged tree."""
    c08 = _c08()
    eng = os.path.join(vf.HARNESS, "engines/dposlib")
    rc, log, binpath = ctx.go_test_binary(
        "consensus/impl/dpos", [os.path.join(eng, "zz_verif_c08_engine_test.go"),
                                os.path.join(eng, "zz_verif_c08_election_engine_test.go")], "dpos_election.test")
    if rc != 0:
        raise RuntimeError("election engine build failed:\n" + log[-3000:])
    quick = ctx.tier == "quick"
    scen = [c for c in c08.load_corpus() if c.get("election")] + G.generate_election(ctx.rng, quick)
    obs = c08.run_engine(ctx, binpath, scen, "election_family", test="TestVerifC08ElectionEngine")
    out = []
    stats = {}
    for sc, ob in zip(scen, obs):
        for key, what, detail in c08.election_predicates(sc, ob, stats):
            suffix = key.split(":", 1)[1]
            if suffix == "bp-snapshot-bpcount-from-memory" and not include_f23:
                continue
            if suffix in ("confirms-required-not-current", "retired-producer-proposal-kept"):
                continue          # C08's own clauses
            out.append({"key": "%s:%s" % (ctx.id, suffix), "what": what,
                        "replay": {"scenario": sc, "detail": detail}})
    ctx.cov.setdefault("input_distribution", {})["election_family_steps"] = stats.get("election_steps", 0)
    return out

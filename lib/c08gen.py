"""Scenario generators for checks/C08.py (DPoS finality).
A scenario: {"n": producers, "nodes": k, "self": [producer of node i or -1], "ops": [...]}
ops: ["B", id, parent, bp, confirms] create a block; ["D", node, id] deliver; ["S", node] shadow
restart (observe the restored status); ["R", node] restart; ["G", node, [bps]] libStatus.gc(bps)."""


class Tree:
    def __init__(self):
        self.blocks = {0: (None, 0, -1)}   # id -> (parent, no, bp)
        self.nid = 1
        self.ops = []
        self.lpb = {}

    def mk(self, parent, bp, conf=None, track=True):
        no = self.blocks[parent][1] + 1
        if conf is None:
            conf = no - self.lpb.get(bp, 0)
            if conf < 1:
                conf = 1
        if track:
            self.lpb[bp] = no
        i = self.nid
        self.nid += 1
        self.blocks[i] = (parent, no, bp)
        self.ops.append(["B", i, parent, bp, conf])
        return i


def byz_conf(rng, no):
    return rng.choice([1, 2, 3, no, no + 1, no + 2, rng.randrange(1, no + 2), 0, (1 << 64) - 1])


def linear(rng, n, length, restart="none", byz=0.0, dormant=True):
    """One node, one chain.  Producers drawn from an active subset that changes over time
    (dormant producers appearing late: the F9 shape), missed slots = arbitrary order."""
    t = Tree()
    tip = 0
    active = rng.sample(range(n), rng.randrange(1, n + 1)) if dormant else list(range(n))
    switch = rng.randrange(5, max(6, length))
    for i in range(length):
        if i == switch:
            active = list(range(n))
        bp = rng.choice(active)
        conf = byz_conf(rng, t.blocks[tip][1] + 1) if rng.random() < byz else None
        tip = t.mk(tip, bp, conf)
        t.ops.append(["D", 0, tip])
        if restart == "shadow":
            t.ops.append(["S", 0])
        elif restart == "real" and rng.random() < 0.3:
            t.ops.append(["R", 0])
        if rng.random() < 0.08:
            # ForceResetHeight around the LIB / the tip (0 = disabled)
            t.ops.append(["F", 0, rng.choice([0, 1, max(1, i - n), max(1, i - 2 * n), i + 1, i + 5])])
    return {"n": n, "nodes": 1, "self": [rng.randrange(-1, n)], "ops": t.ops}


def round_robin(n, length, restart="shadow"):
    t = Tree()
    tip = 0
    for i in range(length):
        tip = t.mk(tip, i % n)
        t.ops.append(["D", 0, tip])
        if restart == "shadow":
            t.ops.append(["S", 0])
    return {"n": n, "nodes": 1, "self": [0], "ops": t.ops}


def forks(rng, n, phases, byz=0.0, restart="none"):
    """One node; the best chain is extended, then a branch forking d blocks below the tip is
    grown (its blocks are delivered as side blocks) until it is longer: reorg, or veto when the
    root is below the LIB.  Producers of the two sides are a random split (a partition)."""
    t = Tree()
    main = [0]

    def mk(parent, bp):
        conf = byz_conf(rng, t.blocks[parent][1] + 1) if rng.random() < byz else None
        i = t.mk(parent, bp, conf)
        t.ops.append(["D", 0, i])
        r = rng.random()
        if restart == "shadow" or (restart == "mixed" and r < 0.3):
            t.ops.append(["S", 0])
        elif restart == "mixed" and r < 0.4:
            t.ops.append(["R", 0])
        return i
    for _ in range(phases):
        prods = rng.sample(range(n), rng.randrange(1, n + 1))
        for _ in range(rng.randrange(1, 2 * n + 3)):
            main.append(mk(main[-1], rng.choice(prods)))
        if len(main) > 2 and rng.random() < 0.8:
            d = rng.randrange(1, min(len(main) - 1, 2 * n + 2) + 1)
            g2 = rng.sample(range(n), rng.randrange(1, n + 1))
            g1 = [p for p in range(n) if p not in g2] or g2
            root_idx = len(main) - 1 - d
            br = [main[root_idx]]
            old = main[:]
            for _ in range(d + rng.randrange(1, 4)):
                if rng.random() < 0.2 and len(br) - 1 < d:
                    old.append(mk(old[-1], rng.choice(g1)))
                br.append(mk(br[-1], rng.choice(g2)))
            if len(br) - 1 > len(old) - 1 - root_idx:
                main = old[:root_idx] + br
            else:
                main = old
        if rng.random() < 0.15:
            # stale deliveries: an old block again, and a low side block
            t.ops.append(["D", 0, rng.choice(main)])
            low = rng.choice(main[: max(1, len(main) // 2)])
            i = t.mk(low, rng.randrange(n), None, track=False)
            t.ops.append(["D", 0, i])
    return {"n": n, "nodes": 1, "self": [rng.randrange(-1, n)], "ops": t.ops}


def fail_scenario(rng, n, byz=0.0, restart=False):
    """Forks in which one block of the side branch fails when executed (["BAD", id]): the
    reorganisation is abandoned after a partial rollforward; and invalid children of the best block."""
    t = Tree()
    main = [0]
    ops = t.ops

    def mk(parent, bp, bad=False):
        conf = byz_conf(rng, t.blocks[parent][1] + 1) if rng.random() < byz else None
        i = t.mk(parent, bp, conf, track=not bad)
        if bad:
            ops.append(["BAD" if rng.random() < 0.6 else "REF", i])
        ops.append(["D", 0, i])
        if restart and rng.random() < 0.25:
            ops.append(["S", 0] if rng.random() < 0.7 else ["R", 0])
        return i
    for _ in range(rng.randrange(3, 6)):
        prods = rng.sample(range(n), rng.randrange(1, n + 1))
        for _ in range(rng.randrange(1, 2 * n + 3)):
            if rng.random() < 0.1:
                mk(main[-1], rng.choice(prods), bad=True)      # invalid child of the best block
            main.append(mk(main[-1], rng.choice(prods)))
        if len(main) > 2:
            d = rng.randrange(1, min(len(main) - 1, 2 * n + 2) + 1)
            g2 = rng.sample(range(n), rng.randrange(1, n + 1))
            root_idx = len(main) - 1 - d
            br = [main[root_idx]]
            tot = d + rng.randrange(1, 4)
            badpos = rng.randrange(1, tot + 1) if rng.random() < 0.7 else None
            for k in range(1, tot + 1):
                br.append(mk(br[-1], rng.choice(g2), bad=(k == badpos)))
            if badpos is None and len(br) - 1 > d:
                main = main[:root_idx] + br
    return {"n": n, "nodes": 1, "self": [rng.randrange(-1, n)], "fail": True, "ops": ops}


def abandoned_reorg_sweep(n=4):
    """Deterministic sweep of abandoned reorganisations: main chain of m blocks, a branch forking d
    blocks below the best block and growing to d+2 blocks, whose p-th block (p = 1..d+2: below, AT
    and above the height of the old best block) fails, for both failure kinds: execution failure
    (["BAD", id]: executeBlock's Update(best) + reorg's Update(best)) and refusal by IsBlockValid
    (["REF", id]: reorg's Update(best) only).  Every further branch block retries the
    reorganisation; then the main chain goes on with honest blocks and the node is restarted."""
    out = []
    for m in (3, 4):
        for d in range(1, m + 1):
            tot = d + 2
            for p in range(1, tot + 1):
                for kind in ("BAD", "REF"):
                    t = Tree()
                    main = [0]
                    for k in range(m):
                        main.append(t.mk(main[-1], k % n))
                        t.ops.append(["D", 0, main[-1]])
                    tip = main[m - d]
                    for k in range(1, tot + 1):
                        bad = k == p
                        tip = t.mk(tip, (m + k) % n, None, track=not bad)
                        if bad:
                            t.ops.append([kind, tip])
                        t.ops.append(["D", 0, tip])
                    for k in range(n + 2):
                        main.append(t.mk(main[-1], (m + k) % n))
                        t.ops.append(["D", 0, main[-1]])
                    t.ops.append(["S", 0])
                    out.append({"n": n, "nodes": 1, "self": [-1], "fail": True, "ops": t.ops,
                                "shape": "abandoned reorg m=%d fork depth=%d failing=%d kind=%s" % (m, d, p, kind)})
    return out


def chain_abandoned_sweep():
    """The same sweep for the chain-side engine (["BX"|"BR", id, parent])."""
    out = []
    for m in (2, 3):
        for d in range(1, m + 1):
            tot = d + 2
            for p in range(1, tot + 1):
                for kind in ("BX", "BR"):
                    ops = []
                    nid = 1
                    main = [0]
                    for k in range(m):
                        ops.append(["B", nid, main[-1]]); ops.append(["D", nid]); main.append(nid); nid += 1
                    tip = main[m - d]
                    for k in range(1, tot + 1):
                        ops.append([kind if k == p else "B", nid, tip]); ops.append(["D", nid]); tip = nid; nid += 1
                    for k in range(2):
                        ops.append(["B", nid, main[-1]]); ops.append(["D", nid]); main.append(nid); nid += 1
                    out.append({"chain": True, "fail": True, "ops": ops})
    return out


def force_reset_family(ns=(1, 3, 4)):
    """ForceResetHeight (blockchain.forceresetheight, bootLoader.load(resetHeight)).
    Shadow sweep: round-robin chain, and at the last two heights a shadow restart ["F", node, h]
    for EVERY reset height h = 1..best+1 (so h = LIB-1, LIB, LIB+1, best are all there whatever
    the LIB is).  Real resets: for every h = 1..best a scenario ["FR", node, h] (the chain DB drops
    the blocks above h, the status boots with resetHeight h), followed by a branch that forks 1 or
    2 blocks below h and outgrows the reset chain, then two more children of the old block h."""
    out = []
    for n in ns:
        L = 3 * n + 4
        t = Tree()
        tip = 0
        for i in range(1, L + 1):
            tip = t.mk(tip, i % n)
            t.ops.append(["D", 0, tip])
            if i >= L - 1:
                for h in range(1, i + 2):
                    t.ops.append(["F", 0, h])
        out.append({"n": n, "nodes": 1, "self": [-1], "ops": t.ops, "shape": "force reset shadow sweep n=%d" % n})
        for h in range(1, L + 1):
            for back in (1, 2):
                f = h - back
                if f < 0:
                    continue
                t = Tree()
                main = [0]
                for i in range(1, L + 1):
                    main.append(t.mk(main[-1], i % n))
                    t.ops.append(["D", 0, main[-1]])
                t.ops.append(["FR", 0, h])
                # what the producers know after the reset: their last block still on the chain
                t.lpb = {}
                for i in range(1, h + 1):
                    t.lpb[i % n] = i
                keep = dict(t.lpb)
                br = main[f]
                for k in range(1, back + 2):
                    br = t.mk(br, (f + k + 1) % n, None, track=False)
                    t.ops.append(["D", 0, br])
                t.lpb = keep
                tip = main[h]
                for k in range(1, 3):
                    tip = t.mk(tip, (h + k) % n)
                    t.ops.append(["D", 0, tip])
                out.append({"n": n, "nodes": 1, "self": [-1], "ops": t.ops,
                            "shape": "real force reset n=%d height=%d, branch forking at %d" % (n, h, f)})
    return out


def rollback_above_fork_family(ns=(4, 5, 7)):
    """Reorganisations at which SEVERAL producers hold proposals above the fork point.
    n producers: group S (2 or 3 of them) alternates on branch X above the fork point until each
    of its members holds a proposal above it; the others (one of them faulty: it signs on both
    branches and declares windows reaching back to the fork point) produced only at or below the
    fork point.  Branch Y, built by the non-S producers alone, forks at height r and wins; it goes
    on after the reorganisation (connected blocks), the faulty producer confirming everything above
    the fork point, so that the LIB is next computed from a map in which the S entries were RESET
    by rollbackStatusTo (they still count in calcLIB's two-thirds quantile)."""
    out = []
    for n in ns:
        for ns_ in (2, 3):
            if ns_ > n - 2:
                continue
            for r in (1, 2):
                for narrow in (False, True):
                    t = Tree()
                    S = list(range(ns_))
                    others = list(range(ns_, n))
                    faulty = others[0]
                    main = [0]
                    # at or below the fork point: the others
                    for i in range(r):
                        main.append(t.mk(main[-1], others[i % len(others)]))
                        t.ops.append(["D", 0, main[-1]])
                    lpb_at_fork = dict(t.lpb)
                    # one more block of an honest other producer above the fork point (it has seen X that far)
                    if len(others) > 1:
                        main.append(t.mk(main[-1], others[-1]))
                        t.ops.append(["D", 0, main[-1]])
                        lpb_other = dict(t.lpb)
                    else:
                        lpb_other = dict(t.lpb)
                    # S alternates until every member holds a proposal above the fork point
                    for i in range(2 * ns_ + 1):
                        main.append(t.mk(main[-1], S[i % ns_]))
                        t.ops.append(["D", 0, main[-1]])
                    xlen = len(main) - 1
                    # branch Y from height r
                    t.lpb = dict(lpb_other)
                    tip = main[r]
                    no = r
                    k = 0
                    while no < xlen + 2 * n + 2:
                        no += 1
                        bp = others[k % len(others)] if len(others) > 1 and k % 2 == 1 else faulty
                        if len(others) > 2 and k % 2 == 1:
                            bp = others[1 + (k // 2) % (len(others) - 1)]
                        k += 1
                        if bp == faulty:
                            conf = 1 if (narrow and no <= xlen + 1) else no - r
                            tip = t.mk(tip, bp, conf, track=False)
                        else:
                            tip = t.mk(tip, bp)
                        t.ops.append(["D", 0, tip])
                    t.ops.append(["S", 0])
                    out.append({"n": n, "nodes": 1, "self": [-1], "ops": t.ops,
                                "shape": "reorg with %d producers holding proposals above the fork point %d, n=%d%s"
                                         % (ns_, r, n, ", narrow windows before the switch" if narrow else "")})
    # the shape of the seeded demo: X = 1C 2D 3A 4B 5A, Y from block 1 = 2'C 3'C 4'D 5'C 6'D (+ 7'C 8'D)
    t = Tree()
    A, B, C, D = 0, 1, 2, 3
    main = [0]
    for bp in (C, D, A, B, A):
        main.append(t.mk(main[-1], bp))
        t.ops.append(["D", 0, main[-1]])
    t.lpb = {C: 1, D: 2}
    tip, no = main[1], 1
    for bp in (C, C, D, C, D, C, D):
        no += 1
        tip = t.mk(tip, bp, no - 1, track=False) if bp == C else t.mk(tip, bp)
        t.ops.append(["D", 0, tip])
    t.ops.append(["S", 0])
    out.append({"n": 4, "nodes": 1, "self": [-1], "ops": t.ops, "shape": "reorg at block 1, A and B hold proposals above it (demo shape)"})
    return out


def crash_scenario(rng, n, byz=0.0):
    """Fork histories in which every delivery that triggers a reorganisation crashes inside
    reorg.swapChain at stop point 2 (marker written) or 3 (chain mapping and status swapped, marker
    not deleted) and is recovered at the next start (["K", node, id, point])."""
    sc = forks(rng, n, rng.randrange(2, 6), byz=byz, restart="none")
    ops = []
    for op in sc["ops"]:
        if op[0] == "D":
            ops.append(["K", op[1], op[2], rng.choice([2, 3, 3])])
            if rng.random() < 0.1:
                ops.append(["S", 0])
        else:
            ops.append(op)
    sc["ops"] = ops
    sc["crash"] = True
    return sc


def gc_scenario(rng, n, length):
    """Linear chain with libStatus.gc(bps) called directly with producer subsets."""
    t = Tree()
    tip = 0
    for i in range(length):
        tip = t.mk(tip, rng.randrange(n))
        t.ops.append(["D", 0, tip])
        if rng.random() < 0.2:
            t.ops.append(["G", 0, rng.sample(range(n), rng.randrange(0, n + 1))])
    return {"n": n, "nodes": 1, "self": [0], "ops": t.ops}


def network(rng, n, slots, byz_count=1, inflate=False):
    """n producers, node i owned by producer i; slot s belongs to producer s mod n.  Honest
    owners extend the longest chain their node has received (first received wins ties) with
    Confirms = no - lpb; the Byzantine producer signs up to two blocks in its own slots on
    chosen parents (equivocation) with honest-sized or inflated Confirms.  Delivery is
    adversarial: a partition into two groups for a random interval, random delays otherwise.
    The check re-validates honesty against the implementation's observations."""
    t = Tree()
    byz = rng.sample(range(n), byz_count) if byz_count else []
    delivered = [{0} for _ in range(n)]
    best = [0] * n
    pending = [[] for _ in range(n)]
    lpb = [0] * n
    part_from = rng.randrange(0, max(1, slots // 2))
    part_to = part_from + rng.randrange(n, 6 * n)
    g1 = set(rng.sample(range(n), rng.randrange(1, n)))

    def same_side(a, b, s):
        if part_from <= s < part_to:
            return (a in g1) == (b in g1)
        return True

    def flush(s):
        for nd in range(n):
            keep = []
            for (i, src) in pending[nd]:
                par = t.blocks[i][0]
                ok = par in delivered[nd] and (src in byz or same_side(src, nd, s)) and rng.random() < 0.85
                if src in byz and nd not in byz:
                    # the Byzantine producer shows each of its blocks to one side only while partitioned
                    ok = par in delivered[nd] and (not (part_from <= s < part_to) or rng.random() < 0.5)
                if ok:
                    t.ops.append(["D", nd, i])
                    delivered[nd].add(i)
                    if t.blocks[i][1] > t.blocks[best[nd]][1]:
                        best[nd] = i
                else:
                    keep.append((i, src))
            pending[nd] = keep

    for s in range(slots):
        p = s % n
        if p in byz:
            tips = list({best[x] for x in range(n)})
            rng.shuffle(tips)
            for par in tips[:2]:
                if rng.random() < 0.9:
                    no = t.blocks[par][1] + 1
                    if inflate:
                        conf = no
                    else:
                        a, last = par, 0
                        while a is not None:
                            if t.blocks[a][2] == p:
                                last = t.blocks[a][1]
                                break
                            a = t.blocks[a][0]
                        conf = no - last
                    i = t.mk(par, p, conf, track=False)
                    for nd in range(n):
                        pending[nd].append((i, p))
        elif rng.random() < 0.9:
            par = best[p]
            no = t.blocks[par][1] + 1
            conf = no - lpb[p]
            if conf >= 1:
                i = t.mk(par, p, conf, track=False)
                lpb[p] = no
                t.ops.append(["D", p, i])
                delivered[p].add(i)
                best[p] = i
                for nd in range(n):
                    if nd != p:
                        pending[nd].append((i, p))
        flush(s)
    return {"n": n, "nodes": n, "self": list(range(n)), "byz": byz, "inflated": inflate, "ops": t.ops}


def chain_scenario(rng, phases):
    """Scenario for the chain-side engine (real ChainService + recording consensus stub with a
    scripted LIB): ops ["B", id, parent], ["L", libNo], ["D", id].  Parents are always delivered
    and accepted before children (the real chain service parks orphans and connects them later;
    that path is C05/C07's)."""
    blocks = {0: (None, 0)}
    ops = []
    nid = [1]
    lib = [0]
    main = [0]
    accepted = {0}

    def on_main(i):
        no = blocks[i][1]
        return no < len(main) and main[no] == i

    def mk(parent):
        i = nid[0]
        nid[0] += 1
        blocks[i] = (parent, blocks[parent][1] + 1)
        ops.append(["B", i, parent])
        return i

    def deliver(i):
        ops.append(["D", i])
        par, no = blocks[i]
        if i in accepted:
            return
        if no <= lib[0]:
            return
        accepted.add(i)
        if par == main[-1]:
            main.append(i)
        elif no > blocks[main[-1]][1]:
            br, new = i, []
            while not on_main(br):
                new.append(br)
                br = blocks[br][0]
            if blocks[br][1] >= lib[0]:
                del main[blocks[br][1] + 1:]
                main.extend(reversed(new))

    for _ in range(phases):
        for _ in range(rng.randrange(1, 6)):
            deliver(mk(main[-1]))
        if rng.random() < 0.6:
            lib[0] = rng.randrange(lib[0], len(main))
            ops.append(["L", lib[0]])
        # fork from an accepted main-chain block around the LIB
        lo = max(0, lib[0] - 2)
        root = main[rng.randrange(lo, len(main))]
        tip = root
        want = len(main) - 1 - blocks[root][1] + rng.randrange(0, 3)
        for _ in range(want):
            if blocks[tip][1] + 1 <= lib[0]:
                # the child would be refused by the LIB rule: deliver it once, do not extend it
                deliver(mk(tip))
                break
            tip = mk(tip)
            deliver(tip)
            if rng.random() < 0.2:
                deliver(mk(main[-1]))      # the main chain grows meanwhile
        if rng.random() < 0.3:
            deliver(rng.choice(sorted(accepted)))   # duplicate
        if rng.random() < 0.5 and len(main) - 1 > lib[0] + 1:
            # veto shape: a side branch stored while the LIB is low, the LIB then rises above its
            # root, and the branch outgrows the main chain
            rno = rng.randrange(lib[0], len(main) - 2)
            tip = main[rno]
            side_len = 0
            while blocks[tip][1] + 1 < len(main) - 1 or side_len == 0:
                tip = mk(tip)
                deliver(tip)
                side_len += 1
                if side_len > 8:
                    break
            if rno + 1 <= len(main) - 1 and side_len <= 8:
                lib[0] = rng.randrange(rno + 1, min(blocks[tip][1], len(main) - 1) + 1)
                ops.append(["L", lib[0]])
                for _ in range(3):
                    tip = mk(tip)
                    deliver(tip)
    return {"chain": True, "ops": ops}


def election_scenario(rng, with_fork=True, bpcount_change=True):
    """One node, chain long enough to cross the election boundaries 100, 200, 300, 400 (bootstrap
    height 300: the snapshot taken at 200 is first used for block 301).  Block states carry a vote
    ranking and a BPCOUNT; producers are drawn from the producer set in force on their branch; a
    fork below a boundary whose branch commits a different ranking at the reference height is grown
    until it wins (reorganisation across the boundary); shadow restarts around the boundaries."""
    n = rng.choice([3, 4, 5])
    pool = list(range(8))
    gen = list(range(n))
    ops = []
    states = {0: ([], n)}
    blocks = {0: dict(parent=None, no=0, sid=0)}
    nid = [1]
    lpb = {}

    def new_state(count):
        r = rng.sample(pool, rng.randrange(max(count, 3), 8))
        sid = len(states)
        states[sid] = (r, count)
        ops.append(["T", sid, r, count])
        return sid

    def anc(i, h):
        while blocks[i]["no"] > h:
            i = blocks[i]["parent"]
        return i

    def cluster(i):
        k = blocks[i]["no"]
        r = 0 if k < 300 else (k // 100 - 1) * 100
        if r == 0:
            return gen
        rk, c = states[blocks[anc(i, r)]["sid"]]
        return rk[:c] or gen

    def mk(parent, sid):
        no = blocks[parent]["no"] + 1
        bp = rng.choice(cluster(parent))
        conf = max(1, no - lpb.get(bp, 0))
        lpb[bp] = no
        i = nid[0]
        nid[0] += 1
        blocks[i] = dict(parent=parent, no=no, sid=sid)
        ops.append(["B", i, parent, bp, conf, sid])
        ops.append(["D", 0, i])
        return i

    count = n
    sid = new_state(count)
    tip = 0
    fork_at = rng.choice([150, 195, 199, 250, 295, 299, 305, 350]) if with_fork else None
    change_at = sorted(rng.sample(range(20, 420), 4))
    count_at = rng.randrange(120, 390) if bpcount_change else None
    length = rng.randrange(405, 440)
    fork_tip = None
    fork_when = fork_at + rng.randrange(5, 20) if with_fork else None
    for k in range(1, length + 1):
        if k in change_at:
            sid = new_state(count)
        if k == count_at:
            count = max(2, count + rng.choice([-1, 1, 2]))
            sid = new_state(count)
        tip = mk(tip, sid)
        if k % 100 in (99, 0, 1) or rng.random() < 0.02:
            ops.append(["R", 0] if rng.random() < 0.3 else ["S", 0])
        elif rng.random() < 0.01:
            ops.append(["R", 0])
        if fork_at is not None and k == fork_when and fork_tip is None:
            # side branch from fork_at with its own states, grown past the main tip
            fork_tip = anc(tip, fork_at)
            fsid = new_state(count)
            target = blocks[tip]["no"] + rng.randrange(1, 110)
            while blocks[fork_tip]["no"] < target:
                if rng.random() < 0.03:
                    fsid = new_state(count)
                fork_tip = mk(fork_tip, fsid)
            ops.append(["S", 0])
            tip, sid = fork_tip, fsid
            if blocks[tip]["no"] >= length:
                break
    return {"election": True, "n": n, "nodes": 1, "self": [rng.randrange(0, n)], "ops": ops}


def election_boundary_reorg(rng, boundary=None):
    """Reorganisation that rolls back across an election boundary at which the producer set and
    its size change, and ends a few blocks after it: the rebuilt and the new confirms elements
    carry the confirmsRequired of the producer set in force on the new branch at their height, and
    the proposal map is filtered by the producer set of the fork point."""
    n = 3
    A = [5, 4, 3, 2, 1]          # snapshot at 200 (BPCOUNT 5): in force for 301..400
    Bs = [1, 3, 5, 0]            # snapshot at 300 (BPCOUNT 4): in force from 401
    ops = [["T", 1, [0, 1, 2, 3, 4, 5], 3], ["T", 2, [5, 4, 3, 2, 1, 0], 5], ["T", 4, [1, 3, 5, 0, 2, 4], 4],
           ["T", 3, [2, 3, 4, 5, 0, 1], 4]]
    blocks = {0: (None, 0)}
    lpb = {}
    nid = [1]

    def prods(no):
        return [0, 1, 2] if no <= 300 else (A if no <= 400 else Bs)

    def mk(parent, sid):
        no = blocks[parent][1] + 1
        ps = prods(no)
        bp = ps[no % len(ps)]          # round robin: the LIB lags by a known distance
        i = nid[0]
        nid[0] += 1
        blocks[i] = (parent, no)
        ops.append(["B", i, parent, bp, max(1, no - lpb.get(bp, 0)), sid])
        lpb[bp] = no
        ops.append(["D", 0, i])
        return i
    if boundary is None:
        boundary = rng.choice([300, 400])
    tip = 0
    chain = [0]
    change = rng.randrange(20, 180)
    old_len = boundary + rng.randrange(1, 3)
    for k in range(1, old_len + 1):
        sid = 1 if k < change else (2 if k < 250 else 4)
        tip = mk(tip, sid)
        chain.append(tip)
    ops.append(["S", 0])
    root = chain[boundary - rng.randrange(1, 3)]
    t2 = root
    target = old_len + rng.randrange(1, 4)
    while blocks[t2][1] < target:
        t2 = mk(t2, 3)
    ops.append(["S", 0])
    for _ in range(3):
        t2 = mk(t2, 3)
    return {"election": True, "n": n, "nodes": 1, "self": [0], "ops": ops}


def election_fork_across_boundary(rng, winner_first):
    """BPCOUNT constant.  Two branches fork below the election boundary 200 and commit different
    vote rankings at height 200; the node ends on branch W.  Arrival orders: the loser's boundary
    block is executed first and the winner's replaces it in the rollforward (winner_first False),
    or the winner's first, then a reorganisation to the loser, then back to the winner (True).
    The chain then continues past 300, where the snapshot of height 200 becomes the producer set,
    with restarts around it."""
    n = 3
    gen = [0, 1, 2]
    RW = [4, 5, 6]
    RL = [7, 0, 3]
    ops = [["T", 1, [0, 1, 2, 3], 3], ["T", 2, RW + [1], 3], ["T", 3, RL + [2], 3]]
    blocks = {0: (None, 0)}
    lpb = {}
    nid = [1]

    def mk(parent, sid, prods):
        no = blocks[parent][1] + 1
        bp = prods[no % len(prods)]
        i = nid[0]
        nid[0] += 1
        blocks[i] = (parent, no)
        ops.append(["B", i, parent, bp, max(1, no - lpb.get(bp, 0)), sid])
        lpb[bp] = no
        ops.append(["D", 0, i])
        return i
    tip = 0
    fork_no = 200 - rng.randrange(1, 4)
    for k in range(1, fork_no + 1):
        tip = mk(tip, 1, gen)
    root = tip
    w = l = root
    first, second = (2, 3) if winner_first else (3, 2)
    # first branch becomes the main chain across the boundary
    a = root
    for k in range(fork_no + 1, 203):
        a = mk(a, first, gen)
    # second branch outgrows it
    b = root
    for k in range(fork_no + 1, 205):
        b = mk(b, second, gen)
    if winner_first:
        # ... and the first (winner) wins back
        for k in range(203, 207):
            a = mk(a, first, gen)
        tip = a
    else:
        tip = b
    ops.append(["S", 0])
    for k in range(blocks[tip][1] + 1, 312):
        no = k
        prods = gen if no <= 300 else RW
        tip = mk(tip, 2, prods)
        if no in (299, 300, 301, 305):
            ops.append(["S", 0] if no != 305 else ["R", 0])
    return {"election": True, "n": n, "nodes": 1, "self": [0], "ops": ops}


def election_placeholder_at_snapshot(n=4, quiet=2, boundary=100, restart=False):
    """gc with a BP list (snapshot block on the extend path) while producers still hold the genesis
    "no vote yet" placeholder, followed by a faulty producer.  Only `quiet` of the n producers
    (A = 0, B = 1, ...) produce, in rotation with honest windows: with quiet < 2n/3+1 no block ever
    collects confirmsRequired confirmations, every entry of the proposal map is the placeholder
    and the LIB is the genesis block.  The snapshot block `boundary` (its state's vote ranking
    contains every producer, so gc(bps) must keep all entries) is made by B; then B double-confirms:
    window reaching 2 blocks below the boundary, which gives B alone a proposal.  calcLIB must keep
    counting the placeholders of the other producers (LIB stays at genesis)."""
    ops = [["T", 1, list(range(max(n, 6))), n]]
    lpb = {}
    tip, nid = 0, 1
    for no in range(1, boundary + 8):
        if no <= boundary:
            bp = (no + (boundary % quiet) + 1) % quiet if quiet > 1 else 0
            # rotation arranged so that the boundary block is made by B (= 1) when quiet >= 2
            bp = (1 + (boundary - no)) % quiet if quiet > 1 else 0
            conf = max(1, no - lpb.get(bp, 0))
            lpb[bp] = no
        else:
            bp = 1 if quiet > 1 else 0           # the faulty producer goes on alone, wide windows
            conf = no - (boundary - 2)
        ops.append(["B", nid, tip, bp, conf, 1])
        ops.append(["D", 0, nid])
        tip = nid
        nid += 1
        if restart and no in (boundary, boundary + 1):
            ops.append(["S", 0])
    return {"election": True, "n": n, "nodes": 1, "self": [n - 1], "ops": ops,
            "shape": "snapshot block %d while %d of %d producers hold only placeholders, then a faulty producer" % (boundary, quiet, n)}


def generate_election(rng, quick):
    out = [election_scenario(rng, with_fork=rng.random() < 0.5, bpcount_change=False), election_scenario(rng),
           election_boundary_reorg(rng, 300), election_boundary_reorg(rng, 400),
           election_fork_across_boundary(rng, False), election_fork_across_boundary(rng, True),
           election_placeholder_at_snapshot(4, 2), election_placeholder_at_snapshot(5, 3, restart=True)]
    if not quick:
        out += [election_placeholder_at_snapshot(nn, q, b) for nn, q, b in ((4, 1, 100), (6, 3, 100), (7, 4, 100), (4, 2, 200))]
        out += [election_scenario(rng, with_fork=False, bpcount_change=False)] + [election_scenario(rng) for _ in range(20)] + [election_boundary_reorg(rng) for _ in range(10)]
    return out


def chain_fail_scenario(rng):
    """Chain-side engine with blocks that fail when executed (["BX", id, parent]): an invalid
    child of the best block, and a side branch containing an invalid block that outgrows the main
    chain (the reorganisation is abandoned after a partial rollforward, again at every further
    block of that branch)."""
    ops = []
    blocks = {0: (None, 0)}
    nid = [1]
    main = [0]

    def mk(parent, bad=False):
        i = nid[0]
        nid[0] += 1
        blocks[i] = (parent, blocks[parent][1] + 1)
        ops.append([("BX" if rng.random() < 0.6 else "BR") if bad else "B", i, parent])
        ops.append(["D", i])
        return i
    for _ in range(rng.randrange(2, 4)):
        for _ in range(rng.randrange(2, 6)):
            if rng.random() < 0.2:
                mk(main[-1], bad=True)
            main.append(mk(main[-1]))
        if rng.random() < 0.5:
            lib = rng.randrange(0, max(1, len(main) - 3))
            ops.append(["L", lib])
        else:
            lib = 0
        # (the LIB only matters as a veto here; keep the fork point at or above it)
        lo = max(lib, len(main) - 6, 0)
        rno = rng.randrange(lo, len(main) - 1) if len(main) - 1 > lo else lo
        tip = main[rno]
        need = len(main) - 1 - rno + rng.randrange(1, 4)
        badpos = rng.randrange(1, need + 1)
        for k in range(1, need + 1):
            tip = mk(tip, bad=(k == badpos))
    return {"chain": True, "fail": True, "ops": ops}


def generate_chain(rng, quick):
    return ([chain_scenario(rng, rng.randrange(2, 6)) for _ in range(12 if quick else 150)] +
            [chain_fail_scenario(rng) for _ in range(6 if quick else 60)] + chain_abandoned_sweep())


def exhaustive_linear(n, length, restart=True):
    """Every producer schedule of the given length over n producers (honest Confirms)."""
    import itertools
    out = []
    for sched in itertools.product(range(n), repeat=length):
        t = Tree()
        tip = 0
        for bp in sched:
            tip = t.mk(tip, bp)
            t.ops.append(["D", 0, tip])
        if restart:
            t.ops.append(["S", 0])
        out.append({"n": n, "nodes": 1, "self": [0], "ops": t.ops})
    return out


def edge_confirms(rng, n, length):
    """Linear chain whose Confirms values sit on the edges: 0, 1, the honest value and its
    neighbours, the block number and its neighbours, confirmsRequired-1..+1, and the uint64
    values a wrapped `no - lpbNo` would give (2^64 - k)."""
    t = Tree()
    tip = 0
    cr = 2 * n // 3 + 1
    for i in range(length):
        no = i + 1
        bp = rng.randrange(n)
        honest = max(0, no - t.lpb.get(bp, 0))
        conf = rng.choice([0, 1, honest, honest + 1, max(0, honest - 1), no, no + 1, max(0, no - 1), cr - 1, cr, cr + 1,
                           (1 << 64) - 1, (1 << 64) - 2, (1 << 64) - rng.randrange(1, no + 3), 1 << 63])
        tip = t.mk(tip, bp, conf)
        t.ops.append(["D", 0, tip])
        if rng.random() < 0.3:
            t.ops.append(["S", 0])
    return {"n": n, "nodes": 1, "self": [rng.randrange(-1, n)], "ops": t.ops}


def reorg_orderings(n, variant):
    """Three-step orderings around two competing branches: A = 1..4; B forks at 2 and wins with
    3 blocks; A is then extended and wins back; B is extended again.  [variant] chooses where
    real restarts ("R") happen (bit k set: restart after step k) and the producer pattern."""
    t = Tree()

    def seq(parent, count, off):
        out = []
        for k in range(count):
            parent = t.mk(parent, (blocks_no(parent) + off) % n)
            t.ops.append(["D", 0, parent])
            out.append(parent)
        return out

    def blocks_no(i):
        return t.blocks[i][1]
    step = 0

    def maybe_restart():
        nonlocal step
        if variant >> step & 1:
            t.ops.append(["R", 0])
        else:
            t.ops.append(["S", 0])
        step += 1
    a = seq(0, 4, 0)
    maybe_restart()
    b = seq(a[1], 3, 1)          # heights 3,4,5: reorg at the last
    maybe_restart()
    a2 = seq(a[3], 2, 0)         # heights 5,6: reorg back at the last
    maybe_restart()
    b2 = seq(b[-1], 2, 1)        # heights 6,7: reorg again (or veto if the LIB moved)
    maybe_restart()
    seq(b2[-1] if True else a2[-1], 2, 0)
    return {"n": n, "nodes": 1, "self": [0], "ops": t.ops}


def generate(rng, quick):
    sc = []
    for n in (1, 2, 3, 4, 5, 6):                 # n mod 3 = 0, 1, 2 and the small counts
        for _ in range(1 if quick else 8):
            sc.append(edge_confirms(rng, n, rng.randrange(8, 25)))
    for n in (1, 2, 3, 4):
        for variant in (range(0, 16, 5) if quick else range(16)):
            sc.append(reorg_orderings(n, variant))
    if quick:
        sc += exhaustive_linear(1, 4) + exhaustive_linear(2, 5)
    else:
        sc += exhaustive_linear(1, 6) + exhaustive_linear(2, 9) + exhaustive_linear(3, 7) + exhaustive_linear(4, 5)
    # exhaustive-ish small family: round robin for every producer count, restart after every block
    for n in range(1, 8):
        sc.append(round_robin(n, 4 * n + 6))
    k = 1 if quick else 12
    for _ in range(6 * k):
        n = rng.choice([1, 2, 3, 4, 5, 6, 7])
        sc.append(linear(rng, n, rng.randrange(10, 45), restart=rng.choice(["none", "shadow", "real"])))
    for _ in range(4 * k):
        sc.append(linear(rng, rng.choice([3, 4, 5, 6, 7]), rng.randrange(10, 40), restart="shadow", byz=0.3))
    for _ in range(10 * k):
        n = rng.choice([1, 2, 3, 4, 4, 4, 5, 6, 7])
        sc.append(forks(rng, n, rng.randrange(2, 6), restart=rng.choice(["none", "mixed"])))
    for _ in range(5 * k):
        n = rng.choice([3, 4, 4, 5, 6, 7])
        sc.append(forks(rng, n, rng.randrange(2, 6), byz=0.3, restart=rng.choice(["none", "mixed", "shadow"])))
    sc += abandoned_reorg_sweep(4) + ([] if quick else abandoned_reorg_sweep(3))
    sc += force_reset_family((1, 3, 4) if quick else (1, 2, 3, 4, 5, 7))
    sc += rollback_above_fork_family((4, 5) if quick else (4, 5, 6, 7))
    for _ in range(6 * k):
        sc.append(fail_scenario(rng, rng.choice([1, 2, 3, 4, 4, 5]), byz=rng.choice([0.0, 0.0, 0.3]), restart=rng.random() < 0.5))
    for _ in range(5 * k):
        sc.append(crash_scenario(rng, rng.choice([1, 2, 3, 4, 4, 5]), byz=rng.choice([0.0, 0.0, 0.3])))
    for _ in range(3 * k):
        sc.append(gc_scenario(rng, rng.choice([3, 4, 5, 7]), rng.randrange(10, 30)))
    for _ in range(4 * k):
        sc.append(network(rng, 4, rng.randrange(16, 40), byz_count=1, inflate=rng.random() < 0.5))
    for _ in range(2 * k):
        sc.append(network(rng, rng.choice([4, 7]), rng.randrange(16, 40), byz_count=0))
    return sc

"""LIB-veto family for other checks (C07: "a longer branch forking below the irreversible block
never displaces the main chain").
run_lib_veto_family(ctx) builds the C08 dpos engine (real dpos.Status / bootLoader / libStatus on
an in-memory ChainDB, driven in ChainService's call order) in ctx.workdir and runs the
ForceResetHeight family of lib/c08gen.py:
  * shadow restarts with every reset height h = 1..best+1 (so LIB-1, LIB, LIB+1 and best);
  * real resets (the chain DB drops the main-chain blocks above h, NewStatus boots with
    resetHeight h) followed by a branch that forks 1 or 2 blocks below h and outgrows the chain.
Direct predicates on the implementation's observations: for h >= LIB the restored LIB is the old
LIB and NeedReorganization(f) refuses every fork point f below it; afterwards no delivery replaces
a main-chain block at or below that LIB.
Returns a list of {"key", "what", "replay"} with key
"<ctx.id>:reorg-below-irreversible-allowed-after-restart"; empty on an unchanged tree."""
import os
import vf
import c08gen as G
from c08election import _c08

SUFFIX = "reorg-below-irreversible-allowed-after-restart"


def run_lib_veto_family(ctx):
    c08 = _c08()
    eng = os.path.join(vf.HARNESS, "engines/dposlib")
    rc, log, binpath = ctx.go_test_binary(
        "consensus/impl/dpos", [os.path.join(eng, "zz_verif_c08_engine_test.go"),
                                os.path.join(eng, "zz_verif_c08_election_engine_test.go")], "dpos_veto.test")
    if rc != 0:
        raise RuntimeError("dpos engine build failed:\n" + log[-3000:])
    scen = G.force_reset_family((1, 3, 4) if ctx.tier == "quick" else (1, 2, 3, 4, 5, 7))
    obs = c08.run_engine(ctx, binpath, scen, "lib_veto_family")
    out = []
    stats = {"restarts": 0, "deliveries": 0, "restart_prpsd_diff": 0, "restart_prpsd_diff_above_lib": 0,
             "plib_changes": 0, "lib_changes": 0}
    for sc, ob in zip(scen, obs):
        for key, what, detail in c08.direct_predicates(sc, ob, stats):
            if key.split(":", 1)[1] == SUFFIX:
                out.append({"key": "%s:%s" % (ctx.id, SUFFIX), "what": what, "replay": {"scenario": sc, "detail": detail}})
    dist = ctx.cov.setdefault("input_distribution", {})
    dist["lib_veto_family_force_resets"] = stats.get("force_resets", 0)
    dist["lib_veto_family_resets_at_or_above_lib"] = stats.get("force_resets_at_or_above_lib", 0)
    return out

"""C09 chain-level correspondence: scenario generator, engine driver, Coq case emission and the
direct predicates for harness/engines/c09chain (real ChainService + real slot / bp.Cluster /
block.VerifySign) against coq/Dpos/Accept.v.

A scenario = a set of signed blocks (a tree over the genesis block, some with unknown parents),
a producer-set map (block id -> producer set in force after consensus.Update(block)), an orphan
pool capacity and a delivery order (any order, duplicates, "W" = wait for the next slot).
"""
import json
import os
import re

import vf

FIELDS = ["ChainID", "PrevBlockHash", "BlockNo", "Timestamp", "BlocksRootHash", "TxsRootHash",
          "ReceiptsRootHash", "Confirms", "PubKey", "CoinbaseAccount", "Consensus", "Sign"]
NKEYS = 8
CLASS_CODE = {"nil": 0, "cached": 10, "future": 11, "chainid": 12, "badsig": 13, "invalid": 14, "exec": 15,
              "orphan_no": 16, "reorg": 17, "errblock": 98}


# ------------------------------------------------------------------------------ scenarios
def blk(i, parent, slot, key=-1, own=None, delta=0, sig="ok", rel="base", off=None, nodelta=0, cid=True, ex=True):
    return {"id": i, "parent": parent, "rel": rel, "slot": slot, "off": off if off is not None else 1 + (i * 37) % 900,
            "key": key, "own": parent if own is None else own, "delta": delta, "sig": sig, "nodelta": nodelta,
            "cid": cid, "exec": ex}


def scenario(name, blocks, ops, cl=None, iv=1, cap=3):
    sc = {"name": name, "iv": iv, "cap": cap, "blocks": blocks, "cl": {str(k): v for k, v in (cl or {0: [0, 1, 2]}).items()},
          "ops": [["D", o] if isinstance(o, int) else [o] for o in ops]}
    resolve_clusters(sc)
    return sc


def resolve_clusters(sc):
    """cl[id] for every block: explicit, else the parent's (the set changes only where scripted)."""
    cl = sc["cl"]
    for b in sc["blocks"]:
        k = str(b["id"])
        if k not in cl:
            cl[k] = cl.get(str(b["parent"]), cl["0"])
        if b["own"] < 0 or str(b["own"]) not in cl:
            b["own"] = 0


def corpus_scenarios():
    """Hand-written shapes (also stored in corpus/C09/*.json by write_corpus)."""
    S = []
    M = [0, 1, 2]
    # forged block (names the slot owner, signed by somebody else) BEFORE its honest parent
    S.append(scenario("forged-child-before-parent", [blk(1, 0, 1), blk(2, 1, 2, sig="wrongkey:5")], [2, 1, 2]))
    S.append(scenario("unsigned-child-before-parent", [blk(1, 0, 1), blk(2, 1, 2, sig="nosig")], [2, 1]))
    # forged twin of an honest block (same parent, number, slot): before and after the honest one
    S.append(scenario("forged-twin-before", [blk(1, 0, 1), blk(2, 1, 2), blk(3, 1, 2, sig="wrongkey:6", off=500)], [1, 3, 2]))
    S.append(scenario("forged-twin-after", [blk(1, 0, 1), blk(2, 1, 2), blk(3, 1, 2, sig="wrongkey:6", off=500)], [1, 2, 3]))
    S.append(scenario("forged-twin-orphan-first", [blk(1, 0, 1), blk(2, 1, 2), blk(3, 1, 2, sig="wrongkey:6", off=500)], [3, 2, 1]))
    # every header field changed after signing: delivered as an orphan first, then the parent
    for f in FIELDS:
        S.append(scenario("mut-%s-child-first" % f, [blk(1, 0, 1), blk(2, 1, 2, sig="mut:" + f)], [2, 1, 2]))
        S.append(scenario("mut-%s-in-order" % f, [blk(1, 0, 1), blk(2, 1, 2, sig="mut:" + f)], [1, 2]))
    # LOCAL IDENTITY: key 0 is the node key (p2pkey) of the verifying node in engine B.  Forged, unsigned and
    # tampered blocks NAMING THE VERIFIER ITSELF: delivered as orphans (parked = addBlock nil whatever the slot)
    # and in order
    S.append(scenario("forged-names-local-orphan", [blk(1, 0, 1), blk(2, 1, 2, key=0, sig="wrongkey:5")], [2, 1, 2]))
    S.append(scenario("unsigned-names-local-orphan", [blk(1, 0, 1), blk(2, 1, 2, key=0, sig="nosig")], [2, 1]))
    S.append(scenario("forged-names-local-in-order", [blk(1, 0, 1, key=0, sig="wrongkey:6")], [1, 1]))
    for f in ("Timestamp", "TxsRootHash", "BlockNo", "Confirms", "Sign"):
        S.append(scenario("mut-%s-names-local-orphan" % f, [blk(1, 0, 1), blk(2, 1, 2, key=0, sig="mut:" + f)], [2, 1]))
    S.append(scenario("honest-local-block", [blk(1, 0, 1), blk(2, -1, 2, key=0)], [1, 2]))
    # non-member / wrong slot, parked first
    S.append(scenario("nonmember-child-first", [blk(1, 0, 1), blk(2, 1, 2, key=6)], [2, 1, 2]))
    S.append(scenario("wrongslot-child-first", [blk(1, 0, 1), blk(2, 1, 2, delta=1), blk(3, 2, 3)], [3, 2, 1, 2, 3]))
    S.append(scenario("nonmember-in-order", [blk(1, 0, 1, key=7)], [1, 1]))
    # honest chain delivered backwards (orphans resolved in one run)
    S.append(scenario("backwards-chain", [blk(1, 0, 1), blk(2, 1, 2), blk(3, 2, 3), blk(4, 3, 5)], [4, 3, 2, 1, 4]))
    # timestamps around the clock: -1, 0, +1 slots are accepted, +2, +3 rejected and not cached
    for q in (-1, 0, 1, 2, 3):
        S.append(scenario("clock%+d" % q, [blk(1, 0, q, rel="now")], [1, 1]))
        S.append(scenario("clock%+d-orphan" % q, [blk(1, 0, 1), blk(2, 1, q, rel="now")], [2, 1, 2]))
    S.append(scenario("clock+2-last-ms", [blk(1, 0, 1, rel="now", off=1000), blk(2, 0, 2, rel="now", off=1)], [1, 2]))
    # slot k is ((k-1)*iv, k*iv] ms: the last millisecond still belongs to the owner of k, the first one
    # already to the owner of k; the neighbours' owners are refused there
    S.append(scenario("slot-last-ms-owner", [blk(1, 0, 1, off=1000), blk(2, 1, 2, off=1)], [1, 2]))
    S.append(scenario("slot-last-ms-next-owner", [blk(1, 0, 1, off=1000, delta=1)], [1]))
    S.append(scenario("slot-first-ms-prev-owner", [blk(1, 0, 2, off=1, delta=-1)], [1]))
    S.append(scenario("slot-last-ms-next-owner-orphan", [blk(1, 0, 1), blk(2, 1, 2, off=1000, delta=1)], [2, 1]))
    # a future block is refused but not remembered: after two slots it is accepted
    S.append(scenario("future-then-wait", [blk(1, 0, 2, rel="now")], [1, "W", 1, "W", 1]))
    S.append(scenario("future-orphan-then-wait", [blk(1, 0, 1), blk(2, 1, 2, rel="now")], [2, "W", 2, 1]))
    # producer set changes with the chain: block 1 installs a new set; its child must be signed by the new one
    S.append(scenario("election-new-set", [blk(1, 0, 1), blk(2, 1, 2), blk(3, 1, 2, own=0, off=600)], [1, 3, 2],
                      cl={0: M, 1: [3, 4, 5]}))
    S.append(scenario("election-retired-orphan-first", [blk(1, 0, 1), blk(2, 1, 2, own=0)], [2, 1], cl={0: M, 1: [3, 4, 5]}))
    S.append(scenario("election-size-change", [blk(1, 0, 1), blk(2, 1, 2), blk(3, 2, 3)], [3, 2, 1],
                      cl={0: M, 1: [3, 4, 5, 6, 0], 2: [1]}))
    # side branch: stored without IsBlockValid, validated when the node reorganises to it
    S.append(scenario("side-branch-reorg-ok", [blk(1, 0, 1), blk(2, 0, 2), blk(3, 2, 3)], [1, 2, 3]))
    S.append(scenario("side-branch-invalid-tip", [blk(1, 0, 1), blk(2, 0, 2), blk(3, 2, 3, key=6)], [1, 2, 3, 3]))
    S.append(scenario("side-branch-invalid-root", [blk(1, 0, 1), blk(2, 0, 2, delta=1), blk(3, 2, 3)], [1, 2, 3]))
    S.append(scenario("side-branch-forged-tip", [blk(1, 0, 1), blk(2, 0, 2), blk(3, 2, 3, sig="wrongkey:4")], [1, 3, 2]))
    S.append(scenario("side-branch-orphans", [blk(1, 0, 1), blk(2, 0, 2), blk(3, 2, 3), blk(4, 3, 4)], [1, 4, 3, 2]))
    # the parent is remembered as errored when the orphan pulled in behind it is invalid
    S.append(scenario("parent-cached-for-bad-orphan", [blk(1, 0, 1), blk(2, 1, 2, key=6)], [2, 1, 1, 2]))
    # header numbers
    S.append(scenario("number-gap-child", [blk(1, 0, 1), blk(2, 1, 2, nodelta=1)], [1, 2]))
    S.append(scenario("number-gap-orphan", [blk(1, 0, 1), blk(2, 1, 2, nodelta=1)], [2, 1]))
    S.append(scenario("number-gap-side-reorg", [blk(1, 0, 1), blk(2, 0, 2), blk(3, 2, 3, nodelta=2)], [1, 2, 3]))
    # foreign chain id, bad state root
    S.append(scenario("foreign-chain", [blk(1, 0, 1, cid=False)], [1, 1]))
    S.append(scenario("bad-root", [blk(1, 0, 1, ex=False), blk(2, 0, 1, off=700)], [1, 1, 2]))
    S.append(scenario("bad-root-on-branch", [blk(1, 0, 1), blk(2, 0, 2), blk(3, 2, 3, ex=False)], [1, 2, 3]))
    # orphan pool: one entry per parent, capacity, oldest evicted
    S.append(scenario("orphan-same-parent", [blk(1, 0, 1), blk(2, 1, 2), blk(3, 1, 2, off=800)], [2, 3, 1, 3]))
    S.append(scenario("orphan-capacity", [blk(1, 0, 1), blk(2, 1, 2), blk(3, -1, 2), blk(4, -1, 3), blk(5, -1, 4)],
                      [2, 3, 4, 5, 1], cap=2))
    # producer set in force after a failed reorganisation (F42, fixed in 05cfcb8b: regression case)
    S.append(stale_set_scenario())
    return S


def stale_set_scenario():
    """Main chain 1-2; branch 3-4-5 delivered block by block (3 and 4 are not longer than the main
    chain, so no reorganisation is tried before 5): block 3 elects a new set N, block 5 is invalid,
    so the reorganisation stops after Update(4) and the set of the abandoned branch stays in force:
    block 6 (child of the best block 2, signed by the producer of N owning the slot, who is not in
    the main chain's set M) is connected."""
    M = [0, 1, 2]
    N = [3, 4, 5]
    return scenario("stale-set-after-failed-reorg",
                    [blk(1, 0, 1), blk(2, 1, 2), blk(3, 0, 2, off=600), blk(4, 3, 3), blk(5, 4, 4, key=7), blk(6, 2, 6, own=4)],
                    [1, 2, 3, 4, 5, 6], cl={0: M, 3: N})


DEFECTS = ["nonmember", "wrongslot", "wrongkey", "nosig", "mut", "future", "nearfuture", "number", "cid", "exec", "unknownparent"]


FIXED_SET = [0, 1, 2, 3, 4, 5, 6]      # engine B (real DPoS): 7 producers, key 7 is the outsider
MAX_DEPTH_B = 4                        # < 2/3*7+1 confirmations: the LIB stays at the genesis block


def random_scenario(rng, idx, fixed=False):
    iv = 1 if fixed else rng.choice([1, 1, 1, 2])
    nb = rng.randrange(2, 7 if fixed else 8)
    size = rng.randrange(1, 6)
    cl = {0: list(FIXED_SET) if fixed else rng.sample(range(NKEYS), size)}
    blocks, depth = [], {0: 0}
    for i in range(1, nb + 1):
        r = rng.random()
        if r < 0.55:
            parent = i - 1            # chains
        else:
            parent = rng.randrange(0, i)
        while fixed and depth[parent] + 1 > MAX_DEPTH_B:
            parent = rng.randrange(0, i)
        d = depth[parent] + 1
        depth[i] = d
        off = rng.choice([1, iv * 1000]) if rng.random() < 0.12 else 1 + rng.randrange(0, iv * 1000)
        b = blk(i, parent, d + rng.randrange(0, 2), off=off)
        if not fixed and rng.random() < 0.15:
            cl[i] = rng.sample(range(NKEYS), rng.choice([size, size, rng.randrange(1, 6)]))
        if rng.random() < 0.4:
            k = rng.choice(DEFECTS)
            if k == "nonmember":
                b["key"] = 7 if fixed else rng.randrange(NKEYS)
            elif k == "wrongslot":
                b["delta"] = rng.randrange(1, 5)
            elif k == "wrongkey":
                b["sig"] = "wrongkey:%d" % rng.randrange(NKEYS)
                if rng.random() < 0.4:
                    b["key"] = 0          # names the verifying node itself (engine B's local identity)
                    if b["sig"] == "wrongkey:0":
                        b["sig"] = "wrongkey:5"
            elif k == "nosig":
                b["sig"] = "nosig"
            elif k == "mut":
                b["sig"] = "mut:" + rng.choice(FIELDS)
            elif k == "future":
                b["rel"], b["slot"] = "now", rng.choice([2, 3, 5])
            elif k == "nearfuture":
                b["rel"], b["slot"] = "now", rng.choice([-1, 0, 1])
            elif k == "number":
                b["nodelta"] = rng.choice([1, 2] if fixed and d == 1 else [-1, 1, 2])
            elif k == "cid":
                b["cid"] = False
            elif k == "exec":
                b["exec"] = False
            elif k == "unknownparent":
                b["parent"] = -1
                depth[i] = 1
        blocks.append(b)
    order = list(range(1, nb + 1))
    mode = rng.random()
    if mode < 0.3:
        order.reverse()
    elif mode < 0.8:
        rng.shuffle(order)
    for _ in range(rng.randrange(0, 4)):
        order.insert(rng.randrange(0, len(order) + 1), rng.randrange(1, nb + 1))
    sc = {"genesis": rng.choice([0, 7, 9, 5, 3, 21]) if fixed else 0, "name": ("rndB%d" if fixed else "rnd%d") % idx, "iv": iv, "cap": rng.choice([2, 3, 100]), "blocks": blocks,
          "cl": {str(k): v for k, v in cl.items()}, "ops": [["D", o] for o in order]}
    # the wrongkey signer must differ from the key named in the header; resolved by the engine when key<0,
    # so a coincidence only makes the block honest: the model takes sig_ok from the engine-independent rule below
    resolve_clusters(sc)
    return sc


def for_real_dpos(scenarios):
    """The scenarios engine B (real DPoS object) can run: one producer set for the whole scenario
    (re-based on the 7-producer set, outsider key 7), 1 s slots, branches of at most MAX_DEPTH_B
    blocks, no header number 0 (DPoS.VerifyTimestamp refuses numbers <= LIB = 0)."""
    res = []
    for sc in scenarios:
        sets = {tuple(v) for v in sc["cl"].values()}
        if len(sets) != 1 or sc["iv"] != 1:
            continue
        depth, ok = {0: 0, -1: 0}, True
        for b in sc["blocks"]:
            depth[b["id"]] = depth.get(b["parent"], 0) + 1
            if depth[b["id"]] > MAX_DEPTH_B or depth[b["id"]] + b["nodelta"] <= 0:
                ok = False
        if not ok:
            continue
        c = json.loads(json.dumps(sc))
        c["name"] += "-B"
        old = list(sets)[0]
        for b in c["blocks"]:
            if b["key"] >= 0 and b["key"] not in old:
                b["key"] = 7
            elif b["key"] >= 0:
                b["key"] = FIXED_SET[old.index(b["key"])]
        c["cl"] = {k: list(FIXED_SET) for k in c["cl"]}
        # BP count the node booted with (Init argument of dpos.New): equal to the set in force, or another
        # one (an election changed the size since): the slot rotation must follow the CURRENT size
        c["genesis"] = (7, 9, 5, 3)[len(res) % 4]
        res.append(c)
    return res


def small_tree_family(defect_kinds):
    """Exhaustive: every tree shape on 3 blocks x every delivery permutation x one defective block."""
    import itertools
    S = []
    shapes = [(0, 1, 2), (0, 1, 1), (0, 0, 2), (0, 0, 1), (0, 0, 0)]  # parent of block 1, 2, 3
    n = 0
    for sh in shapes:
        for bad in (0, 1, 2, 3):
            kinds = defect_kinds if bad else [None]
            for kind in kinds:
                for perm in itertools.permutations([1, 2, 3]):
                    blocks = []
                    depth = {0: 0}
                    for i, p in enumerate(sh, 1):
                        depth[i] = depth[p] + 1
                        b = blk(i, p, depth[i] + (i if p == 0 else 0))
                        if i == bad:
                            if kind == "nonmember":
                                b["key"] = 6
                            elif kind == "wrongslot":
                                b["delta"] = 1
                            elif kind == "wrongkey":
                                b["sig"] = "wrongkey:5"
                            elif kind == "future":
                                b["rel"], b["slot"] = "now", 2
                        blocks.append(b)
                    S.append(scenario("tree%d" % n, blocks, list(perm) + [bad or 1]))
                    n += 1
    return S


def write_corpus(d):
    os.makedirs(d, exist_ok=True)
    p = os.path.join(d, "scenarios.json")
    txt = json.dumps(corpus_scenarios(), indent=0, sort_keys=True)
    try:
        if open(p).read() == txt:
            return
    except OSError:
        pass
    with open(p, "w") as f:
        f.write(txt)


def load_corpus(d):
    S = []
    if os.path.isdir(d):
        for fn in sorted(os.listdir(d)):
            if fn.endswith(".json"):
                S += json.load(open(os.path.join(d, fn)))
    for sc in S:
        resolve_clusters(sc)
    return S


# ------------------------------------------------------------------------------ engine
_TREE_KEY = {}


def tree_key(repo):
    """Fingerprint of the Go source tree under test: HEAD + uncommitted diff + untracked Go files.
    None when the tree is not a git checkout (then nothing is cached)."""
    if repo in _TREE_KEY:
        return _TREE_KEY[repo]
    import hashlib
    key = None
    rc1, head = vf.sh(["git", "-C", repo, "rev-parse", "HEAD"])
    rc2, diff = vf.sh(["git", "-C", repo, "diff", "HEAD", "--binary"])
    rc3, other = vf.sh(["git", "-C", repo, "ls-files", "-o", "--exclude-standard"])
    if rc1 == 0 and rc2 == 0 and rc3 == 0:
        h = hashlib.sha1()
        h.update(head.encode())
        h.update(diff.encode(errors="replace"))
        for f in sorted(other.split("\n")):
            if f.endswith((".go", ".mod", ".sum", ".s", ".c", ".h")):
                h.update(f.encode())
                try:
                    h.update(open(os.path.join(repo, f), "rb").read())
                except OSError:
                    pass
        rc4, ver = vf.sh(["go", "version"])
        h.update(ver.encode())
        key = h.hexdigest()
    _TREE_KEY[repo] = key
    return key


def go_test_binary_cached(ctx, pkg, engine_files, out_name, overlay_extra=None, use_overlay=True):
    """ctx.go_test_binary, skipped when the binary was built from the same source tree, engine
    files and overlay stub (go test -c relinks every time: ~5 s per binary, six binaries)."""
    import hashlib
    out = os.path.join(ctx.workdir, out_name)
    tk = tree_key(ctx.repo)
    key = None
    if tk is not None:
        h = hashlib.sha1(tk.encode())
        h.update(pkg.encode())
        h.update(b"overlay" if use_overlay else b"plain")
        files = list(engine_files) + sorted((overlay_extra or {}).values()) + [os.path.join(vf.HARNESS, "overlay", "zz_vmstub.go.txt")]
        for f in files:
            h.update(f.encode())
            h.update(open(f, "rb").read())
        key = h.hexdigest()
        try:
            if os.path.exists(out) and open(out + ".key").read() == key:
                return 0, "cached", out
        except OSError:
            pass
    rc, log, path = ctx.go_test_binary(pkg, engine_files, out_name, overlay_extra=overlay_extra, use_overlay=use_overlay)
    if rc == 0 and key is not None:
        with open(out + ".key", "w") as f:
            f.write(key)
    elif os.path.exists(out + ".key"):
        os.remove(out + ".key")
    return rc, log, path


def run_engine(ctx, binpath, scenarios, tag="c09chain", test="TestVerifC09ChainEngine"):
    fin = os.path.join(ctx.workdir, tag + ".in")
    fout = os.path.join(ctx.workdir, tag + ".out")
    with open(fin, "w") as f:
        for sc in scenarios:
            f.write(json.dumps(sc) + "\n")
    if os.path.exists(fout):
        os.remove(fout)
    rc, log = ctx.run_bin(binpath, ["-test.run", test], env={"VERIF_IN": fin, "VERIF_OUT": fout})
    if rc != 0:
        raise RuntimeError("c09chain engine failed:\n" + log[-3000:])
    outs = [json.loads(l) for l in open(fout)]
    if len(outs) != len(scenarios):
        raise RuntimeError("c09chain engine: %d outputs for %d scenarios" % (len(outs), len(scenarios)))
    return outs


# ------------------------------------------------------------------------------ model side
def sig_intended(spec, out_block=None):
    """The ECDSA oracle bit of the model: true for an honestly signed header, false after any
    tampering.  ("wrongkey:k" with k equal to the key named in the header is an honest block.)"""
    if spec["sig"] == "ok":
        return True
    if out_block is not None and spec["sig"].startswith("wrongkey:"):
        return int(spec["sig"].split(":")[1]) == out_block["signer"]
    return False


def model_blocks(sc, out):
    """id -> model block tuple (id, parent, signer, ts, sig, no, cid, exec)."""
    res = {}
    spec = {b["id"]: b for b in sc["blocks"]}
    for o in out["blocks"]:
        sp = spec[o["id"]]
        parent = o["parent"] if o["parent"] >= 0 else -(100 + o["id"])
        # cid_ok = ValidChildOf(genesis) evaluated on the real header (children inherit a foreign chain id)
        res[o["id"]] = (o["id"], parent, o["signer"], o["ts"], sig_intended(sp, o), o["no"], o["cid_real"], o["exec"])
    return res


def coq_block(t):
    Z = vf.coq_Z
    B = lambda b: "true" if b else "false"
    return "(B %s %s %s %s %s %s %s %s)" % (Z(t[0]), Z(t[1]), Z(t[2]), Z(t[3]), B(t[4]), Z(t[5]), B(t[6]), B(t[7]))


def zl(l):
    return "[" + ";".join(vf.coq_Z(x) for x in l) + "]"


def f42_fixed(repo):
    """Source flag of the model: reorg() puts the consensus back on the best block after a failed
    rollforward (fixes/F42_reorg_restore_consensus.diff, /repo commit 05cfcb8b)."""
    try:
        src = open(os.path.join(repo, "chain", "reorg.go")).read()
    except OSError:
        return False
    m = re.search(r"if err := reorg\.rollforward\(\); err != nil \{(.*?)\n\t\treturn err", src, re.S)
    return bool(m and "cs.Update(reorg.bestBlock)" in m.group(1))


COQ_HEADER = ["From Coq Require Import ZArith List Bool.", "From Verif Require Import Dpos.Slot Dpos.Accept.",
              "Import ListNotations.", "Open Scope Z_scope.",
              "Definition B i p s t g n c e := Build_block i p s t g n c e.",
              "Definition G := B 0 (-1) (-1) 0 true 0 true true."]


def coq_cases(scenarios, outs, f42=False, prefix="", header=True):
    """One `scen_diff` per scenario; D<prefix>x<k> = list of 0 (model = implementation) or 1+index of
    the first differing arrival.  Returns (text, number of D lists)."""
    txt = list(COQ_HEADER) if header else []
    names = []
    for n, (sc, out) in enumerate(zip(scenarios, outs)):
        mb = model_blocks(sc, out)
        allids = sorted([0] + list(mb))
        cm = "[" + ";".join("(%d,%s)" % (int(k), zl(v)) for k, v in sorted(sc["cl"].items(), key=lambda kv: int(kv[0]))) + "]"
        evs, obs = [], []
        for o in out["obs"]:
            evs.append("(%s,%s)" % (coq_block(mb[o["id"]]), vf.coq_Z(o["now0"])))
            obs.append("(%d,%s,%s,%s,%s,%s,%s)" % (CLASS_CODE.get(o["r"], 97), zl(o["calls"]), zl(o["main"]), zl(o["store"]),
                                                    zl(o["orph"]), zl(o["errs"]), vf.coq_Z(o["upd"])))
        txt.append("Definition d%s%d := scen_diff %d %s %d%%nat G %s %s [%s] [%s]." % (
            prefix, n, sc["iv"] * 1000, cm, sc["cap"], "true" if f42 else "false", zl(allids), ";\n ".join(evs), ";\n ".join(obs)))
        names.append("d%s%d" % (prefix, n))
    CH = 100
    k = 0
    for c0 in range(0, len(names), CH):
        txt.append("Definition D%sx%d := Eval vm_compute in [%s]." % (prefix, k, ";".join(names[c0:c0 + CH])))
        txt.append("Print D%sx%d." % (prefix, k))
        k += 1
    return "\n".join(txt), k


def parse_diffs(out, nchunks, prefix=""):
    flat = " ".join(out.split())
    res = []
    pat = r"\bD%sx\d+ = " % re.escape(prefix)
    for m in re.finditer(pat + r"(\[[^\]]*\]|nil)", flat):
        body = m.group(1)
        res += [] if body in ("nil", "[]") else [int(x) for x in re.findall(r"-?\d+", body)]
    if len(re.findall(pat, flat)) != nchunks:
        return None
    return res


def call_shape(calls):
    """Sequence of consensus call kinds (1 VerifyTimestamp, 5 VerifySign, 6 IsBlockValid, 3 Update,
    2 NeedReorganization) without the block ids."""
    res, k = [], 0
    while k < len(calls):
        res.append(calls[k])
        k += 3 if calls[k] == 6 else 2
    return tuple(res)


# ------------------------------------------------------------------------------ direct predicates
def next_index(ms, ivms):
    return (ms + ivms - 1) // ivms


def direct_predicates(sc, out):
    """The property on the implementation's own observations, independent of the Coq model.
    Returns a list of (key, what, replay)."""
    fails = []
    ivms = sc["iv"] * 1000
    spec = {b["id"]: b for b in sc["blocks"]}
    blocks = {o["id"]: o for o in out["blocks"]}
    # signature oracle: the intended bit must be what the real verification says
    for i, o in blocks.items():
        sp = spec[i]
        if sig_intended(sp, o) and not o["sig_real"]:
            fails.append(("C09:honest-signature-rejected", "honest signature rejected by block.VerifySign", dict(scenario=sc, block=o)))
        if not sig_intended(sp, o) and o["sig_real"]:
            fails.append(("C09:signature-verifies-after-" + sp["sig"].replace(":", "-"),
                          "signature still verifies after %s" % sp["sig"], dict(scenario=sc, block=o)))
    passed_clock = set()     # ids that have arrived at least once while not future
    validated = {}           # id -> block the producer set was taken from (last IsBlockValid call)
    for n, ob in enumerate(out["obs"]):
        i = ob["id"]
        b = blocks[i]
        for now in (ob["now0"], ob["now1"]):
            if next_index(b["ts"] // 10 ** 6, ivms) < next_index(now // 10 ** 6, ivms) + 2:
                passed_clock.add(i)
        c = ob["calls"]
        k = 0
        while k < len(c):
            if c[k] == 6:
                validated[c[k + 1]] = c[k + 2]
                k += 3
            else:
                k += 2
        rep = lambda: dict(scenario=sc, blocks=out["blocks"], arrivals=out["obs"][:n + 1])
        # ACCEPTED (addBlock returns nil) only if the signature verifies and the block is not future now
        if ob["r"] == "nil":
            if not b["sig_real"]:
                fails.append(("C09:bad-signature-reported-accepted",
                              "addBlock returned nil for block %d whose signature does not verify" % i, rep()))
            fut_now = all(next_index(b["ts"] // 10 ** 6, ivms) >= next_index(now // 10 ** 6, ivms) + 2
                          for now in (ob["now0"], ob["now1"]))
            prev_store = out["obs"][n - 1]["store"] if n > 0 else [0]
            if fut_now and i not in prev_store:
                fails.append(("C09:future-block-reported-accepted",
                              "addBlock returned nil for block %d which is two or more slots ahead of the clock" % i, rep()))
        # a block refused by IsBlockValid although its signer owns its slot in the set in force at that call
        last, k = None, 0
        while k < len(c):
            last = (c[k], c[k + 1], c[k + 2] if c[k] == 6 else None)
            k += 3 if c[k] == 6 else 2
        if ob["r"] in ("invalid", "reorg") and last and last[0] == 6 and last[1] in blocks:
            bj, members = blocks[last[1]], sc["cl"].get(str(last[2]))
            if members and bj["signer"] in members:
                idx = len(members) - 1 - members[::-1].index(bj["signer"])
                if next_index(bj["ts"] // 10 ** 6, ivms) % len(members) == idx:
                    fails.append(("C09:slot-owner-refused",
                                  "block %d by the producer owning its slot in the current set (%d producers) is refused by IsBlockValid"
                                  % (last[1], len(members)), rep()))
        for where, ids in (("main chain", ob["main"]), ("chain DB", ob["store"]), ("orphan pool", ob["orph"])):
            for j in ids:
                if j == 0:
                    continue
                if j not in blocks:
                    fails.append(("C09:unknown-block", "unknown block %d in the %s" % (j, where), rep()))
                    continue
                bj = blocks[j]
                if not bj["sig_real"]:
                    fails.append(("C09:bad-signature-" + where.replace(" ", "-"),
                                  "block %d whose signature does not verify is in the %s" % (j, where), rep()))
                if j not in passed_clock:
                    fails.append(("C09:future-block-" + where.replace(" ", "-"),
                                  "block %d is in the %s although it was two or more slots ahead of the clock at every arrival" % (j, where), rep()))
        for j in ob["main"]:
            if j == 0 or j not in blocks:
                continue
            bj = blocks[j]
            members = sc["cl"].get(str(bj["parent"]))
            ok = False
            if members and bj["signer"] in members:
                idx = len(members) - 1 - members[::-1].index(bj["signer"])
                ok = next_index(bj["ts"] // 10 ** 6, ivms) % len(members) == idx
            if not ok:
                if validated.get(j) is not None and validated.get(j) != bj["parent"]:
                    fails.append(("C09:producer-set-stale-after-failed-reorg",
                                  "block %d on the main chain was validated against the producer set of block %s, not of its parent %d"
                                  % (j, validated.get(j), bj["parent"]), rep()))
                else:
                    fails.append(("C09:non-member-or-wrong-slot-main-chain",
                                  "block %d on the main chain is not signed by the producer owning its slot in the current set" % j, rep()))
        if fails:
            break
    return fails

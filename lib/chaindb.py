"""Shared machinery of the ChainDB checks (C05, C06, C07): engine build, block-tree case
generators, translation of engine observations into Coq terms for ChainDB/Corr.v, and
model-independent predicates computed from the engine's observations.  Owned by g9-chaindb."""
import itertools
import json
import os
import re

import vf

E = os.environ.get("G9_ENGINE_DIR") or os.path.join(vf.HARNESS, "engines", "chaindb")
RES = {"ok": 0, "known": 1, "cached": 2, "orphan": 3, "err": 4}
RC = {"none": 0, "nomain": 1, "ok": 2, "panic": 3}
TXS = {"absent": 0, "side": 1, "main": 2, "panic": 3}


def aergo_lib_dir(ctx):
    rc, out = vf.sh(["go", "list", "-m", "-f", "{{.Dir}}", "github.com/aergoio/aergo-lib"], cwd=ctx.repo, env=ctx.goenv(), timeout=300)
    d = out.strip().split("\n")[-1].strip()
    if rc != 0 or not os.path.isdir(d):
        raise RuntimeError("cannot locate module github.com/aergoio/aergo-lib: " + out[-500:])
    return d


def build_engine(ctx):
    # The journaling store for crash-during-recovery is registered as a db implementation through a file ADDED to
    # aergo-lib's db package by the overlay; Go's module index ignores overlay additions in the module cache, hence goindex=0.
    os.environ["GODEBUG"] = "goindex=0"
    libdb = os.path.join(aergo_lib_dir(ctx), "db", "zz_verif_dbreg.go")
    rc, log, path = ctx.go_test_binary(
        "chain", [os.path.join(E, "zz_verif_chaindb_engine_test.go"), os.path.join(E, "zz_verif_journal_test.go")],
        "chaindb.test", overlay_extra={"state/zz_verif_state_shim.go": os.path.join(E, "zz_verif_state_shim.go"),
                                       "contract/system/zz_verif_sysparams_shim.go": os.path.join(E, "zz_verif_sysparams_shim.go"),
                                       libdb: os.path.join(E, "zz_verif_dbreg.go.txt")})
    if rc != 0:
        raise RuntimeError("chaindb engine build failed:\n" + log[-4000:])
    return path


def run_engine(ctx, path, cases, tag):
    fin = os.path.join(ctx.workdir, tag + ".in")
    fout = os.path.join(ctx.workdir, tag + ".out")
    with open(fin, "w") as f:
        for c in cases:
            f.write(json.dumps(c) + "\n")
    if os.path.exists(fout):
        os.remove(fout)
    rc, log = ctx.run_bin(path, ["-test.run", "TestVerifChainDBEngine", "-test.timeout", "0"], env={"VERIF_IN": fin, "VERIF_OUT": fout},
                          timeout=(240 if ctx.tier == "quick" else 1700))
    if rc != 0 or not os.path.exists(fout):
        prog = ""
        if os.path.exists(fout + ".progress"):
            prog = open(fout + ".progress").read()[-300:]
        raise RuntimeError("chaindb engine failed (rc=%s) progress=%s:\n%s" % (rc, prog, log[-3000:]))
    outs = [json.loads(l) for l in open(fout)]
    if len(outs) != len(cases):
        raise RuntimeError("chaindb engine: %d outputs for %d cases" % (len(outs), len(cases)))
    return outs


def source_has_f7_fix(repo):
    """The model parameter f7_fixed follows the source under test: the repaired reorg() restores
    the state root when rollforward fails."""
    global F27_FIXED, F28_FIXED
    F27_FIXED = source_has_f27_fix(repo)
    F28_FIXED = source_has_f28_fix(repo)
    src = open(os.path.join(repo, "chain", "reorg.go")).read()
    m = re.search(r"if err := reorg\.rollforward\(\); err != nil \{(.*?)\n\t\}", src, re.S)
    return bool(m and "SetRoot" in m.group(1))


F27_FIXED = False
F28_FIXED = False


def source_has_f28_fix(repo):
    """Model parameter f28: getTx/getReceipt/getReceipts test the error of GetBlockByNo before using its
    result (fixes/F28_query_nil_deref.diff)."""
    src = open(os.path.join(repo, "chain", "chainhandle.go")).read()
    m = re.search(r"func \(cs \*ChainService\) getReceipts\(blockHash.*?\n\}", src, re.S)
    return bool(m and re.search(r"err != nil \|\| !bytes\.Equal\(block\.BlockHash\(\), blockInMainChain", m.group(0)))


def source_has_f27_fix(repo):
    """Model parameter f27_fixed: chaindb.go:isMainChain applies the height test also to BlockNo 0
    (fixes/F27_blockno_zero.diff)."""
    src = open(os.path.join(repo, "chain", "chaindb.go")).read()
    m = re.search(r"func \(cdb \*ChainDB\) isMainChain\(.*?\n\}", src, re.S)
    return bool(m and "blockNo > 0 &&" not in m.group(0) and "blockNo != bestNo+1" in m.group(0))


# ------------------------------------------------------------------ generators
def rnd_txs(rng, lo=0, hi=2):
    n = rng.randint(lo, hi)
    txs = []
    for _ in range(n):
        a = rng.randrange(3)
        b = (a + 1 + rng.randrange(2)) % 3
        txs.append({"from": a, "to": b, "amt": rng.choice([1, 2])})
    return txs


def rnd_tree(rng, nblocks, pbad=0.25, pno=0.05, min_first_tx=True):
    """Random block tree with up to 3 branches sharing prefixes."""
    blocks = []
    names = ["G"]
    tips = ["G"]
    nbr = 1
    for i in range(nblocks):
        if nbr < 3 and rng.random() < 0.3:
            parent = rng.choice(names)
            nbr += 1
        else:
            parent = rng.choice(tips)
        name = "b%d" % i
        txs = rnd_txs(rng, 1 if (parent == "G" and min_first_tx) else 0, 2)
        blk = {"name": name, "parent": parent, "txs": txs, "bad": "", "no": None, "forge": False}
        blocks.append(blk)
        names.append(name)
        if parent in tips and parent != "G":
            tips.remove(parent)
        tips.append(name)
    if blocks and rng.random() < pbad:
        b = rng.choice(blocks)
        b["bad"] = rng.choice(["root", "root", "exec", "txroot", "sig"])
        if b["bad"] == "root" and not b["txs"]:
            b["txs"] = rnd_txs(rng, 1, 1)
    if blocks and rng.random() < pno:
        b = rng.choice(blocks)
        b["no"] = rng.choice([2, 3, 5, 7])
    return blocks


def add_gov(rng, blocks, pmore=0.4):
    """Governance: a fully valid block gets a stake + DAO vote changing the gas price (engine field `gov`, in Gaer above
    the base price).  At most one such block on any root-to-leaf path (a second voter on the same path would not reach
    the vote threshold), so that every `gov` block really changes the system parameters of its branch."""
    by = {b["name"]: b for b in blocks}

    def anc(n):
        r = set()
        while n in by:
            r.add(n)
            n = by[n]["parent"]
        return r
    cand = [b for b in blocks if not b.get("bad") and b.get("no") is None and not b.get("forge")]
    rng.shuffle(cand)
    chosen = []
    for b in cand:
        if chosen and rng.random() >= pmore:
            break
        if any(b["name"] in anc(c["name"]) or c["name"] in anc(b["name"]) for c in chosen):
            continue
        # every ancestor must be executable, otherwise the block is never executed
        if any(by[a].get("bad") for a in anc(b["name"])):
            continue
        b["gov"] = rng.choice([10, 20, 30])
        chosen.append(b)
    return [b["name"] for b in chosen]


def add_wal(rng, case, pwal=0.5):
    """Consensus configuration with a write-ahead log (raftv2): HasWAL() is true, IsConnectedBlock is the raft one;
    the consensus pre-writes the body of some blocks (always of the ones it hands over with their block state)."""
    own = case.get("own") or [False] * len(case["arrivals"])
    case["haswal"] = True
    case["wal"] = [bool(o) or rng.random() < pwal for o in own]
    return case


def rnd_arrivals(rng, blocks, shuffle=0.5, dup=0.2):
    names = [b["name"] for b in blocks]
    order = list(names)
    r = rng.random()
    if r < shuffle:
        rng.shuffle(order)
    elif r < shuffle + 0.2 and len(order) > 1:
        i = rng.randrange(len(order) - 1)
        order[i], order[i + 1] = order[i + 1], order[i]
    if rng.random() < dup and order:
        order.insert(rng.randrange(len(order) + 1), rng.choice(names))
    return order


def two_branches(prefix, la, lb, bad_at=None, shared=True, txful=True):
    """G - p1..p_prefix, then branch A (la blocks) and branch B (lb blocks).  bad_at = (branch, idx, kind)."""
    blocks = []
    parent = "G"
    for i in range(prefix):
        blocks.append({"name": "p%d" % i, "parent": parent, "txs": [{"from": 0, "to": 1, "amt": 1}], "bad": ""})
        parent = "p%d" % i
    fork = parent
    for br, ln in (("A", la), ("B", lb)):
        parent = fork
        for i in range(ln):
            if i == 0:
                txs = [{"from": 1, "to": 2, "amt": 2}] if shared else [{"from": 1, "to": 2, "amt": 2 if br == "A" else 1}]
                if br == "A":
                    txs.append({"from": 2, "to": 0, "amt": 1})
            else:
                txs = [{"from": 2 if br == "A" else 0, "to": 1, "amt": 1}] if txful else []
            bad = ""
            if bad_at and bad_at[0] == br and bad_at[1] == i:
                bad = bad_at[2]
            blocks.append({"name": "%s%d" % (br, i), "parent": parent, "txs": txs, "bad": bad})
            parent = "%s%d" % (br, i)
    return blocks


def all_orders(names, limit=None):
    it = itertools.permutations(names)
    return list(itertools.islice(it, limit)) if limit else list(it)


# ------------------------------------------------------------------ translation to Coq
class Ids:
    def __init__(self):
        self.m = {"": 0}

    def __call__(self, h):
        if h is None:
            return 0
        if h not in self.m:
            self.m[h] = len(self.m)
        return self.m[h]


def coq_block(ids, b):
    return "(mkBlock %d %d %d %d [%s] %d)" % (ids(b["id"]), ids(b["digest"]), ids(b["prev"]), b["no"],
                                             ";".join(str(ids(t)) for t in b["txs"]), ids(b["root"]))


def params_no(pnames, s):
    """Number of a canonical system-parameter string (0-based, in order of first appearance)."""
    if s not in pnames:
        pnames.append(s)
    return pnames.index(s)


def flatten_step(ids, case, out, st, txuniv, nheights, pnames=None):
    names = [b["name"] for b in case["blocks"]]
    v = [RES[st["res"]], ids(st["best"]), st["bestno"], st["latest"] + 1 if st["latest"] >= 0 else 0, ids(st["sdbroot"])]
    hs = list(st["heights"])[:nheights]
    hs += [""] * (nheights - len(hs))
    v += [(ids(h) + 1) if h else 0 for h in hs]
    for t in txuniv:
        s = st["tx"].get(t, ["absent", "", 0])
        code = TXS[s[0]]
        v += [code, ids(s[1]) if code in (1, 2) else 0, s[2] if code in (1, 2) else 0]
        r = st["rawtx"].get(t)
        v += [1, ids(r[0]), r[1]] if r else [0, 0, 0]
    for nm in names:
        rc = st["rcpt"][nm]
        v += [1 if rc[0] else 0, RC[rc[1]], 1 if st["stored"][nm] else 0, 1 if st["bad"][nm] else 0,
              1 if nm in st["orphans"] else 0]
    v += [1 if st["marker"] else 0]
    put = set(st["put"])
    v += [1 if t in put else 0 for t in txuniv]
    v += [len(st["put"])]
    v += [ids(x) for x in st["del"]]
    v += [st["sync"]]
    # in-memory system parameters (0 when the engine does not report them)
    v += [(params_no(pnames, st["params"]) + 1) if (pnames is not None and st.get("params")) else 0]
    v += [(ids(st["anc"]) + 1) if st.get("anc") else 0]
    return v


def coq_case(case, out, f7_fixed):
    """One `mkCase ...` term for Corr.v.  Identifiers (hashes, roots, tx ids) are numbered in order of
    first appearance; the empty root is 0."""
    ids = Ids()
    g = out["genesis"]
    gblk = "(mkBlock %d %d 0 0 [] %d)" % (ids(g["id"]), ids(g["id"]), ids(g["root"]))
    names = [b["name"] for b in case["blocks"]]
    blocks = [out["blocks"][nm] for nm in names]
    txuniv = []
    for b in blocks:
        for t in b["txs"]:
            if t not in txuniv:
                txuniv.append(t)
    nheights = max([len(s["heights"]) for s in out["steps"]] + [1])
    nheights = min(nheights, 64)
    tbl = []
    for b in blocks:
        post = ("(Some %d)" % ids(b["apply_post"])) if b["apply_post"] else "None"
        tbl.append("((%d, %d), %s)" % (ids(b["apply_pre"]), ids(b["digest"]), post))
    libs = case.get("lib") or [0] * len(case["arrivals"])
    arr = ["(%d, %d%%nat)" % (l, names.index(a)) for l, a in zip(libs, case["arrivals"])]
    pre = case.get("pre") or ["ok"] * len(case["arrivals"])
    own = case.get("own") or [False] * len(case["arrivals"])
    wal = case.get("wal") or [False] * len(case["arrivals"])
    haswal = bool(case.get("haswal"))
    modes = [{"ok": 0, "ts": 1, "sign": 2}[p] + (4 if o else 0) + (8 if (w and haswal) else 0)
             for p, o, w in zip(pre, own, wal)]
    # system parameters stored in the state of each root (the engine reads them from the true post-state)
    pnames, ptbl = [], []
    if g.get("params"):
        ptbl.append("(%d, %d)" % (ids(g["root"]), params_no(pnames, g["params"])))
        for b in blocks:
            if b.get("apply_post") and b.get("params"):
                ptbl.append("(%d, %d)" % (ids(b["apply_post"]), params_no(pnames, b["params"])))
    else:
        pnames = None
    exp = [flatten_step(ids, case, out, st, txuniv, nheights, pnames) for st in out["steps"]]
    term = ("(mkCase %s [%s] [%s] [%s] [%s] [%s] %d%%nat %d%%nat %s %s %s %s [%s] [%s])" % (
        gblk, "; ".join(coq_block(ids, b) for b in blocks), "; ".join(tbl), "; ".join(arr), ";".join(str(x) for x in modes),
        ";".join(str(ids(t)) for t in txuniv), nheights, case.get("orphan_cap", 100),
        "true" if f7_fixed else "false", "true" if F27_FIXED else "false", "true" if F28_FIXED else "false",
        "true" if haswal else "false", "; ".join(ptbl),
        "; ".join("[" + ";".join(str(x) for x in row) + "]" for row in exp)))
    return term, exp, ids


HEADER = ["From Coq Require Import NArith List Bool.", "From Verif Require Import ChainDB.Model ChainDB.Corr.",
          "Import ListNotations.", "Open Scope N_scope."]


def model_diff(ctx, cases, outs, f7_fixed, tag, shard=150):
    """Evaluate the model on every case and compare with the engine's observations.
    Returns (ok, mismatching indices, detail)."""
    bad = []
    for s in range(0, len(cases), shard):
        terms = [coq_case(c, o, f7_fixed)[0] for c, o in zip(cases[s:s + shard], outs[s:s + shard])]
        txt = HEADER + ["Definition cases : list case := [%s]." % ";\n".join(terms),
                        "Definition M := Eval vm_compute in mismatches_from cases 0.", "Print M."]
        ok, idx, o = ctx.coq_eval_mismatches("%s_%d" % (tag, s // shard), "\n".join(txt))
        if not ok:
            return False, None, o[-2000:]
        bad += [s + i for i in idx]
    return True, bad, ""


def model_rows(ctx, case, out, f7_fixed, tag):
    """The model's own observation rows for one case (to show where it differs)."""
    term, exp, ids = coq_case(case, out, f7_fixed)
    txt = HEADER + ["Definition R := Eval vm_compute in run_case %s." % term, "Print R."]
    rc, o = ctx.coq_eval(tag, "\n".join(txt))
    rows = None
    if rc == 0:
        flat = " ".join(o.split())
        m = re.search(r"R = (\[.*\]) : list", flat)
        if m:
            rows = [[int(x) for x in re.findall(r"\d+", r)] for r in re.findall(r"\[([^\[\]]*)\]", m.group(1))]
    return rows, exp


def first_diff(rows, exp):
    if rows is None:
        return "model rows unavailable"
    for i, (a, b) in enumerate(zip(rows, exp)):
        if a != b:
            j = next((k for k in range(min(len(a), len(b))) if a[k] != b[k]), min(len(a), len(b)))
            return "step %d field %d: model %s impl %s (layout: res,best,bestno,latest,sdb,heights..,tx(6 each)..,blocks(5 each)..,marker,put..,nput,del..,sync,anc)" % (
                i, j, a[j:j + 4], b[j:j + 4])
    if len(rows) != len(exp):
        return "row count %d vs %d" % (len(rows), len(exp))
    return "no difference"


# ------------------------------------------------------------------ independent predicates (python side)
def tree_info(case, out):
    """name -> (parent name, valid-with-all-ancestors, depth-from-G numbering consistent)"""
    info = {}
    byname = {b["name"]: b for b in case["blocks"]}
    for b in case["blocks"]:
        p = b["parent"]
        ob = out["blocks"][b["name"]]
        pv, pno = (True, 0) if p == "G" else (info[p]["valid"], out["blocks"][p]["no"])
        executable = (b.get("bad", "") == "") and bool(ob["apply_post"]) and ob["apply_post"] == ob["root"]
        info[b["name"]] = {"parent": p, "valid": pv and executable and ob["no"] == pno + 1 and not b.get("forge"),
                           "no": ob["no"]}
    return info


def path_to(case, name):
    byname = {b["name"]: b for b in case["blocks"]}
    p = []
    while name != "G":
        p.append(name)
        name = byname[name]["parent"]
    return list(reversed(p))


def longest_available(case, out, step_idx, libs):
    """Highest block number among stored blocks whose whole ancestry is stored and valid and whose fork
    point with the main chain (heights of this step) is >= LIB.  Independent of the model."""
    st = out["steps"][step_idx]
    info = tree_info(case, out)
    id2name = {out["blocks"][n]["id"]: n for n in out["blocks"]}
    main = set(h for h in st["heights"] if h)
    best = 0
    who = None
    for nm, inf in info.items():
        if not inf["valid"] or not st["stored"][nm]:
            continue
        pth = path_to(case, nm)
        if not all(st["stored"][x] for x in pth):
            continue
        fork_no = 0
        for x in pth:
            if out["blocks"][x]["id"] in main:
                fork_no = out["blocks"][x]["no"]
        if fork_no < libs[step_idx] and out["blocks"][nm]["id"] not in main:
            continue
        if inf["no"] > best:
            best, who = inf["no"], nm
    return best, who


# ------------------------------------------------------------------ C07: a real MemPool behind the MemPoolDel/MemPoolPut trace
def build_pool_engine(ctx):
    rc, log, path = ctx.go_test_binary("mempool", [os.path.join(E, "zz_verif_c07pool_engine_test.go")], "c07pool.test")
    if rc != 0:
        raise RuntimeError("C07 pool engine build failed:\n" + log[-4000:])
    return path


def run_pool_engine(ctx, path, scripts, tag):
    fin = os.path.join(ctx.workdir, tag + ".in")
    fout = os.path.join(ctx.workdir, tag + ".out")
    with open(fin, "w") as f:
        for c in scripts:
            f.write(json.dumps(c) + "\n")
    if os.path.exists(fout):
        os.remove(fout)
    rc, log = ctx.run_bin(path, ["-test.run", "TestVerifC07PoolEngine"], env={"VERIF_IN": fin, "VERIF_OUT": fout}, timeout=600)
    if rc != 0 or not os.path.exists(fout):
        raise RuntimeError("C07 pool engine failed (rc=%s):\n%s" % (rc, log[-3000:]))
    outs = [json.loads(l) for l in open(fout)]
    if len(outs) != len(scripts):
        raise RuntimeError("C07 pool engine: %d outputs for %d scripts" % (len(outs), len(scripts)))
    return outs


def pool_scripts(case, out):
    """The message trace of one chain-engine case as scripts for the pool engine (two orders of the re-submitted
    transactions: swapTxMapping ranges over a Go map).  Only cases without invalid blocks / forged numbers."""
    if any(b.get("bad") or b.get("no") is not None or b.get("forge") or b.get("gov") for b in case["blocks"]):
        return []
    na = case.get("naccts", 3)
    byname = {b["name"]: b for b in case["blocks"]}
    nonces = {"G": [0] * na}
    blocks, txof = [], {}
    for b in case["blocks"]:
        cur = list(nonces[b["parent"]])
        txs = []
        for i, t in enumerate(b["txs"]):
            cur[t["from"]] += 1
            x = {"from": t["from"], "to": t["to"], "amt": t["amt"], "nonce": cur[t["from"]]}
            txs.append(x)
            txof[out["blocks"][b["name"]]["txs"][i]] = x
        nonces[b["name"]] = cur
        blocks.append({"name": b["name"], "parent": b["parent"], "txs": txs})
    id2name = {out["blocks"][n]["id"]: n for n in out["blocks"]}
    top = [max([0] + [x["nonce"] for bl in blocks for x in bl["txs"] if x["from"] == a]) for a in range(na)]
    preload = []
    for a in range(na):
        for d in (1, 2):
            preload.append({"from": a, "to": (a + 1) % na, "amt": 1, "nonce": top[a] + d})
    res = []
    for order in ("asc", "desc"):
        steps = []
        for st in out["steps"]:
            puts = [txof[h] for h in st["put"] if h in txof]
            puts.sort(key=lambda x: (x["nonce"], x["from"]), reverse=(order == "desc"))
            steps.append({"dels": [id2name[d] for d in st["del"] if d in id2name], "puts": puts})
        res.append({"id": "%s/%s" % (case["id"], order), "naccts": na, "blocks": blocks, "preload": preload, "steps": steps})
    return res


def dpos_restart_family(ctx):
    """C06 on the consensus side ("same final state as a run without the crash"): the real dpos.Status (g5's engine
    harness/engines/dposlib, driven in ChainService's call order) is restarted (NewStatus / bootLoader / libStatus.load:
    the confirmation list is replayed from begRecoBlockNo) after one producer made L blocks alone behind blocks of other
    producers, then the other producers return with wide confirm ranges.  Every scenario is run twice, with and without
    the restart; predicate: the sequence of LIB numbers after every delivery is the same.  L stays below 3*confirmsRequired
    (the documented replay window: at and beyond it the restored proposals legitimately differ, C08's known finding F45).
    Returns [{"key", "what", "replay"}], empty on an unchanged tree."""
    import c08gen as G
    from c08election import _c08
    c08 = _c08()
    eng = os.path.join(vf.HARNESS, "engines/dposlib")
    rc, log, binpath = ctx.go_test_binary(
        "consensus/impl/dpos", [os.path.join(eng, "zz_verif_c08_engine_test.go"),
                                os.path.join(eng, "zz_verif_c08_election_engine_test.go")], "dpos_c06.test")
    if rc != 0:
        raise RuntimeError("dpos engine build failed:\n" + log[-3000:])

    def scen(n, pre, L, tail, restart):
        t = G.Tree()
        tip = 0
        for bp in pre + [1] * L:
            tip = t.mk(tip, bp)
            t.ops.append(["D", 0, tip])
        if restart:
            t.ops.append(["R", 0])
        for bp in tail:
            tip = t.mk(tip, bp)
            t.ops.append(["D", 0, tip])
        return {"n": n, "nodes": 1, "self": [-1], "ops": t.ops}
    fam = []
    for n in ((3, 4) if ctx.tier == "quick" else (3, 4, 5, 7)):      # the engine has 8 producer keys
        cr = 2 * n // 3 + 1
        for L in range(1, 3 * cr):
            for pre in ([0], [2 % n, 0], [0, 2 % n, 0]):
                fam.append((n, pre, L, [(2 + i) % n for i in range(2 * n)]))
    sc = []
    for f in fam:
        sc.append(scen(*f, False))
        sc.append(scen(*f, True))
    obs = c08.run_engine(ctx, binpath, sc, "c06_dpos_restart")
    out = []
    for i, f in enumerate(fam):
        a = [o["state"]["lib_no"] for o in obs[2 * i] if o["op"] == "D"]
        b = [o["state"]["lib_no"] for o in obs[2 * i + 1] if o["op"] == "D"]
        if a != b:
            k = next(j for j in range(min(len(a), len(b))) if a[j] != b[j])
            out.append({"key": "%s:dpos-lib-differs-after-restart" % ctx.id,
                        "what": "DPoS status restarted after producer 1 made %d blocks alone (n=%d, confirmsRequired=%d): after delivery %d the LIB is %d, "
                                "%d in the run without the restart (the boot-time replay of the confirmation list forgot unconfirmed blocks)"
                                % (f[2], f[0], 2 * f[0] // 3 + 1, k, b[k], a[k]),
                        "replay": {"scenario_with_restart": sc[2 * i + 1], "lib_without_restart": a, "lib_with_restart": b}})
    dist = ctx.cov.setdefault("input_distribution", {})
    dist["dpos_restart_pairs"] = len(fam)
    return out

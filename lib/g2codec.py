"""Case generators, engine drivers and model evaluation for C19 (group g2-codec)."""
import hashlib
import json
import os
import re

import vf

ENG = os.path.join(vf.HARNESS, "engines", "codec")

HEADER_FIELDS = ["ChainID", "PrevBlockHash", "BlockNo", "Timestamp", "BlocksRootHash", "TxsRootHash",
                 "ReceiptsRootHash", "Confirms", "PubKey", "CoinbaseAccount", "Sign", "Consensus"]
# json key of the engine for each header field
HJ = {"ChainID": "ChainID", "PrevBlockHash": "Prev", "BlockNo": "BlockNo", "Timestamp": "Timestamp",
      "BlocksRootHash": "BlocksRoot", "TxsRootHash": "TxsRoot", "ReceiptsRootHash": "ReceiptsRoot",
      "Confirms": "Confirms", "PubKey": "PubKey", "CoinbaseAccount": "Coinbase", "Sign": "Sign", "Consensus": "Consensus"}
HINT = {"BlockNo": "u64", "Confirms": "u64", "Timestamp": "i64"}
TX_FIELDS = ["Nonce", "Account", "Recipient", "Amount", "Payload", "GasLimit", "GasPrice", "Type", "ChainIdHash", "Sign"]
TINT = {"Nonce": "u64", "GasLimit": "u64", "Type": "i32"}
TX_TYPES = list(range(0, 8))   # NORMAL GOVERNANCE REDEPLOY FEEDELEGATION TRANSFER CALL DEPLOY MULTICALL


class State:
    def __init__(self, ctx):
        self.ctx = ctx
        self.evals = 0
        self.nontrivial = set()
        self.dist = {}
        self.findings = []      # (key, what, case)  direct-predicate failures on the implementation
        self.corr_broken = []   # (what, cases)
        self.aliasing_notes = set()
        self.getreceipt_repaired = False
        self.witnesses = {}     # refuted statement -> (reproduced on the real code?, how)
        self.fams = []          # (name, coq type, ok function, [coq item], [source case], preamble)
        self.rules = []

    def add_family(self, name, typ, ok, items, sources, preamble=""):
        self.fams.append((name, typ, ok, items, sources, preamble))
        self.evals += len(items)
        self.dist[name] = self.dist.get(name, 0) + len(items)

    def fail(self, key, what, case):
        self.findings.append((key, what, case))

    def rule(self):
        return "; ".join(self.rules)


# ------------------------------------------------------------------ coq literals
def cb(b):
    """bytes -> Coq term of type `bytes` (compact: seven bytes per primitive int, see Common/Lit.v:pk)."""
    b = bytes(b)
    if len(b) <= 3:
        return "[" + ";".join(str(x) for x in b) + "]"
    words = []
    for i in range(0, len(b), 7):
        ch = b[i:i + 7]
        words.append(str(int.from_bytes(ch + bytes(7 - len(ch)), "big")))
    return "(pk %d%%nat [%s]%%uint63)" % (len(b), ";".join(words))


def cZ(n):
    return "(%d)%%Z" % n


def cbool(b):
    return "true" if b else "false"


def coq_header(h):
    return "(mk_header %s %s %d %s %s %s %s %d %s %s %s %s)" % (
        cb(h["ChainID"]), cb(h["PrevBlockHash"]), h["BlockNo"], cZ(h["Timestamp"]), cb(h["BlocksRootHash"]),
        cb(h["TxsRootHash"]), cb(h["ReceiptsRootHash"]), h["Confirms"], cb(h["PubKey"]), cb(h["CoinbaseAccount"]),
        cb(h["Sign"]), cb(h["Consensus"]))


def coq_tx(t):
    return "(mk_txbody %d %s %s %s %s %d %s %s %s %s)" % (
        t["Nonce"], cb(t["Account"]), cb(t["Recipient"]), cb(t["Amount"]), cb(t["Payload"]), t["GasLimit"],
        cb(t["GasPrice"]), cZ(t["Type"]), cb(t["ChainIdHash"]), cb(t["Sign"]))


def json_header(h, hashfield=b""):
    d = {}
    for f in HEADER_FIELDS:
        d[HJ[f]] = h[f] if f in HINT else h[f].hex()
    d["Hash"] = hashfield.hex()
    return d


def json_tx(t):
    return {f: (t[f] if f in TINT else t[f].hex()) for f in TX_FIELDS}


# ------------------------------------------------------------------ generators
def rbytes(rng, n):
    return bytes(rng.randrange(256) for _ in range(n))


def rlen(rng, typical):
    r = rng.random()
    if r < 0.5:
        return typical
    if r < 0.6:
        return 0
    if r < 0.8:
        return rng.choice([1, 31, 32, 33, 34, 64, 65, 255, 256, 257])      # boundary lengths
    return rng.randrange(0, 41)


def rint(rng, kind):
    lo, hi = {"u64": (0, 2 ** 64 - 1), "i64": (-2 ** 63, 2 ** 63 - 1), "i32": (-2 ** 31, 2 ** 31 - 1)}[kind]
    r = rng.random()
    if r < 0.15:
        return rng.choice([lo, hi, 0, 1, hi - 1, lo + 1, 255, 256, 2 ** 32 - 1, 2 ** 32]) if kind != "i32" else rng.choice([lo, hi, 0, 1, 6, -1])
    if r < 0.6:
        return rng.randrange(0, 1000)
    return rng.randrange(lo, hi + 1)


def rand_header(rng):
    return {"ChainID": rbytes(rng, rlen(rng, 20)), "PrevBlockHash": rbytes(rng, rlen(rng, 32)), "BlockNo": rint(rng, "u64"),
            "Timestamp": rint(rng, "i64"), "BlocksRootHash": rbytes(rng, rlen(rng, 32)), "TxsRootHash": rbytes(rng, rlen(rng, 32)),
            "ReceiptsRootHash": rbytes(rng, rlen(rng, 32)), "Confirms": rint(rng, "u64"), "PubKey": rbytes(rng, rlen(rng, 37)),
            "CoinbaseAccount": rbytes(rng, rlen(rng, 33)), "Sign": rbytes(rng, rlen(rng, 70)), "Consensus": rbytes(rng, rlen(rng, 0))}


def rand_tx(rng):
    return {"Nonce": rint(rng, "u64"), "Account": rbytes(rng, rlen(rng, 33)), "Recipient": rbytes(rng, rlen(rng, 33)),
            "Amount": rbytes(rng, rlen(rng, 8)), "Payload": rbytes(rng, rlen(rng, 10)), "GasLimit": rint(rng, "u64"),
            "GasPrice": rbytes(rng, rlen(rng, 4)), "Type": rng.choice(TX_TYPES) if rng.random() < 0.7 else rint(rng, "i32"), "ChainIdHash": rbytes(rng, rlen(rng, 32)),
            "Sign": rbytes(rng, rlen(rng, 70))}


def mutate_bytes(rng, b):
    """A different byte string: flip / append / prepend / truncate / empty / random."""
    while True:
        k = rng.randrange(6)
        if k == 0 and b:
            i = rng.randrange(len(b))
            c = b[:i] + bytes([b[i] ^ (1 << rng.randrange(8))]) + b[i + 1:]
        elif k == 1:
            c = b + bytes([rng.randrange(256)])
        elif k == 2:
            c = bytes([rng.randrange(256)]) + b
        elif k == 3 and b:
            c = b[:-1]
        elif k == 4:
            c = b""
        else:
            c = rbytes(rng, rng.randrange(0, 40))
        if c != b:
            return c


def mutate_int(rng, v, kind):
    lo, hi = {"u64": (0, 2 ** 64 - 1), "i64": (-2 ** 63, 2 ** 63 - 1), "i32": (-2 ** 31, 2 ** 31 - 1)}[kind]
    while True:
        k = rng.randrange(5)
        if k == 0:
            c = v + 1
        elif k == 1:
            c = v - 1
        elif k == 2:
            c = v ^ (1 << rng.randrange(64 if kind != "i32" else 31))
        elif k == 3:
            c = v + 256 ** rng.randrange(1, 8 if kind != "i32" else 4)
        else:
            c = rint(rng, kind)
        if lo <= c <= hi and c != v:
            return c


def mutate_record(rng, rec, f, ints):
    m = dict(rec)
    m[f] = mutate_int(rng, rec[f], ints[f]) if f in ints else mutate_bytes(rng, rec[f])
    return m


# ------------------------------------------------------------------ engines
def build_engine(ctx, pkg, files, out):
    rc, log, path = ctx.go_test_binary(pkg, [os.path.join(ENG, f) for f in files], out, use_overlay=False)
    if rc != 0:
        raise RuntimeError("%s engine build failed:\n%s" % (pkg, log[-3000:]))
    return path


def run_engine(ctx, binpath, test, cases, tag, env=None, tolerate_rc=False):
    fin = os.path.join(ctx.workdir, tag + ".in")
    fout = os.path.join(ctx.workdir, tag + ".out")
    with open(fin, "w") as f:
        for c in cases:
            f.write(json.dumps(c) + "\n")
    if os.path.exists(fout):
        os.remove(fout)
    e = {"VERIF_IN": fin, "VERIF_OUT": fout}
    if env:
        e.update(env)
    rc, log = ctx.run_bin(binpath, ["-test.run", test], env=e)
    if tolerate_rc:
        STATE_RACES[:] = re.findall(r"WARNING: DATA RACE.*?={10,}", log, re.S)
        try:
            return [json.loads(l) for l in open(fout)]
        except (OSError, ValueError):
            return []
    if rc != 0:
        raise RuntimeError("%s engine failed:\n%s" % (tag, log[-3000:]))
    obs = [json.loads(l) for l in open(fout)]
    if len(obs) != len(cases):
        raise RuntimeError("%s engine: %d observations for %d cases" % (tag, len(obs), len(cases)))
    return obs


STATE_RACES = []


def hb(s):
    return bytes.fromhex(s) if s else b""


# ------------------------------------------------------------------ headers and transactions
def header_corpus():
    z = {"ChainID": b"", "PrevBlockHash": b"", "BlockNo": 0, "Timestamp": 0, "BlocksRootHash": b"", "TxsRootHash": b"",
         "ReceiptsRootHash": b"", "Confirms": 0, "PubKey": b"", "CoinbaseAccount": b"", "Sign": b"", "Consensus": b""}
    a = dict(z, ChainID=b"\x03\x00\x00\x00\x01\x00dev.chain/dpos", PrevBlockHash=bytes(range(32)), BlockNo=2 ** 64 - 1,
             Timestamp=-2 ** 63, BlocksRootHash=bytes(32), TxsRootHash=b"\xff" * 32, ReceiptsRootHash=bytes(range(32, 64)),
             Confirms=2 ** 63, PubKey=b"\x08\x02\x12\x21" + bytes(33), CoinbaseAccount=b"\x02" + bytes(32), Sign=b"\x30" * 70,
             Consensus=b"\x01")
    b = dict(a, Timestamp=2 ** 63 - 1, BlockNo=256, Confirms=1)
    return [z, a, b]


def tx_corpus():
    z = {"Nonce": 0, "Account": b"", "Recipient": b"", "Amount": b"", "Payload": b"", "GasLimit": 0, "GasPrice": b"",
         "Type": 0, "ChainIdHash": b"", "Sign": b""}
    a = dict(z, Nonce=2 ** 64 - 1, Account=b"\x02" + bytes(32), Recipient=b"aergo.system", Amount=b"\x0d\xe0\xb6\xb3\xa7\x64\x00\x00",
             Payload=b'{"Name":"v1stake"}', GasLimit=2 ** 64 - 1, GasPrice=b"\x01", Type=-2 ** 31, ChainIdHash=bytes(range(32)), Sign=b"\x30" * 71)
    b = dict(a, Type=2 ** 31 - 1, Nonce=1)
    return [z, a, b] + [dict(a, Type=t, Nonce=t + 1) for t in TX_TYPES]


def run_types_engine(ctx, st):
    rng = ctx.rng
    quick = ctx.tier == "quick"
    binpath = build_engine(ctx, "types", ["zz_verif_codec_engine_test.go"], "codec_types.test")
    st.types_bin = binpath
    cases, meta = [], []
    # headers: base + one mutant per field (+ more in thorough)
    bases = header_corpus() + [rand_header(rng) for _ in range(12 if quick else 150)]
    for bi, base in enumerate(bases):
        cases.append({"kind": "H", "h": json_header(base)})
        meta.append(("H", bi, None, base))
        for f in HEADER_FIELDS:
            for _ in range(1 if quick else 3):
                m = mutate_record(rng, base, f, HINT)
                cases.append({"kind": "H", "h": json_header(m)})
                meta.append(("H", bi, f, m))
    # byte fields aliasing BY VALUE: a field that was empty when the header was signed set to a copy of the signature, of the
    # public key, of another field; two fields swapped; plus the same with empty-non-nil instead of nil slices.  (A writer that
    # selects or omits a field by comparing contents instead of by position is invisible to random / bit-flip mutations.)
    byte_fields = [f for f in HEADER_FIELDS if f not in HINT]
    nb = len(bases)
    alias_bases = [header_corpus()[1]] + [dict(rand_header(rng), Sign=rbytes(rng, 70), PubKey=rbytes(rng, 37), CoinbaseAccount=rbytes(rng, 33),
                                                PrevBlockHash=rbytes(rng, 32)) for _ in range(1 if quick else 10)]
    for full in alias_bases:
        for f in byte_fields:
            base = dict(full)
            if f != "Sign":
                base[f] = b""              # e.g. Consensus of an sbp/raft block, CoinbaseAccount when none is configured
            bi = nb
            nb += 1
            cases.append({"kind": "H", "h": dict(json_header(base), EmptyNotNil=(bi % 2 == 1))})
            meta.append(("H", bi, None, base))
            srcs = ["Sign", "PubKey", rng.choice([g for g in byte_fields if g not in (f, "Sign", "PubKey")])]
            for g in srcs:
                if g == f or not full[g] or full[g] == base[f]:
                    continue
                m = dict(base)
                m[f] = bytes(full[g])     # a copy: equal by value to another field of the same header
                cases.append({"kind": "H", "h": dict(json_header(m), EmptyNotNil=(bi % 2 == 1))})
                meta.append(("H", bi, f, m))
    tbases = tx_corpus() + [rand_tx(rng) for _ in range(3 if quick else 40)]
    for bi, base in enumerate(tbases):
        cases.append({"kind": "T", "t": json_tx(base)})
        meta.append(("T", bi, None, base))
        for f in TX_FIELDS:
            m = mutate_record(rng, base, f, TINT)
            cases.append({"kind": "T", "t": json_tx(m)})
            meta.append(("T", bi, f, m))
    obs = run_engine(ctx, binpath, "TestVerifCodecEngine", cases, "types")
    st.types_cases, st.types_meta, st.types_obs = cases, meta, obs

    # ---- direct predicates on the implementation + model items
    hitems, hsrc, hhash_items, hhash_src = [], [], [], []
    titems, tsrc = [], []
    base_obs = {}
    for (kind, bi, f, rec), o in zip(meta, obs):
        if kind == "H":
            if o.get("err"):
                st.fail("C19:header-writer-error", "writeBlockHeader returned an error", {"header": json_header(rec), "err": o["err"]})
            if f is None:
                base_obs[("H", bi)] = (rec, o)
                if o.get("full_again") != o["full"]:
                    st.fail("C19:header-mutated-by-writer", "the header is different after the digest writers / hash functions ran", json_header(rec))
                if hashlib.sha256(hb(o["full"])).hexdigest() != o["calc"]:
                    st.fail("C19:blockhash-not-sha256-of-writer", "calculateBlockHash is not sha256 of writeBlockHeader output", json_header(rec))
            else:
                brec, bo = base_obs[("H", bi)]
                case = {"field": f, "base": json_header(brec), "mutant": json_header(rec)}
                if o["full"] == bo["full"]:
                    st.fail("C19:identifier-input-misses-" + f, "block identifier input does not change when header field %s changes" % f, case)
                if o["calc"] == bo["calc"]:
                    st.fail("C19:identifier-misses-" + f, "block identifier does not change when header field %s changes" % f, case)
                if f == "Sign":
                    if o["nosign"] != bo["nosign"]:
                        st.fail("C19:signed-input-depends-on-sign", "signed header digest input depends on Sign", case)
                elif o["nosign"] == bo["nosign"]:
                    st.fail("C19:signed-input-misses-" + f, "signed header digest input does not cover header field %s" % f, case)
                st.nontrivial.add(("H", f, len(rec[f]) if f not in HINT else "int"))
            hitems.append("(%s, %s, %s)" % (coq_header(rec), cb(hb(o["full"])), cb(hb(o["nosign"]))))
            hsrc.append({"header": json_header(rec), "obs": o})
            if f is None and len(hhash_items) < (6 if quick else 40):
                hhash_items.append("(%s, %s)" % (coq_header(rec), cb(hb(o["calc"]))))
                hhash_src.append({"header": json_header(rec), "obs": o})
        elif kind == "T":
            if o.get("hash_again") != o["hash"]:
                st.fail("C19:tx-mutated-by-hash", "CalculateTxHash changes the transaction it hashes", json_tx(rec))
            if f is None:
                base_obs[("T", bi)] = (rec, o)
            else:
                brec, bo = base_obs[("T", bi)]
                if o["hash"] == bo["hash"]:
                    st.fail("C19:tx-identifier-misses-" + f, "transaction identifier does not change when field %s changes" % f,
                            {"field": f, "base": json_tx(brec), "mutant": json_tx(rec)})
                st.nontrivial.add(("T", f, len(rec[f]) if f not in TINT else "int"))
            titems.append("(%s, %s)" % (coq_tx(rec), cb(hb(o["hash"]))))
            tsrc.append({"tx": json_tx(rec), "obs": o})
    st.add_family("header_preimages", "header * bytes * bytes", "header_case_ok", hitems, hsrc)
    st.add_family("header_hash", "header * bytes",
                  "(fun c : header * bytes => let '(h, d) := c in bytes_eqb (block_hash sha256 h) d)", hhash_items, hhash_src)
    st.add_family("tx_hash", "txbody * bytes",
                  "(fun c : txbody * bytes => let '(t, d) := c in bytes_eqb (tx_hash sha256 t) d)", titems, tsrc)
    st.rules.append("value-alias headers: each byte field emptied then set to a copy of Sign / PubKey / another field (nil and empty-non-nil); "
                    "headers/txs: corpus + random records, each with every field mutated once (flip/append/prepend/truncate/empty/"
                    "random bytes; +-1/bit/256^k/random ints); distinct = (record kind, mutated field, new length) classes")
    ctx.sample({"header_case": hsrc[1]["header"], "full_preimage": hsrc[1]["obs"]["full"][:80] + "..."})


# ------------------------------------------------------------------ receipts
STATUS = {"SUCCESS": "RSuccess", "CREATED": "RCreated", "ERROR": "RError", "RECREATED": "RRecreated"}


def coq_event(e):
    return "(mk_event %s %s %s %s %s %s %d %s)" % (cb(e["addr"]), cb(e["name"]), cb(e["args"]), cZ(e["idx"]), cb(e["txhash"]),
                                                   cb(e["blockhash"]), e["blockno"], cZ(e["txindex"]))


def coq_receipt(r):
    return "(mk_receipt %s %s %s %s %s %s %s [%s] %d %s)" % (
        cb(r["addr"]), STATUS.get(r["status"], "ROther"), cb(r["ret"]), cb(r["txhash"]), cb(r["fee"]), cb(r["cumfee"]),
        cb(r["bloom"]), "; ".join(coq_event(e) for e in r["events"]), r["gas"], cbool(r["feedeleg"]))


def json_receipt(r):
    return {"Addr": r["addr"].hex(), "Status": r["status"], "Ret": r["ret"].hex(), "TxHash": r["txhash"].hex(), "Fee": r["fee"].hex(),
            "CumFee": r["cumfee"].hex(), "Bloom": r["bloom"].hex(), "GasUsed": r["gas"], "FeeDeleg": r["feedeleg"],
            "Events": [{"Addr": e["addr"].hex(), "Name": e["name"].hex(), "Args": e["args"].hex(), "Idx": e["idx"],
                        "TxHash": e["txhash"].hex(), "BlockHash": e["blockhash"].hex(), "BlockNo": e["blockno"], "TxIndex": e["txindex"]}
                       for e in r["events"]]}


def receipt_from_json(j):
    return {"addr": hb(j["Addr"]), "status": j["Status"], "ret": hb(j["Ret"]), "txhash": hb(j["TxHash"]), "fee": hb(j["Fee"]),
            "cumfee": hb(j["CumFee"]), "bloom": hb(j["Bloom"]), "gas": j["GasUsed"], "feedeleg": j["FeeDeleg"],
            "events": [{"addr": hb(e["Addr"]), "name": hb(e["Name"]), "args": hb(e["Args"]), "idx": e["Idx"], "txhash": hb(e["TxHash"]),
                        "blockhash": hb(e["BlockHash"]), "blockno": e["BlockNo"], "txindex": e["TxIndex"]} for e in j["Events"]]}


def rand_event(rng, raddr, wf=True, memory=False):
    k = rng.random()
    if k < 0.5:
        addr = raddr
    else:
        addr = bytes([rng.randrange(1, 256)]) + rbytes(rng, 32)
    if not wf and rng.random() < 0.5:
        addr = rng.choice([b"", bytes(33), rbytes(rng, rng.randrange(0, 40)), b"\x00" + rbytes(rng, 32)])
    e = {"addr": addr, "name": rbytes(rng, rng.choice([0, 1, 5, 12])), "args": rbytes(rng, rng.choice([0, 2, 9, 40])),
         "idx": rng.choice([0, 1, 2, 2 ** 31 - 1, -1, -2 ** 31, rng.randrange(0, 100)]),
         "txhash": b"", "blockhash": b"", "blockno": 0, "txindex": 0}
    if memory:
        e.update(txhash=rbytes(rng, 32), blockhash=rbytes(rng, 32), blockno=rng.randrange(0, 2 ** 64), txindex=rng.randrange(0, 1000))
    return e


def rand_receipt(rng, wf=True, memory=False):
    addr = rbytes(rng, 33)
    r = {"addr": addr, "status": rng.choice(list(STATUS)), "ret": rbytes(rng, rng.choice([0, 0, 2, 17, 70])), "txhash": rbytes(rng, 32),
         "fee": rbytes(rng, rng.choice([0, 1, 8, 9])), "cumfee": b"", "bloom": rng.choice([b"", b"", rbytes(rng, 256)]),
         "gas": rng.choice([0, 1, 77, 2 ** 64 - 1, rng.randrange(0, 2 ** 40)]), "feedeleg": rng.random() < 0.4, "events": []}
    for _ in range(rng.choice([0, 0, 1, 2, 3])):
        r["events"].append(rand_event(rng, addr, wf, memory))
    if not wf:
        k = rng.randrange(7)
        if k == 0:
            r["addr"] = rbytes(rng, rng.choice([0, 5, 32, 34, 40]))
        elif k == 1:
            r["status"] = rng.choice(["", "FOO", "success"])
        elif k == 2:
            r["txhash"] = rbytes(rng, rng.choice([0, 5, 31, 33]))
        elif k == 3:
            r["cumfee"] = rbytes(rng, rng.choice([1, 2, 8]))
        elif k == 4:
            r["bloom"] = rbytes(rng, rng.choice([1, 7, 255, 257]))
        # 5, 6: only the events are ill-formed
    return r


RECEIPT_FIELDS_V2 = ["addr", "status", "ret", "txhash", "fee", "cumfee", "gas", "feedeleg", "bloom", "events"]


def mutate_receipt(rng, r, f):
    """A well-formed receipt differing from r in the single field f."""
    m = dict(r)
    m["events"] = [dict(e) for e in r["events"]]
    if f == "addr":
        m["addr"] = mutate_fixed(rng, r["addr"])
        for e, e0 in zip(m["events"], r["events"]):
            if e0["addr"] == r["addr"]:
                e["addr"] = e0["addr"] if e0["addr"][0] != 0 else e0["addr"]
    elif f == "status":
        m["status"] = rng.choice([x for x in STATUS if x != r["status"]])
    elif f in ("ret", "fee"):
        m[f] = mutate_bytes(rng, r[f])
    elif f == "txhash":
        m["txhash"] = mutate_fixed(rng, r["txhash"])
    elif f == "cumfee":
        m["cumfee"] = mutate_bytes(rng, r["cumfee"])
    elif f == "gas":
        m["gas"] = mutate_int(rng, r["gas"], "u64")
    elif f == "feedeleg":
        m["feedeleg"] = not r["feedeleg"]
    elif f == "bloom":
        m["bloom"] = b"" if r["bloom"] else rbytes(rng, 256)
        if r["bloom"] and rng.random() < 0.5:
            m["bloom"] = mutate_fixed(rng, r["bloom"])
    elif f == "events":
        k = rng.randrange(4)
        if k == 0 or not m["events"]:
            m["events"].append(rand_event(rng, r["addr"]))
        elif k == 1:
            m["events"].pop()
        elif k == 2:
            e = m["events"][rng.randrange(len(m["events"]))]
            e[rng.choice(["name", "args"])] = mutate_bytes(rng, e["name"])
            if e["name"] == r["events"][m["events"].index(e)]["name"] and e["args"] == r["events"][m["events"].index(e)]["args"]:
                e["name"] = e["name"] + b"x"
        else:
            e = m["events"][rng.randrange(len(m["events"]))]
            e["idx"] = e["idx"] + 1 if e["idx"] < 2 ** 31 - 1 else 0
    return m


def mutate_fixed(rng, b):
    i = rng.randrange(len(b))
    return b[:i] + bytes([b[i] ^ (1 << rng.randrange(8))]) + b[i + 1:]


def opt_coq_bytes(s):
    return "None" if s is None else "(Some %s)" % cb(hb(s))


def receipts_family(ctx, st):
    rng = ctx.rng
    quick = ctx.tier == "quick"
    cases, meta = [], []
    # corpus: F17 witness (fee delegation receipt), a CumulativeFeeUsed receipt, empty-ish receipts
    base_addr = bytes(range(1, 34))
    f17 = {"addr": base_addr, "status": "SUCCESS", "ret": b"{}", "txhash": bytes(range(32)), "fee": b"\x01", "cumfee": b"", "bloom": b"",
           "gas": 12345, "feedeleg": True, "events": []}
    corpus = [f17, dict(f17, feedeleg=False, gas=0), dict(f17, status="ERROR", ret=b"boom"), dict(f17, cumfee=b"\x07\x08"),
              dict(f17, events=[rand_event(rng, base_addr), {"addr": b"\x00" + bytes(32), "name": b"n", "args": b"[]", "idx": 1,
                                                            "txhash": b"", "blockhash": b"", "blockno": 0, "txindex": 0}])]
    singles = corpus + [rand_receipt(rng, True, rng.random() < 0.3) for _ in range(25 if quick else 400)] \
        + [rand_receipt(rng, False) for _ in range(20 if quick else 300)]
    for r in singles:
        cases.append({"kind": "R", "ver": 2, "r": json_receipt(r)})
        meta.append(("R", r, None, None))
    # single-field mutations of well-formed receipts (merkle leaf binding on the implementation)
    for bi in range(4 if quick else 60):
        base = rand_receipt(rng, True)
        cases.append({"kind": "R", "ver": 2, "r": json_receipt(base)})
        meta.append(("RB", base, bi, None))
        for f in RECEIPT_FIELDS_V2:
            if f == "cumfee":
                continue
            m = mutate_receipt(rng, base, f)
            cases.append({"kind": "R", "ver": 2, "r": json_receipt(m)})
            meta.append(("RM", m, bi, f))
    # receipt lists
    nlists = 0
    for ver in range(0, 6):
        for hasbloom in (False, True):
            for n in ([0, 1, 3] if quick else [0, 1, 2, 3, 4, 5, 8]):
                rs = [rand_receipt(rng, True) for _ in range(n)]
                keys = [rbytes(rng, rng.randrange(1, 20)) for _ in range(rng.randrange(0, 4))]
                cases.append({"kind": "RS", "ver": ver, "hasbloom": hasbloom, "bloomkeys": [k.hex() for k in keys], "rs": [json_receipt(r) for r in rs]})
                meta.append(("RS", rs, ver, hasbloom))
                nlists += 1
    obs = run_engine(ctx, st.types_bin, "TestVerifCodecEngine", cases, "receipts")
    ritems, rsrc, lsitems, lssrc = [], [], [], []
    bases = {}
    for (kind, rec, a, b), o, c in zip(meta, obs, cases):
        if kind in ("R", "RB", "RM"):
            def dec(key):
                if key in o and o.get(key + "_rest_ok"):
                    return "(Some %s)" % coq_receipt(receipt_from_json(o[key]))
                return "None"
            ritems.append("(%s, (%s, %s, %s, %s), (%s, %s))" % (coq_receipt(rec), opt_coq_bytes(o.get("s1")), opt_coq_bytes(o.get("s2")),
                                                               opt_coq_bytes(o.get("m1")), opt_coq_bytes(o.get("m2")), dec("d1"), dec("d2")))
            rsrc.append({"receipt": c["r"], "obs": {k: (v if not isinstance(v, str) or len(v) < 200 else v[:200] + "...") for k, v in o.items()}})
            if "input_after" in o and receipt_from_json(o["input_after"]) != rec:
                st.fail("C19:receipt-mutated-by-codec", "a receipt is different after its encoders / decoders ran (caller-owned data written to)",
                        {"receipt": c["r"], "after": o["input_after"]})
            for key in ("d1", "d2"):
                if o.get(key + "_aliases_input"):
                    st.aliasing_notes.add("unmarshalStoreBinary%s retains sub-slices of the caller's buffer (decoded receipt changes when the "
                                          "buffer is overwritten afterwards)" % ("V2" if key == "d2" else ""))
            wf = is_wf_receipt(rec)
            st.nontrivial.add(("R", kind, rec["status"], len(rec["events"]), bool(rec["bloom"]), rec["feedeleg"], wf, b))
            if wf:
                # direct predicates: store round trips of the format's own fields
                want2 = store_view(rec, True)
                want1 = store_view(rec, False)
                got2 = receipt_from_json(o["d2"]) if "d2" in o else None
                got1 = receipt_from_json(o["d1"]) if "d1" in o else None
                if got2 != want2 or not o.get("d2_rest_ok"):
                    st.fail("C19:receipt-v2-roundtrip", "V2 receipt store round trip does not return what was written", {"receipt": c["r"], "obs": o})
                if got1 != want1 or not o.get("d1_rest_ok"):
                    st.fail("C19:receipt-v1-roundtrip", "V1 receipt store round trip loses a field the V1 format stores", {"receipt": c["r"], "obs": o})
                if got1 is not None and (rec["feedeleg"] or rec["gas"]) and got1 == want1:
                    # F17: the version-1 format has no GasUsed/FeeDelegation: they read back as 0/false
                    st.fail("C19:F17-v1-receipt-drops-feedelegation-gasused",
                            "V1 receipt store format drops FeeDelegation/GasUsed (written %s/%d, read back %s/%d)" % (
                                rec["feedeleg"], rec["gas"], got1["feedeleg"], got1["gas"]), {"receipt": c["r"], "obs": o})
            if kind == "RB":
                bases[a] = (rec, o)
            if kind == "RM":
                brec, bo = bases[a]
                case = {"field": b, "base": json_receipt(brec), "mutant": c["r"]}
                if o.get("m2") == bo.get("m2") and not (b == "ret" and brec["status"] == "ERROR"):
                    st.fail("C19:receipt-merkle-v2-misses-" + b, "V2 receipt merkle leaf input does not change when %s changes" % b, case)
                if o.get("s2") == bo.get("s2"):
                    st.fail("C19:receipt-store-v2-misses-" + b, "V2 receipt store encoding does not change when %s changes" % b, case)
                if b not in ("gas", "feedeleg") and o.get("m1") == bo.get("m1") and not (b == "ret" and brec["status"] == "ERROR"):
                    st.fail("C19:receipt-merkle-v1-misses-" + b, "V1 receipt merkle leaf input does not change when %s changes" % b, case)
                if b in ("gas", "feedeleg") and o.get("m1") == bo.get("m1"):
                    st.fail("C19:F17-v1-receipt-drops-feedelegation-gasused",
                            "V1 receipt merkle leaf does not cover %s" % b, case)
        else:
            rs, ver, hasbloom = rec, a, b
            v2 = ver >= 2
            bloom = None
            if hasbloom:
                gob = hb(o["bloom_gob"])
                if gob[:24] != (2048).to_bytes(8, "big") + (3).to_bytes(8, "big") + (2048).to_bytes(8, "big") or len(gob) != 280:
                    st.fail("C19:bloom-gob-layout", "bloom GobEncode layout is not header(24)+256 bytes", {"gob": o["bloom_gob"][:80]})
                bloom = gob[24:]
            decs = "None"
            if "dec" in o:
                dl = [receipt_from_json(j) for j in o["dec"]]
                db = "(Some %s)" % cb(hb(o["dec_bloom_gob"])[24:]) if o.get("dec_hasbloom") else "None"
                decs = "(Some (%s, [%s]))" % (db, "; ".join(coq_receipt(r) for r in dl))
                # direct predicates
                if dl != [store_view(r, v2) for r in rs]:
                    st.fail("C19:receipts-roundtrip", "receipt list read back differs from what was written (ver %d)" % ver, {"case": c, "obs": o})
                if bool(o.get("dec_hasbloom")) != hasbloom or (hasbloom and o["dec_bloom_gob"] != o["bloom_gob"]):
                    st.fail("C19:receipts-bloom-roundtrip", "bloom filter read back differs", {"case": c})
                if not o.get("reenc_same"):
                    st.fail("C19:receipts-reencode", "re-encoding the decoded receipt list gives different bytes", {"case": c})
                if v2 and o.get("dec_root") != o.get("root"):
                    st.fail("C19:receipts-root-after-roundtrip", "receipts root changes across a store round trip (ver %d)" % ver, {"case": c, "obs": o})
                if not v2 and o.get("dec_root") != o.get("root") and not any(r["feedeleg"] or r["gas"] for r in rs):
                    st.fail("C19:receipts-root-after-roundtrip", "receipts root changes across a store round trip (ver %d)" % ver, {"case": c, "obs": o})
            lsitems.append("(%s, %s, [%s], %s, %s, %s)" % (cbool(v2), "None" if bloom is None else "(Some %s)" % cb(bloom),
                                                         "; ".join(coq_receipt(r) for r in rs), opt_coq_bytes(o.get("enc")), decs, cb(hb(o["root"]))))
            lssrc.append({"ver": ver, "hasbloom": hasbloom, "n": len(rs), "obs_root": o["root"]})
            st.nontrivial.add(("RS", ver, hasbloom, len(rs)))
    st.add_family("receipts", "receipt * (option bytes * option bytes * option bytes * option bytes) * (option receipt * option receipt)",
                  "receipt_case_ok", ritems, rsrc)
    st.add_family("receipt_lists", "bool * option bytes * list receipt * option bytes * option (option bytes * list receipt) * bytes",
                  "(receipts_case_ok sha256)", lsitems, lssrc)
    st.rules.append("receipts: corpus (F17 witness, CumulativeFeeUsed, zero-first-byte event address) + random well-formed and ill-formed "
                    "receipts, each encoded in the 4 forms and decoded in both store versions; single-field mutants of well-formed "
                    "receipts; receipt lists for fork versions 0..5 x bloom yes/no x sizes; distinct = (status, #events, bloom, "
                    "feeDelegation, wf, mutated field) / (version, bloom, size) classes")
    ctx.sample({"receipt_case": rsrc[0]["receipt"], "store_v1": rsrc[0]["obs"].get("s1"), "store_v2": rsrc[0]["obs"].get("s2")})


def is_wf_receipt(r):
    if len(r["addr"]) != 33 or r["status"] not in STATUS or len(r["txhash"]) != 32 or r["cumfee"] or len(r["bloom"]) not in (0, 256):
        return False
    for e in r["events"]:
        if e["addr"] != r["addr"] and (len(e["addr"]) != 33 or e["addr"][0] == 0):
            return False
    return True


def store_view(r, v2):
    m = dict(r)
    m["events"] = [dict(e, txhash=b"", blockhash=b"", blockno=0, txindex=0) for e in r["events"]]
    if not v2:
        m["gas"], m["feedeleg"] = 0, False
    return m


# ------------------------------------------------------------------ merkle
def merkle_family(ctx, st):
    rng = ctx.rng
    quick = ctx.tier == "quick"
    binpath = build_engine(ctx, "internal/merkle", ["zz_verif_merkle_engine_test.go"], "codec_merkle.test")
    lists = []
    sizes = list(range(0, 10)) + [15, 16, 17, 31, 33] if quick else list(range(0, 70)) + [127, 128, 129]
    for n in sizes:
        lists.append([rbytes(rng, 32) for _ in range(n)])
    # F5: odd list vs the same list with its last entry repeated
    f5 = []
    for n in ([3, 5, 7] if quick else [3, 5, 7, 9, 11, 13, 21, 33]):
        l = [rbytes(rng, 32) for _ in range(n)]
        f5.append((len(lists), len(lists) + 1))
        lists += [l, l + [l[-1]]]
    # same-length lists differing in one leaf / swapped order
    pairs = []
    for n in ([2, 3, 4, 6] if quick else range(1, 20)):
        l = [rbytes(rng, 32) for _ in range(n)]
        m = list(l)
        i = rng.randrange(n)
        m[i] = mutate_fixed(rng, l[i])
        pairs.append((len(lists), len(lists) + 1))
        lists += [l, m]
        if n >= 2:
            sw = list(l)
            sw[0], sw[-1] = sw[-1], sw[0]
            pairs.append((len(lists) - 2, len(lists)))
            lists.append(sw)
    cases = [{"leaves": [x.hex() for x in l]} for l in lists]
    obs = run_engine(ctx, binpath, "TestVerifMerkleEngine", cases, "merkle")
    items, src = [], []
    for l, o in zip(lists, obs):
        if "panic" in o:
            st.fail("C19:merkle-panic", "CalculateMerkleTree panicked", {"n": len(l), "panic": o["panic"]})
            continue
        if o.get("empty_root_is_shared_slice"):
            st.aliasing_notes.add("merkle.CalculateMerkleRoot(empty list) hands out the package-level nilHash slice itself: every empty "
                                  "block's TxsRootHash / ReceiptsRootHash shares one array (package-level mutable state; safe only while nobody writes into a root)")
        items.append("([%s], %s)" % ("; ".join(cb(x) for x in l), cb(hb(o["root"]))))
        src.append({"leaves": [x.hex() for x in l], "root": o["root"]})
        st.nontrivial.add(("M", len(l)))
    for a, b in f5:
        if obs[a]["root"] == obs[b]["root"]:
            st.fail("C19:F5-merkle-length-not-bound", "merkle root of %d entries equals the root of the list with the last entry repeated" % len(lists[a]),
                    {"leaves": cases[a]["leaves"], "root": obs[a]["root"]})
    for a, b in pairs:
        if obs[a]["root"] == obs[b]["root"]:
            st.fail("C19:merkle-not-binding", "two different lists of the same length have the same root", {"a": cases[a], "b": cases[b]})
    st.add_family("merkle", "list bytes * bytes", "(merkle_case_ok sha256)", items, src)
    st.rules.append("merkle: random 32-byte leaf lists of every size in the range, odd lists vs last-entry-repeated (F5), same-length "
                    "lists with one leaf flipped / two swapped; distinct = list sizes")


# ------------------------------------------------------------------ hardfork versions
def hardfork_family(ctx, st):
    rng = ctx.rng
    quick = ctx.tier == "quick"
    binpath = build_engine(ctx, "config", ["zz_verif_hardfork_engine_test.go"], "codec_config.test")
    cases = []

    def rcfg():
        k = rng.random()
        if k < 0.5:
            hs = sorted(rng.randrange(0, 200) for _ in range(4))
        elif k < 0.7:
            hs = [rng.randrange(0, 200) for _ in range(4)]          # possibly not monotone (validate fails)
        elif k < 0.85:
            hs = sorted(rng.choice([0, 0, 1, 2 ** 64 - 1, 2 ** 63, rng.randrange(0, 2 ** 64)]) for _ in range(4))
        else:
            x = rng.randrange(0, 100)
            hs = sorted([x, x, rng.randrange(0, 200), rng.randrange(0, 200)])
        return hs
    for cfg in [[19611555, 111499715, 173677571, 196150000], [0, 0, 0, 0], [10, 20, 30, 40]]:
        for h in sorted({0, 1, 9, 10, 11, 19, 20, 29, 30, 31, 39, 40, 41, 2 ** 64 - 1} | set(cfg) | {x - 1 for x in cfg if x} | {x + 1 for x in cfg}):
            cases.append({"cfg": cfg, "h": h, "chk": False})
    for _ in range(60 if quick else 2000):
        cfg = rcfg()
        hs = {rng.choice(cfg), max(0, rng.choice(cfg) - 1), min(2 ** 64 - 1, rng.choice(cfg) + 1), rng.randrange(0, 250)}
        for h in hs:
            cases.append({"cfg": cfg, "h": h, "chk": False})
    # monotonicity tables: one configuration, ascending heights
    tables = []
    for _ in range(5 if quick else 100):
        cfg = rcfg()
        start = len(cases)
        for h in range(0, 210, 7 if quick else 1):
            cases.append({"cfg": cfg, "h": h, "chk": False})
        tables.append((start, len(cases)))
    # compatibility: stored configuration = current one with one entry changed / missing / extra newer version
    for _ in range(60 if quick else 2000):
        cfg = rcfg()
        db = {"V%d" % (i + 2): cfg[i] for i in range(4)}
        k = rng.randrange(6)
        if k == 1:
            i = rng.randrange(4)
            db["V%d" % (i + 2)] = min(2 ** 64 - 1, max(0, cfg[i] + rng.choice([-1, 1, -50, 50])))
        elif k == 2:
            del db["V%d" % rng.randrange(2, 6)]
        elif k == 3:
            db["V6"] = rng.randrange(0, 250)
        elif k == 4:
            db = {"V%d" % (i + 2): rng.randrange(0, 200) for i in range(4)}
        cases.append({"cfg": cfg, "h": rng.randrange(0, 250), "db": db, "chk": True})
    # stored configurations written by a NEWER release (keys above V5), best block at fork-1 / fork / fork+1
    for cfg in ([10, 20, 30, 40], [0, 0, 0, 0], [5, 5, 5, 5]):
        full = {"V%d" % (i + 2): cfg[i] for i in range(4)}
        for key in ("V6", "V7", "V10"):
            for fork in (0, 1, 41, 50, 1000, 2 ** 63):
                for h in sorted({max(0, fork - 1), fork, fork + 1}):
                    cases.append({"cfg": cfg, "h": h, "db": dict(full, **{key: fork}), "chk": True})
        cases.append({"cfg": cfg, "h": 60, "db": dict(full, V6=50, V7=60), "chk": True})
        cases.append({"cfg": cfg, "h": 59, "db": dict(full, V6=70, V7=60), "chk": True})
    obs = run_engine(ctx, binpath, "TestVerifHardforkEngine", cases, "hardfork")
    if any(o["nfields"] != 4 for o in obs):
        st.fail("C19:hardfork-field-count", "HardforkConfig no longer has 4 fork heights", {"nfields": obs[0]["nfields"]})
    vitems, vsrc, citems, csrc = [], [], [], []
    for c, o in zip(cases, obs):
        cfgs = "[" + ";".join(str(x) for x in c["cfg"]) + "]"
        valid = all(c["cfg"][i] <= c["cfg"][i + 1] for i in range(3))
        if not c["chk"]:
            vitems.append("(%s, %d, %d, [%s])" % (cfgs, c["h"], o["version"], ";".join(cbool(b) for b in o["forks"])))
            vsrc.append({"case": c, "obs": o})
            st.nontrivial.add(("V", o["version"], tuple(o["forks"]), valid))
            # direct predicate: for a validated configuration Version(h) is the highest active fork
            if valid:
                want = max([i + 2 for i in range(4) if o["forks"][i]] or [0])
                if o["version"] != want:
                    st.fail("C19:version-vs-isfork", "Version(h) is not the highest fork active at h", {"case": c, "obs": o})
        else:
            db = "[" + ";".join("(%d, %d)" % (int(k[1:]), v) for k, v in sorted(c["db"].items())) + "]"
            citems.append("(%s, %s, %d, %s)" % (cfgs, db, c["h"], cbool(o["compat"])))
            csrc.append({"case": c, "obs": o})
            st.nontrivial.add(("C", o["compat"], len(c["db"])))
            # direct predicate: a fork of a version this node does not know that is already active on the stored chain refuses the start
            # (otherwise the node assigns its own highest version to heights the chain produced under the newer one)
            newer = sorted((int(k[1:]), v) for k, v in c["db"].items() if int(k[1:]) > 5 and v <= c["h"])
            if newer and o["compat"]:
                st.fail("C19:start-accepted-on-chain-with-newer-active-fork",
                        "the node (knows versions up to 5) starts on a chain DB whose stored hardfork V%d is active at the best block %d "
                        "(fork height %d): height %d is version %d on that chain, this node assigns version %d to it — the version of a "
                        "height is not stable across the restart" % (newer[-1][0], c["h"], newer[-1][1], c["h"], newer[-1][0], o["version"]),
                        {"case": c, "obs": o, "best_relative_to_fork": c["h"] - newer[-1][1]})
            if o["compat"] and o["version"] != o["db_version"]:
                st.fail("C19:compat-different-version", "CheckCompatibility accepts but stored and configured versions differ at h", {"case": c, "obs": o})
    for a, b in tables:
        vs = [obs[i]["version"] for i in range(a, b)]
        if any(vs[i] > vs[i + 1] for i in range(len(vs) - 1)):
            st.fail("C19:version-not-monotone", "Version(h) decreases as h grows", {"cfg": cases[a]["cfg"], "versions": vs})
    st.add_family("hardfork_version", "hf_config * N * N * list bool", "version_case_ok", vitems, vsrc)
    st.add_family("hardfork_compat", "hf_config * hf_db * N * bool", "compat_case_ok", citems, csrc)
    st.rules.append("hardfork: mainnet/all-enabled/hand-made + random (sorted, unsorted, extreme, tied) height configurations x heights at, "
                    "below and above each fork; ascending-height tables; stored configurations equal / one entry changed / missing / "
                    "newer version / random; distinct = (version, fork bits, validated) and (compatible, #stored) classes")


# ------------------------------------------------------------------ signed transaction digest (account/key)
def txsign_family(ctx, st):
    rng = ctx.rng
    quick = ctx.tier == "quick"
    binpath = build_engine(ctx, "account/key", ["zz_verif_key_engine_test.go"], "codec_key.test")
    cases, meta = [], []
    bases = tx_corpus() + [rand_tx(rng) for _ in range(2 if quick else 40)]
    for bi, base in enumerate(bases):
        cases.append({"t": json_tx(base)})
        meta.append((bi, None, base))
        for f in TX_FIELDS:
            m = mutate_record(rng, base, f, TINT)
            cases.append({"t": json_tx(m)})
            meta.append((bi, f, m))
    obs = run_engine(ctx, binpath, "TestVerifKeyEngine", cases, "txsign")
    items, src, base_obs = [], [], {}
    for (bi, f, rec), o in zip(meta, obs):
        if f is None:
            base_obs[bi] = (rec, o)
        else:
            brec, bo = base_obs[bi]
            case = {"field": f, "base": json_tx(brec), "mutant": json_tx(rec)}
            if f == "Sign":
                if o["signhash"] != bo["signhash"]:
                    st.fail("C19:tx-signed-digest-depends-on-sign", "signed transaction digest depends on Sign", case)
            elif o["signhash"] == bo["signhash"]:
                st.fail("C19:tx-signed-digest-misses-" + f, "signed transaction digest does not cover field %s" % f, case)
            st.nontrivial.add(("TS", f))
        items.append("(%s, %s)" % (coq_tx(rec), cb(hb(o["signhash"]))))
        src.append({"tx": json_tx(rec), "obs": o})
    st.add_family("tx_sign_digest", "txbody * bytes",
                  "(fun c : txbody * bytes => let '(t, d) := c in bytes_eqb (tx_sign_digest sha256 t) d)", items, src)
    st.rules.append("signed tx digest: the tx cases again through account/key.CalculateHashWithoutSign")


# ------------------------------------------------------------------ chain id
def coq_cid(c):
    return "(%d, %s, %s, %s, %s)" % (c["v"] % 2 ** 32, cbool(c["p"]), cbool(c["m"]), cb(c["magic"]), cb(c["cons"]))


def chainid_family(ctx, st):
    rng = ctx.rng
    quick = ctx.tier == "quick"
    cids = [{"v": 0, "p": False, "m": False, "magic": b"", "cons": b""},
            {"v": 3, "p": True, "m": False, "magic": b"dev.chain", "cons": b"sbp"},
            {"v": 2, "p": True, "m": True, "magic": b"aergo.io", "cons": b"dpos"},
            {"v": -1, "p": False, "m": True, "magic": b"x", "cons": b"raft"},
            {"v": 2 ** 31 - 1, "p": True, "m": True, "magic": b"\xff\x00", "cons": b"\x00"},
            # F6 corpus: separators inside magic / consensus
            {"v": 3, "p": True, "m": False, "magic": b"a/a", "cons": b"dpos"},
            {"v": 3, "p": True, "m": False, "magic": b"aergo", "cons": b"d/pos"},
            {"v": 3, "p": False, "m": False, "magic": b"/", "cons": b""}]
    alpha = b"abcdefghijklmnopqrstuvwxyz.0123456789"
    for _ in range(30 if quick else 600):
        slashy = rng.random() < 0.15
        def rs():
            n = rng.randrange(0, 12)
            b = bytes(rng.choice(alpha) for _ in range(n)) if rng.random() < 0.8 else bytes(rng.choice([x for x in range(256) if x != 47]) for _ in range(n))
            if slashy and rng.random() < 0.7:
                i = rng.randrange(0, len(b) + 1)
                b = b[:i] + b"/" + b[i:]
            return b
        cids.append({"v": rng.choice([0, 1, 2, 3, 4, 5, -1, -2 ** 31, 2 ** 31 - 1, rng.randrange(-2 ** 31, 2 ** 31)]),
                     "p": rng.random() < 0.5, "m": rng.random() < 0.5, "magic": rs(), "cons": rs()})
    cases = [{"kind": "C", "cid": {"Version": c["v"], "Public": c["p"], "Main": c["m"], "Magic": c["magic"].hex(), "Consensus": c["cons"].hex()}}
             for c in cids]
    raws = [b"", b"\x01", b"\x01\x00\x00\x00", b"\x01\x00\x00\x00\x01", b"\x01\x00\x00\x00\x01\x00", b"\x01\x00\x00\x00\x02\x03a/b",
            b"\x01\x00\x00\x00\x00\x00//", b"\x01\x00\x00\x00\x00\x00/"]
    for _ in range(20 if quick else 400):
        n = rng.randrange(0, 24)
        raws.append(bytes(rng.choice([47, 47, 0, 1, 97, 98, rng.randrange(256)]) for _ in range(n)))
    cases += [{"kind": "CR", "raw": r.hex()} for r in raws]
    mcs = []
    for _ in range(10 if quick else 200):
        mcs.append((rbytes(rng, rng.choice([0, 1, 3, 4, 5, 20])), rng.choice([0, 1, 2, 3, 5, -1, 2 ** 31 - 1])))
    cases += [{"kind": "MC", "raw": r.hex(), "v": v} for r, v in mcs]
    # ChainID.Equals / ChainIdEqualWithoutVersion: a chain id against itself and against single-field variants
    ces = []
    for c in cids[:12] + [rng.choice(cids) for _ in range(6 if quick else 120)]:
        for f in ("same", "v", "p", "m", "magic", "cons"):
            d = dict(c)
            if f == "v":
                d["v"] = c["v"] + 1 if c["v"] < 2 ** 31 - 1 else 0
            elif f in ("p", "m"):
                d[f] = not c[f]
            elif f in ("magic", "cons"):
                d[f] = mutate_bytes(rng, c[f])
            ces.append((c, d, f))
    jc = lambda c: {"Version": c["v"], "Public": c["p"], "Main": c["m"], "Magic": c["magic"].hex(), "Consensus": c["cons"].hex()}
    cases += [{"kind": "CE", "cid": jc(a), "raw": json.dumps(jc(b))} for a, b, f in ces]
    obs = run_engine(ctx, st.types_bin, "TestVerifCodecEngine", cases, "chainid")

    def dec_term(o):
        if "dec" not in o:
            return "None"
        d = o["dec"]
        return "(Some (%d, %s, %s, %s, %s))" % (d["Version"] % 2 ** 32, cbool(d["Public"]), cbool(d["Main"]), cb(hb(d["Magic"])), cb(hb(d["Consensus"])))
    items, src, ritems, rsrc, mitems, msrc = [], [], [], [], [], []
    for c, o in zip(cids, obs[:len(cids)]):
        if "enc" not in o:
            st.fail("C19:chainid-bytes-error", "ChainID.Bytes failed", {"cid": str(c), "obs": o})
            continue
        items.append("(%s, %s, %s)" % (coq_cid(c), cb(hb(o["enc"])), dec_term(o)))
        src.append({"cid": {k: (v.hex() if isinstance(v, bytes) else v) for k, v in c.items()}, "obs": o})
        slash = b"/" in c["magic"] or b"/" in c["cons"]
        st.nontrivial.add(("CID", slash, c["p"], c["m"], len(c["magic"]) > 0))
        back = None
        if "dec" in o:
            d = o["dec"]
            back = (d["Version"], d["Public"], d["Main"], hb(d["Magic"]), hb(d["Consensus"]))
        if back != (c["v"], c["p"], c["m"], c["magic"], c["cons"]):
            if slash:
                st.fail("C19:F6-chainid-slash", "chain id with '/' in magic/consensus is written by Bytes() and not read back by Read()",
                        {"cid": src[-1]["cid"], "obs": o})
            else:
                st.fail("C19:chainid-roundtrip", "chain id without '/' does not round trip", {"cid": src[-1]["cid"], "obs": o})
    for r, o in zip(raws, obs[len(cids):len(cids) + len(raws)]):
        ritems.append("(%s, %s)" % (cb(r), dec_term(o)))
        rsrc.append({"raw": r.hex(), "obs": o})
        st.nontrivial.add(("CR", "dec" in o, min(len(r), 7)))
        if "dec_panic" in o:
            st.fail("C19:chainid-read-panic", "ChainID.Read panicked", {"raw": r.hex(), "obs": o})
    eitems, esrc = [], []
    for (a, b, f), o in zip(ces, obs[len(cids) + len(raws) + len(mcs):]):
        rep = {"a": {k: (v.hex() if isinstance(v, bytes) else v) for k, v in a.items()}, "b": {k: (v.hex() if isinstance(v, bytes) else v) for k, v in b.items()},
               "field": f, "obs": o}
        if o["equals"] != (f == "same") or o["equals_sym"] != o["equals"] or o["equals_nil"]:
            st.fail("C19:chainid-equals", "ChainID.Equals is wrong for two ids differing in %s (or asymmetric / true for nil)" % f, rep)
        if o["equal_without_version"] != (f in ("same", "v")):
            st.fail("C19:chainid-equal-without-version", "ChainIdEqualWithoutVersion is wrong for two ids differing in %s" % f, rep)
        if not o["validate_ok"]:
            st.fail("C19:genesis-validate", "Genesis.Validate rejects a chain id", rep)
        eitems.append("(%s, %s, %s, %s)" % (coq_cid(a), coq_cid(b), cbool(o["equals"]), cbool(o["equal_without_version"])))
        esrc.append(rep)
        st.nontrivial.add(("CE", f))
    st.add_family("chain_id_equals", "(N * bool * bool * bytes * bytes) * (N * bool * bool * bytes * bytes) * bool * bool",
                  "(fun c : (N * bool * bool * bytes * bytes) * (N * bool * bool * bytes * bytes) * bool * bool => "
                  "let '((v1, p1, m1, g1, c1), (v2, p2, m2, g2, c2), eq, eqv) := c in "
                  "let a := mk_chain_id v1 p1 m1 g1 c1 in let b := mk_chain_id v2 p2 m2 g2 c2 in "
                  "Bool.eqb (chain_id_eqb a b) eq && Bool.eqb (chain_id_equal_without_version (chain_id_bytes a) (chain_id_bytes b)) eqv)", eitems, esrc)
    for (r, v), o in zip(mcs, obs[len(cids) + len(raws):len(cids) + len(raws) + len(mcs)]):
        if o.get("raw_after") != r.hex():
            st.fail("C19:makechainid-writes-to-argument", "MakeChainId wrote into the caller's chain id slice",
                    {"cid": r.hex(), "v": v, "cid_after": o.get("raw_after"), "returned": o.get("make")})
        dv = "None" if o["decode_ver"] == -1 and len(r) < 4 else "(Some %d)" % (o["decode_ver"] % 2 ** 32)
        mk = "None" if "make" not in o else "(Some %s)" % cb(hb(o["make"]))
        mitems.append("(%s, %d, %s, %s)" % (cb(r), v % 2 ** 32, dv, mk))
        msrc.append({"raw": r.hex(), "v": v, "obs": o})
    st.add_family("chain_id", "(N * bool * bool * bytes * bytes) * bytes * option (N * bool * bool * bytes * bytes)", "chain_id_case_ok", items, src)
    st.add_family("chain_id_read", "bytes * option (N * bool * bool * bytes * bytes)", "chain_id_read_case_ok", ritems, rsrc)
    st.add_family("make_chain_id", "bytes * N * option N * option bytes",
                  "(fun c : bytes * N * option N * option bytes => let '(raw, v, dv, mk) := c in "
                  "match decode_chain_id_version raw, dv with Some a, Some b => a =? b | None, None => true | _, _ => false end && "
                  "opt_bytes_eqb (make_chain_id raw v) mk)", mitems, msrc)
    st.rules.append("chain id: corpus (empty, dev, main, negative/extreme versions, F6 witnesses) + random ids (15% with '/'), Read on "
                    "truncated/random/slash-heavy byte strings, MakeChainId on short and long ids; distinct = (has '/', flags, magic empty) classes")


# ------------------------------------------------------------------ transaction root
def txroot_family(ctx, st):
    rng = ctx.rng
    quick = ctx.tier == "quick"
    lists = [[rand_tx(rng) for _ in range(n)] for n in ([0, 1, 2, 3, 4, 5] if quick else list(range(0, 18)))]
    cases = [{"kind": "TR", "txs": [json_tx(t) for t in l]} for l in lists]
    obs = run_engine(ctx, st.types_bin, "TestVerifCodecEngine", cases, "txroot")
    items, src = [], []
    for l, o in zip(lists, obs):
        items.append("([%s], %s)" % ("; ".join(coq_tx(t) for t in l), cb(hb(o["root"]))))
        src.append({"n": len(l), "root": o["root"]})
        st.nontrivial.add(("TR", len(l)))
    st.add_family("tx_root", "list txbody * bytes", "(txroot_case_ok sha256)", items, src)
    st.rules.append("tx root: CalculateTxsRootHash over random tx lists of each size (Hash fields = CalculateTxHash)")


# ------------------------------------------------------------------ corpus (hand-written edge cases, run first)
def header_from_json(j):
    inv = {v: k for k, v in HJ.items()}
    return {inv[k]: (v if inv[k] in HINT else hb(v)) for k, v in j.items() if k in inv}


def corpus_family(ctx, st):
    d = os.path.join(vf.VERIF, "corpus", "C19")
    cases = []
    if os.path.isdir(d):
        for fn in sorted(os.listdir(d)):
            if fn.endswith(".json"):
                cases += json.load(open(os.path.join(d, fn)))
    if not cases:
        return
    eng = [{k: v for k, v in c.items() if k != "why"} for c in cases]
    obs = run_engine(ctx, st.types_bin, "TestVerifCodecEngine", eng, "corpus")
    hi, hs, ti, ts, ri, rs, ci, cs, cri, crs = [], [], [], [], [], [], [], [], [], []
    for c, o in zip(cases, obs):
        src = {"why": c.get("why"), "case": c, "obs": {k: (v if not isinstance(v, str) or len(v) < 160 else v[:160] + "...") for k, v in o.items()}}
        if c["kind"] == "H":
            h = header_from_json(c["h"])
            hi.append("(%s, %s, %s)" % (coq_header(h), cb(hb(o["full"])), cb(hb(o["nosign"]))))
            hs.append(src)
        elif c["kind"] == "T":
            t = {f: (c["t"][f] if f in TINT else hb(c["t"][f])) for f in TX_FIELDS}
            ti.append("(%s, %s)" % (coq_tx(t), cb(hb(o["hash"]))))
            ts.append(src)
        elif c["kind"] == "R":
            r = receipt_from_json(c["r"])

            def dec(key):
                if key in o and o.get(key + "_rest_ok"):
                    return "(Some %s)" % coq_receipt(receipt_from_json(o[key]))
                return "None"
            ri.append("(%s, (%s, %s, %s, %s), (%s, %s))" % (coq_receipt(r), opt_coq_bytes(o.get("s1")), opt_coq_bytes(o.get("s2")),
                                                          opt_coq_bytes(o.get("m1")), opt_coq_bytes(o.get("m2")), dec("d1"), dec("d2")))
            rs.append(src)
        elif c["kind"] == "C":
            x = c["cid"]
            cid = {"v": x["Version"], "p": x["Public"], "m": x["Main"], "magic": hb(x["Magic"]), "cons": hb(x["Consensus"])}
            dt = "None"
            if "dec" in o:
                dd = o["dec"]
                dt = "(Some (%d, %s, %s, %s, %s))" % (dd["Version"] % 2 ** 32, cbool(dd["Public"]), cbool(dd["Main"]), cb(hb(dd["Magic"])), cb(hb(dd["Consensus"])))
            ci.append("(%s, %s, %s)" % (coq_cid(cid), cb(hb(o["enc"])), dt))
            cs.append(src)
        elif c["kind"] == "CR":
            dt = "None"
            if "dec" in o:
                dd = o["dec"]
                dt = "(Some (%d, %s, %s, %s, %s))" % (dd["Version"] % 2 ** 32, cbool(dd["Public"]), cbool(dd["Main"]), cb(hb(dd["Magic"])), cb(hb(dd["Consensus"])))
            cri.append("(%s, %s)" % (cb(hb(c["raw"])), dt))
            crs.append(src)
        st.nontrivial.add(("corpus", c.get("why")))
    # witnesses of the refuted injectivity statements: the shifted twins have the same identifier (input) on the real code
    tw = [(c, o) for c, o in zip(cases, obs) if "twin" in (c.get("why") or "") or "same identifier input as the next case" in (c.get("why") or "")]
    hh = [o for c, o in tw if c["kind"] == "H"]
    tt = [o for c, o in tw if c["kind"] == "T"]
    st.witnesses["C19_header_input_not_injective_refuted"] = (len(hh) == 2 and hh[0]["full"] == hh[1]["full"] and hh[0]["calc"] == hh[1]["calc"],
                                                             "corpus twins (byte moved PubKey->CoinbaseAccount): same writeBlockHeader output and block hash")
    st.witnesses["C19_tx_input_not_injective_refuted"] = (len(tt) == 2 and tt[0]["hash"] == tt[1]["hash"],
                                                         "corpus twins (byte moved Account->Recipient): same CalculateTxHash")
    cf = [o for c, o in zip(cases, obs) if c["kind"] == "R" and c["r"].get("CumFee")]
    st.witnesses["C19_receipt_store_cumfee_refuted"] = (bool(cf) and all(("d2" not in o) or not o.get("d2_rest_ok") for o in cf),
                                                       "corpus receipt with CumulativeFeeUsed=0708: V2 store decode does not return the receipt "
                                                       "(absurd event count, not executed / panic)")
    st.add_family("corpus_headers", "header * bytes * bytes", "header_case_ok", hi, hs)
    st.add_family("corpus_txs", "txbody * bytes", "(fun c : txbody * bytes => let '(t, d) := c in bytes_eqb (tx_hash sha256 t) d)", ti, ts)
    st.add_family("corpus_receipts", "receipt * (option bytes * option bytes * option bytes * option bytes) * (option receipt * option receipt)",
                  "receipt_case_ok", ri, rs)
    st.add_family("corpus_chain_id", "(N * bool * bool * bytes * bytes) * bytes * option (N * bool * bool * bytes * bytes)", "chain_id_case_ok", ci, cs)
    st.add_family("corpus_chain_id_read", "bytes * option (N * bool * bool * bytes * bytes)", "chain_id_read_case_ok", cri, crs)
    st.rules.append("corpus: corpus/C19/*.json hand-written edge cases (each with its reason), compared with the model first")


# ------------------------------------------------------------------ genesis info (gob; observed, not modelled)
def genesis_family(ctx, st):
    rng = ctx.rng
    quick = ctx.tier == "quick"
    cases = []
    alpha = "abcdefghijklmnopqrstuvwxyz./0123456789"
    for i in range(12 if quick else 300):
        cid = {"Version": rng.choice([0, 1, 2, 3, -1, 2 ** 31 - 1]), "Public": rng.random() < 0.5, "Main": rng.random() < 0.5,
               "Magic": "".join(rng.choice(alpha) for _ in range(rng.randrange(0, 10))).encode().hex(),
               "Consensus": rng.choice(["dpos", "raft", "sbp", "", "a/b"]).encode().hex()}
        g = {"Cid": cid, "Timestamp": rng.choice([0, 1, -1, 2 ** 63 - 1, -2 ** 63, rng.randrange(0, 2 ** 62)]),
             "BPs": ["bp%d" % k for k in range(rng.randrange(0, 5))],
             "EBPs": [["n%d" % k, "/ip4/1.2.3.%d/tcp/7846" % k, "16Uiu2%d" % k] for k in range(rng.choice([0, 0, 1, 3]))],
             "Balance": {"acc%d" % k: str(rng.randrange(0, 10 ** 20)) for k in range(rng.randrange(0, 3))}}
        cases.append({"kind": "G", "g": g})
    obs = run_engine(ctx, st.types_bin, "TestVerifCodecEngine", cases, "genesis")
    for c, o in zip(cases, obs):
        g, d = c["g"], o.get("dec")
        st.nontrivial.add(("G", len(g["BPs"]), len(g["EBPs"]), bool(g["Balance"])))
        if d is None:
            st.fail("C19:genesis-roundtrip", "GetGenesisFromBytes(Genesis.Bytes()) failed", {"case": c, "obs": o})
            continue
        if (d["Cid"], d["Timestamp"], d["BPs"], d["EBPs"]) != (g["Cid"], g["Timestamp"], g["BPs"], g["EBPs"]):
            st.fail("C19:genesis-roundtrip", "genesis info read back differs from what was written (chain id, timestamp, BPs, enterprise BPs)",
                    {"case": c, "obs": o})
        if not o.get("orig_balance_kept"):
            st.fail("C19:genesis-bytes-mutates", "Genesis.Bytes() modified the receiver's Balance", {"case": c})
    st.evals += len(cases)
    st.dist["genesis_roundtrip_observed"] = len(cases)
    st.rules.append("genesis: random Genesis values through Genesis.Bytes/GetGenesisFromBytes (gob is opaque: direct predicate only; "
                    "Balance is omitted from the stored form by design)")


# ------------------------------------------------------------------ genesis info through the real ChainDB (package chain, overlay build)
def genesis_store_family(ctx, st):
    rng = ctx.rng
    quick = ctx.tier == "quick"
    rc, log, binpath = ctx.go_test_binary("chain", [os.path.join(ENG, "zz_verif_genesis_engine_test.go")], "codec_chain.test", use_overlay=True)
    if rc != 0:
        raise RuntimeError("chain (genesis) engine build failed:\n" + log[-3000:])
    alpha = b"abcdefghijklmnopqrstuvwxyz.0123456789"
    gs = [{"v": 3, "p": True, "m": False, "magic": b"dev.chain", "cons": b"dpos", "ts": 1700000000, "bps": ["bp1", "bp2"], "total": 1000},
          {"v": 3, "p": True, "m": False, "magic": b"a/a", "cons": b"dpos", "ts": -5, "bps": [], "total": 0},          # F6 magic, zero total
          {"v": -1, "p": False, "m": True, "magic": b"", "cons": b"", "ts": 0, "bps": ["x"], "total": None},
          {"v": 2, "p": True, "m": True, "magic": b"aergo.io", "cons": b"d/p/s", "ts": 2 ** 63 - 1, "bps": ["a", "b", "c"], "total": 2 ** 70 + 255},
          {"v": 0, "p": False, "m": False, "magic": b"m", "cons": b"raft", "ts": 1, "bps": [], "total": 256}]
    for _ in range(3 if quick else 40):
        def rs():
            b = bytes(rng.choice(alpha) for _ in range(rng.randrange(0, 10)))
            if rng.random() < 0.2:
                b += b"/" + bytes(rng.choice(alpha) for _ in range(rng.randrange(0, 3)))
            return b
        gs.append({"v": rng.choice([0, 1, 2, 3, 5, -1, 2 ** 31 - 1]), "p": rng.random() < 0.5, "m": rng.random() < 0.5, "magic": rs(), "cons": rs(),
                   "ts": rng.choice([0, -1, rng.randrange(0, 2 ** 62)]), "bps": ["bp%d" % k for k in range(rng.randrange(0, 4))],
                   "total": rng.choice([None, 0, 1, 255, 256, 65535, 65536, rng.randrange(1, 2 ** 90)])})
    cases = [{"Cid": {"Version": g["v"], "Public": g["p"], "Main": g["m"], "Magic": g["magic"].hex(), "Consensus": g["cons"].hex()},
              "Timestamp": g["ts"], "BPs": g["bps"], "Total": "" if g["total"] is None else str(g["total"])} for g in gs]
    obs = run_engine(ctx, binpath, "TestVerifGenesisEngine", cases, "genesis_store")

    def coq_g(v, p, m, magic, cons, ts, bps, total):
        return "(mk_genesis_info (mk_chain_id %d %s %s %s %s) %s [%s] %s)" % (
            v % 2 ** 32, cbool(p), cbool(m), cb(magic), cb(cons), cZ(ts), "; ".join(cb(x.encode()) for x in bps),
            "None" if total is None else "(Some %d)" % total)
    items, src = [], []
    for g, c, o in zip(gs, cases, obs):
        rep = {"case": c, "obs": o}
        if o.get("err") or o.get("back") is None:
            st.fail("C19:genesis-store-error", "genesis info could not be stored / read back: %s" % o.get("err"), rep)
            continue
        b = o["back"]
        slash = b"/" in g["magic"] or b"/" in g["cons"]
        st.nontrivial.add(("GS", slash, g["total"] is None, g["total"] == 0, len(g["bps"])))
        # direct predicate: what was stored at genesis is read back at start-up
        if (b["Cid"], b["Timestamp"], b["BPs"]) != (c["Cid"], c["Timestamp"], c["BPs"]) or not o["same_hash"]:
            st.fail("C19:genesis-store-roundtrip", "genesis info read back from the chain DB at start-up differs from what was written "
                    "(chain id / timestamp / producers / genesis block id)", rep)
        if g["total"] and b["Total"] != str(g["total"]):
            st.fail("C19:genesis-store-total", "genesis total balance read back differs", rep)
        if g["total"] == 0:
            st.witnesses["C19_genesis_zero_total_reads_absent"] = (b["Total"] == "", "genesis with total balance 0 written by the real ChainDB reads back with TotalBalance() == nil")
        bt = None if b["Total"] == "" else int(b["Total"])
        bc = b["Cid"]
        items.append("(%s, (%s, %s), %s)" % (
            coq_g(g["v"], g["p"], g["m"], g["magic"], g["cons"], g["ts"], g["bps"], g["total"]),
            cb(hb(o["block_cid"])), "(Some %s)" % cb(hb(o["balance"])) if o["has_balance"] else "None",
            coq_g(bc["Version"], bc["Public"], bc["Main"], hb(bc["Magic"]), hb(bc["Consensus"]), b["Timestamp"], b["BPs"], bt)))
        src.append(rep)
    st.add_family("genesis_store", "genesis_info * (bytes * option bytes) * genesis_info", "genesis_case_ok", items, src)
    st.rules.append("genesis store: genesis values (incl. '/' in magic, nil / zero / multi-byte total balance, negative version) written by the "
                    "real ChainDB.addGenesisBlock into a badger DB, database closed and re-opened, GetGenesisInfo compared with get_genesis/add_genesis")


# ------------------------------------------------------------------ fork boundary: preparing a child must not touch the sealed parent
def forkboundary_family(ctx, st):
    """A sealed parent block (identifier cached, digest inputs, protobuf bytes snapshotted), then
    NewBlockHeaderInfoFromPrevBlock / MakeChainId / NewBlock for child blocks of the same and of every other hardfork
    version; the parent is snapshotted again after each child (hold-and-compare).  The model has chain ids as values
    (make_chain_id is a function of (cid, v)); that the Go slices behave like values is what this family checks."""
    rng = ctx.rng
    quick = ctx.tier == "quick"
    cases, parents = [], []
    for pv in range(0, 6):
        for _ in range(1 if quick else 8):
            h = rand_header(rng)
            magic = bytes(rng.choice(b"abcdefgh.") for _ in range(rng.randrange(1, 9)))
            h["ChainID"] = (pv).to_bytes(4, "little") + bytes([rng.randrange(2), rng.randrange(2)]) + magic + b"/dpos"
            vers = [pv, pv + 1, 5, 0, pv] if quick else [pv] + list(range(0, 7)) + [pv, 2 ** 31 - 1, -1]
            cases.append({"kind": "FB", "h": json_header(h), "vers": vers})
            parents.append(h)
    # short / empty chain ids (MakeChainId slices cid[:4])
    for cid in (b"", b"\x01\x00", b"\x02\x00\x00\x00"):
        h = rand_header(rng)
        h["ChainID"] = cid
        cases.append({"kind": "FB", "h": json_header(h), "vers": [2, 3]})
        parents.append(h)
    obs = run_engine(ctx, st.types_bin, "TestVerifCodecEngine", cases, "forkboundary")
    pitems, psrc, kitems, ksrc = [], [], [], []
    for h, c, o in zip(parents, cases, obs):
        s0 = o["snaps"][0]
        pv = int.from_bytes(h["ChainID"][:4], "little") if len(h["ChainID"]) >= 4 else None
        for i, (v, kid) in enumerate(zip(c["vers"], o["kids"])):
            s1 = o["snaps"][i + 1]
            boundary = pv is not None and (v % 2 ** 32) != pv
            st.nontrivial.add(("FB", pv, "boundary" if boundary else "same", "panic" in kid))
            rep = {"parent_header": c["h"], "parent_version": pv, "child_version": v, "fork_boundary": boundary,
                   "parent_before": s0, "parent_after": s1, "child": kid}
            if s1 != s0:
                changed = [k for k in s0 if s0[k] != s1[k]]
                st.fail("C19:parent-block-altered-by-child-preparation",
                        "preparing a child block of fork version %d on a sealed parent of version %s changed the parent's %s "
                        "(its identifier is no longer the hash of its header)" % (v, pv, ", ".join(changed)), rep)
            if "panic" not in kid:
                if kid["prev"] != s0["HashField"]:
                    st.fail("C19:child-prev-hash", "child header does not reference the parent's identifier", rep)
                if kid["info_of_parent_cid"] != s0["Cid"]:
                    st.fail("C19:parent-block-altered-by-child-preparation", "NewBlockHeaderInfo(parent) no longer reports the parent's chain id", rep)
            mk = "None" if "panic" in kid else "(Some %s)" % cb(hb(kid["cid"]))
            kitems.append("(%s, %d, %s)" % (cb(h["ChainID"]), v % 2 ** 32, mk))
            ksrc.append(rep)
            # the parent after this child, against the model of the parent as a value
            pitems.append("(%s, %s, %s)" % (coq_header(h), cb(hb(s1["Full"])), cb(hb(s1["NoSign"]))))
            psrc.append(rep)
    st.add_family("forkboundary_parent", "header * bytes * bytes", "header_case_ok", pitems, psrc)
    st.add_family("forkboundary_child_cid", "bytes * N * option bytes",
                  "(fun c : bytes * N * option bytes => let '(cid, v, mk) := c in opt_bytes_eqb (make_chain_id cid v) mk)", kitems, ksrc)
    st.rules.append("fork boundary: sealed parents of every fork version 0..5, children prepared for the same and for other versions "
                    "(NewBlockHeaderInfoFromPrevBlock, MakeChainId, NewBlock), parent snapshotted before and after each child; short chain ids")


# ------------------------------------------------------------------ blocks, txs, receipts, hardfork config through the real ChainDB
def vs_receipt(r):
    return {"Addr": r["addr"].hex(), "Status": r["status"], "Ret": r["ret"].hex(), "TxHash": r["txhash"].hex(), "Fee": r["fee"].hex(),
            "CumFee": r["cumfee"].hex(), "Bloom": r["bloom"].hex(), "GasUsed": r["gas"], "FeeDeleg": r["feedeleg"],
            "Events": [{"Addr": e["addr"].hex(), "Name": e["name"].hex(), "Args": e["args"].hex(), "Idx": e["idx"]} for e in r["events"]]}


def vs_receipt_back(j):
    return {"addr": hb(j["Addr"]), "status": j["Status"], "ret": hb(j["Ret"]), "txhash": hb(j["TxHash"]), "fee": hb(j["Fee"]),
            "cumfee": hb(j["CumFee"]), "bloom": hb(j["Bloom"]), "gas": j["GasUsed"], "feedeleg": j["FeeDeleg"],
            "events": [{"addr": hb(e["Addr"]), "name": hb(e["Name"]), "args": hb(e["Args"]), "idx": e["Idx"], "txhash": b"", "blockhash": b"",
                        "blockno": 0, "txindex": 0} for e in j["Events"]]}


def store_family(ctx, st):
    rng = ctx.rng
    quick = ctx.tier == "quick"
    rc, log, binpath = ctx.go_test_binary("chain", [os.path.join(ENG, "zz_verif_genesis_engine_test.go"),
                                                    os.path.join(ENG, "zz_verif_store_engine_test.go")], "codec_chain.test", use_overlay=True)
    if rc != 0:
        raise RuntimeError("chain (store) engine build failed:\n" + log[-3000:])
    st.chain_bin = binpath
    cases, meta = [], []
    cfgs = [[10, 20, 30, 40], [0, 0, 0, 0], [5, 5, 9, 2 ** 63]]
    nb = 5 if quick else 60
    for i in range(nb):
        cfg = rng.choice(cfgs)
        no = rng.choice([0, 1, cfg[0] - 1 if cfg[0] else 0, cfg[0], cfg[0] + 1, 15, 2 ** 40])
        nrs = rng.choice([0, 1, 2, 3])
        rs = [rand_receipt(rng, True) for _ in range(nrs)]
        txs = []
        for k in range(rng.choice([0, 1, 3]) if nrs == 0 else nrs):
            t = rand_tx(rng)
            t["Type"] = rng.randrange(0, 8)
            txs.append(t)
        c = {"kind": "B", "ChainID": ((3).to_bytes(4, "little") + b"\x01\x00aaa/dpos").hex(), "Prev": rbytes(rng, 32).hex(), "BlockNo": no,
             "Timestamp": rint(rng, "i64"), "Confirms": rng.randrange(0, 5), "Coinbase": rng.choice([b"", rbytes(rng, 33)]).hex(),
             "Consensus": rng.choice([b"", b"\x01\x02"]).hex(), "EmptyNotNil": rng.random() < 0.4, "ForgedHash": "",
             "Txs": [json_tx(t) for t in txs], "Rs": [vs_receipt(r) for r in rs], "HasBloom": rng.random() < 0.5,
             "BloomKeys": [rbytes(rng, 5).hex()], "Cfg": cfg, "CfgRead": None}
        kind = "same"
        if i % 3 == 1 and rs:
            # restart with an edited configuration: V2 height moved across this block (incompatible) or not (compatible)
            if rng.random() < 0.5:
                c["CfgRead"] = [no + 1 if cfg[0] <= no else max(0, no), cfg[1] + no + 1, cfg[2] + no + 1, cfg[3] + no + 1]
                c["CfgRead"] = sorted(min(x, 2 ** 63) for x in c["CfgRead"])
                kind = "v2-moved-across"
            else:
                c["CfgRead"] = [cfg[0], cfg[1] + 7, cfg[2] + 7, cfg[3] + 7] if cfg[3] < 2 ** 62 else cfg
                kind = "later-forks-moved"
        if i % 3 == 2:
            c["ForgedHash"] = rbytes(rng, 32).hex()
            kind = "forged-hash-field"
        cases.append(c)
        meta.append((kind, rs, txs))
    hfc = []
    for cfg, stored, rd, best in [([10, 20, 30, 40], "", None, 25), ([10, 20, 30, 40], "", [10, 20, 30, 50], 35), ([10, 20, 30, 40], "", [10, 20, 30, 50], 45),
                                  ([10, 20, 30, 50], '{"V2":10,"V3":20,"V4":30}', None, 45), ([10, 20, 30, 40], '{"V2":10,"V3":20,"V4":30,"V5":40,"V6":44}', None, 43),
                                  ([10, 20, 30, 40], '{"V2":10,"V3":20,"V4":30,"V5":40,"V6":44}', None, 44),
                                  ([10, 20, 30, 40], '{"V2":10,"V3":20,"V4":30,"V5":40,"V6":44}', None, 45), ([30, 20, 10, 40], "", None, 5),
                                  ([0, 0, 0, 0], '{}', None, 0), ([1, 2, 3, 4], '{"V2":0}', None, 0)]:
        hfc.append({"kind": "HF", "Cfg": cfg, "CfgRead": rd, "Best": best, "DbJSON": stored})
    for _ in range(2 if quick else 200):
        cfg = sorted(rng.randrange(0, 100) for _ in range(4))
        if rng.random() < 0.2:
            rng.shuffle(cfg)
        keys = {"V%d" % (i + 2): (cfg[i] if rng.random() < 0.7 else rng.randrange(0, 100)) for i in range(4) if rng.random() < 0.8}
        if rng.random() < 0.2:
            keys["V6"] = rng.randrange(0, 100)
        hfc.append({"kind": "HF", "Cfg": cfg, "CfgRead": None, "Best": rng.randrange(0, 120), "DbJSON": json.dumps(keys) if rng.random() < 0.7 else ""})
    obs = run_engine(ctx, binpath, "TestVerifStoreEngine", cases + hfc, "store")
    ritems, rsrc, gitems, gsrc = [], [], [], []
    for c, (kind, rs, txs), o in zip(cases, meta, obs):
        rep = {"scenario": kind, "case": {k: v for k, v in c.items() if k not in ("Rs", "Txs")}, "n_receipts": len(rs), "n_txs": len(txs),
               "obs": {k: v for k, v in o.items() if k != "receipts"}}
        st.nontrivial.add(("DB", kind, len(rs), len(txs), c["EmptyNotNil"], bool(o.get("v2_write"))))
        if "panic" in o or "get_err" in o:
            st.fail("C19:chaindb-block-roundtrip", "a block written to the chain DB could not be read back after a restart: %s" % (o.get("panic") or o.get("get_err")), rep)
            continue
        if not (o["same_bytes"] and o["same_hash_field"] and o["blockhash_is_key"] and o["block_unchanged_by_store"]):
            st.fail("C19:chaindb-block-roundtrip", "a block read back from the chain DB after a restart differs from what was written", rep)
        if not (o["txs_same"] and o["txidx_same"]):
            st.fail("C19:chaindb-tx-roundtrip", "a transaction looked up through the tx index differs from what was written (or its index entry does)", rep)
        if not o["recomputed_is_digest"]:
            st.fail("C19:chaindb-header-changed", "the header read back no longer hashes to the identifier computed before storing", rep)
        if kind == "forged-hash-field" and (o.get("found_under_digest") or not o["blockhash_is_key"]):
            st.fail("C19:chaindb-forged-key", "unexpected key behaviour for a block with a foreign Hash field", rep)
        if kind == "forged-hash-field":
            st.aliasing_notes.add("chain DB files a block under its Hash FIELD and getBlock never recomputes the digest (F8, see C18/C05): "
                                  "a block with a foreign Hash field is stored and read back under that field, nothing under its digest")
        if rs:
            v2w = c["Cfg"][0] <= c["BlockNo"]
            cr = c["CfgRead"] or c["Cfg"]
            v2r = cr[0] <= c["BlockNo"]
            if o.get("receipts_skipped_version_mismatch"):
                # the configuration of the restarted node selects the other receipt format for this block:
                # CheckCompatibility must refuse it whenever the block is not above the best block
                hf = run_engine(ctx, binpath, "TestVerifStoreEngine", [{"kind": "HF", "Cfg": c["Cfg"], "CfgRead": cr, "Best": c["BlockNo"], "DbJSON": ""}], "store_hf1")[0]
                st.witnesses["C19_db_receipts_version_mismatch_refuted"] = (
                    o["v2_write"] != o["v2_read"] and not hf.get("compat"),
                    "real configs select different receipt formats for the stored block (IsV2Fork %s vs %s); the decode itself is NOT executed "
                    "(it allocates from garbage counts); CheckCompatibility refuses that restart" % (o["v2_write"], o["v2_read"]))
                if hf.get("compat"):
                    st.fail("C19:compat-accepts-v2-switch-change", "CheckCompatibility accepts a configuration that decodes stored receipts of block "
                            "%d with the other format version" % c["BlockNo"], {"case": rep, "hardfork_obs": hf})
                continue
            got = [vs_receipt_back(j) for j in o["receipts"]] if "receipts" in o else None
            want = [store_view(r, v2w) for r in rs]
            if v2w == v2r:
                if got != want:
                    st.fail("C19:chaindb-receipts-roundtrip", "receipts read back from the chain DB after a restart differ from what was written "
                            "(same format version on both sides)", rep)
                elif v2w and o.get("root_read") != o.get("root_written"):
                    st.fail("C19:chaindb-receipts-root", "receipts root differs after the chain DB round trip", rep)
                if not v2w and any(r["feedeleg"] or r["gas"] for r in rs) and got == want:
                    st.fail("C19:F17-v1-receipt-drops-feedelegation-gasused", "V1-era receipts stored in the chain DB read back without "
                            "FeeDelegation/GasUsed", rep)
            bw = "(Some %s)" % cb(hb(o["bloom_written"])) if "bloom_written" in o else "None"
            br = "(Some %s)" % cb(hb(o["bloom_read"])) if "bloom_read" in o else "None"
            dec = "None" if got is None else "(Some (%s, [%s]))" % (br, "; ".join(coq_receipt(r) for r in got))
            ritems.append("([%s], [%s], %d, %s, [%s], %s)" % (";".join(map(str, c["Cfg"])), ";".join(map(str, cr)), c["BlockNo"], bw,
                                                             "; ".join(coq_receipt(r) for r in rs), dec))
            rsrc.append(rep)
            # getReceipt index test
            n = len(rs)
            for i in range(n + 1):
                cls = 2 if ("getreceipt_%d_of_%d_panic" % (i, n)) in o else (1 if ("getreceipt_%d_of_%d_err" % (i, n)) in o else 0)
                if v2w != v2r:
                    continue      # decoded with the other format version: garbage / slice panics are expected (see db_receipts)
                gitems.append("(%d%%nat, %d%%Z, %d)" % (n, i, cls))
                gsrc.append(rep)
                if i == n and cls == 1:
                    st.getreceipt_repaired = True
                if cls == 2:
                    st.fail("C19:getreceipt-index-equal-length-panics", "ChainDB.getReceipt(idx = number of receipts) panics "
                            "(index out of range): the bound test is `idx > len`", rep)
            if "getreceipt_wrong" in o:
                st.fail("C19:chaindb-getreceipt-wrong", "getReceipt returned the receipt of another index", rep)
    hitems, hsrc = [], []
    for c, o in zip(hfc, obs[len(cases):]):
        rep = {"case": c, "obs": o}
        cr = c["CfgRead"] or c["Cfg"]
        stored = json.loads(c["DbJSON"]) if c["DbJSON"] else {"V%d" % (i + 2): c["Cfg"][i] for i in range(4)}
        st.nontrivial.add(("HFDB", bool(c["DbJSON"]), len(stored), o.get("compat")))
        if "panic" in o or o.get("db_nil"):
            st.fail("C19:chaindb-hardfork-read", "stored hardfork configuration could not be read back", rep)
            continue
        if not c["DbJSON"] and c["CfgRead"] is None and all(c["Cfg"][i] <= c["Cfg"][i + 1] for i in range(3)) and not o["compat"]:
            st.fail("C19:hardfork-self-incompatible", "a validated configuration is reported incompatible with what it wrote itself", rep)
        if o.get("compat") and o["versions_read_written"][4] != o["versions_read_written"][5] and not c["DbJSON"]:
            st.fail("C19:compat-different-version", "restart accepted but the version at the best block differs from the one of the writing configuration", rep)
        nw = sorted((int(k[1:]), v) for k, v in stored.items() if k[1:].isdigit() and int(k[1:]) > 5 and v <= c["Best"])
        if nw and o.get("compat"):
            st.fail("C19:start-accepted-on-chain-with-newer-active-fork",
                    "ChainDB.Hardfork + CheckCompatibility accept a start on a chain DB whose stored hardfork V%d (height %d) is active at the "
                    "best block %d although this node knows versions only up to 5" % (nw[-1][0], nw[-1][1], c["Best"]), rep)
        # direct predicate: a stored fork height that is already active (or the node's, if active) and differs must refuse the start
        for i in range(4):
            k = "V%d" % (i + 2)
            if k in stored and stored[k] != cr[i] and min(stored[k], cr[i]) <= c["Best"] and o.get("compat") \
                    and all(cr[j] <= cr[j + 1] for j in range(3)):
                st.fail("C19:restart-accepts-changed-active-fork", "restart accepted although the stored %s height (%d) differs from the "
                        "configured one (%d) and one of them is active at the best block %d" % (k, stored[k], cr[i], c["Best"]), rep)
        if not c["DbJSON"] or all(k in ("V2", "V3", "V4", "V5", "V6") for k in stored):
            sdb = "[" + ";".join("(%d, %d)" % (int(k[1:]), v) for k, v in sorted(stored.items())) + "]"
            hs = [o["db"].get("V%d" % (i + 2), 0) for i in range(4)]
            hitems.append("(%s, [%s], %d, [%s], %s)" % (sdb, ";".join(map(str, cr)), c["Best"], ";".join(map(str, hs)), cbool(bool(o.get("compat")))))
            hsrc.append(rep)
    st.add_family("db_receipts", "hf_config * hf_config * N * option bytes * list receipt * option (option bytes * list receipt)",
                  "db_receipts_case_ok", ritems, rsrc)
    st.add_family("db_get_receipt", "nat * Z * N",
                  "(fun c : nat * Z * N => let '(n, i, cls) := c in let rs := repeat receipt_f17 n in "
                  "(get_receipt_class (get_receipt rs i) =? cls) || (get_receipt_class (get_receipt_fixed rs i) =? cls))",
                  gitems, gsrc)
    st.add_family("db_hardfork_restart", "hf_db * hf_config * N * list N * bool", "hardfork_restart_case_ok", hitems, hsrc)
    st.evals += len(cases)
    st.dist["db_blocks_txs_observed"] = len(cases)
    st.rules.append("chain DB: blocks (nil vs empty-non-nil byte fields, foreign Hash field), their txs through the tx index, receipts of 0..3 "
                    "entries with/without bloom at heights around the V2 fork, written by the real ChainDB into a badger DB, DB closed and "
                    "re-opened, read with the same / a compatible / an incompatible configuration; getReceipt for every index 0..len; "
                    "hardfork configuration stored by WriteHardfork or as raw JSON (missing / extra / changed keys) and read by Hardfork+CheckCompatibility")


# ------------------------------------------------------------------ event bloom filters (package state + types)
def bloom_family(ctx, st):
    rng = ctx.rng
    quick = ctx.tier == "quick"
    binpath = build_engine(ctx, "state", ["zz_verif_bloom_engine_test.go"], "codec_state.test")
    cases = []
    pool_addr = [bytes([2]) + rbytes(rng, 32) for _ in range(4)] + [bytes([0x80]) + b"name" + bytes(28)]   # well-formed event addresses only
    probe_addr = pool_addr + [b"", b"\x00" * 33]
    pool_name = [b"transfer", b"mint", b"", b"x", rbytes(rng, 40), b"transfer "]
    shapes = [[0], [1], [2, 0, 1], [0, 0], [3, 3], [1, 0, 0, 2, 5]] + [[rng.randrange(0, 4) for _ in range(rng.randrange(0, 5))] for _ in range(6 if quick else 150)]
    for shape in shapes:
        rs = [[{"Addr": rng.choice(pool_addr).hex(), "Name": rng.choice(pool_name).hex()} for _ in range(n)] for n in shape]
        own = [e for r in rs for e in r]
        foreign_a, foreign_n = (bytes([3]) + rbytes(rng, 32)).hex(), rbytes(rng, 9).hex()
        # a search by name only (foreign address) and by address only (foreign name) must find the event too
        probes = own + [{"Addr": foreign_a, "Name": e["Name"]} for e in own] + [{"Addr": e["Addr"], "Name": foreign_n} for e in own] \
            + [{"Addr": rng.choice(probe_addr).hex(), "Name": rng.choice(pool_name).hex()} for _ in range(3)] \
            + [{"Addr": rbytes(rng, 33).hex(), "Name": rbytes(rng, 6).hex()} for _ in range(2)]
        cases.append({"receipts": rs, "probes": probes})
    obs = run_engine(ctx, binpath, "TestVerifBloomEngine", cases, "bloom")
    items, src = [], []
    for c, o in zip(cases, obs):
        rep = {"case": c, "obs": {k: v for k, v in o.items() if k not in ("singles", "blooms", "blooms2", "block", "block2")}}
        if "panic" in o or "add_err" in o or "enc_err" in o or "dec_err" in o:
            st.fail("C19:bloom-engine-error", "AddReceipt / receipts codec failed on a receipt with events", rep)
            continue
        st.nontrivial.add(("BL", tuple(min(len(r), 3) for r in c["receipts"])[:4]))
        # direct predicates: no false negative for any event, receipt-level and block-level, before and after the store round trip
        pi = 0
        nown = sum(len(r) for r in c["receipts"])
        for ri, r in enumerate(c["receipts"]):
            for e in r:
                for tag in ("", "2"):
                    for off, what in ((nown, "event name alone (foreign address)"), (2 * nown, "contract address alone (foreign event name)")):
                        if not o["answers" + tag][pi + off][ri] or not o["block_answers" + tag][pi + off]:
                            st.fail("C19:bloom-false-negative", "a search by %s does not find the event through the receipt's / block's "
                                    "bloom filter" % what, rep)
                    if not o["answers" + tag][pi][ri]:
                        st.fail("C19:bloom-false-negative", "an event's contract address / name is not found through its receipt's bloom filter%s"
                                % (" after the store round trip" if tag else ""), rep)
                    if not o["block_answers" + tag][pi]:
                        st.fail("C19:bloom-false-negative", "an event's contract address / name is not found through the block's bloom filter%s"
                                % (" after the store round trip" if tag else ""), rep)
                pi += 1
        for ri, r in enumerate(c["receipts"]):
            if (len(o["blooms"][ri]) // 2) != (256 if r else 0):
                st.fail("C19:bloom-length", "receipt bloom is not 256 bytes for a receipt with events / not empty without", rep)
        if o["blooms2"] != o["blooms"] or o["block2"] != o["block"] or o["answers2"] != o["answers"] or o["block_answers2"] != o["block_answers"]:
            st.fail("C19:bloom-roundtrip", "bloom filters or their answers change across the receipts store round trip", rep)
        tbl = "[" + "; ".join("(%s, %s)" % (cb(hb(k)), cb(hb(v))) for k, v in sorted(o["singles"].items())) + "]"
        rsl = "[" + "; ".join("[" + "; ".join("(%s, %s)" % (cb(hb(e["Addr"])), cb(hb(e["Name"]))) for e in r) + "]" for r in c["receipts"]) + "]"
        rbl = "[" + "; ".join(cb(hb(b)) for b in o["blooms"]) + "]"
        bb = "(Some %s)" % cb(hb(o["block"])) if o["has_block"] else "None"
        pr = "[" + "; ".join("(%s, %s, [%s], %s)" % (cb(hb(p["Addr"])), cb(hb(p["Name"])), "; ".join(cbool(x) for x in a), cbool(b))
                              for p, a, b in zip(c["probes"], o["answers"], o["block_answers"])) + "]"
        items.append("(%s, %s, %s, %s, %s)" % (tbl, rsl, rbl, bb, pr))
        src.append(rep)
    st.add_family("bloom", "list (bytes * bytes) * list (list (bytes * bytes)) * list bytes * option bytes * list (bytes * bytes * list bool * bool)",
                  "bloom_case_ok", items, src)
    st.rules.append("bloom: receipts with 0..5 events (shared / empty / all-zero addresses, empty and near-duplicate names) through the real "
                    "BlockState.AddReceipt; receipt and block filters byte-exact against the OR of the implementation's single-key filters, "
                    "Receipt.BloomFilter / Receipts.BloomFilter answers for every event and for foreign probes, before and after the store round trip")


# ------------------------------------------------------------------ store decoders on truncated / damaged encodings
def receipt_damage_family(ctx, st):
    """The decoders have no length checks (stored data is trusted): on damaged input they panic or misparse.  No property is
    claimed; the family ties the model's decoders (None = out of range) to the Go decoders on every truncation and on bit flips."""
    rng = ctx.rng
    quick = ctx.tier == "quick"
    base = []
    for ver in (1, 2):
        small = {"addr": bytes(range(1, 34)), "status": "SUCCESS", "ret": b"ok", "txhash": bytes(32), "fee": b"\x01", "cumfee": b"", "bloom": b"",
                 "gas": 7, "feedeleg": True, "events": [{"addr": bytes(range(1, 34)), "name": b"e", "args": b"[]", "idx": 0, "txhash": b"",
                                                         "blockhash": b"", "blockno": 0, "txindex": 0}]}
        base.append((ver, small, 1))
        for _ in range(1 if quick else 6):
            base.append((ver, rand_receipt(rng, True), 5 if quick else 1))
    enc_cases = [{"kind": "R", "ver": 2, "r": json_receipt(r)} for ver, r, step in base]
    encs = run_engine(ctx, st.types_bin, "TestVerifCodecEngine", enc_cases, "damage_enc")
    cases, meta = [], []
    for (ver, r, step), e in zip(base, encs):
        data = hb(e["s2"] if ver >= 2 else e["s1"])
        for n in range(0, len(data), step):
            cases.append({"kind": "RD", "ver": ver, "raw": data[:n].hex()})
            meta.append(("trunc", ver))
        for _ in range(8 if quick else 60):
            i = rng.randrange(len(data))
            d = data[:i] + bytes([data[i] ^ (1 << rng.randrange(8))]) + data[i + 1:]
            cases.append({"kind": "RD", "ver": ver, "raw": d.hex()})
            meta.append(("flip", ver))
    obs = run_engine(ctx, st.types_bin, "TestVerifCodecEngine", cases, "damage")
    items, src = [], []
    npanic = 0
    for c, (kind, ver), o in zip(cases, meta, obs):
        if "d" in o:
            ob = "(Some (%s, %s))" % (coq_receipt(receipt_from_json(o["d"])), cb(hb(o["d_rest"])))
        else:
            ob = "None"
            npanic += 1
        items.append("(%s, %s, %s)" % (cbool(ver >= 2), cb(hb(c["raw"])), ob))
        src.append({"kind": kind, "ver": ver, "raw": c["raw"][:120], "obs": {k: v for k, v in o.items() if k != "d"}})
        st.nontrivial.add(("RD", kind, ver, "d" in o))
    st.add_family("receipt_damage", "bool * bytes * option (receipt * bytes)", "decode_raw_ok", items, src)
    st.aliasing_notes.add("receipt store decoders have no length checks: %d of %d truncated / bit-flipped encodings make them panic or report an "
                          "absurd event count (stored data is trusted; modelled as None)" % (npanic, len(cases)))
    st.rules.append("receipt damage: every truncation of a small V1 and V2 store encoding, sampled truncations of random ones, single bit flips")


# ------------------------------------------------------------------ restart protocol of the hardfork configuration (real checkHardfork)
def restart_family(ctx, st):
    rng = ctx.rng
    quick = ctx.tier == "quick"
    binpath = st.chain_bin
    A, B = [0, 0, 0, 40], [0, 0, 0, 20]
    seqs = [
        [("start", A), ("grow", 10), ("start", B), ("grow", 20), ("start", B), ("start", A)],          # reschedule a future fork, then try to go back
        [("start", A), ("grow", 10), ("start", B), ("grow", 20), ("start", A), ("grow", 5), ("start", B)],
        [("start", [5, 10, 15, 20]), ("grow", 12), ("start", [5, 10, 14, 20]), ("start", [5, 10, 13, 20]), ("start", [5, 10, 12, 20]),
         ("start", [5, 10, 15, 21]), ("grow", 9), ("start", [5, 10, 15, 20]), ("start", [5, 10, 15, 21])],
        [("start", [3, 3, 3, 3]), ("grow", 2), ("start", [4, 4, 4, 4]), ("grow", 3), ("start", [3, 3, 3, 3]), ("start", [4, 4, 4, 4])],
        [("start", A), ("grow", 10), ("start", B), ("grow", 20), ("start", A), ("start", A), ("grow", 3), ("start", B)],   # a refused configuration retried
        [("start", [9, 7, 5, 3]), ("grow", 4), ("start", [9, 7, 5, 3]), ("start", [3, 5, 7, 9])],       # unvalidated first start
    ]
    rs = []
    for _ in range(4 if quick else 80):
        cfg = sorted(rng.randrange(0, 30) for _ in range(4))
        seq = [("start", list(cfg))]
        best = 0
        for _ in range(rng.randrange(2, 5)):
            k = rng.randrange(0, 9)
            seq.append(("grow", k))
            best += k
            for _ in range(rng.randrange(1, 3)):
                c2 = list(cfg)
                i = rng.randrange(4)
                c2[i] = max(0, rng.choice([best - 1, best, best + 1, cfg[i] - 1, cfg[i] + 1, rng.randrange(0, 40)]))
                if rng.random() < 0.85:
                    c2 = sorted(c2)
                seq.append(("start", c2))
        rs.append(seq)
    seqs += rs
    cases = [{"kind": "RSQ", "Events": [({"op": "start", "cfg": x} if op == "start" else {"op": "grow", "k": x}) for op, x in seq]} for seq in seqs]
    obs = run_engine(ctx, binpath, "TestVerifStoreEngine", cases, "restart")
    items, src = [], []
    for seq, c, o in zip(seqs, cases, obs):
        rep = {"events": seq, "steps": [{k: v for k, v in s_.items() if k not in ("made", "now")} for s_ in o.get("steps", [])]}
        if "panic" in o:
            st.fail("C19:restart-engine-panic", "restart sequence panicked: " + o["panic"], rep)
            continue
        last_accepted = None
        for (op, x), s_ in zip(seq, o["steps"]):
            if "made" in s_ and s_["made"] != s_["now"]:
                h = next(i for i, (a, b) in enumerate(zip(s_["made"], s_["now"])) if a != b) + 1
                st.fail("C19:hardfork-version-not-stable-across-restarts",
                        "after the events %s the running node reports version %d for height %d, which was produced as version %d "
                        "(stored heights %s)" % (seq[:o["steps"].index(s_) + 1], s_["now"][h - 1], h, s_["made"][h - 1], s_["stored"]),
                        dict(rep, height=h, made=s_["made"][h - 1], now=s_["now"][h - 1]))
                break
            if op == "start":
                if s_["accepted"]:
                    last_accepted = x
                elif last_accepted == x and all(x[i] <= x[i + 1] for i in range(3)):
                    st.fail("C19:restart-refuses-running-configuration", "a restart with the configuration of the last accepted start is refused: %s"
                            % s_.get("err"), rep)
        st.nontrivial.add(("RSQ", tuple((op, bool(s_.get("accepted"))) for (op, x), s_ in zip(seq, o["steps"]))[:8]))
        evs = "[" + "; ".join(("Start [%s]" % ";".join(map(str, x))) if op == "start" else ("Grow %d" % x) for op, x in seq) + "]"
        ob = "[" + "; ".join("(%s, [%s], %d)" % (cbool(bool(s_["accepted"])), ";".join(map(str, s_["stored"])), s_["best"]) for s_ in o["steps"]) + "]"
        items.append("(%s, %s)" % (evs, ob))
        src.append(rep)
    st.add_family("restart_sequences", "list event * list (bool * list N * N)", "restart_case_ok", items, src)
    st.rules.append("restart sequences: 2..9 starts of the real ChainService.checkHardfork on one persistent chain DB, interleaved with real block "
                    "production, configurations changed below / at / above the best block, rescheduled future forks and attempts to go back; "
                    "every produced height's header version vs the version the running node reports; accept/refuse, stored heights and best "
                    "block after every step vs the model's step function")


# ------------------------------------------------------------------ concurrency: the encoders / hashers / roots are FUNCTIONS
def concurrent_family(ctx, st):
    """The model functions are pure.  That the Go functions are (no package-level hasher / buffer shared between calls) is tied
    by recomputing fixed inputs from many goroutines at once and comparing with the sequentially computed values; in the thorough
    tier the same run is repeated on binaries built with the race detector."""
    rng = ctx.rng
    quick = ctx.tier == "quick"
    items = []
    for n in [0, 1, 2, 3, 5, 8, 16, 17]:
        items.append({"kind": "TR", "txs": [json_tx(rand_tx(rng)) for _ in range(n)]})
    for ver in (1, 2):
        for n in [1, 3, 4, 7]:
            items.append({"kind": "RS", "ver": ver, "hasbloom": n % 2 == 1, "bloomkeys": [rbytes(rng, 6).hex()],
                          "rs": [json_receipt(rand_receipt(rng, True)) for _ in range(n)]})
    for _ in range(4):
        items.append({"kind": "H", "h": json_header(rand_header(rng))})
        items.append({"kind": "T", "t": json_tx(rand_tx(rng))})
        items.append({"kind": "R", "ver": 2, "r": json_receipt(rand_receipt(rng, True))})
    lists = [[rbytes(rng, 32).hex() for _ in range(n)] for n in [1, 2, 3, 4, 5, 7, 8, 9, 16, 17, 31, 33]]
    workers, iters = (8, 6) if quick else (16, 40)
    runs = [("plain", st.types_bin, os.path.join(ctx.workdir, "codec_merkle.test"))]
    if not quick:
        rb = build_race(ctx)
        if rb:
            runs.append(("race", rb[0], rb[1]))
        else:
            ctx.notes.append("race-detector build of the types / merkle engines failed; concurrent predicate run without it")
    for tag, tbin, mbin in runs:
        fin_env = {"GORACE": "halt_on_error=0 exitcode=66"} if tag == "race" else None
        races = []
        o = run_engine(ctx, tbin, "TestVerifCodecEngine", [{"kind": "CONC", "items": items, "workers": workers, "iters": iters}], "conc_" + tag,
                       env=fin_env, tolerate_rc=(tag == "race"))
        if tag == "race":
            races += list(STATE_RACES)
        m = run_engine(ctx, mbin, "TestVerifMerkleEngine", [{"conc": lists, "workers": workers, "iters": iters * 4}], "concm_" + tag,
                       env=fin_env, tolerate_rc=(tag == "race"))
        if tag == "race":
            races += list(STATE_RACES)
        for what, ob in (("types", o[0] if o else None), ("merkle", m[0] if m else None)):
            if ob is None:
                st.fail("C19:concurrent-engine-died", "the %s engine died in the concurrent run (%s build)" % (what, tag), {"races": races[:3]})
                continue
            if ob.get("sequential_unstable"):
                st.fail("C19:not-a-function-sequential", "recomputing the same input sequentially gives another result", {"engine": what})
            if ob["mismatches"]:
                b0 = ob["mismatches"][0]
                st.fail("C19:not-a-function-under-concurrency",
                        "%d goroutines recomputing fixed inputs at the same time: %s differs from the sequentially computed value "
                        "(a hasher / buffer is shared between calls)" % (workers, ("the merkle root of a %d-entry list" % b0["n"]) if what == "merkle"
                                                                          else {"TR": "a transaction root", "RS": "a receipts root / receipt list encoding",
                                                                                "H": "a block identifier input / hash", "T": "a transaction hash",
                                                                                "R": "a receipt encoding / leaf hash"}.get(b0.get("kind"), "a result")),
                        {"engine": what, "build": tag, "workers": workers, "iters": iters, "mismatches": ob["mismatches"],
                         "input": (lists[b0["list"]] if what == "merkle" else items[b0["item"]])})
        if races:
            st.fail("C19:data-race-in-encoders", "the race detector reports a data race in the codec / merkle code under the concurrent run",
                    {"reports": races[:2]})
        st.evals += (o[0].get("evaluations", 0) if o else 0)
        st.nontrivial.add(("CONC", tag))
    st.dist["concurrent_recomputations"] = workers * iters * (len(items) + 4 * len(lists))
    st.rules.append("concurrency: %d goroutines x %d rounds over 8 tx lists, 8 receipt lists (V1/V2, bloom), headers, txs, receipts and 12 merkle "
                    "leaf lists, each goroutine in its own order, compared with the sequential values; thorough: again under the race detector" % (workers, iters))


def build_race(ctx):
    env = ctx.goenv()
    env["CGO_ENABLED"] = "1"
    outs = []
    for pkg, f, out in (("types", "zz_verif_codec_engine_test.go", "codec_types_race.test"), ("internal/merkle", "zz_verif_merkle_engine_test.go", "codec_merkle_race.test")):
        ov = ctx.plain_overlay({os.path.join(pkg, f): os.path.join(ENG, f)})
        outp = os.path.join(ctx.workdir, out)
        rc, log = vf.sh(["go", "test", "-c", "-race", "-vet=off", "-tags", "verif", "-overlay", ov, "-o", outp, "./" + pkg], cwd=ctx.repo, env=env, timeout=1500)
        if rc != 0:
            ctx.notes.append("race build of %s failed: %s" % (pkg, log[-300:]))
            return None
        outs.append(outp)
    return outs


# ------------------------------------------------------------------ producer side: identifier of the FINISHED block (cached Hash field)
def producer_family(ctx, st):
    """(a) every header mutator, with and without an earlier request for the identifier: is BlockHash() the hash of the final header?
    (b) a block produced through the real BlockGenerator.GenerateBlock and finished like the dpos / raft factories do, with the node's
    log level as a configuration dimension (the engine is run again with ARGLIB_LEVEL=debug in its environment)."""
    rng = ctx.rng
    quick = ctx.tier == "quick"
    # (a) package types
    hs = [rand_header(rng) for _ in range(2 if quick else 20)]
    obs = run_engine(ctx, st.types_bin, "TestVerifCodecEngine", [{"kind": "HM", "h": json_header(h)} for h in hs], "mutators")
    stale, fresh = set(), set()
    for h, o in zip(hs, obs):
        for name, r in o["mutators"].items():
            ok = r["id_is_hash_of_final_header"] and r["received_id_is_hash_of_header"]
            if name.endswith("_after_early_id"):
                (fresh if ok else stale).add(name[:-len("_after_early_id")])
            elif not ok:
                st.fail("C19:mutator-breaks-identifier", "after %s on a block whose identifier had not been asked for, BlockHash() is not the hash of the header" % name,
                        {"header": json_header(h), "obs": r})
        st.nontrivial.add(("HM", tuple(sorted(stale))))
    if stale:
        st.fail("C19:header-mutators-keep-stale-cached-id",
                "Block.%s change the header but keep the Hash field cached by an earlier BlockHash()/ID() call: the identifier of the finished block "
                "(and the Hash field a receiver gets) is then the hash of the UNFINISHED header" % "/".join(sorted(stale)),
                {"stale_after": sorted(stale), "invalidated_by": sorted(fresh), "example_header": json_header(hs[0])})
    st.witnesses["C19_early_id_is_stale_refuted"] = (bool(stale) or bool(fresh),
                                                     ("reported as KNOWN-FINDING C19:header-mutators-keep-stale-cached-id (mutators: %s)" % sorted(stale)) if stale
                                                     else "REPAIRED in the tree under test: every mutator clears the cached identifier (the code follows "
                                                          "block_id_of_final_header_invalidating)")
    # (b) package consensus/chain, both log levels
    rc, log, binpath = ctx.go_test_binary("consensus/chain", [os.path.join(ENG, "zz_verif_producer_engine_test.go")], "codec_producer.test", use_overlay=True)
    if rc != 0:
        raise RuntimeError("consensus/chain (producer) engine build failed:\n" + log[-3000:])
    cases = [{"ntx": n, "factory": f, "version": v} for n in (0, 1, 3) for f in ("dpos", "raft", "sbp") for v in ((2,) if quick else (0, 2, 3))]
    for level in ("info", "debug"):
        obs = run_engine(ctx, binpath, "TestVerifProducerEngine", cases, "producer_" + level, env={"ARGLIB_LEVEL": level})
        for c, o in zip(cases, obs):
            rep = {"log_level": level, "case": c, "obs": o}
            if "panic" in o or "generate_err" in o:
                st.fail("C19:producer-engine-error", "producing a block failed: %s" % (o.get("panic") or o.get("generate_err")), rep)
                continue
            if level == "debug" and not o["debug_enabled"]:
                st.fail("C19:producer-engine-error", "the debug-level run did not enable debug logging", rep)
            st.nontrivial.add(("PB", level, c["factory"], min(c["ntx"], 1)))
            if not o["id_is_hash_of_final_header"] or not o["received_id_is_hash_of_header"]:
                st.fail("C19:produced-block-id-not-hash-of-final-header",
                        "log level %s, %s factory, %d txs: the identifier of the produced block is %s of its final header%s" % (
                            level, c["factory"], c["ntx"],
                            "the hash of the UNFINISHED header instead" if o["id"] == o["hash_of_unfinished_header"] else "not the hash",
                            "; GenerateBlock returned with the Hash field already set" if o.get("hash_field_set_by_generate") else ""), rep)
            if c["factory"] != "sbp" and not o.get("signature_ok"):
                st.fail("C19:produced-block-signature", "the produced block's signature does not verify", rep)
        st.evals += len(cases)
    st.dist["produced_blocks_observed"] = 2 * len(cases)
    st.rules.append("producer: 5 header mutators x (identifier asked before / not); blocks of 0/1/3 txs through the real GenerateBlock finished as "
                    "dpos / raft / sbp, at log level info and debug (child process environment), identifier vs hash of the final header, also after protobuf")


EXTRA_FAMILIES = [corpus_family, receipts_family, merkle_family, hardfork_family, txsign_family, chainid_family, txroot_family, genesis_family, genesis_store_family, store_family, restart_family, forkboundary_family, bloom_family, receipt_damage_family, concurrent_family, producer_family]
EXTRA_TARGETS = ["Common/Sha256.vo", "Common/Lit.vo", "Codec/Receipt.vo", "Codec/Merkle.vo", "Codec/Hardfork.vo", "Codec/TxRoot.vo", "Codec/GenesisStore.vo", "Codec/ChainStore.vo", "Codec/Bloom.vo", "Codec/Restart.vo"]  # evaluated models that no theorem depends on

IMPORTS = """From Coq Require Import NArith ZArith List Bool String Uint63.
From Verif Require Import Common.Bytes Common.Lit Common.Sha256 Codec.Fields Codec.Digest Codec.ChainId Codec.Merkle Codec.TxRoot Codec.Receipt Codec.Hardfork Codec.GenesisStore Codec.ChainStore Codec.ReceiptProofs Codec.Bloom Codec.Restart %s.
Import ListNotations.
Open Scope N_scope.
"""
EXTRA_IMPORTS = []


def evaluate_model(ctx, st, shard=1200):
    """One or more generated .v files; every family prints its own mismatch list."""
    d = os.path.join(ctx.workdir, "coq")
    if os.path.isdir(d):
        for fn in os.listdir(d):          # stale shards of a previous (larger) run
            if re.match(r"\.?cases\d+\.", fn):
                os.remove(os.path.join(d, fn))
    files, cur, cur_n = [], [], 0
    for fam in st.fams:
        name, typ, ok, items, src, pre = fam
        if cur and cur_n + len(items) > shard:
            files.append(cur)
            cur, cur_n = [], 0
        cur.append(fam)
        cur_n += len(items)
    if cur:
        files.append(cur)
    for i, fl in enumerate(files):
        txt = [IMPORTS % " ".join(EXTRA_IMPORTS)]
        for name, typ, ok, items, src, pre in fl:
            if pre:
                txt.append(pre)
            txt.append("Definition cases_%s : list (%s) := [%s]." % (name, typ, ";\n".join(items)))
            txt.append("Definition M_%s := Eval vm_compute in mismatches_from %s cases_%s 0.\nPrint M_%s." % (name, ok, name, name))
        rc, out = ctx.coq_eval("cases%d" % i, "\n".join(txt))
        lists = parse_all(out) if rc == 0 else None
        if lists is None or len(lists) != len(fl):
            st.corr_broken.append(("model evaluation failed for families %s" % [f[0] for f in fl], out[-2500:]))
            continue
        for (name, typ, ok, items, src, pre), idxs in zip(fl, lists):
            if idxs:
                st.corr_broken.append(("model/implementation differ on %s (%d of %d cases)" % (name, len(idxs), len(items)),
                                       [src[j] for j in idxs[:3]]))


def parse_all(out):
    flat = " ".join(out.split())
    res = []
    for m in re.finditer(r"\bM_\w+ = (\[[^\]]*\]|nil)", flat):
        body = m.group(1)
        idx = [] if body in ("nil", "[]") else [int(x) for x in re.findall(r"\d+", body)]
        if body not in ("nil", "[]") and not idx:
            return None      # non-empty list text that does not parse: evaluation failure, never a vacuous pass
        res.append(idx)
    return res

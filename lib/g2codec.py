"""Case generators, engine drivers and model evaluation for C19 (group g2-codec)."""
import hashlib
import json
import os
import re

import vf

ENG = os.path.join(vf.HARNESS, "engines", "codec")

HEADER_FIELDS = ["ChainID", "PrevBlockHash", "BlockNo", "Timestamp", "BlocksRootHash", "TxsRootHash",
                 "ReceiptsRootHash", "Confirms", "PubKey", "CoinbaseAccount", "Sign", "Consensus"]
# json key of the engine for each header field
HJ = {"ChainID": "ChainID", "PrevBlockHash": "Prev", "BlockNo": "BlockNo", "Timestamp": "Timestamp",
      "BlocksRootHash": "BlocksRoot", "TxsRootHash": "TxsRoot", "ReceiptsRootHash": "ReceiptsRoot",
      "Confirms": "Confirms", "PubKey": "PubKey", "CoinbaseAccount": "Coinbase", "Sign": "Sign", "Consensus": "Consensus"}
HINT = {"BlockNo": "u64", "Confirms": "u64", "Timestamp": "i64"}
TX_FIELDS = ["Nonce", "Account", "Recipient", "Amount", "Payload", "GasLimit", "GasPrice", "Type", "ChainIdHash", "Sign"]
TINT = {"Nonce": "u64", "GasLimit": "u64", "Type": "i32"}


class State:
    def __init__(self, ctx):
        self.ctx = ctx
        self.evals = 0
        self.nontrivial = set()
        self.dist = {}
        self.findings = []      # (key, what, case)  direct-predicate failures on the implementation
        self.corr_broken = []   # (what, cases)
        self.fams = []          # (name, coq type, ok function, [coq item], [source case], preamble)
        self.rules = []

    def add_family(self, name, typ, ok, items, sources, preamble=""):
        self.fams.append((name, typ, ok, items, sources, preamble))
        self.evals += len(items)
        self.dist[name] = self.dist.get(name, 0) + len(items)

    def fail(self, key, what, case):
        self.findings.append((key, what, case))

    def rule(self):
        return "; ".join(self.rules)


# ------------------------------------------------------------------ coq literals
def cb(b):
    """bytes -> Coq term of type `bytes` (compact: one hexadecimal numeral, see Common/Bytes.v:hexb)."""
    if len(b) == 0:
        return "[]"
    if len(b) <= 4:
        return "[" + ";".join(str(x) for x in b) + "]"
    return "(hexb %d%%nat 0x%s)" % (len(b), bytes(b).hex())


def cZ(n):
    return "(%d)%%Z" % n


def cbool(b):
    return "true" if b else "false"


def coq_header(h):
    return "(mk_header %s %s %d %s %s %s %s %d %s %s %s %s)" % (
        cb(h["ChainID"]), cb(h["PrevBlockHash"]), h["BlockNo"], cZ(h["Timestamp"]), cb(h["BlocksRootHash"]),
        cb(h["TxsRootHash"]), cb(h["ReceiptsRootHash"]), h["Confirms"], cb(h["PubKey"]), cb(h["CoinbaseAccount"]),
        cb(h["Sign"]), cb(h["Consensus"]))


def coq_tx(t):
    return "(mk_txbody %d %s %s %s %s %d %s %s %s %s)" % (
        t["Nonce"], cb(t["Account"]), cb(t["Recipient"]), cb(t["Amount"]), cb(t["Payload"]), t["GasLimit"],
        cb(t["GasPrice"]), cZ(t["Type"]), cb(t["ChainIdHash"]), cb(t["Sign"]))


def json_header(h, hashfield=b""):
    d = {}
    for f in HEADER_FIELDS:
        d[HJ[f]] = h[f] if f in HINT else h[f].hex()
    d["Hash"] = hashfield.hex()
    return d


def json_tx(t):
    return {f: (t[f] if f in TINT else t[f].hex()) for f in TX_FIELDS}


# ------------------------------------------------------------------ generators
def rbytes(rng, n):
    return bytes(rng.randrange(256) for _ in range(n))


def rlen(rng, typical):
    r = rng.random()
    if r < 0.55:
        return typical
    if r < 0.7:
        return 0
    return rng.randrange(0, 41)


def rint(rng, kind):
    lo, hi = {"u64": (0, 2 ** 64 - 1), "i64": (-2 ** 63, 2 ** 63 - 1), "i32": (-2 ** 31, 2 ** 31 - 1)}[kind]
    r = rng.random()
    if r < 0.15:
        return rng.choice([lo, hi, 0, 1, hi - 1, lo + 1, 255, 256, 2 ** 32 - 1, 2 ** 32]) if kind != "i32" else rng.choice([lo, hi, 0, 1, 6, -1])
    if r < 0.6:
        return rng.randrange(0, 1000)
    return rng.randrange(lo, hi + 1)


def rand_header(rng):
    return {"ChainID": rbytes(rng, rlen(rng, 20)), "PrevBlockHash": rbytes(rng, rlen(rng, 32)), "BlockNo": rint(rng, "u64"),
            "Timestamp": rint(rng, "i64"), "BlocksRootHash": rbytes(rng, rlen(rng, 32)), "TxsRootHash": rbytes(rng, rlen(rng, 32)),
            "ReceiptsRootHash": rbytes(rng, rlen(rng, 32)), "Confirms": rint(rng, "u64"), "PubKey": rbytes(rng, rlen(rng, 37)),
            "CoinbaseAccount": rbytes(rng, rlen(rng, 33)), "Sign": rbytes(rng, rlen(rng, 70)), "Consensus": rbytes(rng, rlen(rng, 0))}


def rand_tx(rng):
    return {"Nonce": rint(rng, "u64"), "Account": rbytes(rng, rlen(rng, 33)), "Recipient": rbytes(rng, rlen(rng, 33)),
            "Amount": rbytes(rng, rlen(rng, 8)), "Payload": rbytes(rng, rlen(rng, 10)), "GasLimit": rint(rng, "u64"),
            "GasPrice": rbytes(rng, rlen(rng, 4)), "Type": rint(rng, "i32"), "ChainIdHash": rbytes(rng, rlen(rng, 32)),
            "Sign": rbytes(rng, rlen(rng, 70))}


def mutate_bytes(rng, b):
    """A different byte string: flip / append / prepend / truncate / empty / random."""
    while True:
        k = rng.randrange(6)
        if k == 0 and b:
            i = rng.randrange(len(b))
            c = b[:i] + bytes([b[i] ^ (1 << rng.randrange(8))]) + b[i + 1:]
        elif k == 1:
            c = b + bytes([rng.randrange(256)])
        elif k == 2:
            c = bytes([rng.randrange(256)]) + b
        elif k == 3 and b:
            c = b[:-1]
        elif k == 4:
            c = b""
        else:
            c = rbytes(rng, rng.randrange(0, 40))
        if c != b:
            return c


def mutate_int(rng, v, kind):
    lo, hi = {"u64": (0, 2 ** 64 - 1), "i64": (-2 ** 63, 2 ** 63 - 1), "i32": (-2 ** 31, 2 ** 31 - 1)}[kind]
    while True:
        k = rng.randrange(5)
        if k == 0:
            c = v + 1
        elif k == 1:
            c = v - 1
        elif k == 2:
            c = v ^ (1 << rng.randrange(64 if kind != "i32" else 31))
        elif k == 3:
            c = v + 256 ** rng.randrange(1, 8 if kind != "i32" else 4)
        else:
            c = rint(rng, kind)
        if lo <= c <= hi and c != v:
            return c


def mutate_record(rng, rec, f, ints):
    m = dict(rec)
    m[f] = mutate_int(rng, rec[f], ints[f]) if f in ints else mutate_bytes(rng, rec[f])
    return m


# ------------------------------------------------------------------ engines
def build_engine(ctx, pkg, files, out):
    rc, log, path = ctx.go_test_binary(pkg, [os.path.join(ENG, f) for f in files], out, use_overlay=False)
    if rc != 0:
        raise RuntimeError("%s engine build failed:\n%s" % (pkg, log[-3000:]))
    return path


def run_engine(ctx, binpath, test, cases, tag):
    fin = os.path.join(ctx.workdir, tag + ".in")
    fout = os.path.join(ctx.workdir, tag + ".out")
    with open(fin, "w") as f:
        for c in cases:
            f.write(json.dumps(c) + "\n")
    if os.path.exists(fout):
        os.remove(fout)
    rc, log = ctx.run_bin(binpath, ["-test.run", test], env={"VERIF_IN": fin, "VERIF_OUT": fout})
    if rc != 0:
        raise RuntimeError("%s engine failed:\n%s" % (tag, log[-3000:]))
    obs = [json.loads(l) for l in open(fout)]
    if len(obs) != len(cases):
        raise RuntimeError("%s engine: %d observations for %d cases" % (tag, len(obs), len(cases)))
    return obs


def hb(s):
    return bytes.fromhex(s) if s else b""


# ------------------------------------------------------------------ headers and transactions
def header_corpus():
    z = {"ChainID": b"", "PrevBlockHash": b"", "BlockNo": 0, "Timestamp": 0, "BlocksRootHash": b"", "TxsRootHash": b"",
         "ReceiptsRootHash": b"", "Confirms": 0, "PubKey": b"", "CoinbaseAccount": b"", "Sign": b"", "Consensus": b""}
    a = dict(z, ChainID=b"\x03\x00\x00\x00\x01\x00dev.chain/dpos", PrevBlockHash=bytes(range(32)), BlockNo=2 ** 64 - 1,
             Timestamp=-2 ** 63, BlocksRootHash=bytes(32), TxsRootHash=b"\xff" * 32, ReceiptsRootHash=bytes(range(32, 64)),
             Confirms=2 ** 63, PubKey=b"\x08\x02\x12\x21" + bytes(33), CoinbaseAccount=b"\x02" + bytes(32), Sign=b"\x30" * 70,
             Consensus=b"\x01")
    b = dict(a, Timestamp=2 ** 63 - 1, BlockNo=256, Confirms=1)
    return [z, a, b]


def tx_corpus():
    z = {"Nonce": 0, "Account": b"", "Recipient": b"", "Amount": b"", "Payload": b"", "GasLimit": 0, "GasPrice": b"",
         "Type": 0, "ChainIdHash": b"", "Sign": b""}
    a = dict(z, Nonce=2 ** 64 - 1, Account=b"\x02" + bytes(32), Recipient=b"aergo.system", Amount=b"\x0d\xe0\xb6\xb3\xa7\x64\x00\x00",
             Payload=b'{"Name":"v1stake"}', GasLimit=2 ** 64 - 1, GasPrice=b"\x01", Type=-2 ** 31, ChainIdHash=bytes(range(32)), Sign=b"\x30" * 71)
    b = dict(a, Type=2 ** 31 - 1, Nonce=1)
    return [z, a, b]


def run_types_engine(ctx, st):
    rng = ctx.rng
    quick = ctx.tier == "quick"
    binpath = build_engine(ctx, "types", ["zz_verif_codec_engine_test.go"], "codec_types.test")
    st.types_bin = binpath
    cases, meta = [], []
    # headers: base + one mutant per field (+ more in thorough)
    bases = header_corpus() + [rand_header(rng) for _ in range(12 if quick else 150)]
    for bi, base in enumerate(bases):
        cases.append({"kind": "H", "h": json_header(base)})
        meta.append(("H", bi, None, base))
        for f in HEADER_FIELDS:
            for _ in range(1 if quick else 3):
                m = mutate_record(rng, base, f, HINT)
                cases.append({"kind": "H", "h": json_header(m)})
                meta.append(("H", bi, f, m))
    tbases = tx_corpus() + [rand_tx(rng) for _ in range(3 if quick else 40)]
    for bi, base in enumerate(tbases):
        cases.append({"kind": "T", "t": json_tx(base)})
        meta.append(("T", bi, None, base))
        for f in TX_FIELDS:
            m = mutate_record(rng, base, f, TINT)
            cases.append({"kind": "T", "t": json_tx(m)})
            meta.append(("T", bi, f, m))
    obs = run_engine(ctx, binpath, "TestVerifCodecEngine", cases, "types")
    st.types_cases, st.types_meta, st.types_obs = cases, meta, obs

    # ---- direct predicates on the implementation + model items
    hitems, hsrc, hhash_items, hhash_src = [], [], [], []
    titems, tsrc = [], []
    base_obs = {}
    for (kind, bi, f, rec), o in zip(meta, obs):
        if kind == "H":
            if o.get("err"):
                st.fail("C19:header-writer-error", "writeBlockHeader returned an error", {"header": json_header(rec), "err": o["err"]})
            if f is None:
                base_obs[("H", bi)] = (rec, o)
                if hashlib.sha256(hb(o["full"])).hexdigest() != o["calc"]:
                    st.fail("C19:blockhash-not-sha256-of-writer", "calculateBlockHash is not sha256 of writeBlockHeader output", json_header(rec))
            else:
                brec, bo = base_obs[("H", bi)]
                case = {"field": f, "base": json_header(brec), "mutant": json_header(rec)}
                if o["full"] == bo["full"]:
                    st.fail("C19:identifier-input-misses-" + f, "block identifier input does not change when header field %s changes" % f, case)
                if o["calc"] == bo["calc"]:
                    st.fail("C19:identifier-misses-" + f, "block identifier does not change when header field %s changes" % f, case)
                if f == "Sign":
                    if o["nosign"] != bo["nosign"]:
                        st.fail("C19:signed-input-depends-on-sign", "signed header digest input depends on Sign", case)
                elif o["nosign"] == bo["nosign"]:
                    st.fail("C19:signed-input-misses-" + f, "signed header digest input does not cover header field %s" % f, case)
                st.nontrivial.add(("H", f, len(rec[f]) if f not in HINT else "int"))
            hitems.append("(%s, %s, %s)" % (coq_header(rec), cb(hb(o["full"])), cb(hb(o["nosign"]))))
            hsrc.append({"header": json_header(rec), "obs": o})
            if f is None and len(hhash_items) < (6 if quick else 40):
                hhash_items.append("(%s, %s)" % (coq_header(rec), cb(hb(o["calc"]))))
                hhash_src.append({"header": json_header(rec), "obs": o})
        elif kind == "T":
            if f is None:
                base_obs[("T", bi)] = (rec, o)
            else:
                brec, bo = base_obs[("T", bi)]
                if o["hash"] == bo["hash"]:
                    st.fail("C19:tx-identifier-misses-" + f, "transaction identifier does not change when field %s changes" % f,
                            {"field": f, "base": json_tx(brec), "mutant": json_tx(rec)})
                st.nontrivial.add(("T", f, len(rec[f]) if f not in TINT else "int"))
            titems.append("(%s, %s)" % (coq_tx(rec), cb(hb(o["hash"]))))
            tsrc.append({"tx": json_tx(rec), "obs": o})
    st.add_family("header_preimages", "header * bytes * bytes", "header_case_ok", hitems, hsrc)
    st.add_family("header_hash", "header * bytes",
                  "(fun c : header * bytes => let '(h, d) := c in bytes_eqb (block_hash sha256 h) d)", hhash_items, hhash_src)
    st.add_family("tx_hash", "txbody * bytes",
                  "(fun c : txbody * bytes => let '(t, d) := c in bytes_eqb (tx_hash sha256 t) d)", titems, tsrc)
    st.rules.append("headers/txs: corpus + random records, each with every field mutated once (flip/append/prepend/truncate/empty/"
                    "random bytes; +-1/bit/256^k/random ints); distinct = (record kind, mutated field, new length) classes")
    ctx.sample({"header_case": hsrc[1]["header"], "full_preimage": hsrc[1]["obs"]["full"][:80] + "..."})


EXTRA_FAMILIES = []

IMPORTS = """From Coq Require Import NArith ZArith List Bool String.
From Verif Require Import Common.Bytes Common.Sha256 Codec.Fields Codec.Digest Codec.ChainId %s.
Import ListNotations.
Open Scope N_scope.
"""
EXTRA_IMPORTS = []


def evaluate_model(ctx, st, shard=1200):
    """One or more generated .v files; every family prints its own mismatch list."""
    files, cur, cur_n = [], [], 0
    for fam in st.fams:
        name, typ, ok, items, src, pre = fam
        if cur and cur_n + len(items) > shard:
            files.append(cur)
            cur, cur_n = [], 0
        cur.append(fam)
        cur_n += len(items)
    if cur:
        files.append(cur)
    for i, fl in enumerate(files):
        txt = [IMPORTS % " ".join(EXTRA_IMPORTS)]
        for name, typ, ok, items, src, pre in fl:
            if pre:
                txt.append(pre)
            txt.append("Definition cases_%s : list (%s) := [%s]." % (name, typ, ";\n".join(items)))
            txt.append("Definition M_%s := Eval vm_compute in mismatches_from %s cases_%s 0.\nPrint M_%s." % (name, ok, name, name))
        rc, out = ctx.coq_eval("cases%d" % i, "\n".join(txt))
        lists = parse_all(out) if rc == 0 else None
        if lists is None or len(lists) != len(fl):
            st.corr_broken.append(("model evaluation failed for families %s" % [f[0] for f in fl], out[-2500:]))
            continue
        for (name, typ, ok, items, src, pre), idxs in zip(fl, lists):
            if idxs:
                st.corr_broken.append(("model/implementation differ on %s (%d of %d cases)" % (name, len(idxs), len(items)),
                                       [src[j] for j in idxs[:3]]))


def parse_all(out):
    flat = " ".join(out.split())
    res = []
    for m in re.finditer(r"\bM_\w+ = (\[[^\]]*\]|nil)", flat):
        body = m.group(1)
        res.append([] if body in ("nil", "[]") else [int(x) for x in re.findall(r"\d+", body)])
    return res

"""C20, C side: translate the C functions of contract/*.c that are reachable from Lua into the
callback language of coq/VmGuard/Lang.v (a light structural parser: braces, if / else, loops,
return; no preprocessor, no types).

* every function named in a `luaL_Reg` table is an entry point contract code can call;
* a call of an exported Go callback `luaXxx(...)` becomes `Call "luaXxx"` (analysed by the same
  abstract interpreter, in the same context), a call of another C function of the scanned files
  becomes `Call "c.<name>"`;
* `if (luaCheckView(...) > 0) ...` becomes `If (CAtom AV) ...`; `luaL_error / lua_error /
  luaL_throwerror` do not return (`Return`);
* `sqlite3_step / sqlite3_exec` is a SQL write (`Mut "sqlite3_step" KV`, forbidden in a view
  function; under a query the connection is read-only: trusted) unless the function tests
  `sqlite3_stmt_readonly` / `sqlcheck_is_readonly_sql` textually before it, or is in READONLY_STEP.
Output: coq/Gen/CCallbacks.v (c_program, c_entries, c_inventory)."""
import os
import re

C_FILES = ["vm.c", "db_module.c", "contract_module.c", "system_module.c", "state_module.c", "crypto_module.c",
           "name_module.c", "util.c", "bignum_module.c", "utf8_module.c", "debug.c", "sqlcheck.c"]
NORETURN = {"luaL_error", "lua_error", "luaL_throwerror", "luaL_argerror", "luaL_typerror"}
# functions whose sqlite3_step only advances a statement created by a read-only checked query
READONLY_STEP = {"db_rs_next": "steps a result set created by db_query / db_pstmt_query (both test read-only first)"}
KEYWORDS = {"if", "for", "while", "switch", "return", "sizeof", "do", "else", "case", "defined"}


def strip(txt):
    txt = re.sub(r"/\*.*?\*/", " ", txt, flags=re.S)
    txt = re.sub(r"//[^\n]*", " ", txt)
    # string and character literals in one pass (a '"' character literal must not open a string)
    txt = re.sub(r'"(?:\\.|[^"\\\n])*"|\'(?:\\.|[^\'\\\n])+\'', lambda m: '""' if m.group(0)[0] == '"' else "'x'", txt)
    txt = re.sub(r"^\s*#.*?$", " ", txt, flags=re.M)
    return txt


def match(txt, i, op, cl):
    depth = 0
    while i < len(txt):
        if txt[i] == op:
            depth += 1
        elif txt[i] == cl:
            depth -= 1
            if depth == 0:
                return i
        i += 1
    raise ValueError("unbalanced " + op)


def functions(txt):
    """top-level function definitions: name -> body text (without the outer braces)"""
    res = {}
    i = 0
    depth = 0
    for m in re.finditer(r"\b([A-Za-z_]\w*)\s*\(([^;{}()]|\([^()]*\))*\)\s*\{", txt):
        name = m.group(1)
        if name in KEYWORDS:
            continue
        # must be at brace depth 0
        if txt.count("{", 0, m.start()) != txt.count("}", 0, m.start()):
            continue
        ob = m.end() - 1
        try:
            cb = match(txt, ob, "{", "}")
        except ValueError:
            continue
        res[name] = txt[ob + 1:cb]
    return res


class Tr:
    def __init__(self, go_callbacks, cfuncs):
        self.go = set(go_callbacks)
        self.cf = cfuncs
        self.calls = set()      # Go callbacks called by the function being translated
        self.ccalls = set()

    def events(self, text, readonly_seen, fname):
        parts = []
        for m in re.finditer(r"\b([A-Za-z_]\w*)\s*\(", text):
            n = m.group(1)
            if n in KEYWORDS:
                continue
            if n in NORETURN:
                parts.append("Return")
                break
            if n in self.go:
                self.calls.add(n)
                parts.append('(Call "%s")' % n)
            elif n in ("sqlite3_step", "sqlite3_exec"):
                if readonly_seen[0] or fname in READONLY_STEP:
                    continue
                parts.append('(Mut "%s" KV)' % n)
            elif n in ("sqlite3_stmt_readonly", "sqlcheck_is_readonly_sql"):
                readonly_seen[0] = True
            elif n in self.cf and n != fname:
                self.ccalls.add(n)
                parts.append('(Call "c.%s")' % n)
        return parts

    def cond(self, text):
        t = "".join(text.split())
        m = re.search(r"luaCheckView\((?:[^()]|\([^()]*\))*\)(>0|!=0|==0)?", t)
        if m and "&&" not in t and "||" not in t:
            neg = t.startswith("!") or m.group(1) == "==0"
            return "(CNot (CAtom AV))" if neg else "(CAtom AV)"
        return "CUnknown"

    def block(self, txt, ro, fname):
        """sequence of statements of `txt`"""
        parts = []
        i = 0
        n = len(txt)
        while i < n:
            while i < n and txt[i].isspace():
                i += 1
            if i >= n:
                break
            m = re.match(r"(if|while|for|switch)\s*\(", txt[i:])
            if m:
                kw = m.group(1)
                op = i + m.end() - 1
                cp = match(txt, op, "(", ")")
                condtxt = txt[op + 1:cp]
                body, j = self.stmt_at(txt, cp + 1, ro, fname)
                pre = self.events(condtxt, ro, fname)
                if kw == "if":
                    els = "Skip"
                    k = j
                    while k < n and txt[k].isspace():
                        k += 1
                    if txt.startswith("else", k) and not (txt[k + 4:k + 5].isalnum() or txt[k + 4:k + 5] == "_"):
                        els, j = self.stmt_at(txt, k + 4, ro, fname)
                    parts += pre + ["(If %s %s %s)" % (self.cond(condtxt), body, els)]
                elif kw == "switch":
                    parts += pre + ["(If CUnknown %s Skip)" % body]
                else:
                    parts += ["(Loop %s)" % seq(pre + [body])]
                i = j
                continue
            if txt[i] == "{":
                cb = match(txt, i, "{", "}")
                parts.append(self.block(txt[i + 1:cb], ro, fname))
                i = cb + 1
                continue
            m = re.match(r"do\b", txt[i:])
            if m:
                body, j = self.stmt_at(txt, i + 2, ro, fname)
                k = txt.index(";", j)
                parts.append("(Loop %s)" % body)
                i = k + 1
                continue
            # simple statement up to ';' (at paren depth 0)
            j = i
            depth = 0
            while j < n and not (txt[j] == ";" and depth == 0):
                if txt[j] in "([":
                    depth += 1
                elif txt[j] in ")]":
                    depth -= 1
                elif txt[j] == "{":      # initialiser list
                    j = match(txt, j, "{", "}")
                j += 1
            st = txt[i:j]
            ev = self.events(st, ro, fname)
            if re.match(r"return\b", st):
                ev = [e for e in ev if e != "Return"] + ["Return"]
            parts += ev
            i = j + 1
        return seq(parts)

    def stmt_at(self, txt, i, ro, fname):
        n = len(txt)
        while i < n and txt[i].isspace():
            i += 1
        if i < n and txt[i] == "{":
            cb = match(txt, i, "{", "}")
            return self.block(txt[i + 1:cb], ro, fname), cb + 1
        # single statement (may itself be an if/for...)
        m = re.match(r"(if|while|for|switch)\s*\(", txt[i:])
        if m:
            op = i + m.end() - 1
            cp = match(txt, op, "(", ")")
            body, j = self.stmt_at(txt, cp + 1, ro, fname)
            k = j
            while k < n and txt[k].isspace():
                k += 1
            if m.group(1) == "if" and txt.startswith("else", k):
                _, j = self.stmt_at(txt, k + 4, ro, fname)
            return self.block(txt[i:j], ro, fname), j
        j = txt.index(";", i) if ";" in txt[i:] else n
        return self.block(txt[i:j + 1], ro, fname), j + 1


def seq(parts):
    ps = [p for p in parts if p and p != "Skip"]
    if not ps:
        return "Skip"
    r = ps[-1]
    for p in reversed(ps[:-1]):
        if p == "Return":
            r = "Return"        # nothing after a non-returning call / return is executed
            continue
        r = "(Seq %s %s)" % (p, r)
    return r


def scan(repo, go_callbacks):
    """returns dict: coq text, registered entries, inventory {cfunc: sorted go callbacks}, notes"""
    funcs = {}
    where = {}
    registered = {}
    for f in C_FILES:
        p = os.path.join(repo, "contract", f)
        if not os.path.exists(p):
            continue
        txt = strip(open(p, errors="replace").read())
        raw = open(p, errors="replace").read()
        raw = re.sub(r"/\*.*?\*/", " ", raw, flags=re.S)
        raw = re.sub(r"//[^\n]*", " ", raw)
        for fn, body in functions(txt).items():
            funcs[fn] = body
            where[fn] = f
        for tm in re.finditer(r"luaL_Reg\s+\w+\s*\[\s*\]\s*=\s*\{(.*?)\}\s*;", raw, re.S):
            for em in re.finditer(r'\{\s*"([^"]*)"\s*,\s*([A-Za-z_]\w*)\s*\}', tm.group(1)):
                registered[em.group(2)] = em.group(1)
        # functions pushed directly: lua_pushcfunction(L, f) / lua_register(L, "name", f)
        for em in re.finditer(r"lua_pushcfunction\s*\(\s*\w+\s*,\s*([A-Za-z_]\w*)\s*\)", raw):
            registered.setdefault(em.group(1), "<pushcfunction>")
        for em in re.finditer(r'lua_register\s*\(\s*\w+\s*,\s*"([^"]*)"\s*,\s*([A-Za-z_]\w*)\s*\)', raw):
            registered.setdefault(em.group(2), em.group(1))
    tr = Tr(go_callbacks, funcs)
    terms = {}
    inv = {}
    ccalls = {}
    for fn in sorted(funcs):
        tr.calls, tr.ccalls = set(), set()
        try:
            terms[fn] = tr.block(funcs[fn], [False], fn)
        except (ValueError, IndexError):
            terms[fn] = '(Mut "<unparsed C function>" KAny)'      # conservative: reject
        inv[fn] = sorted(tr.calls)
        ccalls[fn] = sorted(tr.ccalls)
    # a C function from which no Go callback and no SQL write is reachable has no effect on the property:
    # calls of it are dropped (this also removes the recursive JSON / bignum helpers)
    interesting = {f for f in funcs if inv[f] or "(Mut " in terms[f]}
    changed = True
    while changed:
        changed = False
        for f in funcs:
            if f not in interesting and any(c in interesting for c in ccalls[f]):
                interesting.add(f)
                changed = True
    tr.cf = {f: funcs[f] for f in interesting}
    for fn in sorted(funcs):
        tr.calls, tr.ccalls = set(), set()
        try:
            terms[fn] = tr.block(funcs[fn], [False], fn)
        except (ValueError, IndexError):
            terms[fn] = '(Mut "<unparsed C function>" KAny)'
        ccalls[fn] = sorted(tr.ccalls)
    # reachable from the registered entries
    reach = set()
    work = [f for f in registered if f in funcs]
    while work:
        f = work.pop()
        if f in reach:
            continue
        reach.add(f)
        work += [c for c in ccalls[f] if c not in reach]
    order = sorted(reach)
    entries = sorted(f for f in registered if f in funcs)
    missing = sorted(f for f in registered if f not in funcs)
    out = ["(* GENERATED by lib/g6_cscan.py from contract/*.c; do not edit. *)",
           "From Coq Require Import String List.", "From Verif Require Import VmGuard.Lang.", "Import ListNotations.",
           "Open Scope string_scope.", ""]
    for fn in order:
        out.append("Definition c_%s : stmt :=\n  %s.\n" % (fn, terms[fn]))
    out.append("Definition c_program : prog := [")
    out.append(";\n".join('  ("c.%s", c_%s)' % (fn, fn) for fn in order))
    out.append("].\n")
    out.append("Definition c_entries : list string := [")
    out.append(";\n".join('  "c.%s"' % fn for fn in entries))
    out.append("].\n")
    # inventory: every reachable C function with the Go callbacks it calls and whether it is an entry
    out.append("Definition c_inventory : list (string * bool * list string) := [")
    out.append(";\n".join('  ("%s", %s, [%s])' % (fn, "true" if fn in registered else "false",
                                                 "; ".join('"%s"' % c for c in inv[fn])) for fn in order))
    out.append("].")
    return {"coq": "\n".join(out) + "\n", "entries": entries, "reachable": order, "inventory": {f: inv[f] for f in order},
            "registered_not_found": missing, "files": sorted(set(where[f] for f in order)),
            "sql_sites": sum(terms[f].count("sqlite3_") for f in order)}

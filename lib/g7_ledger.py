"""Shared driver for the ledger checks C01 / C03 / C04 (group g7-ledger).

One Go engine (package chain, in-package, overlay + extended VM stub) and one Gallina model
(coq/Ledger/Model.v evaluated through coq/Ledger/Eval.v).  A case = configuration + funding +
blocks of transactions.  The engine executes it on the real executor and dumps, after every
transaction and every block, all observables of the known ids; the model is evaluated by
vm_compute on the same case (initial state taken from the engine's own initial dump) and
the flat observation vectors are compared element by element.  Direct predicates are
evaluated on the engine's observations alone."""
import json
import os
import re
import vf

AERGO = 10 ** 18
L = os.path.join(vf.HARNESS, "engines", "ledger")
GOV = ("stake", "unstake", "namecreate", "nameupdate", "setowner", "votebp", "entappend", "entremove", "entconf")
ENT = ("entappend", "entremove", "entconf")
KIND = {"transfer": "KTransfer", "normal": "KNormal", "call": "KCall", "deploy": "KDeploy", "feedeleg": "KFeeDeleg",
        "stake": "KStake", "unstake": "KUnstake", "namecreate": "KNameCreate", "nameupdate": "KNameUpdate",
        "setowner": "KSetOwner", "votebp": "KVoteBP", "entappend": "KEnterprise", "entremove": "KEnterprise",
        "entconf": "KEnterprise"}
STAKE_DELAY = 86400


def build_engine(ctx):
    rc, log, path = ctx.go_test_binary(
        "chain", [os.path.join(L, "zz_verif_ledger_engine_test.go")], "ledger.test",
        overlay_extra={"contract/zz_vmstub_verif.go": os.path.join(L, "zz_vmstub_ledger.go.txt")})
    if rc != 0:
        raise RuntimeError("ledger engine build failed:\n" + log[-4000:])
    return path


def f18_fixed(repo):
    """The model has both behaviours of contract/name (F18); which one /repo has is read from
    the source: the repair reuses the sender / receiver AccountState objects."""
    try:
        src = open(os.path.join(repo, "contract/name/execute.go")).read()
    except OSError:
        return False
    return "sender.AccountID()" in src and "receiver.AccountID()" in src


def f24_fixed(repo):
    """F30 (Coq flag c_fix_f24): the FEEDELEGATION fee is debited on the sender object when sender and receiver are the same
    account; recognised by the second `sender.AccountID() == receiver.AccountID()` test in executeTx."""
    try:
        src = open(os.path.join(repo, "chain/chainhandle.go")).read()
    except OSError:
        return False
    return src.count("sender.AccountID() == receiver.AccountID()") >= 2


# ------------------------------------------------------------------ generator
class Gen:
    def __init__(self, rng, cid, mode, focus=None):
        self.r = rng
        self.focus = focus or {}
        r = rng
        self.c = c = {"id": cid, "mode": mode, "version": r.choice([0, 2, 2, 3, 4, 4]), "zerofee": r.random() < 0.2,
                      "gasprice": str(r.choice([50 * 10 ** 9, 50 * 10 ** 9, 10 ** 9, 7 * 10 ** 10])), "cids": {}, "blocks": [],
                      "ckeys": []}
        self.nacc = r.randint(3, 8)
        self.users = list(range(10, 10 + self.nacc))
        self.coinbase = r.choice([0, 0, 30, 30, self.users[0], 1])
        c["coinbase"] = self.coinbase
        self.names = [200, 201, 202]
        self.nonce = {u: 0 for u in self.users}
        self.contracts = []          # deployed (assumed) contract ids
        self.next_cid = 100
        self.name_owner = {}         # name -> user (assumed)
        self.staked = {}             # user -> block no of last stake op (assumed)
        fund = []
        for u in self.users:
            k = r.random()
            if k < 0.45:
                b = r.randint(20000, 60000) * AERGO
            elif k < 0.8:
                b = r.randint(1, 50) * AERGO + r.randint(0, 10 ** 18)
            elif k < 0.9:
                b = r.randint(0, 3 * 10 ** 15)
            else:
                b = 0
            if b:
                fund.append([str(u), str(b)])
        if r.random() < 0.3:
            fund.append(["3", str(r.randint(0, 5) * AERGO)])
        if r.random() < 0.2:
            fund.append(["2", str(r.randint(1, 5) * AERGO)])
        c["fund"] = fund
        self.ntx = 0
        self.all = []

    def user(self):
        return self.r.choice(self.users)

    def mk(self, kind, frm, **kw):
        self.nonce[frm] = self.nonce.get(frm, 0) + 1
        t = {"kind": kind, "from": frm, "to": 0, "nonce": self.nonce[frm], "amount": "0", "plen": 0, "gaslimit": 0,
             "signer": frm, "chainok": True, "replayof": 0, "name": 0, "dest": 0, "cid": 0, "force": False, "fddeny": False}
        t.update(kw)
        if kind in GOV:
            t["plen"] = 20
        return t

    def small(self):
        r = self.r
        return r.choice([0, 1, 1000, r.randint(1, 10 ** 15), r.randint(1, 3) * AERGO])

    def _ck(self, cid, k):
        if [cid, k] not in self.c["ckeys"]:
            self.c["ckeys"].append([cid, k])
        return True

    def vm_script(self, frm, cid_or_to):
        r = self.r
        k = r.random()
        if k < 0.15:
            return {"res": "rt", "fee": str(r.choice([0, 10 ** 12, 10 ** 15])), "transfers": [], "writes": []}
        if k < 0.18:
            return {"res": "sys", "fee": "0", "transfers": [], "writes": []}
        if k < 0.21:
            return {"res": "sys", "fee": "0", "transfers": [[str(r.choice(self.users + [30])), "1"]] if r.random() < 0.5 else [],
                    "writes": [[1, 9]] if self._ck(cid_or_to, 1) else []}
        if k < 0.25:
            # negative execution fee: Execute returns ErrVmStart (non-runtime) AFTER the VM has already
            # credited third parties / written storage -> only the executor's rollback removes them
            return {"res": "ok", "fee": "-5", "transfers": [[str(r.choice(self.users + [30])), str(r.choice([1, 5000]))]] if r.random() < 0.5 else [],
                    "writes": [[1, 7]] if self._ck(cid_or_to, 1) else []}
        trs = []
        for _ in range(r.choice([0, 0, 1, 1, 2])):
            to = r.choice(self.users + [frm, cid_or_to, 30])
            trs.append([str(to), str(r.choice([0, 1, 5000, 10 ** 17, 3 * AERGO]))])
        ws = [[r.randint(1, 3), r.randint(0, 99)] for _ in range(r.choice([0, 1, 2]))]
        for w in ws:
            ck = [cid_or_to, w[0]]
            if ck not in self.c["ckeys"]:
                self.c["ckeys"].append(ck)
        return {"res": "ok", "fee": str(r.choice([0, 0, 10 ** 12, 2 * 10 ** 15, 10 ** 17, 50 * AERGO])), "transfers": trs, "writes": ws}

    def gen_tx(self, bno):
        r = self.r
        w = {"transfer": 30, "normal": 3, "call": 10, "deploy": 7, "feedeleg": 5, "stake": 8, "unstake": 6,
             "namecreate": 6, "nameupdate": 4, "setowner": 3, "votebp": 5, "entappend": 2, "entremove": 1, "entconf": 2}
        for k, v_ in self.focus.get("weights", {}).items():
            w[k] = v_
        kinds = list(w)
        kind = r.choices(kinds, [w[k] for k in kinds])[0]
        frm = self.user()
        if kind in ("transfer", "normal"):
            to = r.choice(self.users + self.contracts + [1, 3, 30] + ([n for n in self.name_owner] if r.random() < 0.3 else []))
            if r.random() < 0.08:
                to = frm                 # a transfer to the sender's own account
            t = self.mk(kind, frm, to=to, amount=str(self.small()), plen=r.choice([0, 0, 0, 10, 250, 1000]))
            if to in self.contracts and r.random() < 0.7:
                t["vm"] = self.vm_script(frm, to)
        elif kind == "call":
            to = r.choice(self.contracts) if self.contracts and r.random() < 0.85 else self.user()
            t = self.mk(kind, frm, to=to, amount=str(self.small()), plen=r.choice([1, 30, 300]),
                        gaslimit=r.choice([0, 0, 0, 90000, 200000, 5000000]))
            t["vm"] = self.vm_script(frm, to)
        elif kind == "feedeleg":
            to = r.choice(self.contracts) if self.contracts and r.random() < 0.85 else self.user()
            t = self.mk(kind, frm, to=to, amount=str(r.choice([0, 0, 1000])), plen=r.choice([1, 30, 300]),
                        fddeny=r.random() < 0.15)
            t["vm"] = self.vm_script(frm, to)
        elif kind == "multicall":
            t = self.mk(kind, frm, plen=r.choice([1, 30, 300]), gaslimit=r.choice([0, 0, 5000000]))
            t["vm"] = self.vm_script(frm, frm)
            t["vm"]["writes"] = []
        elif kind == "deploy":
            cid = self.next_cid
            self.next_cid += 1
            t = self.mk(kind, frm, amount=str(r.choice([0, 0, 1000, 5 * AERGO])), plen=r.choice([1, 100, 400]),
                        gaslimit=r.choice([0, 0, 1000000]), cid=cid)
            self.c["cids"][str(cid)] = [frm, t["nonce"]]
            t["vm"] = self.vm_script(frm, cid)
            if t["vm"]["res"] == "ok":
                self.contracts.append(cid)
        elif kind == "stake":
            t = self.mk(kind, frm, amount=str(r.choice([10000, 10000, 15000, 9999, 1]) * AERGO))
            self.staked.setdefault(frm, bno)
        elif kind == "unstake":
            if self.staked and r.random() < 0.8:
                frm = r.choice(list(self.staked))
            t = self.mk(kind, frm, amount=str(r.choice([10000, 5000, 1, 15000, 0]) * AERGO))
        elif kind == "votebp":
            if self.staked and r.random() < 0.8:
                frm = r.choice(list(self.staked))
            t = self.mk(kind, frm)
        elif kind in ENT:
            t = self.mk(kind, frm, dest=r.choice(self.users), name=r.randint(0, 3))
        elif kind == "namecreate":
            nm = r.choice(self.names)
            t = self.mk(kind, frm, name=nm, amount=str(r.choice([1, 1, 1, 2, 0]) * AERGO))
            self.name_owner.setdefault(nm, frm)
        elif kind == "nameupdate":
            nm = r.choice(self.names)
            if nm in self.name_owner and r.random() < 0.8:
                frm = self.name_owner[nm]
            t = self.mk(kind, frm, name=nm, dest=r.choice(self.users + [1]), amount=str(r.choice([1, 1, 0]) * AERGO))
        else:
            dest = r.choice(self.users + [30, frm, frm, 2])
            t = self.mk(kind, frm, dest=dest, amount=str(r.choice([0, 0, AERGO])))
        # designed failures
        k = r.random()
        fr = self.focus.get("fail", 0.25)
        if k < fr:
            f = r.choice(self.focus.get("fails", ["nonce_low", "nonce_high", "chain", "signer", "replay", "balance", "nonce_low"]))
            if f == "nonce_low":
                self.nonce[frm] -= 1
                t["nonce"] = max(0, t["nonce"] - r.choice([1, 1, 2]))
            elif f == "nonce_high":
                self.nonce[frm] -= 1
                t["nonce"] += r.choice([1, 5])
            elif f == "chain":
                self.nonce[frm] -= 1
                t["chainok"] = False
            elif f == "sigforeign":
                t["sigforeign"] = True
            elif f == "signer":
                t["signer"] = r.choice([u for u in self.users if u != frm] + [0])
                if self.c["mode"] == "chain":
                    t["badsig"] = True
            elif f == "replay" and self.all:
                self.nonce[frm] -= 1
                j = r.randrange(len(self.all))
                while self.all[j].get("replayof"):
                    j = self.all[j]["replayof"] - 1
                t = dict(self.all[j])
                t["replayof"] = j + 1
                t.pop("vm", None)
            elif f == "balance":
                self.nonce[frm] -= 1
                t["amount"] = str(r.randint(10 ** 5, 10 ** 6) * AERGO)
                if kind in GOV and kind != "stake":
                    self.nonce[frm] += 1
        if t["kind"] == "deploy" and t.get("cid") and str(t["cid"]) in self.c["cids"]:
            self.c["cids"][str(t["cid"])] = [t["from"], t["nonce"]]
        self.all.append(t)
        return t

    def finish(self):
        c = self.c
        # two generated transactions with identical signed content are the same transaction (deterministic
        # ECDSA: same hash): make the later one an explicit replay so that it also shares the VM script
        seen = {}
        for i, t in enumerate(self.all):
            if t.get("replayof"):
                continue
            key = tuple(t[f] for f in ("kind", "from", "to", "nonce", "amount", "plen", "gaslimit", "signer", "chainok", "name", "dest")) + (t.get("sigforeign", False),)
            if key in seen:
                t["replayof"] = seen[key] + 1
                t.pop("vm", None)
            else:
                seen[key] = i
        # two deploys with the same (creator, nonce) denote the same address: keep one id
        first, alias = {}, {}
        for k in sorted(c["cids"], key=int):
            pr = tuple(c["cids"][k])
            if pr in first:
                alias[int(k)] = first[pr]
            else:
                first[pr] = int(k)
        if alias:
            for k in alias:
                del c["cids"][str(k)]
            for t in self.all:
                for f in ("to", "cid"):
                    if t.get(f) in alias:
                        t[f] = alias[t[f]]
                if t.get("vm"):
                    for tr in t["vm"]["transfers"]:
                        if int(tr[0]) in alias:
                            tr[0] = str(alias[int(tr[0])])
            ck = []
            for a, b in c["ckeys"]:
                a = alias.get(a, a)
                if [a, b] not in ck:
                    ck.append([a, b])
            c["ckeys"] = ck
        ids = set([1, 2, 3, 30] + self.users + [int(k) for k in c["cids"]])
        c["ids"] = sorted(ids)
        c["names"] = [2] + list(self.names)
        return c


def gen_case(rng, cid, mode, focus=None, nblocks=None, maxtx=40):
    g = Gen(rng, cid, mode, focus)
    r = rng
    nb = nblocks or r.choice([1, 2, 2, 3])
    if mode == "exec":
        base = r.choice([5, 100, STAKE_DELAY - 3, 1000])
        nos = [base]
        for _ in range(nb - 1):
            nos.append(nos[-1] + r.choice([1, 2, STAKE_DELAY - 1, STAKE_DELAY, STAKE_DELAY + 1]))
    else:
        nos = [0] * nb
    for bi in range(nb):
        n = r.choice([1, 2, 3, 5, 8, 13, 20, maxtx])
        txs = [g.gen_tx(nos[bi] or bi + 1) for _ in range(n)]
        blk = {"no": nos[bi], "validator": mode == "exec" and r.random() < 0.25, "txs": txs}
        if mode == "chain":
            # sometimes keep a rejected / forged tx in the block body: validators must refuse the block
            if r.random() < 0.35:
                for t in txs:
                    if r.random() < 0.3:
                        t["force"] = True
        g.c["blocks"].append(blk)
    if mode == "chain":
        # how the block reaches the chain service: from the network (re-executed and validated), or together with a
        # block state (block factory / raft commit path: commit only) -- the state it was produced from, or one
        # that disagrees with the header
        for blk in g.c["blocks"]:
            k = r.random()
            if k < 0.2:
                blk["deliver"] = "own"
            elif k < 0.32:
                blk["deliver"] = "foreign"
        # a block that fails during execution leaves its signature-verification result pending in the
        # validator (finding F23, see corpus/C04); random chain cases keep such blocks last
        for blk in g.c["blocks"][:-1]:
            for t in blk["txs"]:
                t["force"] = False
    return g.finish()


def gen_verifier_family(rng, cid):
    """Verifier state across blocks: 2-4 blocks of 4-12 transfers on ONE ChainService; some blocks carry a
    signature by the wrong key at the first / a middle / the last position (the block must be refused and
    nothing of it applied), all-valid blocks in between must be accepted; several worker counts."""
    r = rng
    users = [10, 11, 12, 13]
    c = {"id": cid, "mode": "chain", "version": r.choice([0, 2, 4]), "zerofee": False, "gasprice": str(50 * 10 ** 9), "coinbase": 30,
         "cids": {}, "ckeys": [], "ids": [1, 2, 3, 30] + users, "names": [2], "blocks": [], "tag": "verifier",
         "fund": [[str(u), str(100 * AERGO)] for u in users], "workers": r.choice([0, 1, 2, 4, 8])}
    nonce = {u: 0 for u in users}
    nb = r.randint(2, 4)
    bad_first = True
    for b in range(nb):
        n = r.randint(4, 12) + (2 * b if b else 0)          # later blocks tend to be at least as long
        local = dict(nonce)
        txs = []
        for _ in range(n):
            u = r.choice(users)
            local[u] += 1
            txs.append(T("transfer", u, local[u], to=r.choice(users), amount=str(r.choice([1, 1000, AERGO]))))
        bad = (b == 0 and bad_first) or r.random() < 0.5
        if b == nb - 1 and not any(blk.get("bad") for blk in c["blocks"]):
            bad = True
        if bad:
            k = len(txs)
            pos = r.choice([[0], [k - 1], [k // 2], [0, k - 1], [k - 2], [1]])
            for p_ in pos:
                t = txs[p_]
                t["signer"] = r.choice([u for u in users if u != t["from"]] + [0])
        else:
            nonce = local
        c["blocks"].append({"txs": txs, "bad": bad})
    return c


# ------------------------------------------------------------------ engine
def run_engine(ctx, binpath, cases, tag):
    fin = os.path.join(ctx.workdir, tag + ".in")
    fout = os.path.join(ctx.workdir, tag + ".out")
    with open(fin, "w") as f:
        for c in cases:
            f.write(json.dumps(c) + "\n")
    rc, log = ctx.run_bin(binpath, ["-test.run", "TestVerifLedgerEngine"], env={"VERIF_IN": fin, "VERIF_OUT": fout}, timeout=1500)
    if rc != 0:
        raise RuntimeError("ledger engine failed:\n" + log[-3000:])
    obs = {}
    for line in open(fout):
        o = json.loads(line)
        obs.setdefault(o["case"], []).append(o)
    return obs


def fill_enterprise_oracle(cases, obs):
    """aergo.enterprise is an oracle for the Ledger model (like the VM): whether the contract accepted the
    call is taken from the engine's observation (ERROR receipt = GovEntErr) and handed to the model in
    t_fddeny; what the model then predicts is the executor's handling of that verdict."""
    for c in cases:
        flat = [t for b in c["blocks"] for t in b["txs"]]
        for o in obs.get(c["id"], []):
            if o["k"] == "tx":
                t = tx_of(c, o)
                if t["kind"] in ENT and o["res"] != "rej":
                    t["fddeny"] = o["res"] == "err"
                    for u in flat:          # replays share the verdict of ... their own execution only
                        pass


def flat_dump(c, d):
    """Same order as Ledger.Eval.dump."""
    v, lab = [], []
    for i in c["ids"]:
        a = d["acc"][str(i)]
        v += [int(a["b"]), a["n"], 1 if a["c"] else 0, 1 if a["x"] else 0]
        lab += ["bal(%d)" % i, "nonce(%d)" % i, "code(%d)" % i, "exists(%d)" % i]
    for i in c["ids"]:
        if 10 <= i < 100:
            s = d["stk"][str(i)]
            v += [int(s["a"]), s["w"], 1 if s["x"] else 0]
            lab += ["staked(%d)" % i, "stakeWhen(%d)" % i, "stakeRec(%d)" % i]
    for i in c["ids"]:
        if 10 <= i < 100:
            v.append(1 if d["stk"][str(i)].get("v") else 0)
            lab.append("voted(%d)" % i)
    v.append(int(d["total"]))
    lab.append("stakingTotal")
    for n in c["names"]:
        o = d["names"][str(n)]
        v += [o[0], o[1]]
        lab += ["owner(%d)" % n, "dest(%d)" % n]
    for ck in c["ckeys"]:
        v.append(d["cst"]["%d.%d" % (ck[0], ck[1])])
        lab.append("storage(%d,%d)" % (ck[0], ck[1]))
    return v, lab


STATUS = {"SUCCESS": 0, "CREATED": 1, "ERROR": 2, "RECREATED": 3}
RES = {"ok": 0, "err": 1, "rej": 2}


def go_vectors(c, obs):
    """Engine observations as the flat vectors of Ledger.Eval.run_case (with labels)."""
    out = []
    for o in obs:
        if o["k"] == "tx":
            v, lab = flat_dump(c, o["d"])
            head = [RES[o["res"]], int(o.get("fee") or 0), o.get("gas", 0), STATUS.get(o.get("status", ""), 0), int(o["bpr"])]
            out.append((head + v, ["outcome", "fee", "gas", "status", "bpReward"] + lab, o))
        elif o["k"] == "blockend":
            if o.get("aborted"):
                out.append(([0, 0], ["accepted", "-"], o))
            else:
                v, lab = flat_dump(c, o["d"])
                out.append(([1 if o["accepted"] else 0, int(o.get("bpr") or 0)] + v, ["accepted", "bpReward"] + lab, o))
    return out


# ------------------------------------------------------------------ model
def Zs(n):
    return "(%d)" % n if n < 0 else "%d" % n


def Ns(n):
    return "%d%%N" % n


def coq_tx(t, h):
    return ("(T %s %s %s %s %s %s %s %s %s %s %s %s %s, %s)" % (
        KIND[t["kind"]], Ns(t["from"]), Ns(t["to"]), Ns(t["nonce"]), Zs(int(t["amount"])), Zs(t["plen"]), Zs(t["gaslimit"]),
        Ns(7 if t["chainok"] else 8), Ns(h), Ns(0 if t.get("sigforeign") else t["signer"]), Ns(t["name"]), Ns(t["dest"]),
        "true" if t["fddeny"] else "false", "true" if t.get("force") else "false"))


def coq_vm(vm):
    if vm["res"] == "rt":
        return "VmRuntimeErr %s" % Zs(int(vm["fee"]))
    if vm["res"] == "sys":
        return "VmSysErr %s" % Zs(int(vm["fee"]))
    return "VmOk [%s] [%s] %s" % ("; ".join("(%s, %s)" % (Ns(int(a)), Zs(int(b))) for a, b in vm["transfers"]),
                                  "; ".join("(%s, %s)" % (Ns(k), Zs(x)) for k, x in vm["writes"]), Zs(int(vm["fee"])))


def coq_case(c, init, fixed, name):
    d = init["d"]
    accs = []
    for i in c["ids"]:
        a = d["acc"][str(i)]
        if a["x"]:
            accs.append("(%s, {| bal := %s; nonce := %s; code := %s |})" % (Ns(i), Zs(int(a["b"])), Ns(a["n"]), "true" if a["c"] else "false"))
    stks = []
    for i in c["ids"]:
        if 10 <= i < 100 and d["stk"][str(i)]["x"]:
            s = d["stk"][str(i)]
            stks.append("(%s, (%s, %s))" % (Ns(i), Zs(int(s["a"])), Ns(s["w"])))
    nms = []
    for n in c["names"]:
        o = d["names"][str(n)]
        if o[0] or o[1]:
            nms.append("(%s, (%s, %s))" % (Ns(n), Ns(o[0]), Ns(o[1])))
    cfg = ("{| c_version := %d; c_zerofee := %s; c_gas_price := %s; c_chain := 7%%N; c_name_price := %s; c_stake_min := %s; "
           "c_stake_delay := %d%%N; c_vote_delay := 86400%%N; c_fix_f24 := %s; c_fix_f18 := %s |}" % (c["version"], "true" if c["zerofee"] else "false", init["gasPrice"],
                                                            init["namePrice"], init["stakeMin"], STAKE_DELAY, "true" if f24_fixed(vf.REPO) else "false", "true" if fixed else "false"))
    vms, blocks, h = [], [], 0
    for b in c["blocks"]:
        txs = []
        for t in b["txs"]:
            h += 1
            hh = t["replayof"] if t["replayof"] else h
            txs.append(coq_tx(t, hh))
            if t.get("vm") and not t["replayof"]:
                vms.append("(%s, %s)" % (Ns(hh), coq_vm(t["vm"])))
        blocks.append("{| b_no := %s; b_validator := %s; b_txs := [%s]; b_deliver := %s |}" % (
            Ns(b.get("no", 0)), "true" if b.get("validator") else "false", ";\n    ".join(txs),
            Ns({"own": 1, "foreign": 2}.get(b.get("deliver", ""), 0))))
    cids = ["(%s, %s, %s)" % (Ns(v[0]), Ns(v[1]), Ns(int(k))) for k, v in sorted(c["cids"].items())]
    return ("Definition %s : case := {| k_cfg := %s;\n  k_chain_mode := %s; k_coinbase := %s;\n  k_init := mk_state [%s] [%s] %s [%s];\n"
            "  k_cids := [%s]; k_vm := [%s];\n  k_ids := [%s]; k_names := [%s]; k_ckeys := [%s];\n  k_blocks := [%s] |}.\n" % (
                name, cfg, "true" if c["mode"] == "chain" else "false",
                "(Some %s)" % Ns(c["coinbase"]) if c["coinbase"] else "None",
                "; ".join(accs), "; ".join(stks), Zs(int(d["total"])), "; ".join(nms),
                "; ".join(cids), ";\n    ".join(vms), "; ".join(Ns(i) for i in c["ids"]), "; ".join(Ns(i) for i in c["names"]),
                "; ".join("(%s, %s)" % (Ns(a), Ns(b)) for a, b in c["ckeys"]), ";\n   ".join(blocks)))


HEADER = """From stdpp Require Import gmap.
From Coq Require Import ZArith List Bool.
From Verif Require Import Ledger.Model Ledger.Eval.
Import ListNotations.
Open Scope Z_scope.
Definition T k f t n a pl gl ch h sg nm d fd := {| t_kind := k; t_from := f; t_to := t; t_nonce := n; t_amount := a; t_plen := pl;
  t_gaslimit := gl; t_chain := ch; t_hash := h; t_signer := sg; t_name := nm; t_dest := d; t_fddeny := fd |}.
"""


def parse_vectors(out):
    """`M = [[..]; [..]]` blocks printed by coqc -> {name: list of list of int}."""
    res = {}
    for m in re.finditer(r"(\w+) =\s*(\[.*?\])\s*:\s*list \(list Z\)", out, re.S):
        body = m.group(2)
        vecs = []
        for inner in re.finditer(r"\[([^\[\]]*)\]", body):
            txt = inner.group(1).strip()
            vecs.append([int(x.replace("(", "").replace(")", "")) for x in txt.split(";")] if txt else [])
        res[m.group(1)] = vecs
    return res


def chk(v):
    acc = 7
    for x in v:
        acc = (acc * 1000003 + x) % 2305843009213693951
    return acc


def parse_chk(out):
    res = {}
    for m in re.finditer(r"(\w+) =\s*(\[[^\]]*\]|nil)\s*:\s*list Z", out, re.S):
        body = m.group(2)
        items = [int(x) for x in re.findall(r"-?\d+", body)] if body != "nil" else []
        if not items and body not in ("nil", "[]") and body.strip("[] \n\t"):
            items = None     # non-empty list text but nothing parsed: treat as an evaluation failure
        res[m.group(1)] = items
    return res


def eval_model(ctx, cases, obs, fixed, tag, shard=40, full=False):
    """Returns {case id: list of checksums (or of full vectors when full=True)}; a tuple
    ("error", log) for a case the model could not evaluate."""
    import concurrent.futures
    res = {}
    shard = max(4, min(shard, (len(cases) + 5) // 6))
    shards = [cases[i:i + shard] for i in range(0, len(cases), shard)]

    def one(args):
        k, sh = args
        txt = [HEADER]
        for c in sh:
            init = obs[c["id"]][0]
            txt.append(coq_case(c, init, fixed, "c%d" % c["id"]))
            txt.append("Definition M%d := Eval vm_compute in %s c%d 0%%N.\nPrint M%d.\n" % (
                c["id"], "run_case" if full else "run_case_chk", c["id"], c["id"]))
        return ctx.coq_eval("%s_%d" % (tag, k), "\n".join(txt))

    with concurrent.futures.ThreadPoolExecutor(max_workers=6) as ex:
        outs = list(ex.map(one, list(enumerate(shards))))
    for (rc, out), sh in zip(outs, shards):
        if rc != 0:
            for c in sh:
                res[c["id"]] = ("error", out[-1500:])
            continue
        pv = parse_vectors(out) if full else parse_chk(out)
        for c in sh:
            res[c["id"]] = pv.get("M%d" % c["id"])
    return res


def compare_chk(gov, mod):
    """True when the checksum lists agree."""
    if mod is None or isinstance(mod, tuple):
        return False
    return [chk(g[0]) for g in gov] == mod


def compare(c, gov, mod):
    """First differing observable of a case (full vectors): None or dict."""
    if mod is None or (isinstance(mod, tuple) and mod[0] == "error"):
        return {"what": "model evaluation failed", "detail": mod[1] if mod else "no output"}
    if len(gov) != len(mod):
        return {"what": "number of observations differs", "engine": len(gov), "model": len(mod)}
    for k, ((gv, lab, o), mv) in enumerate(zip(gov, mod)):
        if len(gv) != len(mv):
            return {"what": "observation width differs", "index": k, "engine": len(gv), "model": len(mv)}
        for a, b, l in zip(gv, mv, lab):
            if a != b:
                return {"what": "observable differs", "observable": l, "engine": a, "model": b, "obs_index": k,
                        "block": o.get("blk"), "tx": o.get("tx") if o["k"] == "tx" else "blockend", "errs": o.get("errs"), "res": o.get("res")}
    return None


def tx_of(c, o):
    return c["blocks"][o["blk"]]["txs"][o["tx"]]


# ------------------------------------------------------------------ direct predicates on the implementation
def predicates(c, obs):
    """Evaluated on the engine's observations only.  Returns list of (property, key, what, detail)."""
    fails = []
    if any(o["k"] == "panic" for o in obs):
        p = [o for o in obs if o["k"] == "panic"][0]
        fails.append(("C03", "panic", "executor panicked: " + p.get("errs", ""), {}))
        return fails
    init = obs[0]
    prev = init["d"]
    all_txs = [t for b in c["blocks"] for t in b["txs"]]
    executed = {}          # account -> list of nonces executed along the accepted chain
    hashes = set()
    blk_exec, blk_hashes, blk_start = {}, [], prev
    blk_all_ok = []
    for o in obs[1:]:
        if o["k"] == "tx":
            t = tx_of(c, o)
            d = o["d"]
            blk_all_ok.append(o["res"] != "rej")
            if o["res"] == "rej":
                if d != prev:
                    fails.append(("C03", "rejected-residue", "a rejected transaction changed the visible state", {"tx": t, "err": o.get("errs")}))
                if "RECEIPT-ADDED" in (o.get("errs") or ""):
                    fails.append(("C03", "rejected-receipt", "a rejected transaction left a receipt", {"tx": t}))
            else:
                # authorisation facts of an executed tx (C04): chain id, nonce = current + 1
                sid = t["from"]
                if 200 <= sid < 300:
                    # the executor must resolve the name as committed before the block, the view of the signature check
                    sid = blk_start["names"].get(str(sid), [0, 0])[1]
                moved = sorted(int(k) for k in d["acc"] if k in prev["acc"] and d["acc"][k]["n"] != prev["acc"][k]["n"])
                if moved and moved != [sid] and str(sid) in d["acc"]:
                    fails.append(("C04", "name-resolution-disagree", "a transaction was executed as account %s although the signature check resolves its sender to %d "
                                  "(name re-pointed / created earlier in the same block)" % (moved, sid), {"tx": t}))
                if not t["chainok"]:
                    fails.append(("C04", "wrong-chain-executed", "a transaction bound to another chain id was executed", {"tx": t}))
                if str(sid) in prev["acc"] and t["nonce"] != prev["acc"][str(sid)]["n"] + 1:
                    fails.append(("C04", "nonce-not-next", "executed nonce is not current+1", {"tx": t, "current": prev["acc"][str(sid)]["n"]}))
                if str(sid) in d["acc"] and d["acc"][str(sid)]["n"] != t["nonce"]:
                    fails.append(("C04", "nonce-not-advanced", "an executed transaction did not set its sender's nonce to the transaction nonce",
                                  {"tx": t, "sender_nonce_after": d["acc"][str(sid)]["n"]}))
                # every effect of an executed tx is applied: value only moves between the dumped accounts and the fee pot
                if set(d["acc"]) == set(prev["acc"]):
                    delta = sum(int(d["acc"][k]["b"]) - int(prev["acc"][k]["b"]) for k in d["acc"])
                    if delta != -int(o.get("fee") or 0):
                        fails.append(("C03", "partial-application", "an executed transaction changed the total of all account balances by %d although its fee is %s: "
                                      "a debit without its credit (or the reverse) was written back" % (delta, o.get("fee")), {"tx": t}))
                blk_exec.setdefault(sid, []).append(t["nonce"])
                blk_hashes.append((o["hash"], t))
                if o["res"] == "err":
                    # only the payer's balance (-fee) and the sender's nonce may differ
                    fee = int(o["fee"])
                    payer = t["to"] if t["kind"] == "feedeleg" and t["to"] != sid else sid
                    exp = json.loads(json.dumps(prev))
                    if str(sid) in exp["acc"]:
                        exp["acc"][str(sid)]["n"] = t["nonce"]
                        exp["acc"][str(sid)]["x"] = True
                    if str(payer) in exp["acc"]:
                        exp["acc"][str(payer)]["b"] = str(int(exp["acc"][str(payer)]["b"]) - fee)
                        exp["acc"][str(payer)]["x"] = True
                    if exp != d:
                        fails.append(("C03", "error-residue", "an ERROR transaction changed more than payer balance (fee) and sender nonce",
                                      {"tx": t, "fee": fee}))
            prev = d
        elif o["k"] == "blockend":
            if o.get("aborted"):
                prev = blk_start
                blk_exec, blk_hashes = {}, []
                blk_all_ok = []
                continue
            sb, sa = int(o["sumBefore"]), int(o["sumAfter"])
            if o["accepted"] and c["blocks"][o["blk"]].get("cidmut"):
                fails.append(("C04", "foreign-chain-executed", "a block whose header names a chain id differing from the local one (%s) was connected and its "
                              "transactions, bound to that other chain id, were executed" % c["blocks"][o["blk"]]["cidmut"], {"block": o["blk"]}))
            if o["accepted"] and c["blocks"][o["blk"]].get("deliver") == "foreign":
                fails.append(("C03", "commit-path-bad-state-accepted", "a block delivered together with a block state whose root differs from the header's "
                              "state root was committed (commit-only path skipped the post-validation): the node state moved", {"block": o["blk"]}))
            if o["accepted"]:
                fees = int(o["feeSum"])
                paid = c["coinbase"] != 0
                want = sb if paid else sb - fees
                if sa != want:
                    fails.append(("C01", "supply", "sum of all balances changed by %d over a block (coinbase %s, fees %d)" % (sa - want, "set" if paid else "unset", fees),
                                  {"sumBefore": sb, "sumAfter": sa, "feeSum": fees, "block": o["blk"]}))
                if o.get("rootSame") is False or o.get("rcptSame") is False:
                    fails.append(("C03", "rejected-root", "block with rejected transactions reaches a different state/receipts root than the same block without them",
                                  {"block": o["blk"]}))
                if c["mode"] == "chain" and o.get("unchanged") is False:
                    fails.append(("C03", "accepted-state", "accepted block: node state differs from the block's state", {"block": o["blk"]}))
                for a, ns in blk_exec.items():
                    executed.setdefault(a, []).extend(ns)
                for h, t in blk_hashes:
                    if h in hashes:
                        fails.append(("C04", "tx-twice", "a transaction hash was executed twice along the chain", {"tx": t}))
                    hashes.add(h)
                # forged signatures must never be in an accepted block
                if c["mode"] == "chain" and c["blocks"][o["blk"]].get("deliver") != "own":   # own blocks: signatures are the pool's job
                    for i in o.get("included") or []:
                        t = c["blocks"][o["blk"]]["txs"][i]
                        want = t["from"]
                        if 200 <= t["from"] < 300:      # name sender: the owner registered before this block signs
                            want = blk_start["names"].get(str(t["from"]), [0, 0])[0]
                        if t["replayof"]:
                            t0 = all_txs[t["replayof"] - 1]
                            t = dict(t, signer=t0["signer"], sigforeign=t0.get("sigforeign"))
                        if t.get("sigforeign"):
                            fails.append(("C04", "foreign-signature-accepted", "a block was accepted that contains a transaction whose signature was made for ANOTHER chain id "
                                          "(ChainIdHash rewritten to the local one, hash recomputed): the signature does not bind the chain id", {"tx": t}))
                        elif t["signer"] != want:
                            fails.append(("C04", "forged-accepted", "a block containing a transaction signed by the wrong key was accepted", {"tx": t}))
                prev = o["d"]
                blk_start = prev
            else:
                if (o.get("addErr") or "").startswith("HANG"):
                    fails.append(("C04", "validator-hang", "the block validator never returned a verdict for a block (signature verifier blocked): " + o["addErr"],
                                  {"block": o["blk"]}))
                    break
                if c["mode"] == "chain":
                    inc = [c["blocks"][o["blk"]]["txs"][i] for i in (o.get("included") or [])]
                    allok = all(r_ok for r_ok in blk_all_ok)
                    def signer_ok(t):
                        want = t["from"]
                        if 200 <= t["from"] < 300:
                            want = blk_start["names"].get(str(t["from"]), [0, 0])[0]
                        if t["replayof"]:
                            t = dict(t, signer=all_txs[t["replayof"] - 1]["signer"], sigforeign=all_txs[t["replayof"] - 1].get("sigforeign"))
                        return t["signer"] == want and not t.get("sigforeign")
                    if inc and allok and not c["blocks"][o["blk"]].get("cidmut") and c["blocks"][o["blk"]].get("deliver") != "foreign" and len(inc) == len(c["blocks"][o["blk"]]["txs"]) and all(signer_ok(t) for t in inc):
                        fails.append(("C04", "valid-rejected", "a block whose transactions all execute and are all correctly signed was refused: " + str(o.get("addErr")),
                                      {"block": o["blk"]}))
                if sa != sb:
                    fails.append(("C01", "supply-rejected-block", "sum of balances changed over a rejected block", {"block": o["blk"]}))
                if o.get("unchanged") is False:
                    fails.append(("C03", "failed-block-residue", "a rejected block changed the state root or the best block", {"block": o["blk"], "err": o.get("addErr")}))
                if o.get("d") is not None and o["d"] != blk_start:
                    fails.append(("C03", "failed-block-residue", "a rejected block changed the visible state", {"block": o["blk"]}))
                prev = blk_start
            blk_exec, blk_hashes = {}, []
            blk_all_ok = []
    # executed nonces contiguous from the initial nonce
    for a, ns in executed.items():
        n0 = init["d"]["acc"].get(str(a), {"n": 0})["n"]
        if ns != list(range(n0 + 1, n0 + 1 + len(ns))):
            fails.append(("C04", "nonce-sequence", "executed nonces of an account are not contiguous", {"account": a, "nonces": ns, "initial": n0}))
    return fails


def stats(cases, obs):
    st = {"cases": len(cases), "blocks": 0, "txs": 0, "ok": 0, "err": 0, "rej": 0, "kinds": {}, "errors": {}, "versions": {}, "zerofee": 0,
          "no_coinbase": 0, "chain_mode": 0, "blocks_rejected": 0, "blocks_aborted": 0}
    classes = set()
    for c in cases:
        st["versions"][c["version"]] = st["versions"].get(c["version"], 0) + 1
        st["zerofee"] += c["zerofee"]
        st["no_coinbase"] += c["coinbase"] == 0
        st["chain_mode"] += c["mode"] == "chain"
        for o in obs.get(c["id"], []):
            if o["k"] == "tx":
                t = tx_of(c, o)
                st["txs"] += 1
                st[o["res"]] += 1
                st["kinds"][t["kind"]] = st["kinds"].get(t["kind"], 0) + 1
                e = (o.get("errs") or "")[:40]
                if o["res"] != "ok":
                    st["errors"][e] = st["errors"].get(e, 0) + 1
                classes.add((t["kind"], o["res"], e, c["version"] >= 2, c["zerofee"]))
            elif o["k"] == "blockend":
                st["blocks"] += 1
                st["blocks_aborted"] += bool(o.get("aborted"))
                st["blocks_rejected"] += (not o["accepted"]) and not o.get("aborted")
    st["distinct_classes"] = len(classes)
    return st


# ------------------------------------------------------------------ corpus + shared check body
def T(kind, frm, nonce, **kw):
    t = {"kind": kind, "from": frm, "to": 0, "nonce": nonce, "amount": "0", "plen": 20 if kind in GOV else 0, "gaslimit": 0,
         "signer": frm, "chainok": True, "replayof": 0, "name": 0, "dest": 0, "cid": 0, "force": False, "fddeny": False}
    t.update(kw)
    return t


def corpus_cases(pid):
    """Hand-written edge cases, run first.  ids are assigned by the caller."""
    base = {"version": 2, "zerofee": False, "gasprice": str(50 * 10 ** 9), "coinbase": 30, "cids": {}, "ckeys": [],
            "ids": [1, 2, 3, 10, 11, 12, 30], "names": [2, 200, 201],
            "fund": [["10", str(30000 * AERGO)], ["11", str(30000 * AERGO)], ["12", str(5 * AERGO)]]}
    out = []

    def case(mode, blocks, tag, **kw):
        c = json.loads(json.dumps(base))
        c.update({"mode": mode, "blocks": blocks, "tag": tag})
        c.update(kw)
        out.append(c)

    # F18: setOwner(<sender itself>) after a name was bought: the aergo.name balance is credited to a
    # copy of the sender and overwritten by the executor's own sender object
    case("exec", [{"no": 5, "validator": False, "txs": [
        T("namecreate", 11, 1, name=200, amount=str(AERGO)), T("setowner", 10, 1, dest=10), T("transfer", 10, 2, to=11, amount="5")]}], "f18")
    # F18 variant: owner := aergo.name itself, afterwards every name price is burnt
    case("exec", [{"no": 5, "validator": False, "txs": [
        T("setowner", 10, 1, dest=2), T("namecreate", 11, 1, name=200, amount=str(AERGO)),
        T("namecreate", 10, 2, name=201, amount=str(2 * AERGO))]}], "f18")
    # owner = third account, owner = later sender
    case("exec", [{"no": 5, "validator": False, "txs": [
        T("setowner", 10, 1, dest=12), T("namecreate", 11, 1, name=200, amount=str(AERGO)),
        T("namecreate", 12, 1, name=201, amount=str(AERGO))]},
        {"no": 6, "validator": True, "txs": [T("nameupdate", 11, 2, name=200, dest=10, amount=str(AERGO)),
                                             T("transfer", 10, 2, to=200, amount="77")]}], "names")
    # stake / unstake straddling the staking delay, no coinbase, zero fee and fee regimes
    for zf, cb in ((False, 0), (True, 30), (False, 30)):
        case("exec", [{"no": 10, "validator": False, "txs": [T("stake", 10, 1, amount=str(10000 * AERGO)), T("unstake", 10, 2, amount=str(10000 * AERGO))]},
                      {"no": 10 + STAKE_DELAY - 1, "validator": False, "txs": [T("unstake", 10, 2, amount=str(10000 * AERGO))]},
                      {"no": 10 + STAKE_DELAY, "validator": False, "txs": [T("unstake", 10, 2, amount=str(5000 * AERGO)),
                                                                           T("unstake", 10, 2, amount=str(10000 * AERGO)),
                                                                           T("transfer", 11, 1, to=1, amount="12345")]}],
             "stake", zerofee=zf, coinbase=cb)
    # F30 (g7 working name F24): FEEDELEGATION whose sender is an account name resolving to the called contract itself: two
    # AccountState copies of one account, the fee is debited on the copy that is never written back
    vmok = lambda fee: {"res": "ok", "fee": str(fee), "transfers": [], "writes": []}
    for mode in ("exec", "chain"):
        case(mode, [{"no": 5, "validator": False, "txs": [dict(T("deploy", 10, 1, amount=str(5 * AERGO), plen=10, cid=100), vm=vmok(0)),
                                                           T("namecreate", 10, 2, name=200, amount=str(AERGO))]},
                    {"no": 6, "validator": False, "txs": [T("nameupdate", 10, 3, name=200, dest=100, amount=str(AERGO))]},
                    {"no": 7, "validator": False, "txs": [dict(T("feedeleg", 200, 1, to=100, plen=5, signer=10), vm=vmok(10 ** 15)),
                                                           dict(T("call", 200, 2, to=100, plen=5, signer=10, amount="7"), vm=vmok(10 ** 12)),
                                                           dict(T("feedeleg", 200, 3, to=100, plen=5, signer=10), vm={"res": "rt", "fee": "1000", "transfers": [], "writes": []})]}],
             "f30", cids={"100": [10, 1]}, ids=[1, 2, 3, 10, 11, 12, 30, 100], names=[2, 200, 201])
    # staged-but-unwritten storage: a successful call without writes stages the contract storage; later
    # calls on the same contract in the same block write and then fail NON-runtime (system error after
    # effects / negative fee): the executor's rollback must remove those writes from the staged buffer
    case("exec", [{"no": 5, "validator": False, "txs": [dict(T("deploy", 10, 1, amount=str(5 * AERGO), plen=10, cid=100), vm=vmok(0))]},
                  {"no": 6, "validator": False, "txs": [
                      dict(T("call", 11, 1, to=100, plen=5), vm=vmok(0)),
                      dict(T("call", 10, 2, to=100, plen=5), vm={"res": "sys", "fee": "0", "transfers": [["11", "1"]], "writes": [[1, 9]]}),
                      dict(T("call", 10, 2, to=100, plen=5), vm={"res": "ok", "fee": "-5", "transfers": [["11", "2"]], "writes": [[2, 5]]}),
                      dict(T("call", 11, 2, to=100, plen=5), vm={"res": "ok", "fee": "0", "transfers": [], "writes": [[3, 4]]})]}],
         "staged", cids={"100": [10, 1]}, ids=[1, 2, 3, 10, 11, 12, 30, 100], ckeys=[[100, 1], [100, 2], [100, 3]])
    # same, but the failing calls touch NO account before failing (storage writes only: the account-buffer
    # revision does not move), amount 0, on a storage staged earlier in the block
    case("exec", [{"no": 5, "validator": False, "txs": [dict(T("deploy", 10, 1, amount=str(5 * AERGO), plen=10, cid=100), vm=vmok(0))]},
                  {"no": 6, "validator": False, "txs": [
                      dict(T("call", 11, 1, to=100, plen=5), vm=vmok(0)),
                      dict(T("call", 10, 2, to=100, plen=5), vm={"res": "sys", "fee": "0", "transfers": [], "writes": [[1, 9]]}),
                      dict(T("call", 11, 2, to=100, plen=5), vm={"res": "ok", "fee": "-5", "transfers": [], "writes": [[2, 5]]}),
                      dict(T("feedeleg", 11, 2, to=100, plen=5), vm={"res": "sys", "fee": "0", "transfers": [], "writes": [[3, 4]]})]},
                  {"no": 7, "validator": False, "txs": [dict(T("call", 11, 2, to=100, plen=5), vm=vmok(0))]}],
         "staged2", cids={"100": [10, 1]}, ids=[1, 2, 3, 10, 11, 12, 30, 100], ckeys=[[100, 1], [100, 2], [100, 3]])
    # votes: need a stake; refresh the staking timestamp (an unstake right after a vote is too early); a second
    # vote must wait VotingDelay; vote by a non-staker; all through the real system contract
    D = STAKE_DELAY
    case("exec", [{"no": 10, "validator": False, "txs": [T("stake", 10, 1, amount=str(10000 * AERGO)), T("votebp", 10, 2), T("votebp", 10, 3),
                                                          T("votebp", 11, 1)]},
                  {"no": 10 + D, "validator": False, "txs": [T("votebp", 10, 3), T("unstake", 10, 4, amount=str(10000 * AERGO))]},
                  {"no": 10 + 2 * D - 1, "validator": False, "txs": [T("unstake", 10, 4, amount=str(10000 * AERGO))]},
                  {"no": 10 + 2 * D, "validator": True, "txs": [T("unstake", 10, 4, amount=str(10000 * AERGO)), T("votebp", 10, 5)]}], "votes")
    # aergo.enterprise (oracle for the model): first appendAdmin succeeds, a non-admin then fails with a
    # governance RUNTIME error (ERROR receipt, fee 0, nonce advances), the failed tx replayed is rejected
    entfail = T("entappend", 11, 1, dest=11)
    for mode in ("exec", "chain"):
        case(mode, [{"no": 5, "validator": False, "txs": [T("entappend", 10, 1, dest=10), entfail, T("entconf", 10, 2, name=1),
                                                           T("entappend", 10, 3, dest=12), T("entremove", 12, 1, dest=10)]},
                    {"no": 6, "validator": False, "txs": [dict(entfail, replayof=2), T("transfer", 11, 2, to=10, amount="5"),
                                                           T("entappend", 10, 4, dest=11)]}], "enterprise")
    # nonce GAPS (nonce = current + 2) on transactions of every kind that would otherwise succeed: only a
    # faulty producer's block contains them; every one must be rejected and the account nonce must not jump
    gap_setup = [{"no": 10, "validator": False, "txs": [
        dict(T("deploy", 10, 1, amount=str(5 * AERGO), plen=10, cid=100), vm=vmok(0)),
        T("stake", 10, 2, amount=str(10000 * AERGO)), T("stake", 11, 1, amount=str(10000 * AERGO)),
        T("namecreate", 11, 2, name=200, amount=str(AERGO))]}]
    gaps = [T("transfer", 12, 2, to=10, amount="5"),
            dict(T("call", 12, 2, to=100, plen=5), vm=vmok(0)),
            dict(T("deploy", 12, 2, plen=10, cid=101), vm=vmok(0)),
            dict(T("feedeleg", 12, 2, to=100, plen=5), vm=vmok(0)),
            T("unstake", 10, 4, amount=str(10000 * AERGO)),
            T("stake", 11, 4, amount=str(10000 * AERGO)),
            T("namecreate", 12, 2, name=201, amount=str(AERGO)),
            T("nameupdate", 11, 4, name=200, dest=10, amount=str(AERGO)),
            T("setowner", 12, 2, dest=11),
            T("votebp", 10, 4), T("entappend", 12, 2, dest=12)]
    case("exec", gap_setup + [{"no": 10 + STAKE_DELAY, "validator": False, "txs": gaps}], "gaps",
         cids={"100": [10, 1], "101": [12, 2]}, ids=[1, 2, 3, 10, 11, 12, 30, 100, 101])
    # the validator path: one block per gap transaction, kept in the body by a faulty producer
    case("chain", [{"txs": [dict(T("deploy", 10, 1, amount=str(5 * AERGO), plen=10, cid=100), vm=vmok(0)),
                            T("namecreate", 11, 1, name=200, amount=str(AERGO))]}]
         + [{"txs": [dict(g, force=True)]} for g in (gaps[0], gaps[1], gaps[3], gaps[6],
                                                       T("nameupdate", 11, 3, name=200, dest=10, amount=str(AERGO)), gaps[8])],
         "gaps", cids={"100": [10, 1]}, ids=[1, 2, 3, 10, 11, 12, 30, 100])
    # contract.Execute's own post-execution check "payer balance covers base + execution fee": the VM run
    # COMPLETES (no transfers, storage written), the fee exceeds what the sender has left after the amount;
    # pre-V2 (state-data fee regime, empty payload: the max-fee check covers the base fee only) and V2+.
    # Expected: ERROR receipt (fee charged on the pre-tx balance, nonce), amount not moved, NO storage write; or
    # rejected when even the pre-tx balance cannot pay
    for ver in (0, 2, 4):
        case("exec", [{"no": 5, "validator": False, "txs": [dict(T("deploy", 10, 1, amount=str(AERGO), plen=10, cid=100), vm=vmok(0))]},
                      {"no": 6, "validator": False, "txs": [
                          dict(T("call", 12, 1, to=100, plen=0, amount=str(24 * 10 ** 15)), vm={"res": "ok", "fee": str(5 * 10 ** 15), "transfers": [], "writes": [[1, 9]]}),
                          dict(T("call", 12, 2, to=100, plen=0), vm={"res": "ok", "fee": str(50 * 10 ** 15), "transfers": [], "writes": [[2, 7]]}),
                          dict(T("call", 12, 2, to=100, plen=0, amount="1"), vm={"res": "ok", "fee": "0", "transfers": [], "writes": [[3, 1]]})]}],
             "feecheck", version=ver, fund=[["10", str(30000 * AERGO)], ["12", str(3 * 10 ** 16)]], cids={"100": [10, 1]},
             ids=[1, 2, 3, 10, 11, 12, 30, 100], ckeys=[[100, 1], [100, 2], [100, 3]])
    # commit-only path: a block handed over WITH a block state is committed without re-execution; the state must be
    # the one the header commits to (validatePost), otherwise the node must stay untouched
    def tr5(u, n):
        return T("transfer", u, n, to=12, amount="1000")
    case("chain", [{"txs": [tr5(10, 1), tr5(11, 1)], "deliver": "own"},
                   {"txs": [tr5(10, 2)], "deliver": "foreign"},
                   {"txs": [tr5(10, 2), tr5(11, 2)]},
                   {"txs": [tr5(10, 3)], "deliver": "foreign"},
                   {"txs": [tr5(10, 3)], "deliver": "own"}], "commitonly")
    # transfers addressed to the sender's own account, amount > 0: as an address and through a name resolving to
    # the sender (executeTx holds two AccountState copies of one account): only fee and nonce may change
    for mode in ("exec", "chain"):
        case(mode, [{"no": 5, "validator": False, "txs": [T("namecreate", 10, 1, name=200, amount=str(AERGO)), T("transfer", 11, 1, to=11, amount=str(3 * AERGO))]},
                    {"no": 6, "validator": False, "txs": [T("transfer", 10, 2, to=200, amount=str(2 * AERGO)), T("transfer", 200, 3, to=10, amount=str(AERGO), signer=10),
                                                           T("transfer", 200, 4, to=200, amount="7", signer=10), T("transfer", 11, 2, to=11, amount="0")]}],
             "selftransfer")
    # MULTICALL (implementation only): success with fee, with a transfer to a third account, runtime error, and
    # from an account that cannot pay
    for ver, zf in ((4, False), (2, False), (0, False), (4, True)):
        case("exec", [{"no": 5, "validator": False, "txs": [
            dict(T("multicall", 10, 1, plen=5), vm={"res": "ok", "fee": str(10 ** 15), "transfers": [], "writes": []}),
            dict(T("multicall", 10, 2, plen=300), vm={"res": "ok", "fee": str(2 * 10 ** 15), "transfers": [["11", str(AERGO)]], "writes": []}),
            dict(T("multicall", 11, 1, plen=5), vm={"res": "rt", "fee": str(10 ** 15), "transfers": [], "writes": []}),
            dict(T("multicall", 12, 1, plen=5, gaslimit=200000), vm={"res": "ok", "fee": str(100 * AERGO), "transfers": [], "writes": []}),
            T("transfer", 10, 3, to=12, amount="5")]}], "multicall", version=ver, zerofee=zf)
    # resetAccount must work on a FRESH copy of the old state: the sender already wrote its account earlier in
    # the block; a FEEDELEGATION call with an amount fails at run time with a fee larger than the contract's
    # balance -> sender reset is written, receiver reset fails -> the tx is REJECTED and the rollback must
    # leave the sender's earlier entry untouched (nonce 1); the next tx re-uses nonce 2
    case("exec", [{"no": 5, "validator": False, "txs": [dict(T("deploy", 10, 1, amount=str(6 * 10 ** 15), plen=10, cid=100), vm=vmok(0))]},
                  {"no": 6, "validator": False, "txs": [
                      T("transfer", 11, 1, to=12, amount="5"),
                      dict(T("feedeleg", 11, 2, to=100, plen=5, amount="1000"), vm={"res": "rt", "fee": str(5 * 10 ** 15), "transfers": [], "writes": []}),
                      T("transfer", 11, 2, to=12, amount="7"),
                      dict(T("feedeleg", 10, 2, to=100, plen=5, amount="1000"), vm={"res": "rt", "fee": str(9 * 10 ** 15), "transfers": [], "writes": []}),
                      T("transfer", 10, 2, to=12, amount="9")]}],
         "resetalias", cids={"100": [10, 1]}, ids=[1, 2, 3, 10, 11, 12, 30, 100])
    # a FEEDELEGATION call that fails at run time (ERROR receipt: sender nonce advances, contract pays), then
    # the identical transaction again in the next block: must be rejected (nonce too low)
    fdrt = dict(T("feedeleg", 11, 1, to=100, plen=5), vm={"res": "rt", "fee": "1000", "transfers": [], "writes": []})
    for mode in ("exec", "chain"):
        case(mode, [{"no": 5, "validator": False, "txs": [dict(T("deploy", 10, 1, amount=str(5 * AERGO), plen=10, cid=100), vm=vmok(0))]},
                    {"no": 6, "validator": False, "txs": [fdrt]},
                    {"no": 7, "validator": False, "txs": [dict(fdrt, replayof=2), T("transfer", 11, 2, to=10, amount="5")]}],
             "fdreplay", cids={"100": [10, 1]}, ids=[1, 2, 3, 10, 11, 12, 30, 100])
    if pid == "C04":
        ok = lambda n, frm=10: T("transfer", frm, n, to=11, amount="1000")
        # F23: block 0 fails during execution (all signatures valid) -> its verification result stays
        # pending; block 1 carries a transaction signed with the wrong key
        bad_exec = T("transfer", 12, 9, to=11, amount="1", force=True)          # nonce too high, kept in the body
        forged = T("transfer", 11, 1, to=10, amount=str(1000 * AERGO), signer=10)  # 11's funds, signed by 10
        case("chain", [{"txs": [ok(1), bad_exec]}, {"txs": [ok(1), forged]}], "f23")
        # the converse: pending result says "failed" -> a perfectly valid next block is refused
        forged2 = T("transfer", 11, 1, to=10, amount="5", signer=10)
        case("chain", [{"txs": [forged2, bad_exec]}, {"txs": [ok(1)]}], "f23")
        # replay of an included transaction, in the next block
        case("chain", [{"txs": [ok(1), ok(2)]}, {"txs": [dict(ok(1), replayof=1, force=True)]}, {"txs": [ok(3)]}], "replay")
        case("chain", [{"txs": [ok(1), dict(ok(2), chainok=False, force=True)]}], "chainid")
        case("chain", [{"txs": [ok(1), dict(ok(2), signer=11)]}], "forged")
        # verifier state across blocks: block X refused for an EARLY bad signature while more txs are queued,
        # then block Y (at least as long) with a forged signature NEAR THE END, then the valid version of Y
        def tr(u, n, to=13, amount="1000", **kw):
            return T("transfer", u, n, to=to, amount=amount, **kw)
        X = [tr(10, 1, signer=11), tr(11, 1), tr(12, 1), tr(11, 2), tr(12, 2), tr(11, 3), tr(12, 3), tr(11, 4)]
        Y = [tr(10, 1), tr(11, 1), tr(12, 1), tr(11, 2), tr(12, 2), tr(10, 2), tr(11, 3), tr(12, 3), tr(10, 3),
             tr(11, 4, to=10, amount=str(1000 * AERGO), signer=10), tr(12, 4)]
        Yok = [dict(t, signer=t["from"], amount="1000") for t in Y]
        for w in (0, 1, 4):
            case("chain", [{"txs": json.loads(json.dumps(X))}, {"txs": json.loads(json.dumps(Y))}, {"txs": json.loads(json.dumps(Yok))}],
                 "verifier", workers=w, fund=[[str(u), str(5000 * AERGO)] for u in (10, 11, 12, 13)], ids=[1, 2, 3, 10, 11, 12, 13, 30])
        # foreign chain id: the block HEADER names a chain differing from the local one in a single ChainID field and
        # its txs are signed for that id; no such block may be connected, no such tx may execute (implementation only)
        for mut in ("mainnet", "publicnet", "magic", "consensus"):
            case("chain", [{"txs": [ok(1), ok(2)]}, {"txs": [ok(3), T("transfer", 11, 1, to=10, amount="9")], "cidmut": mut},
                           {"txs": [ok(3)]}], "foreignchain")
        # cross-chain replay with the ChainIdHash field REWRITTEN: signed for another chain, field set to the local hash,
        # tx hash recomputed -> passes tx.Validate; only the signature (which must cover the chain id) stops it
        case("chain", [{"txs": [ok(1)]}, {"txs": [ok(2), dict(T("transfer", 11, 1, to=10, amount=str(1000 * AERGO)), sigforeign=True)]},
                       {"txs": [ok(2), T("transfer", 11, 1, to=10, amount="5")]}], "sigforeign")
        # same-block sequences: a name is re-pointed / created / the contract owner set, and a later tx of the SAME
        # block is sent "from" that name: the executor must still resolve the name as of the start of the block
        # (the view the signature check uses); the tx written for the NEW destination's nonce must not execute
        case("chain", [{"txs": [T("namecreate", 10, 1, name=200, amount=str(AERGO))]},
                       {"txs": [T("nameupdate", 10, 2, name=200, dest=11, amount=str(AERGO)),
                                T("transfer", 200, 1, to=12, amount=str(AERGO), signer=10),      # nonce of 11 (new destination)
                                T("transfer", 200, 3, to=12, amount="5", signer=10)]},           # nonce of 10 (committed destination)
                       {"txs": [T("transfer", 200, 1, to=12, amount="6", signer=10)]}], "samename")
        case("chain", [{"txs": [T("namecreate", 10, 1, name=200, amount=str(AERGO)),
                                T("transfer", 200, 2, to=12, amount="5", signer=10),             # name not committed yet
                                T("transfer", 10, 2, to=12, amount="7")]},
                       {"txs": [T("transfer", 200, 3, to=12, amount="5", signer=10)]}], "samename")
        case("chain", [{"txs": [T("transfer", 10, 1, to=2, amount=str(AERGO)), T("setowner", 10, 2, dest=10),
                                dict(T("transfer", 2, 1, to=12, amount="5", signer=10), force=True)]},   # aergo.name has no owner before this block
                       {"txs": [T("setowner", 10, 2, dest=10)]},
                       {"txs": [T("transfer", 2, 1, to=12, amount="5", signer=10)]}], "samename")
        # sender = a registered NAME: the signature must be the name OWNER's (validator path, real signature workers)
        case("chain", [{"txs": [T("namecreate", 11, 1, name=200, amount=str(AERGO))]},
                       {"txs": [T("transfer", 200, 2, to=10, amount="5", signer=11)]},      # control: owner-signed passes
                       {"txs": [T("transfer", 200, 3, to=10, amount=str(AERGO), signer=10)]},  # foreign key: must be refused
                       {"txs": [T("transfer", 200, 3, to=10, amount="6", signer=0)]},       # unsigned: must be refused
                       {"txs": [T("transfer", 200, 3, to=10, amount="7", signer=11)]}], "nameforged")
        # F33 (key keeps the working number F25): a signed tx whose Account is a name executes twice: as the name's first destination (account
        # 10) and, after the owner re-pointed the name to a contract it created, as that contract
        Tt = T("transfer", 200, 3, to=11, amount=str(AERGO), signer=10)
        for mode in ("exec", "chain"):
            case(mode, [{"no": 5, "validator": False, "txs": [T("namecreate", 10, 1, name=200, amount=str(AERGO)),
                                                               dict(T("deploy", 10, 2, amount=str(5 * AERGO), plen=10, cid=100), vm=vmok(0))]},
                        {"no": 6, "validator": False, "txs": [Tt, T("nameupdate", 10, 4, name=200, dest=100, amount=str(AERGO))]},
                        {"no": 7, "validator": False, "txs": [T("transfer", 200, 1, to=11, amount="0", signer=10),
                                                               T("transfer", 200, 2, to=11, amount="0", signer=10), dict(Tt, replayof=3)]}],
                 "f25", cids={"100": [10, 2]}, ids=[1, 2, 3, 10, 11, 12, 30, 100], names=[2, 200, 201])
    return out


FOCUS = {
    "C01": {},
    "C03": {"fail": 0.4, "fails": ["balance", "nonce_high", "nonce_low", "chain", "balance"],
            "weights": {"call": 16, "deploy": 10, "feedeleg": 8}},
    "C04": {"fail": 0.4, "fails": ["nonce_low", "nonce_high", "chain", "signer", "replay", "signer", "replay", "sigforeign"]},
}


def run_check(ctx, pid):
    pr = ctx.prove()
    ctx.cov["trusted_base"] = [
        "Coq 8.16.1 kernel + vm_compute, std++ gmap", "Go toolchain, cgo-free overlay build of package chain",
        "scripted VM stub (harness/engines/ledger/zz_vmstub_ledger.go.txt): effects = transfers out of the callee + writes to the callee's storage, all-or-nothing, fee bounded by the payer's balance",
        "secp256k1 / btcec (signature oracle: the generator knows which key signed)", "case generator and comparison lib/g7_ledger.py",
    ]
    ctx.assumptions = [
        "balances of the initial state are non-negative, gas price > 0, nonces below 2^64",
        "every executed transaction is sent from a plain (key) account: no code, not the address being created, not aergo.name itself for v1setOwner",
        "VM oracle discipline (see trusted base); aergo.enterprise logic is an oracle; MULTICALL runs on the implementation only; REDEPLOY, voteDAO, vote tallies are outside the Ledger model",
        "Snapshot/Rollback of the block state restores the saved state (C12 proves the undo log)",
    ]
    binp = build_engine(ctx)
    fixed = f18_fixed(ctx.repo)
    quick = ctx.tier == "quick"
    cases = []
    for c in corpus_cases(pid):
        c["id"] = len(cases) + 1
        cases.append(c)
    nrand = 24 if quick else 700
    chain_every = {"C01": 5, "C03": 4, "C04": 2}[pid]
    for i in range(nrand):
        mode = "chain" if i % chain_every == chain_every - 1 else "exec"
        cases.append(gen_case(ctx.rng, len(cases) + 1, mode, FOCUS[pid], maxtx=40))
    if pid == "C04":
        for i in range(6 if quick else 120):
            cases.append(gen_verifier_family(ctx.rng, len(cases) + 1))
    # MULTICALL (receiver = the sender OBJECT, transient contract state) is outside the Ledger model: a few
    # extra cases run on the implementation only (all direct predicates apply, no model comparison)
    for i in range(4 if quick else 60):
        c = gen_case(ctx.rng, len(cases) + 1, "exec" if i % 2 == 0 else "chain", dict(FOCUS[pid], weights=dict(FOCUS[pid].get("weights", {}), multicall=14)), maxtx=20)
        c["tag"] = "nomodel"
        cases.append(c)
    obs = run_engine(ctx, binp, cases, "cases")
    fill_enterprise_oracle(cases, obs)
    modelled = [c for c in cases if c.get("tag") not in ("nomodel", "foreignchain", "multicall")]
    plain = [c for c in cases if c.get("tag") != "f23"]
    mod = eval_model(ctx, modelled, obs, fixed, "m")
    bad = [c for c in modelled if not compare_chk(go_vectors(c, obs[c["id"]]), mod[c["id"]])]
    modf = eval_model(ctx, bad, obs, fixed, "mfull", full=True) if bad else {}
    corr = []
    pred = []
    for c in cases:
        o = obs[c["id"]]
        for f in predicates(c, o):
            pred.append((c, f))
        if c in bad:
            d = compare(c, go_vectors(c, o), modf[c["id"]])
            if d is None:
                continue
            if c.get("tag") == "f23" and d.get("observable") == "accepted":
                pred.append((c, ("C04", "F23-stale-sign-verify",
                                 "block verdict differs from the signatures of the block itself: the validator consumed the verification "
                                 "result left pending by the previous block, which failed during execution (engine accepted=%s, model=%s)" % (d["engine"], d["model"]),
                                 {"diff": d})))
            else:
                corr.append((c, d))
    st = stats(modelled, obs)
    st["implementation_only_cases(multicall)"] = len(cases) - len(modelled)
    ctx.cov["evaluations"] = st["txs"] + st["blocks"]
    ctx.cov["traces_validated_against_impl"] = st["txs"] + st["blocks"]
    ctx.cov["distinct_nontrivial"] = st["distinct_classes"]
    ctx.cov["rule"] = ("one evaluation = one executed transaction or block whose full observation vector (outcome, fee, gas, status, BpReward, "
                       "balance/nonce/code/existence of every known account, staking records and total, name owners/destinations, contract "
                       "storage cells) equals the model's; distinct = distinct (tx kind, outcome, error text, gas regime, zero-fee) classes observed")
    ctx.cov["input_distribution"] = st
    for c in cases[:2]:
        ctx.sample({"case": {k: c[k] for k in ("mode", "version", "zerofee", "coinbase")}, "first_tx": c["blocks"][0]["txs"][0],
                    "first_obs": {k: obs[c["id"]][1].get(k) for k in ("res", "errs", "fee", "status")}})
    if pid == "C01":
        rst, rpred, rcorr = run_reward(ctx)
        st["voting_reward"] = rst
        ctx.cov["evaluations"] += rst["cases"]
        ctx.cov["traces_validated_against_impl"] += rst["cases"]
        for key, what, det in rpred:
            pred.append((det.get("case"), ("C01", key, what, det)))
        for d in rcorr:
            corr.append((d.get("case"), d))
    if pid == "C04":
        pst, ppred, pcorr = run_pool(ctx)
        st["producer_path_pool"] = pst
        ctx.cov["evaluations"] += pst["pooled_txs_offered"]
        ctx.cov["traces_validated_against_impl"] += pst["pooled_txs_offered"]
        for key, what, det in ppred:
            pred.append((det.get("case"), ("C04", key, what, det)))
        for d in pcorr:
            corr.append((d.get("case"), d))
    # ---- decide: direct predicate failures of THIS property first
    mine = [(c, f) for c, f in pred if f[0] == pid]
    seen = set()
    for c, f in mine:
        key = "%s:%s" % (pid, f[1])
        if pid == "C01" and f[1] == "supply":
            alias = any(t["kind"] == "setowner" and t["dest"] in (t["from"], 2) for b in c["blocks"] for t in b["txs"])
            key = "C01:F18-name-owner-alias" if (alias and not fixed) else "C01:supply"
            if c.get("tag") == "f30" and not f24_fixed(ctx.repo):
                key = "C01:F30-feedeleg-self"
        if pid == "C04" and f[1] == "tx-twice" and c.get("tag") == "f25":
            key = "C04:F25-name-repoint-replay"
        if key in seen:
            continue
        seen.add(key)
        ctx.finding(key, f[2], {"case": c, "detail": f[3]})
    if not pr["ok"] and not mine:
        ctx.violation("proof obligation no longer checks: %s" % pr["broken"], {"theorem_or_file": pr["broken"], "log": pr["log"][-3000:]}, no_input=True)
    if corr and not mine:
        c, d = corr[0]
        ctx.violation("correspondence broken: model and implementation differ (%s)" % d.get("observable", d["what"]),
                      {"difference": d, "case": c, "other_differing_cases": len(corr) - 1}, no_input=True)


# ------------------------------------------------------------------ voting reward (dpos.sendVotingReward)
def run_reward(ctx):
    """Real dpos.sendVotingReward on scripted vault / voters / seed; model = Ledger.send_voting_reward with the
    winner the implementation appointed.  Returns (evaluations, predicate failures, correspondence failures)."""
    rc, log, path = ctx.go_test_binary(
        "consensus/impl/dpos", [os.path.join(L, "zz_verif_reward_engine_test.go")], "reward.test",
        overlay_extra={"contract/zz_vmstub_verif.go": os.path.join(L, "zz_vmstub_ledger.go.txt")})
    if rc != 0:
        raise RuntimeError("reward engine build failed:\n" + log[-3000:])
    r = ctx.rng
    cases = []
    n = 30 if ctx.tier == "quick" else 400
    for i in range(n):
        k = r.randint(0, 4)
        voters = []
        for j in range(k):
            stake = r.choice([10000, 10000, 20000, 35000]) * AERGO
            voters.append({"id": 10 + j, "fund": str(stake + r.randint(0, 5) * AERGO),
                           "stake": str(stake) if r.random() < 0.85 else ""})
        vault = r.choice([0, 1, 1000, 16 * 10 ** 16, 16 * 10 ** 16 - 1, 16 * 10 ** 16 + 1, 5 * AERGO, r.randint(0, 10 ** 19)])
        c = {"id": i + 1, "vault": str(vault), "voters": voters, "seed": "%016x" % r.getrandbits(64) + "00" * 24}
        if i % 2 == 1:
            # the block reward as a node composes it: chain.SendBlockReward with the DPoS hook installed, fees in
            # BpReward, coinbase = the voting-reward winner / another voter / the vault / a fresh account / none
            c["fees"] = str(r.choice([1, 5 * 10 ** 15, 42 * 10 ** 15, 0]))
            c["coinbase"] = ["winner", "winner", "loser", "vault", "fresh", "none"][(i // 2) % 6]
        cases.append(c)
    fin = os.path.join(ctx.workdir, "reward.in")
    fout = os.path.join(ctx.workdir, "reward.out")
    with open(fin, "w") as f:
        for c in cases:
            f.write(json.dumps(c) + "\n")
    rc, log = ctx.run_bin(path, ["-test.run", "TestVerifRewardEngine"], env={"VERIF_IN": fin, "VERIF_OUT": fout})
    if rc != 0:
        raise RuntimeError("reward engine failed:\n" + log[-3000:])
    obs = [json.loads(l) for l in open(fout)]
    pred, corr, txt = [], [], [HEADER]
    winners = 0
    for c, o in zip(cases, obs):
        if o.get("err"):
            pred.append(("reward-error", "sendVotingReward failed: " + o["err"], {"case": c}))
            continue
        ids = sorted(int(k) for k in o["before"])
        b = {int(k): int(x) for k, x in o["before"].items()}
        a = {int(k): int(x) for k, x in o["after"].items()}
        fees = int(c.get("fees") or 0) if o.get("cb") else 0
        if int(o["sumBefore"]) + fees != int(o["sumAfter"]):
            pred.append(("reward-supply", "%s changed the sum of balances by %d (beyond the fees credited to the coinbase)" % (
                "chain.SendBlockReward with the voting-reward hook" if c.get("fees") is not None else "sendVotingReward",
                int(o["sumAfter"]) - int(o["sumBefore"]) - fees), {"case": c, "obs": o}))
        if not o["nonceOK"]:
            pred.append(("reward-nonce", "sendVotingReward changed a nonce", {"case": c}))
        w = o["winner"]
        if w > 0:
            winners += 1
            exp = min(int(o["reward"]), b[3])
            gain_w = a[w] - b[w] - (fees if o.get("cb") == w else 0)
            loss_v = b[3] - a[3] + (fees if o.get("cb") == 3 else 0)
            if w == 3:
                gain_w, loss_v = exp, exp if a[3] - b[3] == (fees if o.get("cb") == 3 else 0) else -1
            if gain_w != exp or loss_v != exp:
                pred.append(("reward-amount", "winner gained %d, vault lost %d, expected %d" % (gain_w, loss_v, exp), {"case": c, "obs": o}))
        elif w == 0 and not o.get("cb") and a != b:
            pred.append(("reward-nowinner", "balances changed although no winner was appointed", {"case": c, "obs": o}))
        accs = "; ".join("(%s, {| bal := %s; nonce := 0%%N; code := false |})" % (Ns(i), Zs(b[i])) for i in ids)
        inner = "send_voting_reward %s %s (with_block (mk_state [%s] [] 0 []) %s [])" % (
            Zs(int(o["reward"])), "(Some %s)" % Ns(w) if w > 0 else "None", accs, Zs(int(c.get("fees") or 0)))
        if c.get("fees") is not None:
            inner = "send_reward_coinbase (%s) %s" % (inner, "(Some %s)" % Ns(o["cb"]) if o.get("cb") else "None")
        txt.append("Definition R%d := Eval vm_compute in (let s' := %s in map (fun id => bal (acct_of s' id)) [%s]).\nPrint R%d.\n" % (
            c["id"], inner, "; ".join(Ns(i) for i in ids), c["id"]))
    rc, out = ctx.coq_eval("reward", "\n".join(txt))
    if rc != 0:
        corr.append({"what": "reward model evaluation failed", "detail": out[-1500:]})
    else:
        pv = parse_chk(out)
        for c, o in zip(cases, obs):
            if o.get("err") or o["winner"] < 0:
                continue
            ids = sorted(int(k) for k in o["before"])
            want = [int(o["after"][str(i)]) for i in ids]
            if pv.get("R%d" % c["id"]) != want:
                corr.append({"what": "voting reward: model and implementation differ", "case": c, "engine": want, "model": pv.get("R%d" % c["id"])})
    return {"cases": len(cases), "winners": winners}, pred, corr


# ------------------------------------------------------------------ producer path: real mempool -> real executor (C04)
def pool_va_mode(repo):
    """How executeTx treats the verified account of a pooled tx (model variants of Ledger.va_after_offer):
    2 = never removed (F52, current), 1 = removed only after the comparison succeeded (F51 only), 0 = removed before comparing."""
    try:
        src = open(os.path.join(repo, "chain/chainhandle.go")).read()
    except OSError:
        return 2
    if "tx.RemoveVerifedAccount()" not in src:
        return 2
    i, j = src.find("return types.ErrSignNotMatch"), src.find("tx.RemoveVerifedAccount()")
    return 1 if 0 <= i < j else 0


def gen_pool_case(rng, cid):
    r = rng
    accts = [10, 11, 12]
    steps = [{"op": "fund", "id": a, "amt": str(1000 * AERGO)} for a in accts]
    owner = {}
    for k in (1, 2):
        if r.random() < 0.8:
            o = r.choice(accts)
            owner[k] = o
            steps.append({"op": "name", "name": k, "owner": o})
    dest = dict(owner)
    nonce = {a: 0 for a in accts}
    for _ in range(r.randint(2, 6)):
        k = r.random()
        if k < 0.45 and owner:
            nm = r.choice(list(owner))
            signer = dest[nm] if r.random() < 0.8 else r.choice(accts)
            steps.append({"op": "put", "from": 200 + nm, "signer": signer, "nonce": nonce[dest[nm]] + r.choice([1, 1, 1, 2]), "to": 13,
                          "amt": str(r.choice([5, 1000, AERGO]))})
        elif k < 0.75:
            a = r.choice(accts)
            steps.append({"op": "put", "from": a, "signer": a if r.random() < 0.85 else r.choice(accts), "nonce": nonce[a] + 1, "to": 13, "amt": "7"})
        elif owner:
            nm = r.choice(list(owner))
            to = r.choice([a for a in accts if a != dest[nm]])
            steps.append({"op": "repoint", "name": nm, "owner": dest[nm], "to": to})   # owner == destination in this engine
            dest[nm] = to
    if r.random() < 0.3:
        steps.append({"op": "attempt"})     # a block production that is discarded
        if owner and r.random() < 0.7:
            nm = r.choice(list(owner))
            to = r.choice([a for a in accts if a != dest[nm]])
            steps.append({"op": "repoint", "name": nm, "owner": dest[nm], "to": to})
            dest[nm] = to
    steps.append({"op": "produce"})
    if r.random() < 0.5:
        steps.append({"op": "produce"})
    return {"id": cid, "steps": steps}


def run_pool(ctx):
    """Real MemPool (verifyTx / put / removeOnBlockArrival / get) feeding the real chain.NewTxExecutor, names re-pointed
    while transactions are pooled.  Model: Ledger.exec_tx_pooled with the account verified at admission."""
    rc, log, path = ctx.go_test_binary(
        "mempool", [os.path.join(L, "zz_verif_pool_engine_test.go")], "pool.test",
        overlay_extra={"contract/zz_vmstub_verif.go": os.path.join(L, "zz_vmstub_ledger.go.txt")})
    if rc != 0:
        raise RuntimeError("pool engine build failed:\n" + log[-3000:])
    A = AERGO
    seedlike = {"id": 1, "steps": [{"op": "fund", "id": 10, "amt": str(1000 * A)}, {"op": "fund", "id": 11, "amt": str(1000 * A)},
                                   {"op": "name", "name": 1, "owner": 10},
                                   {"op": "put", "from": 201, "signer": 10, "nonce": 1, "to": 13, "amt": str(5 * A)},
                                   {"op": "put", "from": 11, "signer": 11, "nonce": 1, "to": 13, "amt": "7"},
                                   {"op": "repoint", "name": 1, "owner": 10, "to": 11}, {"op": "produce"}, {"op": "produce"}]}
    control = {"id": 2, "steps": [{"op": "fund", "id": 10, "amt": str(1000 * A)}, {"op": "name", "name": 1, "owner": 10},
                                  {"op": "put", "from": 201, "signer": 10, "nonce": 1, "to": 13, "amt": str(5 * A)},
                                  {"op": "put", "from": 201, "signer": 11, "nonce": 2, "to": 13, "amt": "9"}, {"op": "produce"}]}
    # a refused name-sender tx stays pooled and is offered again by the next block production (known finding
    # C04:pool-retry-loses-verified-account: the first attempt stripped its verified account)
    retry = {"id": 3, "steps": [{"op": "fund", "id": 10, "amt": str(1000 * A)}, {"op": "fund", "id": 11, "amt": str(1000 * A)},
                                {"op": "name", "name": 1, "owner": 10}, {"op": "repoint", "name": 1, "owner": 10, "to": 11},
                                {"op": "put", "from": 201, "signer": 11, "nonce": 1, "to": 13, "amt": "5"},
                                {"op": "repoint", "name": 1, "owner": 11, "to": 10}, {"op": "produce"}, {"op": "produce"}]}
    # residual of F51 (stated, not repaired): a tx EXECUTED in a block attempt that is then discarded has lost its
    # verified account; the name is re-pointed; the next production offers it unbound
    discarded = {"id": 4, "steps": [{"op": "fund", "id": 10, "amt": str(1000 * A)}, {"op": "fund", "id": 11, "amt": str(1000 * A)},
                                    {"op": "name", "name": 1, "owner": 10},
                                    {"op": "put", "from": 201, "signer": 10, "nonce": 1, "to": 13, "amt": "5"},
                                    {"op": "attempt"}, {"op": "repoint", "name": 1, "owner": 10, "to": 11}, {"op": "produce"}]}
    cases = [seedlike, control, retry, discarded]
    va_mode = pool_va_mode(ctx.repo)
    for i in range(10 if ctx.tier == "quick" else 150):
        cases.append(gen_pool_case(ctx.rng, len(cases) + 1))
    fin = os.path.join(ctx.workdir, "pool.in")
    fout = os.path.join(ctx.workdir, "pool.out")
    with open(fin, "w") as f:
        for c in cases:
            f.write(json.dumps(c) + "\n")
    rc, log = ctx.run_bin(path, ["-test.run", "TestVerifPoolEngine"], env={"VERIF_IN": fin, "VERIF_OUT": fout})
    if rc != 0:
        raise RuntimeError("pool engine failed:\n" + log[-3000:])
    obs = {}
    for l in open(fout):
        o = json.loads(l)
        obs.setdefault(o["case"], []).append(o)
    pred, corr, txt, want, ntx = [], [], [HEADER], {}, 0
    for c in cases:
        offered = set()
        passed = set()       # puts with an earlier offer that got past the verified-account comparison (observed)
        unbound = set()      # puts whose pooled object has lost its verified account (as the code under test does it)
        for o in obs.get(c["id"], []):
            if o["op"] == "panic":
                pred.append(("pool-panic", "producer path panicked: " + o.get("err", ""), {"case": c}))
            for k, t in enumerate(o.get("txs") or []):
                ntx += 1
                st = c["steps"][t["put"]]
                moved = sorted(int(i) for i in t["after"] if t["after"][i]["n"] != t["before"][i]["n"])
                retried = t["put"] in unbound
                was_passed = t["put"] in passed
                if t["err"] != "signature not matched":
                    passed.add(t["put"])
                # repaired code (F51): the verified account is removed only when the comparison succeeded; old code: at the first offer
                if va_mode == 0 or (va_mode == 1 and t["err"] != "signature not matched"):
                    unbound.add(t["put"])
                offered.add(t["put"])
                if not t["err"] and moved != [st["signer"]]:
                    pred.append(("pool-retry-after-discarded-attempt" if was_passed else "pool-foreign-debit", "producer path: a pooled transaction signed by the key of account %d was executed against account %s "
                                 "(its sender name was re-pointed while it was pooled)" % (st["signer"], moved), {"case": c, "tx": st}))
                # model: exec_tx_pooled with the account verified at admission (= the signer: admission checked the signature)
                accs = "; ".join("(%s, {| bal := %s; nonce := %s; code := false |})" % (Ns(int(i)), a["b"], Ns(a["n"])) for i, a in sorted(t["before"].items()))
                nms = "; ".join("(%s, (%s, %s))" % (Ns(int(n)), Ns(v[0]), Ns(v[1])) for n, v in sorted(t["names"].items()))
                name = "P%d_%d_%d" % (c["id"], o["step"], k)
                txt.append("Definition %s := Eval vm_compute in [match fst (exec_tx_pooled is_name_std (fun _ _ => 999%%N) tx_hash_std (fun _ _ _ _ => VmRuntimeErr 0) "
                           "{| c_version := %d; c_zerofee := false; c_gas_price := 50000000000; c_chain := 7%%N; c_name_price := 0; c_stake_min := 0; c_stake_delay := 0%%N; "
                           "c_vote_delay := 0%%N; c_fix_f24 := true; c_fix_f18 := true |} %s 9%%N (mk_state [%s] [] 0 [%s]) "
                           "(T KTransfer %s %s %s %s 0 0 7%%N 1%%N %s 0%%N 0%%N false)) with Rejected => 2 | FeeNonceOnly => 1 | Applied => 0 end].\nPrint %s.\n" % (
                               name, o["version"], "None" if retried else "(Some %s)" % Ns(st["signer"]), accs, nms, Ns(st["from"]), Ns(st["to"]), Ns(st["nonce"]), Zs(int(st["amt"])), Ns(st["signer"]), name))
                want[name] = [2 if t["err"] else 0]
    rc, out = ctx.coq_eval("pool", "\n".join(txt))
    if rc != 0:
        corr.append({"what": "pool model evaluation failed", "detail": out[-1500:]})
    else:
        pv = parse_chk(out)
        for name, w in want.items():
            if pv.get(name) != w:
                corr.append({"what": "producer path: model (exec_tx_pooled) and implementation differ on executed / refused", "tx": name, "engine": w, "model": pv.get(name)})
    return {"cases": len(cases), "pooled_txs_offered": ntx}, pred, corr

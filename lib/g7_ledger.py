"""Shared driver for the ledger checks C01 / C03 / C04 (group g7-ledger).

One Go engine (package chain, in-package, overlay + extended VM stub) and one Gallina model
(coq/Ledger/Model.v evaluated through coq/Ledger/Eval.v).  A case = configuration + funding +
blocks of transactions.  The engine executes it on the real executor and dumps, after every
transaction and every block, all observables of the known ids; the model is evaluated by
vm_compute on the same case (initial state taken from the engine's own initial dump) and
the flat observation vectors are compared element by element.  Direct predicates are
evaluated on the engine's observations alone."""
import json
import os
import re
import vf

AERGO = 10 ** 18
L = os.path.join(vf.HARNESS, "engines", "ledger")
GOV = ("stake", "unstake", "namecreate", "nameupdate", "setowner")
KIND = {"transfer": "KTransfer", "normal": "KNormal", "call": "KCall", "deploy": "KDeploy", "feedeleg": "KFeeDeleg",
        "stake": "KStake", "unstake": "KUnstake", "namecreate": "KNameCreate", "nameupdate": "KNameUpdate",
        "setowner": "KSetOwner"}
STAKE_DELAY = 86400


def build_engine(ctx):
    rc, log, path = ctx.go_test_binary(
        "chain", [os.path.join(L, "zz_verif_ledger_engine_test.go")], "ledger.test",
        overlay_extra={"contract/zz_vmstub_verif.go": os.path.join(L, "zz_vmstub_ledger.go.txt")})
    if rc != 0:
        raise RuntimeError("ledger engine build failed:\n" + log[-4000:])
    return path


def f18_fixed(repo):
    """The model has both behaviours of contract/name (F18); which one /repo has is read from
    the source: the repair reuses the sender / receiver AccountState objects."""
    try:
        src = open(os.path.join(repo, "contract/name/execute.go")).read()
    except OSError:
        return False
    return "sender.AccountID()" in src and "receiver.AccountID()" in src


# ------------------------------------------------------------------ generator
class Gen:
    def __init__(self, rng, cid, mode, focus=None):
        self.r = rng
        self.focus = focus or {}
        r = rng
        self.c = c = {"id": cid, "mode": mode, "version": r.choice([0, 2, 2, 3, 4, 4]), "zerofee": r.random() < 0.2,
                      "gasprice": str(r.choice([50 * 10 ** 9, 50 * 10 ** 9, 10 ** 9, 7 * 10 ** 10])), "cids": {}, "blocks": [],
                      "ckeys": []}
        self.nacc = r.randint(3, 8)
        self.users = list(range(10, 10 + self.nacc))
        self.coinbase = r.choice([0, 0, 30, 30, self.users[0], 1])
        c["coinbase"] = self.coinbase
        self.names = [200, 201, 202]
        self.nonce = {u: 0 for u in self.users}
        self.contracts = []          # deployed (assumed) contract ids
        self.next_cid = 100
        self.name_owner = {}         # name -> user (assumed)
        self.staked = {}             # user -> block no of last stake op (assumed)
        fund = []
        for u in self.users:
            k = r.random()
            if k < 0.45:
                b = r.randint(20000, 60000) * AERGO
            elif k < 0.8:
                b = r.randint(1, 50) * AERGO + r.randint(0, 10 ** 18)
            elif k < 0.9:
                b = r.randint(0, 3 * 10 ** 15)
            else:
                b = 0
            if b:
                fund.append([str(u), str(b)])
        if r.random() < 0.3:
            fund.append(["3", str(r.randint(0, 5) * AERGO)])
        if r.random() < 0.2:
            fund.append(["2", str(r.randint(1, 5) * AERGO)])
        c["fund"] = fund
        self.ntx = 0
        self.all = []

    def user(self):
        return self.r.choice(self.users)

    def mk(self, kind, frm, **kw):
        self.nonce[frm] = self.nonce.get(frm, 0) + 1
        t = {"kind": kind, "from": frm, "to": 0, "nonce": self.nonce[frm], "amount": "0", "plen": 0, "gaslimit": 0,
             "signer": frm, "chainok": True, "replayof": 0, "name": 0, "dest": 0, "cid": 0, "force": False, "fddeny": False}
        t.update(kw)
        if kind in GOV:
            t["plen"] = 20
        return t

    def small(self):
        r = self.r
        return r.choice([0, 1, 1000, r.randint(1, 10 ** 15), r.randint(1, 3) * AERGO])

    def vm_script(self, frm, cid_or_to):
        r = self.r
        k = r.random()
        if k < 0.15:
            return {"res": "rt", "fee": str(r.choice([0, 10 ** 12, 10 ** 15])), "transfers": [], "writes": []}
        if k < 0.2:
            return {"res": "sys", "fee": "0", "transfers": [], "writes": []}
        if k < 0.23:
            return {"res": "ok", "fee": "-5", "transfers": [], "writes": []}
        trs = []
        for _ in range(r.choice([0, 0, 1, 1, 2])):
            to = r.choice(self.users + [frm, cid_or_to, 30])
            trs.append([str(to), str(r.choice([0, 1, 5000, 10 ** 17, 3 * AERGO]))])
        ws = [[r.randint(1, 3), r.randint(0, 99)] for _ in range(r.choice([0, 1, 2]))]
        for w in ws:
            ck = [cid_or_to, w[0]]
            if ck not in self.c["ckeys"]:
                self.c["ckeys"].append(ck)
        return {"res": "ok", "fee": str(r.choice([0, 0, 10 ** 12, 2 * 10 ** 15, 10 ** 17, 50 * AERGO])), "transfers": trs, "writes": ws}

    def gen_tx(self, bno):
        r = self.r
        w = {"transfer": 30, "normal": 3, "call": 10, "deploy": 7, "feedeleg": 5, "stake": 8, "unstake": 6,
             "namecreate": 6, "nameupdate": 4, "setowner": 3}
        for k, v_ in self.focus.get("weights", {}).items():
            w[k] = v_
        kinds = list(w)
        kind = r.choices(kinds, [w[k] for k in kinds])[0]
        frm = self.user()
        if kind in ("transfer", "normal"):
            to = r.choice(self.users + self.contracts + [1, 3, 30] + ([n for n in self.name_owner] if r.random() < 0.3 else []))
            t = self.mk(kind, frm, to=to, amount=str(self.small()), plen=r.choice([0, 0, 0, 10, 250, 1000]))
            if to in self.contracts and r.random() < 0.7:
                t["vm"] = self.vm_script(frm, to)
        elif kind == "call":
            to = r.choice(self.contracts) if self.contracts and r.random() < 0.85 else self.user()
            t = self.mk(kind, frm, to=to, amount=str(self.small()), plen=r.choice([1, 30, 300]),
                        gaslimit=r.choice([0, 0, 0, 90000, 200000, 5000000]))
            t["vm"] = self.vm_script(frm, to)
        elif kind == "feedeleg":
            to = r.choice(self.contracts) if self.contracts and r.random() < 0.85 else self.user()
            t = self.mk(kind, frm, to=to, amount=str(r.choice([0, 0, 1000])), plen=r.choice([1, 30, 300]),
                        fddeny=r.random() < 0.15)
            t["vm"] = self.vm_script(frm, to)
        elif kind == "deploy":
            cid = self.next_cid
            self.next_cid += 1
            t = self.mk(kind, frm, amount=str(r.choice([0, 0, 1000, 5 * AERGO])), plen=r.choice([1, 100, 400]),
                        gaslimit=r.choice([0, 0, 1000000]), cid=cid)
            self.c["cids"][str(cid)] = [frm, t["nonce"]]
            t["vm"] = self.vm_script(frm, cid)
            if t["vm"]["res"] == "ok":
                self.contracts.append(cid)
        elif kind == "stake":
            t = self.mk(kind, frm, amount=str(r.choice([10000, 10000, 15000, 9999, 1]) * AERGO))
            self.staked.setdefault(frm, bno)
        elif kind == "unstake":
            if self.staked and r.random() < 0.8:
                frm = r.choice(list(self.staked))
            t = self.mk(kind, frm, amount=str(r.choice([10000, 5000, 1, 15000, 0]) * AERGO))
        elif kind == "namecreate":
            nm = r.choice(self.names)
            t = self.mk(kind, frm, name=nm, amount=str(r.choice([1, 1, 1, 2, 0]) * AERGO))
            self.name_owner.setdefault(nm, frm)
        elif kind == "nameupdate":
            nm = r.choice(self.names)
            if nm in self.name_owner and r.random() < 0.8:
                frm = self.name_owner[nm]
            t = self.mk(kind, frm, name=nm, dest=r.choice(self.users + [1]), amount=str(r.choice([1, 1, 0]) * AERGO))
        else:
            dest = r.choice(self.users + [30, frm, frm, 2])
            t = self.mk(kind, frm, dest=dest, amount=str(r.choice([0, 0, AERGO])))
        # designed failures
        k = r.random()
        fr = self.focus.get("fail", 0.25)
        if k < fr:
            f = r.choice(self.focus.get("fails", ["nonce_low", "nonce_high", "chain", "signer", "replay", "balance", "nonce_low"]))
            if f == "nonce_low":
                self.nonce[frm] -= 1
                t["nonce"] = max(0, t["nonce"] - r.choice([1, 1, 2]))
            elif f == "nonce_high":
                self.nonce[frm] -= 1
                t["nonce"] += r.choice([1, 5])
            elif f == "chain":
                self.nonce[frm] -= 1
                t["chainok"] = False
            elif f == "signer":
                t["signer"] = r.choice([u for u in self.users if u != frm] + [0])
                if self.c["mode"] == "chain":
                    t["badsig"] = True
            elif f == "replay" and self.all:
                self.nonce[frm] -= 1
                j = r.randrange(len(self.all))
                while self.all[j].get("replayof"):
                    j = self.all[j]["replayof"] - 1
                t = dict(self.all[j])
                t["replayof"] = j + 1
                t.pop("vm", None)
            elif f == "balance":
                self.nonce[frm] -= 1
                t["amount"] = str(r.randint(10 ** 5, 10 ** 6) * AERGO)
                if kind in GOV and kind != "stake":
                    self.nonce[frm] += 1
        if t["kind"] == "deploy" and t.get("cid") and str(t["cid"]) in self.c["cids"]:
            self.c["cids"][str(t["cid"])] = [t["from"], t["nonce"]]
        self.all.append(t)
        return t

    def finish(self):
        c = self.c
        # two deploys with the same (creator, nonce) denote the same address: keep one id
        first, alias = {}, {}
        for k in sorted(c["cids"], key=int):
            pr = tuple(c["cids"][k])
            if pr in first:
                alias[int(k)] = first[pr]
            else:
                first[pr] = int(k)
        if alias:
            for k in alias:
                del c["cids"][str(k)]
            for t in self.all:
                for f in ("to", "cid"):
                    if t.get(f) in alias:
                        t[f] = alias[t[f]]
                if t.get("vm"):
                    for tr in t["vm"]["transfers"]:
                        if int(tr[0]) in alias:
                            tr[0] = str(alias[int(tr[0])])
            ck = []
            for a, b in c["ckeys"]:
                a = alias.get(a, a)
                if [a, b] not in ck:
                    ck.append([a, b])
            c["ckeys"] = ck
        ids = set([1, 2, 3, 30] + self.users + [int(k) for k in c["cids"]])
        c["ids"] = sorted(ids)
        c["names"] = [2] + list(self.names)
        return c


def gen_case(rng, cid, mode, focus=None, nblocks=None, maxtx=40):
    g = Gen(rng, cid, mode, focus)
    r = rng
    nb = nblocks or r.choice([1, 2, 2, 3])
    if mode == "exec":
        base = r.choice([5, 100, STAKE_DELAY - 3, 1000])
        nos = [base]
        for _ in range(nb - 1):
            nos.append(nos[-1] + r.choice([1, 2, STAKE_DELAY - 1, STAKE_DELAY, STAKE_DELAY + 1]))
    else:
        nos = [0] * nb
    for bi in range(nb):
        n = r.choice([1, 2, 3, 5, 8, 13, 20, maxtx])
        txs = [g.gen_tx(nos[bi] or bi + 1) for _ in range(n)]
        blk = {"no": nos[bi], "validator": mode == "exec" and r.random() < 0.25, "txs": txs}
        if mode == "chain":
            # sometimes keep a rejected / forged tx in the block body: validators must refuse the block
            if r.random() < 0.35:
                for t in txs:
                    if r.random() < 0.3:
                        t["force"] = True
        g.c["blocks"].append(blk)
    if mode == "chain":
        # a block that fails during execution leaves its signature-verification result pending in the
        # validator (finding F21, see corpus/C04); random chain cases keep such blocks last
        for blk in g.c["blocks"][:-1]:
            for t in blk["txs"]:
                t["force"] = False
    return g.finish()


# ------------------------------------------------------------------ engine
def run_engine(ctx, binpath, cases, tag):
    fin = os.path.join(ctx.workdir, tag + ".in")
    fout = os.path.join(ctx.workdir, tag + ".out")
    with open(fin, "w") as f:
        for c in cases:
            f.write(json.dumps(c) + "\n")
    rc, log = ctx.run_bin(binpath, ["-test.run", "TestVerifLedgerEngine"], env={"VERIF_IN": fin, "VERIF_OUT": fout}, timeout=1500)
    if rc != 0:
        raise RuntimeError("ledger engine failed:\n" + log[-3000:])
    obs = {}
    for line in open(fout):
        o = json.loads(line)
        obs.setdefault(o["case"], []).append(o)
    return obs


def flat_dump(c, d):
    """Same order as Ledger.Eval.dump."""
    v, lab = [], []
    for i in c["ids"]:
        a = d["acc"][str(i)]
        v += [int(a["b"]), a["n"], 1 if a["c"] else 0, 1 if a["x"] else 0]
        lab += ["bal(%d)" % i, "nonce(%d)" % i, "code(%d)" % i, "exists(%d)" % i]
    for i in c["ids"]:
        if 10 <= i < 100:
            s = d["stk"][str(i)]
            v += [int(s["a"]), s["w"], 1 if s["x"] else 0]
            lab += ["staked(%d)" % i, "stakeWhen(%d)" % i, "stakeRec(%d)" % i]
    v.append(int(d["total"]))
    lab.append("stakingTotal")
    for n in c["names"]:
        o = d["names"][str(n)]
        v += [o[0], o[1]]
        lab += ["owner(%d)" % n, "dest(%d)" % n]
    for ck in c["ckeys"]:
        v.append(d["cst"]["%d.%d" % (ck[0], ck[1])])
        lab.append("storage(%d,%d)" % (ck[0], ck[1]))
    return v, lab


STATUS = {"SUCCESS": 0, "CREATED": 1, "ERROR": 2, "RECREATED": 3}
RES = {"ok": 0, "err": 1, "rej": 2}


def go_vectors(c, obs):
    """Engine observations as the flat vectors of Ledger.Eval.run_case (with labels)."""
    out = []
    for o in obs:
        if o["k"] == "tx":
            v, lab = flat_dump(c, o["d"])
            head = [RES[o["res"]], int(o.get("fee") or 0), o.get("gas", 0), STATUS.get(o.get("status", ""), 0), int(o["bpr"])]
            out.append((head + v, ["outcome", "fee", "gas", "status", "bpReward"] + lab, o))
        elif o["k"] == "blockend":
            if o.get("aborted"):
                out.append(([0, 0], ["accepted", "-"], o))
            else:
                v, lab = flat_dump(c, o["d"])
                out.append(([1 if o["accepted"] else 0, int(o.get("bpr") or 0)] + v, ["accepted", "bpReward"] + lab, o))
    return out


# ------------------------------------------------------------------ model
def Zs(n):
    return "(%d)" % n if n < 0 else "%d" % n


def Ns(n):
    return "%d%%N" % n


def coq_tx(t, h):
    return ("(T %s %s %s %s %s %s %s %s %s %s %s %s %s, %s)" % (
        KIND[t["kind"]], Ns(t["from"]), Ns(t["to"]), Ns(t["nonce"]), Zs(int(t["amount"])), Zs(t["plen"]), Zs(t["gaslimit"]),
        Ns(7 if t["chainok"] else 8), Ns(h), Ns(t["signer"]), Ns(t["name"]), Ns(t["dest"]),
        "true" if t["fddeny"] else "false", "true" if t.get("force") else "false"))


def coq_vm(vm):
    if vm["res"] == "rt":
        return "VmRuntimeErr %s" % Zs(int(vm["fee"]))
    if vm["res"] == "sys":
        return "VmSysErr %s" % Zs(int(vm["fee"]))
    return "VmOk [%s] [%s] %s" % ("; ".join("(%s, %s)" % (Ns(int(a)), Zs(int(b))) for a, b in vm["transfers"]),
                                  "; ".join("(%s, %s)" % (Ns(k), Zs(x)) for k, x in vm["writes"]), Zs(int(vm["fee"])))


def coq_case(c, init, fixed, name):
    d = init["d"]
    accs = []
    for i in c["ids"]:
        a = d["acc"][str(i)]
        if a["x"]:
            accs.append("(%s, {| bal := %s; nonce := %s; code := %s |})" % (Ns(i), Zs(int(a["b"])), Ns(a["n"]), "true" if a["c"] else "false"))
    stks = []
    for i in c["ids"]:
        if 10 <= i < 100 and d["stk"][str(i)]["x"]:
            s = d["stk"][str(i)]
            stks.append("(%s, (%s, %s))" % (Ns(i), Zs(int(s["a"])), Ns(s["w"])))
    nms = []
    for n in c["names"]:
        o = d["names"][str(n)]
        if o[0] or o[1]:
            nms.append("(%s, (%s, %s))" % (Ns(n), Ns(o[0]), Ns(o[1])))
    cfg = ("{| c_version := %d; c_zerofee := %s; c_gas_price := %s; c_chain := 7%%N; c_name_price := %s; c_stake_min := %s; "
           "c_stake_delay := %d%%N; c_fix_f18 := %s |}" % (c["version"], "true" if c["zerofee"] else "false", init["gasPrice"],
                                                            init["namePrice"], init["stakeMin"], STAKE_DELAY, "true" if fixed else "false"))
    vms, blocks, h = [], [], 0
    for b in c["blocks"]:
        txs = []
        for t in b["txs"]:
            h += 1
            hh = t["replayof"] if t["replayof"] else h
            txs.append(coq_tx(t, hh))
            if t.get("vm") and not t["replayof"]:
                vms.append("(%s, %s)" % (Ns(hh), coq_vm(t["vm"])))
        blocks.append("{| b_no := %s; b_validator := %s; b_txs := [%s] |}" % (Ns(b["no"]), "true" if b["validator"] else "false", ";\n    ".join(txs)))
    cids = ["(%s, %s, %s)" % (Ns(v[0]), Ns(v[1]), Ns(int(k))) for k, v in sorted(c["cids"].items())]
    return ("Definition %s : case := {| k_cfg := %s;\n  k_chain_mode := %s; k_coinbase := %s;\n  k_init := mk_state [%s] [%s] %s [%s];\n"
            "  k_cids := [%s]; k_vm := [%s];\n  k_ids := [%s]; k_names := [%s]; k_ckeys := [%s];\n  k_blocks := [%s] |}.\n" % (
                name, cfg, "true" if c["mode"] == "chain" else "false",
                "(Some %s)" % Ns(c["coinbase"]) if c["coinbase"] else "None",
                "; ".join(accs), "; ".join(stks), Zs(int(d["total"])), "; ".join(nms),
                "; ".join(cids), ";\n    ".join(vms), "; ".join(Ns(i) for i in c["ids"]), "; ".join(Ns(i) for i in c["names"]),
                "; ".join("(%s, %s)" % (Ns(a), Ns(b)) for a, b in c["ckeys"]), ";\n   ".join(blocks)))


HEADER = """From stdpp Require Import gmap.
From Coq Require Import ZArith List Bool.
From Verif Require Import Ledger.Model Ledger.Eval.
Import ListNotations.
Open Scope Z_scope.
Definition T k f t n a pl gl ch h sg nm d fd := {| t_kind := k; t_from := f; t_to := t; t_nonce := n; t_amount := a; t_plen := pl;
  t_gaslimit := gl; t_chain := ch; t_hash := h; t_signer := sg; t_name := nm; t_dest := d; t_fddeny := fd |}.
"""


def parse_vectors(out):
    """`M = [[..]; [..]]` blocks printed by coqc -> {name: list of list of int}."""
    res = {}
    for m in re.finditer(r"(\w+) =\s*(\[.*?\])\s*:\s*list \(list Z\)", out, re.S):
        body = m.group(2)
        vecs = []
        for inner in re.finditer(r"\[([^\[\]]*)\]", body):
            txt = inner.group(1).strip()
            vecs.append([int(x.replace("(", "").replace(")", "")) for x in txt.split(";")] if txt else [])
        res[m.group(1)] = vecs
    return res


def chk(v):
    acc = 7
    for x in v:
        acc = (acc * 1000003 + x) % 2305843009213693951
    return acc


def parse_chk(out):
    res = {}
    for m in re.finditer(r"(\w+) =\s*(\[[^\]]*\]|nil)\s*:\s*list Z", out, re.S):
        body = m.group(2)
        res[m.group(1)] = [int(x) for x in re.findall(r"-?\d+", body)] if body != "nil" else []
    return res


def eval_model(ctx, cases, obs, fixed, tag, shard=40, full=False):
    """Returns {case id: list of checksums (or of full vectors when full=True)}; a tuple
    ("error", log) for a case the model could not evaluate."""
    import concurrent.futures
    res = {}
    shard = max(4, min(shard, (len(cases) + 5) // 6))
    shards = [cases[i:i + shard] for i in range(0, len(cases), shard)]

    def one(args):
        k, sh = args
        txt = [HEADER]
        for c in sh:
            init = obs[c["id"]][0]
            txt.append(coq_case(c, init, fixed, "c%d" % c["id"]))
            txt.append("Definition M%d := Eval vm_compute in %s c%d 0%%N.\nPrint M%d.\n" % (
                c["id"], "run_case" if full else "run_case_chk", c["id"], c["id"]))
        return ctx.coq_eval("%s_%d" % (tag, k), "\n".join(txt))

    with concurrent.futures.ThreadPoolExecutor(max_workers=6) as ex:
        outs = list(ex.map(one, list(enumerate(shards))))
    for (rc, out), sh in zip(outs, shards):
        if rc != 0:
            for c in sh:
                res[c["id"]] = ("error", out[-1500:])
            continue
        pv = parse_vectors(out) if full else parse_chk(out)
        for c in sh:
            res[c["id"]] = pv.get("M%d" % c["id"])
    return res


def compare_chk(gov, mod):
    """True when the checksum lists agree."""
    if mod is None or isinstance(mod, tuple):
        return False
    return [chk(g[0]) for g in gov] == mod


def compare(c, gov, mod):
    """First differing observable of a case (full vectors): None or dict."""
    if mod is None or (isinstance(mod, tuple) and mod[0] == "error"):
        return {"what": "model evaluation failed", "detail": mod[1] if mod else "no output"}
    if len(gov) != len(mod):
        return {"what": "number of observations differs", "engine": len(gov), "model": len(mod)}
    for k, ((gv, lab, o), mv) in enumerate(zip(gov, mod)):
        if len(gv) != len(mv):
            return {"what": "observation width differs", "index": k, "engine": len(gv), "model": len(mv)}
        for a, b, l in zip(gv, mv, lab):
            if a != b:
                return {"what": "observable differs", "observable": l, "engine": a, "model": b, "obs_index": k,
                        "block": o.get("blk"), "tx": o.get("tx") if o["k"] == "tx" else "blockend", "errs": o.get("errs"), "res": o.get("res")}
    return None


def tx_of(c, o):
    return c["blocks"][o["blk"]]["txs"][o["tx"]]


# ------------------------------------------------------------------ direct predicates on the implementation
def predicates(c, obs):
    """Evaluated on the engine's observations only.  Returns list of (property, key, what, detail)."""
    fails = []
    if any(o["k"] == "panic" for o in obs):
        p = [o for o in obs if o["k"] == "panic"][0]
        fails.append(("C03", "panic", "executor panicked: " + p.get("errs", ""), {}))
        return fails
    init = obs[0]
    prev = init["d"]
    executed = {}          # account -> list of nonces executed along the accepted chain
    hashes = set()
    blk_exec, blk_hashes, blk_start = {}, [], prev
    for o in obs[1:]:
        if o["k"] == "tx":
            t = tx_of(c, o)
            d = o["d"]
            if o["res"] == "rej":
                if d != prev:
                    fails.append(("C03", "rejected-residue", "a rejected transaction changed the visible state", {"tx": t, "err": o.get("errs")}))
                if "RECEIPT-ADDED" in (o.get("errs") or ""):
                    fails.append(("C03", "rejected-receipt", "a rejected transaction left a receipt", {"tx": t}))
            else:
                # authorisation facts of an executed tx (C04): chain id, nonce = current + 1
                sid = t["from"]
                if 200 <= sid < 300:
                    sid = prev["names"].get(str(sid), [0, 0])[1]
                if not t["chainok"]:
                    fails.append(("C04", "wrong-chain-executed", "a transaction bound to another chain id was executed", {"tx": t}))
                if str(sid) in prev["acc"] and t["nonce"] != prev["acc"][str(sid)]["n"] + 1:
                    fails.append(("C04", "nonce-not-next", "executed nonce is not current+1", {"tx": t, "current": prev["acc"][str(sid)]["n"]}))
                blk_exec.setdefault(sid, []).append(t["nonce"])
                blk_hashes.append((o["hash"], t))
                if o["res"] == "err":
                    # only the payer's balance (-fee) and the sender's nonce may differ
                    fee = int(o["fee"])
                    payer = t["to"] if t["kind"] == "feedeleg" and t["to"] != sid else sid
                    exp = json.loads(json.dumps(prev))
                    if str(sid) in exp["acc"]:
                        exp["acc"][str(sid)]["n"] = t["nonce"]
                        exp["acc"][str(sid)]["x"] = True
                    if str(payer) in exp["acc"]:
                        exp["acc"][str(payer)]["b"] = str(int(exp["acc"][str(payer)]["b"]) - fee)
                        exp["acc"][str(payer)]["x"] = True
                    if exp != d:
                        fails.append(("C03", "error-residue", "an ERROR transaction changed more than payer balance (fee) and sender nonce",
                                      {"tx": t, "fee": fee}))
            prev = d
        elif o["k"] == "blockend":
            if o.get("aborted"):
                prev = blk_start
                blk_exec, blk_hashes = {}, []
                continue
            sb, sa = int(o["sumBefore"]), int(o["sumAfter"])
            if o["accepted"]:
                fees = int(o["feeSum"])
                paid = c["coinbase"] != 0
                want = sb if paid else sb - fees
                if sa != want:
                    fails.append(("C01", "supply", "sum of all balances changed by %d over a block (coinbase %s, fees %d)" % (sa - want, "set" if paid else "unset", fees),
                                  {"sumBefore": sb, "sumAfter": sa, "feeSum": fees, "block": o["blk"]}))
                if o.get("rootSame") is False or o.get("rcptSame") is False:
                    fails.append(("C03", "rejected-root", "block with rejected transactions reaches a different state/receipts root than the same block without them",
                                  {"block": o["blk"]}))
                if c["mode"] == "chain" and o.get("unchanged") is False:
                    fails.append(("C03", "accepted-state", "accepted block: node state differs from the block's state", {"block": o["blk"]}))
                for a, ns in blk_exec.items():
                    executed.setdefault(a, []).extend(ns)
                for h, t in blk_hashes:
                    if h in hashes:
                        fails.append(("C04", "tx-twice", "a transaction hash was executed twice along the chain", {"tx": t}))
                    hashes.add(h)
                # forged signatures must never be in an accepted block
                if c["mode"] == "chain":
                    for i in o.get("included") or []:
                        t = c["blocks"][o["blk"]]["txs"][i]
                        if t["signer"] != t["from"] and not (200 <= t["from"] < 300) and not t["replayof"]:
                            fails.append(("C04", "forged-accepted", "a block containing a transaction signed by the wrong key was accepted", {"tx": t}))
                prev = o["d"]
                blk_start = prev
            else:
                if sa != sb:
                    fails.append(("C01", "supply-rejected-block", "sum of balances changed over a rejected block", {"block": o["blk"]}))
                if o.get("unchanged") is False:
                    fails.append(("C03", "failed-block-residue", "a rejected block changed the state root or the best block", {"block": o["blk"], "err": o.get("addErr")}))
                if o.get("d") is not None and o["d"] != blk_start:
                    fails.append(("C03", "failed-block-residue", "a rejected block changed the visible state", {"block": o["blk"]}))
                prev = blk_start
            blk_exec, blk_hashes = {}, []
    # executed nonces contiguous from the initial nonce
    for a, ns in executed.items():
        n0 = init["d"]["acc"].get(str(a), {"n": 0})["n"]
        if ns != list(range(n0 + 1, n0 + 1 + len(ns))):
            fails.append(("C04", "nonce-sequence", "executed nonces of an account are not contiguous", {"account": a, "nonces": ns, "initial": n0}))
    return fails


def stats(cases, obs):
    st = {"cases": len(cases), "blocks": 0, "txs": 0, "ok": 0, "err": 0, "rej": 0, "kinds": {}, "errors": {}, "versions": {}, "zerofee": 0,
          "no_coinbase": 0, "chain_mode": 0, "blocks_rejected": 0, "blocks_aborted": 0}
    classes = set()
    for c in cases:
        st["versions"][c["version"]] = st["versions"].get(c["version"], 0) + 1
        st["zerofee"] += c["zerofee"]
        st["no_coinbase"] += c["coinbase"] == 0
        st["chain_mode"] += c["mode"] == "chain"
        for o in obs.get(c["id"], []):
            if o["k"] == "tx":
                t = tx_of(c, o)
                st["txs"] += 1
                st[o["res"]] += 1
                st["kinds"][t["kind"]] = st["kinds"].get(t["kind"], 0) + 1
                e = (o.get("errs") or "")[:40]
                if o["res"] != "ok":
                    st["errors"][e] = st["errors"].get(e, 0) + 1
                classes.add((t["kind"], o["res"], e, c["version"] >= 2, c["zerofee"]))
            elif o["k"] == "blockend":
                st["blocks"] += 1
                st["blocks_aborted"] += bool(o.get("aborted"))
                st["blocks_rejected"] += (not o["accepted"]) and not o.get("aborted")
    st["distinct_classes"] = len(classes)
    return st

"""Case generator for the C02 `determ` engine (harness/engines/determ): blocks of transfers and
governance transactions, some of which are built to fail so that the producer path has to skip
them.  Format documented at the top of zz_verif_determ_engine_test.go."""
import g8gov as G

S = 10 ** 22
BAL = 10 ** 23
PRICE = 10 ** 18


class Acc:
    def __init__(self):
        self.nonce = 0
        self.staked = False
        self.voted = False
        self.dao = set()


def gen_case(rng, cid, ver=None, twins=False):
    ver = ver if ver is not None else rng.choice([0, 2, 2, 3, 4])
    n = rng.randrange(4, 7)
    accs = [Acc() for _ in range(n)]
    ncand = rng.randrange(2, 6)
    names_free = ["verifname%03d" % i for i in range(4)]
    owned = {}
    blocks = []

    def ok(i, tx):           # a transaction expected to be executed: consumes the nonce
        accs[i].nonce += 1
        tx.update({"from": i, "nonce": accs[i].nonce})
        return tx

    def bad(i, tx, off=1):   # expected to be skipped: the nonce is not consumed
        tx.update({"from": i, "nonce": accs[i].nonce + off})
        return tx

    def cands():
        k = rng.randrange(1, 4)
        out = []
        for _ in range(k):
            ci = rng.randrange(ncand)
            out.append(G.cand(ci, rng.randrange(2) if twins else 0).hex())
        return out

    # block 1: staking, transfers
    txs = []
    for i in range(n):
        r = rng.random()
        if r < 0.6:
            txs.append(ok(i, {"kind": "stake", "amt": str(rng.choice([S, S, 2 * S, 3 * S]))}))
            accs[i].staked = True
        elif r < 0.7:
            txs.append(bad(i, {"kind": "stake", "amt": str(S // 2)}))          # below the minimum
        elif r < 0.8:
            txs.append(bad(i, {"kind": "transfer", "to": (i + 1) % n, "amt": str(5 * BAL)}))   # insufficient balance
        else:
            txs.append(ok(i, {"kind": "transfer", "to": (i + 1) % n, "amt": str(rng.randrange(1, 10 ** 6))}))
    if rng.random() < 0.5:
        i = rng.randrange(n)
        txs.append(bad(i, {"kind": "transfer", "to": (i + 2) % n, "amt": "5"}, off=4))        # nonce too high
    blocks.append({"ts": 1000, "txs": txs})

    # block 2: votes (overlapping candidate sets, equal tallies), parameter votes, names, F19 transfer
    txs = []
    for i in range(n):
        a = accs[i]
        if a.staked:
            txs.append(ok(i, {"kind": "votebp", "cands": cands()}))
            a.voted = True
            if rng.random() < 0.4:
                iid = rng.choice(["BPCOUNT", "GASPRICE", "NAMEPRICE"])
                val = {"BPCOUNT": ["13"], "GASPRICE": ["60000000000"], "NAMEPRICE": [str(PRICE)]}[iid]
                if ver >= 2:
                    txs.append(ok(i, {"kind": "votedao", "id": iid, "val": val}))
                else:
                    txs.append(bad(i, {"kind": "votedao", "id": iid, "val": val}))
        else:
            if rng.random() < 0.5:
                txs.append(bad(i, {"kind": "votebp", "cands": cands()}))      # no stake
            if names_free and rng.random() < 0.6:
                nm = names_free.pop()
                if rng.random() < 0.75:
                    txs.append(ok(i, {"kind": "namecreate", "name": nm, "amt": str(PRICE)}))
                    owned[nm] = i
                else:
                    txs.append(bad(i, {"kind": "namecreate", "name": nm, "amt": str(PRICE // 10)}))   # underpaid
                    names_free.append(nm)
    if rng.random() < 0.7:
        i = rng.randrange(n)
        txs.append(ok(i, {"kind": "transfer", "to": "aergo.system", "amt": "12345"}))       # F19: accepted
    blocks.append({"ts": 2000, "txs": txs})

    # block 3: everything inside the lock period is refused; name updates; more transfers
    txs = []
    for i in range(n):
        a = accs[i]
        r = rng.random()
        if a.voted and r < 0.4:
            txs.append(bad(i, {"kind": "votebp", "cands": cands()}))          # re-vote inside VotingDelay
        elif a.staked and r < 0.7:
            txs.append(bad(i, {"kind": "unstake", "amt": str(S)}))            # inside StakingDelay
        else:
            txs.append(ok(i, {"kind": "transfer", "to": (i + 3) % n, "amt": str(rng.randrange(1, 1000))}))
    for nm, o in list(owned.items()):
        if rng.random() < 0.6:
            txs.append(ok(o, {"kind": "nameupdate", "name": nm, "dest": (o + 1) % n, "amt": str(PRICE)}))
        elif rng.random() < 0.5:
            txs.append(bad((o + 1) % n, {"kind": "nameupdate", "name": nm, "dest": o, "amt": str(PRICE)}))   # not the owner
    rng.shuffle(txs) if False else None
    blocks.append({"ts": 3000, "txs": txs})
    blocks.append({"ts": 4000, "txs": []})
    return {"id": cid, "ver": ver, "naccts": n, "bal": str(BAL), "blocks": blocks, "_twins": twins}


def twin_case(cid, ver=2, pairs=6):
    """F10: `pairs` parity-twin pairs, all with equal tallies"""
    cs = []
    for p in range(pairs):
        cs += [G.cand(50 + p, 0).hex(), G.cand(50 + p, 1).hex()]
    return {"id": cid, "ver": ver, "naccts": 3, "bal": str(BAL), "_twins": True, "blocks": [
        {"ts": 1000, "txs": [{"from": 0, "nonce": 1, "kind": "stake", "amt": str(S)}, {"from": 1, "nonce": 1, "kind": "stake", "amt": str(S)}]},
        {"ts": 2000, "txs": [{"from": 0, "nonce": 2, "kind": "votebp", "cands": cs}, {"from": 1, "nonce": 2, "kind": "votebp", "cands": list(reversed(cs))}]},
        {"ts": 3000, "txs": [{"from": 2, "nonce": 1, "kind": "transfer", "to": 0, "amt": "1"}]}]}


def ghost_case(cid, ver=2):
    """F12: the vote block is executed once on a throw-away block state before it is fed"""
    return {"id": cid, "ver": ver, "naccts": 3, "bal": str(BAL), "ghost_before": 2, "blocks": [
        {"ts": 1000, "txs": [{"from": 0, "nonce": 1, "kind": "stake", "amt": str(S)}]},
        {"ts": 2000, "txs": [{"from": 0, "nonce": 2, "kind": "votebp", "cands": [G.cand(1).hex()]}]}]}


def strip(case):
    return {k: v for k, v in case.items() if not k.startswith("_")}

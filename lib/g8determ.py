"""Case generator for the C02 `determ` engine (harness/engines/determ): blocks of transfers and
governance transactions, some of which are built to fail so that the producer path has to skip
them.  Format documented at the top of zz_verif_determ_engine_test.go."""
import g8gov as G

S = 10 ** 22
BAL = 10 ** 23
PRICE = 10 ** 18


class Acc:
    def __init__(self):
        self.nonce = 0
        self.staked = False
        self.voted = False
        self.dao = set()


def gen_case(rng, cid, ver=None, twins=False):
    ver = ver if ver is not None else rng.choice([0, 2, 2, 3, 4])
    n = rng.randrange(4, 7)
    accs = [Acc() for _ in range(n)]
    ncand = rng.randrange(2, 6)
    names_free = ["verifname%03d" % i for i in range(4)]
    owned = {}
    blocks = []

    def ok(i, tx):           # a transaction expected to be executed: consumes the nonce
        accs[i].nonce += 1
        tx.update({"from": i, "nonce": accs[i].nonce})
        return tx

    def bad(i, tx, off=1):   # expected to be skipped: the nonce is not consumed
        tx.update({"from": i, "nonce": accs[i].nonce + off})
        return tx

    def cands():
        k = rng.randrange(1, 4)
        out = []
        for _ in range(k):
            ci = rng.randrange(ncand)
            h = G.cand(ci, rng.randrange(2) if twins else 0).hex()
            if h not in out:          # types.ValidateSystemTx refuses a ballot naming a candidate twice
                out.append(h)
        return out

    # block 1: staking, transfers
    txs = []
    for i in range(n):
        r = rng.random()
        if r < 0.6:
            txs.append(ok(i, {"kind": "stake", "amt": str(rng.choice([S, S, 2 * S, 3 * S]))}))
            accs[i].staked = True
        elif r < 0.7:
            txs.append(bad(i, {"kind": "stake", "amt": str(S // 2)}))          # below the minimum
        elif r < 0.8:
            txs.append(bad(i, {"kind": "transfer", "to": (i + 1) % n, "amt": str(5 * BAL)}))   # insufficient balance
        else:
            txs.append(ok(i, {"kind": "transfer", "to": (i + 1) % n, "amt": str(rng.randrange(1, 10 ** 6))}))
    if rng.random() < 0.5:
        i = rng.randrange(n)
        txs.append(bad(i, {"kind": "transfer", "to": (i + 2) % n, "amt": "5"}, off=4))        # nonce too high
    blocks.append({"ts": 1000, "txs": txs})

    # block 2: votes (overlapping candidate sets, equal tallies), parameter votes, names, F19 transfer
    txs = []
    for i in range(n):
        a = accs[i]
        if a.staked:
            txs.append(ok(i, {"kind": "votebp", "cands": cands()}))
            a.voted = True
            if rng.random() < 0.4:
                iid = rng.choice(["BPCOUNT", "GASPRICE", "NAMEPRICE"])
                val = {"BPCOUNT": ["13"], "GASPRICE": ["60000000000"], "NAMEPRICE": [str(PRICE)]}[iid]
                if ver >= 2:
                    txs.append(ok(i, {"kind": "votedao", "id": iid, "val": val}))
                else:
                    txs.append(bad(i, {"kind": "votedao", "id": iid, "val": val}))
        else:
            if rng.random() < 0.5:
                txs.append(bad(i, {"kind": "votebp", "cands": cands()}))      # no stake
            if names_free and rng.random() < 0.6:
                nm = names_free.pop()
                if rng.random() < 0.75:
                    txs.append(ok(i, {"kind": "namecreate", "name": nm, "amt": str(PRICE)}))
                    owned[nm] = i
                else:
                    txs.append(bad(i, {"kind": "namecreate", "name": nm, "amt": str(PRICE // 10)}))   # underpaid
                    names_free.append(nm)
    if rng.random() < 0.7:
        i = rng.randrange(n)
        txs.append(ok(i, {"kind": "transfer", "to": "aergo.system", "amt": "12345"}))       # F19: accepted
    blocks.append({"ts": 2000, "txs": txs})

    # block 3: everything inside the lock period is refused; name updates; more transfers
    txs = []
    for i in range(n):
        a = accs[i]
        r = rng.random()
        if a.voted and r < 0.4:
            txs.append(bad(i, {"kind": "votebp", "cands": cands()}))          # re-vote inside VotingDelay
        elif a.staked and r < 0.7:
            txs.append(bad(i, {"kind": "unstake", "amt": str(S)}))            # inside StakingDelay
        else:
            txs.append(ok(i, {"kind": "transfer", "to": (i + 3) % n, "amt": str(rng.randrange(1, 1000))}))
    for nm, o in list(owned.items()):
        if rng.random() < 0.6:
            txs.append(ok(o, {"kind": "nameupdate", "name": nm, "dest": (o + 1) % n, "amt": str(PRICE)}))
        elif rng.random() < 0.5:
            txs.append(bad((o + 1) % n, {"kind": "nameupdate", "name": nm, "dest": o, "amt": str(PRICE)}))   # not the owner
    rng.shuffle(txs) if False else None
    blocks.append({"ts": 3000, "txs": txs})
    blocks.append({"ts": 4000, "txs": []})
    return {"id": cid, "ver": ver, "naccts": n, "bal": str(BAL), "blocks": blocks, "_twins": twins}


def gen_vm_case(rng, cid):
    """contract DEPLOY / CALL transactions whose VM behaviour is scripted through the payload
    (engine determVM): success with a fee / storage write / event, runtime error with a fee
    (included, receipt ERROR), VM system error after consuming a fee (producer drops the tx),
    contract timeout (producer ends the block), runtime error whose fee exceeds the balance
    (resetAccount fails: dropped) — mixed with transfers and governance txs, zero-fee and public
    fee regimes, a coinbase account that collects the fees, several hardfork versions."""
    ver = rng.choice([0, 2, 3, 4, 5])
    n = rng.randrange(4, 6)
    accs = [Acc() for _ in range(n)]
    coinbase = n - 1
    contracts = []          # (deployer, nonce) of successfully deployed contracts
    blocks = []

    def ok(i, tx):
        accs[i].nonce += 1
        tx.update({"from": i, "nonce": accs[i].nonce})
        return tx

    def bad(i, tx):
        tx.update({"from": i, "nonce": accs[i].nonce + 1})
        return tx

    fee = lambda: str(rng.choice([0, 1, 700, 12345, 10 ** 9, 10 ** 15]))
    for b in range(rng.randrange(2, 5)):
        txs = []
        timeout_tx = None
        for _ in range(rng.randrange(2, 7)):
            i = rng.randrange(n - 1)
            r = rng.random()
            if r < 0.2 or not contracts:
                v = rng.choice(["ok", "ok", "ok", "vmstart", "rt"])
                t = {"kind": "deploy", "payload": "%s|%s|init=%d|deployed" % (v, fee(), rng.randrange(100))}
                if v == "vmstart":
                    txs.append(bad(i, t))
                else:
                    txs.append(ok(i, t))
                    if v == "ok":
                        contracts.append((i, accs[i].nonce))
            elif r < 0.7:
                ctr = list(rng.choice(contracts))
                v = rng.choice(["ok", "ok", "rt", "rt", "vmstart", "vmstart", "timeout", "broke"])
                if v == "ok":
                    txs.append(ok(i, {"kind": "call", "ctr": ctr, "payload": "ok|%s|k%d=v%d|%s" % (fee(), rng.randrange(4), rng.randrange(100), rng.choice(["", "set"]))}))
                elif v == "rt":
                    txs.append(ok(i, {"kind": "call", "ctr": ctr, "payload": "rt|%s" % fee()}))
                elif v == "vmstart":
                    txs.append(bad(i, {"kind": "call", "ctr": ctr, "payload": "vmstart|%s" % fee()}))
                elif v == "broke":      # runtime error, fee larger than the sender's balance: resetAccount refuses
                    txs.append(bad(i, {"kind": "call", "ctr": ctr, "payload": "rt|%d" % (50 * BAL)}))
                elif timeout_tx is None:  # ends the block: kept for the end of the candidate list
                    timeout_tx = (i, {"kind": "call", "ctr": ctr, "payload": "timeout|%s" % fee()})
            elif r < 0.85:
                txs.append(ok(i, {"kind": "transfer", "to": rng.randrange(n), "amt": str(rng.randrange(1, 10 ** 6))}))
            elif r < 0.93 and not accs[i].staked:
                txs.append(ok(i, {"kind": "stake", "amt": str(S)}))
                accs[i].staked = True
            else:
                txs.append(bad(i, {"kind": "transfer", "to": rng.randrange(n), "amt": str(5 * BAL)}))
        if timeout_tx is not None:
            txs.append(bad(timeout_tx[0], timeout_tx[1]))
        blocks.append({"ts": 1000 * (b + 1), "txs": txs})
    blocks.append({"ts": 1000 * (len(blocks) + 1), "txs": []})
    return {"id": cid, "ver": ver, "naccts": n, "bal": str(BAL), "public": rng.random() < 0.6, "coinbase": coinbase, "blocks": blocks, "_vm": True}


def feedeleg_family(rng, prefix):
    """fee-delegation calls (the CONTRACT pays the fee), with and without an amount, whose scripted
    VM run ends in a runtime error / success / VM system error with a fee below or above the
    contract's own balance; the sender has zero, one or two EARLIER transactions in the same block
    and one later; another sender follows.  A runtime error with a fee above the contract's balance
    makes resetAccount(receiver) fail after resetAccount(sender) succeeded: the producer drops the tx."""
    A = 10 ** 18
    out = []
    for ver in (0, 2, 3, rng.choice([4, 5])):
        public = rng.random() < 0.5
        for earlier in (0, 1, 2):
            for k, (amt, verdict, fee) in enumerate([(10 * A, "rt", 5 * A), (0, "rt", 5 * A), (10 * A, "rt", A // 2), (3 * A, "ok", A // 4),
                                                     (10 * A, "vmstart", 5 * A), (10 * A, "ok", 5 * A)]):
                txs, nonce = [], 0
                for e in range(earlier):
                    nonce += 1
                    txs.append({"from": 1, "nonce": nonce, "kind": rng.choice(["transfer", "call"]), "to": 2, "ctr": None, "amt": "1000"})
                    if txs[-1]["kind"] == "call":
                        txs[-1].update({"ctr": [0, 1], "payload": "ok|%d|k%d=e%d|" % (rng.choice([0, 900]), e, e), "amt": "0"})
                        del txs[-1]["to"]
                    else:
                        del txs[-1]["ctr"]
                dropped = (verdict == "vmstart") or (verdict == "rt" and fee > A) or (verdict == "ok" and fee > A + amt)
                txs.append({"from": 1, "nonce": nonce + 1, "kind": "fdcall", "ctr": [0, 1], "amt": str(amt), "payload": "%s|%d|k3=fd|" % (verdict, fee)})
                if not dropped:
                    nonce += 1
                txs.append({"from": 1, "nonce": nonce + 1, "kind": "transfer", "to": 3, "amt": "7"})
                txs.append({"from": 2, "nonce": 1, "kind": "transfer", "to": 3, "amt": "5"})
                out.append({"id": "%s-v%d-e%d-%d" % (prefix, ver, earlier, k), "ver": ver, "naccts": 5, "bal": str(BAL), "public": public, "coinbase": 4,
                            "blocks": [{"ts": 1000, "txs": [{"from": 0, "nonce": 1, "kind": "deploy", "payload": "ok|0|a=b|deployed"},
                                                            {"from": 0, "nonce": 2, "kind": "transfer", "ctr": [0, 1], "amt": str(A)}]},
                                       {"ts": 2000, "txs": txs},
                                       {"ts": 3000, "txs": [{"from": 3, "nonce": 1, "kind": "transfer", "to": 0, "amt": "1"}]}], "_vm": True})
    return out


def refused_family(rng, prefix):
    """node A executes a sibling X of block k that it then REFUSES (wrong state root in the header,
    or a failing transaction at the end; chain.executeBlock calls cs.Update(bestBlock), i.e. the real
    dpos.Status.Update rollback branch, which reloads the voting power rank), optionally restarts,
    and then executes the valid block; node B (the producer) never saw X.  Blocks hold stakes, BP
    ballots with ties, parameter votes; fork versions 2..5."""
    out = []
    for ver in (2, 3, 4, 5):
        cs = [G.cand(70 + i).hex() for i in range(3)]
        blocks = [
            {"ts": 1000, "txs": [{"from": i, "nonce": 1, "kind": "stake", "amt": str(rng.choice([S, 2 * S]))} for i in range(3)]},
            {"ts": 2000, "txs": [{"from": 0, "nonce": 2, "kind": "votebp", "cands": [cs[0], cs[1]]},
                                 {"from": 1, "nonce": 2, "kind": "votebp", "cands": [cs[1]]},
                                 {"from": 2, "nonce": 2, "kind": "votedao", "id": "BPCOUNT", "val": ["13"]},
                                 {"from": 3, "nonce": 1, "kind": "transfer", "to": 0, "amt": "5"}]},
            {"ts": 3000, "txs": [{"from": 3, "nonce": 2, "kind": "stake", "amt": str(S)},
                                 {"from": 2, "nonce": 3, "kind": "votebp", "cands": [cs[2], cs[0]]},
                                 {"from": 3, "nonce": 3, "kind": "transfer", "to": 1, "amt": "7"}]},
            {"ts": 4000, "txs": [{"from": 3, "nonce": 4, "kind": "votebp", "cands": [cs[2]]}]}]
        for k in (1, 2, 3, 4):
            for kind in ("root", "tx", "root+restart"):
                out.append({"id": "%s-v%d-b%d-%s" % (prefix, ver, k, kind), "ver": ver, "naccts": 5, "bal": str(BAL), "coinbase": 4,
                            "public": ver % 2 == 0, "blocks": [dict(b, txs=[dict(t) for t in b["txs"]]) for b in blocks],
                            "refuse_before": k, "refuse_kind": kind, "_refuse": True})
    return out


def fork_crossing_family(rng, prefix):
    """chains that CROSS hardfork boundaries: fork heights configured low (V2 at block a, V3 at b, ...),
    one producer builds every block (child across the boundary, then the next ones: the parent's header
    is re-derived by the factory and the admission path each time), fresh nodes validate.  Blocks hold
    transfers, stakes, ballots and contract calls so that version-dependent paths run on both sides."""
    out = []
    layouts = [{"2": 3, "3": 5}, {"2": 2, "3": 3, "4": 4}, {"2": 1, "3": 4, "4": 6, "5": 7}, {"2": 4}, {"2": 0, "3": 0, "4": 3, "5": 5}]
    for li, fh in enumerate(layouts):
        cs = [G.cand(80 + i).hex() for i in range(2)]
        blocks, nonce = [], {i: 0 for i in range(5)}

        def tx(i, t):
            nonce[i] += 1
            t.update({"from": i, "nonce": nonce[i]})
            return t
        for b in range(1, 9):
            txs = [tx(0, {"kind": "transfer", "to": 1, "amt": str(b)})]
            if b == 1:
                txs.append(tx(1, {"kind": "deploy", "payload": "ok|100|a=b|deployed"}))
                txs.append(tx(2, {"kind": "stake", "amt": str(S)}))
            elif b == 2:
                txs.append(tx(2, {"kind": "votebp", "cands": cs}))
            else:
                txs.append(tx(3, {"kind": "call", "ctr": [1, 1], "payload": rng.choice(["ok|7|k%d=v|set" % b, "rt|9"])}))
                if b == 4:
                    txs.append(tx(3, {"kind": "stake", "amt": str(2 * S)}))
                if b == 6:
                    txs.append(tx(3, {"kind": "votebp", "cands": [cs[0]]}))
            blocks.append({"ts": 1000 * b, "txs": txs})
        out.append({"id": "%s-%d" % (prefix, li), "ver": 0, "fork_heights": fh, "naccts": 5, "bal": str(BAL), "coinbase": 4,
                    "public": li % 2 == 0, "blocks": blocks, "_fork": True})
    return out


def numeral_family(rng, prefix):
    """parameter votes whose candidate is a numeral that only a lenient parser reads as a number
    (0x.., 0b.., 0o.., underscores, leading zero), cast by the holder of more than 2/3 of the stake,
    followed by ballots of the same and of other voters in the same and in later blocks: a vote that
    gets past validation but fails in VoteResult.Sync would be dropped by the producer after the
    in-memory voting power rank was changed"""
    out = []
    for ver in (2, 3, 4):
        for k, num in enumerate(rng.sample(G.NUMERALS, 4)):
            cs = [G.cand(90 + i).hex() for i in range(2)]
            out.append({"id": "%s-v%d-%d" % (prefix, ver, k), "ver": ver, "naccts": 4, "bal": str(BAL), "coinbase": 3, "public": k % 2 == 0, "blocks": [
                {"ts": 1000, "txs": [{"from": 0, "nonce": 1, "kind": "stake", "amt": str(6 * S)}, {"from": 1, "nonce": 1, "kind": "stake", "amt": str(S)}]},
                {"ts": 2000, "txs": [{"from": 0, "nonce": 2, "kind": "votedao", "id": rng.choice(["BPCOUNT", "GASPRICE", "NAMEPRICE"]), "val": [num]},
                                     {"from": 0, "nonce": 2, "kind": "votebp", "cands": cs},
                                     {"from": 1, "nonce": 2, "kind": "votebp", "cands": [cs[1]]}]},
                {"ts": 3000, "txs": [{"from": 0, "nonce": 3, "kind": "votedao", "id": "BPCOUNT", "val": ["5"]},
                                     {"from": 2, "nonce": 1, "kind": "stake", "amt": str(S)}]},
                {"ts": 4000, "txs": [{"from": 2, "nonce": 2, "kind": "votebp", "cands": [cs[0]]}]}]})
    return out


def deadline_family(rng, prefix, ver=None, public=None):
    """the block-generation deadline (the context GatherTXs consults in checkBGTimeout) expires at
    every position of the candidate list of one block: already expired when gathering starts (-1)
    and while candidate k executes (k = 0..m-1).  The candidates mix transfers, contract calls
    (success / runtime error / VM system error, each with a fee) and a stake; the following block
    is built by accounts the deadline block did not use."""
    ver = rng.choice([0, 2, 3, 4, 5]) if ver is None else ver
    public = (rng.random() < 0.5) if public is None else public
    n = 6
    setup = [{"from": 0, "nonce": 1, "kind": "deploy", "payload": "ok|1000|a=b|deployed"},
             {"from": 1, "nonce": 1, "kind": "transfer", "to": 2, "amt": "5"}]
    pool = [lambda: {"from": 0, "nonce": 2, "kind": "call", "ctr": [0, 1], "payload": "ok|%d|k=v|set" % rng.choice([0, 700, 10 ** 12])},
            lambda: {"from": 1, "nonce": 2, "kind": "transfer", "to": 3, "amt": str(rng.randrange(1, 10 ** 6))},
            lambda: {"from": 2, "nonce": 1, "kind": "call", "ctr": [0, 1], "payload": "rt|%d" % rng.choice([1, 900])},
            lambda: {"from": 3, "nonce": 1, "kind": "call", "ctr": [0, 1], "payload": "vmstart|500"},
            lambda: {"from": 3, "nonce": 1, "kind": "stake", "amt": str(S)},
            lambda: {"from": 1, "nonce": 3, "kind": "transfer", "to": 0, "amt": "77"}]
    m = rng.randrange(3, len(pool) + 1)
    txs = [f() for f in pool[:m]]
    after = [{"from": 4, "nonce": 1, "kind": "transfer", "to": 0, "amt": "9"}]
    out = []
    for d in range(-1, m):
        out.append({"id": "%s-d%d" % (prefix, d), "ver": ver, "naccts": n, "bal": str(BAL), "public": public, "coinbase": n - 1,
                    "blocks": [{"ts": 1000, "txs": setup}, {"ts": 2000, "txs": [dict(t) for t in txs], "deadline": d},
                               {"ts": 3000, "txs": after}], "_deadline": True})
    return out


def twin_case(cid, ver=2, pairs=6):
    """F10: `pairs` parity-twin pairs, all with equal tallies"""
    cs = []
    for p in range(pairs):
        cs += [G.cand(50 + p, 0).hex(), G.cand(50 + p, 1).hex()]
    return {"id": cid, "ver": ver, "naccts": 3, "bal": str(BAL), "_twins": True, "blocks": [
        {"ts": 1000, "txs": [{"from": 0, "nonce": 1, "kind": "stake", "amt": str(S)}, {"from": 1, "nonce": 1, "kind": "stake", "amt": str(S)}]},
        {"ts": 2000, "txs": [{"from": 0, "nonce": 2, "kind": "votebp", "cands": cs}, {"from": 1, "nonce": 2, "kind": "votebp", "cands": list(reversed(cs))}]},
        {"ts": 3000, "txs": [{"from": 2, "nonce": 1, "kind": "transfer", "to": 0, "amt": "1"}]}]}


def ghost_case(cid, ver=2):
    """F12: the vote block is executed once on a throw-away block state before it is fed"""
    return {"id": cid, "ver": ver, "naccts": 3, "bal": str(BAL), "ghost_before": 2, "blocks": [
        {"ts": 1000, "txs": [{"from": 0, "nonce": 1, "kind": "stake", "amt": str(S)}]},
        {"ts": 2000, "txs": [{"from": 0, "nonce": 2, "kind": "votebp", "cands": [G.cand(1).hex()]}]}]}


def strip(case):
    return {k: v for k, v in case.items() if not k.startswith("_")}


# ----------------------------------------------------------------- chain executor vs Gov model
GOV_KINDS = ("stake", "unstake", "votebp", "votedao")
SKIP_ERR = {"must stake before vote": "EMustStakeVote", "must stake before unstake": "EMustStakeUnstake",
            "less time has passed": "ELessTime", "too small amount to influence": "ETooSmall",
            "not supported operation": "ENotSupported", "too big amount than you have": "EExceed"}
DEFAULTS = [3, 10 ** 22, 5 * 10 ** 10, 10 ** 18]


def chain_case_to_coq(case, prod, fixed=True):
    """Coq term of type ccase for one determ case and the producer's output, or None when the
    case cannot be replayed by the governance model (a BP vote already in block 1: the genesis
    ranking is read from the state after block 1)."""
    import hashlib
    if case.get("fork_heights"):
        return None          # the replay uses one fork version per case (cross-fork histories are C15's gov engine)
    for blk in case["blocks"]:
        for t in blk["txs"]:
            if any(not all(ch in "0123456789abcdef" for ch in c) for c in t.get("cands", [])):
                return None      # engine-derived candidate names ("k1"): not replayed
    b1 = prod["blocks"][0]
    for i in b1.get("included") or []:
        if case["blocks"][0]["txs"][i]["kind"] == "votebp":
            return None
    ids = G.clist(G.cid(hashlib.sha256(bytes.fromhex(a)).hexdigest()) for a in prod["accts"])
    cfg = "{| c_ver := %d; c_fixed := %s; c_ids := %s; c_defaults := %s |}" % (
        case["ver"], "true" if fixed else "false", ids, G.clist("(%d%%N,%s)" % (i, G.cz(v)) for i, v in enumerate(DEFAULTS)))
    genesis_rank = G.clist("(%s,%s)" % (G.cbytes(bytes.fromhex(c)), G.cz(a)) for c, a in b1["gov"]["votes_bp"])
    dur = ("{| d_bal := %s; d_sysbal := 0; d_stakes := []; d_total := 0; d_votes := []; d_results := [(0%%N, %s)]; "
           "d_vtotals := []; d_params := []; d_vpr := [] |}") % (
        G.clist("(%d%%N,%s)" % (i, G.cz(case["bal"])) for i in range(case["naccts"])), genesis_rank)
    g0 = "{| g_no := 1; g_d := %s; g_m := {| m_pcur := []; m_pnext := []; m_vpr := vpr_empty |} |}" % dur
    blocks = []
    for k, (blk, pb) in enumerate(zip(case["blocks"], prod["blocks"])):
        inc = set(pb.get("included") or [])
        skp = {s["i"]: s["err"] for s in (pb.get("skipped") or [])}
        txs = []
        for i, t in enumerate(blk["txs"]):
            if t["kind"] not in GOV_KINDS:
                continue
            if i in inc:
                e = "EOk"
            elif i in skp and skp[i] in SKIP_ERR:
                e = SKIP_ERR[skp[i]]
            else:
                continue      # refused before governance execution (nonce, payload format, ...)
            o = {"op": t["kind"], "who": t["from"], "amt": t.get("amt", "0"), "cands": t.get("cands", []), "id": t.get("id", ""), "val": t.get("val", [])}
            coq = G.op_to_coq(o)           # "(OTx (T...))"
            txs.append("(%s,%s)" % (coq[len("(OTx "):-1], e))
        gv = pb["gov"]
        accs = []
        for a in gv["accts"]:
            present = a["vote_bp_amt"] != "0" or a["vote_bp_cands"]
            bp = "(Some (%s,%s))" % (G.clist(G.cbytes(bytes.fromhex(c)) for c in a["vote_bp_cands"]), G.cz(a["vote_bp_amt"])) if present else "None"
            accs.append("(%s,%s,%s)" % (G.cz(a["staked"]), G.cz(a["staked_when"]), bp))
        res = [G.clist("(%s,%s)" % (G.cbytes(bytes.fromhex(c)), G.cz(a)) for c, a in gv["votes_bp"])]
        for iid in G.ISSUES[1:]:
            res.append(G.clist("(%s,%s)" % (G.cbytes(c.encode()), G.cz(a)) for c, a in gv["votes_dao"].get(iid, [])))
        obs = "(%s,%s,%s,%s)" % (G.cz(gv["staking_total"]), G.clist(accs), G.clist(res), G.cz(gv["vpr_total_mem"]))
        blocks.append("(%s,\n  %s,%d)" % (G.clist(txs), obs, k + 2))
    return "(%s,\n %s,\n %s)" % (cfg, g0, G.clist(blocks))


CHAIN_HEAD = """From Coq Require Import ZArith NArith List Bool.
From Verif Require Import Gov.Model Gov.Check Gov.ChainCheck.
Import ListNotations.
Open Scope Z_scope.
"""


def chain_cases_file(items):
    out = [CHAIN_HEAD] + G.NAMES.defs()
    for i, t in enumerate(items):
        out.append("Definition cc%d : ccase := %s." % (i, t))
    out.append("Definition MC := Eval vm_compute in ccases_bad %s 0." % G.clist("cc%d" % i for i in range(len(items))))
    out.append("Print MC.")
    return "\n".join(out)


# ----------------------------------------------------------------- stateBuffer.export: key-collision structure
def export_cases(rng, n, rep=40):
    """sets of raw 32-byte state keys written in ONE block: ids sharing a common 8-, 16-, 31-byte
    prefix (differing only after it), ids differing only in the first byte, random ids, and mixtures;
    each set is exported / committed `rep` times from the same prior state so that the Go map order varies"""
    out = []
    for i in range(n):
        k = rng.randrange(2, 9)
        plen = rng.choice([0, 1, 8, 8, 8, 16, 31, 31])
        prefix = bytes(rng.randrange(256) for _ in range(plen))
        keys = set()
        while len(keys) < k:
            keys.add(prefix + bytes(rng.randrange(256) for _ in range(32 - plen)))
        if rng.random() < 0.4:        # plus a few unrelated ids and a second cluster
            p2 = bytes(rng.randrange(256) for _ in range(8))
            for _ in range(rng.randrange(1, 4)):
                keys.add(p2 + bytes(rng.randrange(256) for _ in range(24)))
            keys.add(bytes(rng.randrange(256) for _ in range(32)))
        ks = [x.hex() for x in keys]
        rng.shuffle(ks)
        out.append({"id": "exp%d-p%d" % (i, plen), "keys": ks, "rep": rep})
    return out


EXPORT_HEAD = """From Coq Require Import NArith List Bool.
From Verif Require Import Gov.Model Determ.Export.
Import ListNotations.
Fixpoint keys_eqb (a b : list (list N)) : bool :=
  match a, b with [], [] => true | x :: a', y :: b' => cand_eqb x y && keys_eqb a' b' | _, _ => false end.
Definition case_ok (c : list (list N) * list (list N)) : bool :=
  keys_eqb (map fst (export (map (fun k => (k, @nil N)) (fst c)))) (snd c).
Fixpoint bad (l : list (list (list N) * list (list N))) (i : nat) : list nat :=
  match l with [] => [] | c :: r => if case_ok c then bad r (S i) else i :: bad r (S i) end.
"""


def export_cases_file(pairs):
    """pairs: (input key list, observed exported order), hex strings"""
    b = lambda h: "[" + ";".join(str(x) for x in bytes.fromhex(h)) + "]%N"
    items = ["(%s,%s)" % (G.clist(b(k) for k in ins), G.clist(b(k) for k in obs)) for ins, obs in pairs]
    return EXPORT_HEAD + "Definition ME := Eval vm_compute in bad %s 0.\nPrint ME.\n" % G.clist(items)

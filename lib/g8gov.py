"""Helpers of group g8-gov (C15 / C02): governance scenario generator, Coq emitter for the
Gov model, direct predicates (the GovInv clauses) evaluated on the implementation's dumps."""
import hashlib
import json

S = 10 ** 22  # default staking minimum (10000 aergo)
ISSUES = ["voteBP", "BPCOUNT", "STAKINGMIN", "GASPRICE", "NAMEPRICE"]
ERRS = {"ok": "EOk", "init": "EOk", "insufficient": "EInsufficient", "lesstime": "ELessTime", "toosmall": "ETooSmall",
        "muststakevote": "EMustStakeVote", "muststakeunstake": "EMustStakeUnstake", "exceed": "EExceed",
        "payload": "EPayload", "toomany": "ETooMany", "invalidcand": "EInvalidCand",
        "notsupported": "ENotSupported", "invalidid": "EInvalidId", "panic": "EPanic"}
DELAY = 86400


def addr(i):
    return bytes([2 + (i % 2)]) + hashlib.sha256(b"verif-acct-%d" % i).digest()


def aid(a):
    """types.ToAccountID = sha256(address)"""
    return hashlib.sha256(a).digest()


def cand(i, parity=0):
    """a 39-byte libp2p peer id of a secp256k1 key: multihash header + compressed point.
    [parity] flips byte 6 (the y-parity): the F10 'twin' of the same x-coordinate."""
    return b"\x00\x25\x08\x02\x12\x21" + bytes([2 + parity]) + hashlib.sha256(b"verif-cand-%d" % i).digest()


# ----------------------------------------------------------------------------- generator
def gen_scenario(rng, ver=None, nacc=None, nops=None, twins=False, dao_bias=0.25):
    """multi-account history across the lock periods: stakes, partial/full unstakes, BP votes
    with overlapping candidate sets and equal tallies, parameter votes, block boundaries
    that straddle StakingDelay/VotingDelay, node restarts."""
    ver = ver if ver is not None else rng.choice([1, 2, 2, 3, 4])
    nacc = nacc or rng.randrange(2, 6)
    nops = nops or rng.randrange(8, 28)
    ncand = rng.randrange(2, 7)
    accounts = [{"addr": addr(i).hex(), "bal": str(rng.choice([3, 5, 10]) * S + rng.randrange(0, 1000))} for i in range(nacc)]
    ops = []
    no = 1
    # amounts chosen from few values so that equal tallies (ties) are frequent
    amts = [S, S, 2 * S, 3 * S, S + 1, S // 2, 0, 10 * S]
    staked = set()
    for _ in range(nops):
        r = rng.random()
        who = rng.randrange(nacc)
        if r < 0.22 or (not staked and r < 0.6):
            ops.append({"op": "stake", "who": who, "amt": str(rng.choice(amts))})
            staked.add(who)
        elif r < 0.36:
            ops.append({"op": "unstake", "who": who, "amt": str(rng.choice(amts + [S, 2 * S]))})
        elif r < 0.62:
            k = rng.choice([0, 1, 1, 2, 2, 3, 4])
            cs = []
            for _ in range(k):
                ci = rng.randrange(ncand)
                par = rng.randrange(2) if twins else 0
                cs.append(cand(ci, par).hex())
            if rng.random() < 0.1 and cs:
                cs.append(cs[0])  # the same candidate twice in one ballot
            ops.append({"op": "votebp", "who": who, "cands": cs})
        elif r < 0.62 + dao_bias * 0.6:
            iid = rng.choice(["BPCOUNT", "bpcount", "STAKINGMIN", "GASPRICE", "NAMEPRICE", "NOPE"])
            val = rng.choice([["13"], ["3"], ["100"], ["101"], ["0"], ["+7"], ["x"], [], ["5", "6"],
                              [str(S)], [str(S // 2)], ["1000000000000000000"], ["007"]])
            ops.append({"op": "votedao", "who": who, "id": iid, "val": val})
        elif r < 0.93:
            step = rng.choice([1, 1, 2, DELAY - 2, DELAY - 1, DELAY, DELAY + 1, 2 * DELAY])
            no += step
            ops.append({"op": "block", "no": no})
            if rng.random() < 0.15:
                ops.append({"op": "reload"})
        else:
            no += 1
            ops.append({"op": "block", "no": no})
    no += 1
    ops.append({"op": "block", "no": no})
    ops.append({"op": "reload"})
    return {"ver": ver, "bpcount": 3, "start": 1, "accounts": accounts, "ops": ops}


# ----------------------------------------------------------------------------- Coq emitter
def cz(n):
    """Z literal; large values in hexadecimal (decimal number notations are quadratic)"""
    n = int(n)
    if abs(n) >= 1 << 31:
        return "(-0x%x)" % -n if n < 0 else "0x%x" % n
    return "(%d)" % n if n < 0 else "%d" % n


class Names:
    """byte strings and 256-bit ids are emitted once as named constants (keeps the generated
    file small: type-checking the literals dominates the evaluation time otherwise)"""

    def __init__(self):
        self.cands, self.ids = {}, {}
        self.shared, self.shared_defs = {}, []

    def share(self, typ, text):
        """identical observation components (most of a dump does not change in a step) are
        emitted once"""
        k = (typ, text)
        if k not in self.shared:
            n = "s%d" % len(self.shared)
            self.shared[k] = n
            self.shared_defs.append("Definition %s : %s := %s." % (n, typ, text))
        return self.shared[k]

    def cand(self, b):
        b = bytes(b)
        if b not in self.cands:
            self.cands[b] = "k%d" % len(self.cands)
        return self.cands[b]

    def idn(self, n):
        if n not in self.ids:
            self.ids[n] = "i%d" % len(self.ids)
        return self.ids[n]

    def defs(self):
        out = []
        for b, n in self.cands.items():
            out.append("Definition %s : cand := [%s]%%N." % (n, ";".join(str(x) for x in b)))
        for v, n in self.ids.items():
            out.append("Definition %s : N := 0x%x%%N." % (n, v))
        return out + self.shared_defs


NAMES = Names()


def cbytes(b):
    return NAMES.cand(b)


def cid(hexid):
    return NAMES.idn(int(hexid, 16))


def clist(items):
    return "[" + "; ".join(items) + "]"


def copt(x, f):
    return "None" if x is None or x == "" else "(Some %s)" % f(x)


def op_to_coq(o):
    k = o["op"]
    if k == "block":
        return "(OBlock %s)" % cz(o["no"])
    if k == "reload":
        return "OReload"
    w = "%d%%N" % o["who"]
    if k == "stake":
        t = "(TStake %s %s)" % (w, cz(o.get("amt") or 0))
    elif k == "unstake":
        t = "(TUnstake %s %s)" % (w, cz(o.get("amt") or 0))
    elif k == "votebp":
        t = "(TVoteBP %s %s)" % (w, clist(cbytes(bytes.fromhex(c)) for c in o["cands"]))
    elif k == "votedao":
        up = o["id"].upper()
        issue = "(Some %d%%N)" % ISSUES.index(up) if up in ISSUES[1:] else "None"
        t = "(TVoteDAO %s %s %s)" % (w, issue, clist(cbytes(v.encode()) for v in o["val"]))
    else:
        raise ValueError(k)
    return "(%s %s)" % ("OGhost" if o.get("ghost") else "OTx", t)


def vp_to_coq(x, addr_index):
    return "(%s,(%d%%N,%s))" % (cid(x["id"]), addr_index.get(x["addr"], 999), cz(x["pw"]))


def buckets_to_coq(bs, addr_index):
    return clist("(%d%%N,%s)" % (b["i"], clist(vp_to_coq(x, addr_index) for x in b["l"])) for b in (bs or []))


def dump_to_coq(d, addr_index):
    err = d["err"]
    e = ERRS.get(err)
    if e is None:
        e = "EPayload"  # unknown class: reported by the caller as a machinery problem
    accs = []
    for a in d["accs"]:
        votes = clist(("(Some (%s,%s))" % (clist(cbytes(bytes.fromhex(c)) for c in (v["c"] or [])), cz(v["a"]))) if v["p"] else "None"
                      for v in a["v"])
        accs.append(NAMES.share("acc_obs", "((%s,%s),(%s,%s),%s)" % (cz(a["bal"]), "true" if a["sp"] else "false", cz(a["sa"]), cz(a["sw"]), votes)))
    res = NAMES.share("list (list (cand * Z) * Z)", clist("(%s,%s)" % (clist("(%s,%s)" % (cbytes(bytes.fromhex(c)), cz(a)) for c, a in (r["l"] or [])), cz(r["t"]))
                for r in d["res"]))
    par = NAMES.share("(list Z * list (option Z) * list (option Z))%type", "(%s,%s,%s)" % (clist(cz(x) for x in d["pcur"]), clist(copt(x, cz) for x in d["pnext"]), clist(copt(x, cz) for x in d["pdb"])))
    m, rl = d["mem"], d["reload"]
    nz = lambda l: clist("(%s,%s)" % (cid(x["id"]), cz(x["pw"])) for x in (l or []))
    mem = NAMES.share("vpr_obs", "(%s,%s,%s,%s)" % (cz(m["total"]), buckets_to_coq(m["b"], addr_index), nz(m["p"]), nz(m["ch"])))
    rel = NAMES.share("(Z * list (N * list vp))%type", "(%s,%s)" % (cz(rl["total"]), buckets_to_coq(rl["b"], addr_index)))
    return "(%s,%s,(%s,%s),%s,%s,%s,%s)" % (e, clist(accs), cz(d["sysbal"]), cz(d["total"]), res, par, mem, rel)


def scenario_to_coq(sc, dumps, fixed):
    """(cfg, initial gstate, [(op, obs)]) — the initial state is the implementation's own
    first dump (balances after genesis), everything else empty."""
    addr_index = {a["addr"]: i for i, a in enumerate(sc["accounts"])}
    ids = clist(cid(aid(bytes.fromhex(a["addr"])).hex()) for a in sc["accounts"])
    d0 = dumps[0]
    defaults = clist("(%d%%N,%s)" % (i, cz(v)) for i, v in enumerate(d0["pcur"]))
    cfg = "{| c_ver := %d; c_fixed := %s; c_ids := %s; c_defaults := %s |}" % (sc["ver"], "true" if fixed else "false", ids, defaults)
    bal = clist("(%d%%N,%s)" % (i, cz(a["bal"])) for i, a in enumerate(d0["accs"]))
    dur = ("{| d_bal := %s; d_sysbal := %s; d_stakes := []; d_total := 0; d_votes := []; d_results := []; "
           "d_vtotals := []; d_params := []; d_vpr := [] |}") % (bal, cz(d0["sysbal"]))
    mem = "{| m_pcur := []; m_pnext := []; m_vpr := vpr_empty |}"
    g = "{| g_no := %d; g_d := %s; g_m := %s |}" % (sc["start"], dur, mem)
    ops = clist("(%s,\n   %s)" % (op_to_coq(o), dump_to_coq(d, addr_index)) for o, d in zip(sc["ops"], dumps[1:]))
    return "(%s,\n %s,\n %s)" % (cfg, g, ops)


def reset_names():
    global NAMES
    NAMES = Names()


COQ_HEAD = """From Coq Require Import ZArith NArith List Bool.
From Verif Require Import Gov.Model Gov.Check.
Import ListNotations.
Open Scope Z_scope.
"""


def cases_file(items):
    """items: list of Coq scenario terms (built since the last call of reset_names)"""
    out = [COQ_HEAD] + NAMES.defs()
    for i, t in enumerate(items):
        out.append("Definition sc%d : scenario := %s." % (i, t))
    out.append("Definition M := Eval vm_compute in scenarios_bad %s 0." % clist("sc%d" % i for i in range(len(items))))
    out.append("Print M.")
    return "\n".join(out)


# ----------------------------------------------------------------------------- direct predicates
def gov_inv(d, donated):
    """The clauses of C15 evaluated on one dump of the implementation.  Returns a list of
    (clause, detail) that fail."""
    bad = []
    I = int
    total = I(d["total"])
    s = sum(I(a["sa"]) for a in d["accs"])
    if total != s:
        bad.append(("total-eq-sum-stakes", {"total": total, "sum": s}))
    if I(d["sysbal"]) != total + donated:
        bad.append(("system-balance-eq-total-plus-donated", {"sysbal": I(d["sysbal"]), "total": total, "donated": donated}))
    for k in range(len(ISSUES)):
        tally = {}
        for a in d["accs"]:
            v = a["v"][k]
            if not v["p"]:
                continue
            if I(v["a"]) > I(a["sa"]):
                bad.append(("vote-amount-le-stake", {"issue": ISSUES[k], "vote": v["a"], "stake": a["sa"]}))
            for c in (v["c"] or []):
                tally[c] = tally.get(c, 0) + I(v["a"])
        lst = d["res"][k]["l"] or []
        got = {}
        for c, a in lst:
            if c in got:
                bad.append(("ranking-duplicate-candidate", {"issue": ISSUES[k], "cand": c}))
            got[c] = I(a)
        for c in set(tally) | set(got):
            if tally.get(c, 0) != got.get(c, 0):
                bad.append(("tally-eq-sum-of-votes", {"issue": ISSUES[k], "cand": c, "tally": got.get(c, 0), "sum": tally.get(c, 0)}))
        for (c1, a1), (c2, a2) in zip(lst, lst[1:]):
            if I(a1) < I(a2):
                bad.append(("ranking-sorted-by-tally", {"issue": ISSUES[k], "pair": [c1, c2]}))
        if k > 0:
            t = sum(I(a["v"][k]["a"]) for a in d["accs"] if a["v"][k]["p"])
            if I(d["res"][k]["t"]) != t:
                bad.append(("proposal-vote-total", {"issue": ISSUES[k], "stored": d["res"][k]["t"], "sum": t}))
    return bad


def vpr_view(v):
    return (v["total"], json.dumps(v["b"], sort_keys=True))


def vpr_mem_equals_reload(d):
    """consensus-relevant part of votingPowerRank (total power + buckets, what
    pickVotingRewardWinner reads) against loadVpr of the current state"""
    return vpr_view(d["mem"]) == vpr_view(d["reload"])

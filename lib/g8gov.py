"""Helpers of group g8-gov (C15 / C02): governance scenario generator, Coq emitter for the
Gov model, direct predicates (the GovInv clauses) evaluated on the implementation's dumps."""
import hashlib
import json

S = 10 ** 22  # default staking minimum (10000 aergo)
ISSUES = ["voteBP", "BPCOUNT", "STAKINGMIN", "GASPRICE", "NAMEPRICE"]
ERRS = {"ok": "EOk", "init": "EOk", "insufficient": "EInsufficient", "lesstime": "ELessTime", "toosmall": "ETooSmall",
        "muststakevote": "EMustStakeVote", "muststakeunstake": "EMustStakeUnstake", "exceed": "EExceed",
        "payload": "EPayload", "toomany": "ETooMany", "invalidcand": "EInvalidCand",
        "notsupported": "ENotSupported", "invalidid": "EInvalidId", "toofew": "ETooFew", "panic": "EPanic",
        # Sync failed after vpr.apply ("abnormal winner"): the model's class for "failed after touching the globals"
        "abnormal": "EPanic"}
DELAY = 86400
# numerals that are numbers for a base-0 / lenient parser but not for SetString(s, 10), and decimals in unusual spellings
NUMERALS = ["0x3", "0X5", "0b11", "0o7", "1_0", "0x_3", "013", "+0x3", "0e1", "1e1", " 5", "5 ", "٣"]
BOUNDARY = {72: 2 ** 72, 80: 2 ** 80, 88: 2 ** 88}      # 9|10, 10|11, 11|12 byte amounts
MAX_AER = 5 * 10 ** 26


def addr(i):
    return bytes([2 + (i % 2)]) + hashlib.sha256(b"verif-acct-%d" % i).digest()


def aid(a):
    """types.ToAccountID = sha256(address)"""
    return hashlib.sha256(a).digest()


def cand(i, parity=0):
    """a 39-byte libp2p peer id of a secp256k1 key: multihash header + compressed point.
    [parity] flips byte 6 (the y-parity): the F10 'twin' of the same x-coordinate."""
    return b"\x00\x25\x08\x02\x12\x21" + bytes([2 + parity]) + hashlib.sha256(b"verif-cand-%d" % i).digest()


# ----------------------------------------------------------------------------- generator
def gen_scenario(rng, ver=None, nacc=None, nops=None, twins=False, dao_bias=0.25):
    """multi-account history across the lock periods: stakes, partial/full unstakes, BP votes
    with overlapping candidate sets and equal tallies, parameter votes, block boundaries
    that straddle StakingDelay/VotingDelay, node restarts."""
    ver = ver if ver is not None else rng.choice([1, 1, 2, 2, 3, 4])
    ver0 = ver
    nacc = nacc or rng.randrange(2, 6)
    nops = nops or rng.randrange(8, 28)
    ncand = rng.randrange(2, 7)
    # amounts chosen from few values so that equal tallies (ties) are frequent ...
    amts = [S, S, 2 * S, 3 * S, S + 1, S // 2, 0, 10 * S]
    big = rng.random() < 0.45
    if big:
        # ... or from values whose big-endian encodings have DIFFERENT BYTE LENGTHS (9..12 bytes:
        # around 2^72, 2^80, 2^88 aer, just above / below powers of 256, the maximum supply), so that
        # partial unstakes move a stake and its votes across a length boundary: any byte-wise
        # comparison in place of big.Int.Cmp is then observable
        B = BOUNDARY
        amts = [S, 2 * S, B[80], B[80] + 1, B[80] - 1, B[80] + S, B[80] + S // 2, B[80] - S + 5, 13 * 10 ** 23, 115 * 10 ** 22,
                2 * 10 ** 23, B[88], B[88] + 1, B[88] - 1, B[88] - B[80], B[72] + S, 256 ** 10 - 1, 256 ** 11 - 1, MAX_AER, 1, 0]
        accounts = [{"addr": addr(i).hex(), "bal": str(rng.choice([MAX_AER, 2 * MAX_AER, B[88] + B[80] + 7]))} for i in range(nacc)]
    else:
        accounts = [{"addr": addr(i).hex(), "bal": str(rng.choice([3, 5, 10]) * S + rng.randrange(0, 1000))} for i in range(nacc)]
    ops = []
    no = 1
    staked = set()
    for _ in range(nops):
        r = rng.random()
        who = rng.randrange(nacc)
        if r < 0.22 or (not staked and r < 0.6):
            ops.append({"op": "stake", "who": who, "amt": str(rng.choice(amts))})
            staked.add(who)
        elif r < 0.36:
            ops.append({"op": "unstake", "who": who, "amt": str(rng.choice(amts + [S, 2 * S, 2 * 10 ** 23 if big else S]))})
        elif r < 0.62:
            k = rng.choice([0, 1, 1, 2, 2, 3, 4])
            cs = []
            for _ in range(k):
                ci = rng.randrange(ncand)
                par = rng.randrange(2) if twins else 0
                cs.append(cand(ci, par).hex())
            if rng.random() < 0.1 and cs:
                cs.append(cs[0])  # the same candidate twice in one ballot
            ops.append({"op": "votebp", "who": who, "cands": cs})
        elif r < 0.62 + dao_bias * 0.6:
            iid = rng.choice(["BPCOUNT", "bpcount", "STAKINGMIN", "GASPRICE", "NAMEPRICE", "NOPE"])
            val = rng.choice([["13"], ["3"], ["100"], ["101"], ["0"], ["+7"], ["x"], [], ["5", "6"],
                              [str(S)], [str(S // 2)], ["1000000000000000000"], ["007"]] + [[x] for x in NUMERALS])
            ops.append({"op": "votedao", "who": who, "id": iid, "val": val})
        elif r < 0.93:
            step = rng.choice([1, 1, 2, DELAY - 2, DELAY - 1, DELAY, DELAY + 1, 2 * DELAY])
            no += step
            blk = {"op": "block", "no": no}
            if ver < 4 and rng.random() < 0.12:      # the chain crosses a hardfork height
                ver += 1
                blk["ver"] = ver
            ops.append(blk)
            if rng.random() < 0.15:
                ops.append({"op": "reload"})
        else:
            no += 1
            ops.append({"op": "block", "no": no})
    no += 1
    ops.append({"op": "block", "no": no})
    ops.append({"op": "reload"})
    return {"ver": ver0, "bpcount": 3, "start": 1, "accounts": accounts, "ops": ops}


def gen_crossing_scenario(rng):
    """directed: stakes just above a byte-length boundary of the amount encoding (2^72, 2^80, 2^88
    aer), ballots on them, the lock period passes, partial unstakes that take the stake to just
    below / exactly at / still above the boundary (so the recorded votes must be shrunk across a
    change of byte length), then re-votes and a second round"""
    nacc = rng.randrange(2, 5)
    ver = rng.choice([1, 2, 3, 4])
    accounts = [{"addr": addr(i).hex(), "bal": str(2 * MAX_AER)} for i in range(nacc)]
    ops, no = [], 1
    stake = {}
    for w in range(nacc):
        b = BOUNDARY[rng.choice([80, 80, 88, 72])]
        if b < S:
            b = 256 ** 10          # smallest boundary above the minimum stake
        stake[w] = b + rng.choice([1, 1000, S // 3, S, 7 * S, 91 * 10 ** 21])
        ops.append({"op": "stake", "who": w, "amt": str(stake[w])})
    no += 1
    ops.append({"op": "block", "no": no})
    for w in range(nacc):
        ops.append({"op": "votebp", "who": w, "cands": [cand(rng.randrange(3)).hex() for _ in range(rng.randrange(1, 3))]})
        if ver >= 2 and rng.random() < 0.5:
            ops.append({"op": "votedao", "who": w, "id": rng.choice(["GASPRICE", "NAMEPRICE", "BPCOUNT"]), "val": [rng.choice(["60000000000", "7", "13"])]})
    for rnd in range(2):
        no += DELAY + rng.choice([0, 1])
        ops.append({"op": "block", "no": no})
        for w in range(nacc):
            b = max(x for x in (256 ** 9, 256 ** 10, 256 ** 11) if x <= stake[w]) if stake[w] >= 256 ** 9 else 0
            target = rng.choice([b - 1, b - S // 2, b, b + 1, stake[w] - S, b - 200 * 10 ** 21])
            amt = stake[w] - target
            if 0 < amt <= stake[w] and (target == 0 or target >= S):
                ops.append({"op": "unstake", "who": w, "amt": str(amt)})
                stake[w] = target
        no += 1
        ops.append({"op": "block", "no": no})
        if rng.random() < 0.5:
            ops.append({"op": "reload"})
    ops.append({"op": "block", "no": no + 1})
    return {"ver": ver, "bpcount": 3, "start": 1, "accounts": accounts, "ops": ops}


def gen_fork_scenario(rng):
    """histories that CROSS hardfork heights: stakes and BP ballots under version 1 (no voting power
    rank before V2), then — after the lock period, under version 2, later 3 / 4 — partial unstakes,
    additional stakes, re-votes and parameter votes by the same accounts and by new ones"""
    nacc = rng.randrange(2, 5)
    accounts = [{"addr": addr(i).hex(), "bal": str(20 * S)} for i in range(nacc)]
    ops, no, ver = [], 1, 1
    stake = {}
    for w in range(nacc):
        if rng.random() < 0.8:
            stake[w] = rng.choice([S, 2 * S, 3 * S])
            ops.append({"op": "stake", "who": w, "amt": str(stake[w])})
    no += 1
    ops.append({"op": "block", "no": no})
    for w in stake:
        if rng.random() < 0.85:
            ops.append({"op": "votebp", "who": w, "cands": [cand(rng.randrange(3)).hex() for _ in range(rng.randrange(1, 3))]})
    for nv in (2, rng.choice([2, 3]), rng.choice([3, 4])):
        no += DELAY + rng.choice([0, 1, 5])
        blk = {"op": "block", "no": no}
        if nv != ver:
            blk["ver"] = nv
            ver = nv
        ops.append(blk)
        for w in range(nacc):
            r = rng.random()
            if w in stake and r < 0.35 and stake[w] > S:
                ops.append({"op": "unstake", "who": w, "amt": str(S)})
                stake[w] -= S
            elif r < 0.6:
                ops.append({"op": "stake", "who": w, "amt": str(S)})
                stake[w] = stake.get(w, 0) + S
            elif w in stake and r < 0.85:
                ops.append({"op": "votebp", "who": w, "cands": [cand(rng.randrange(3)).hex()]})
            elif w in stake:
                ops.append({"op": "votedao", "who": w, "id": rng.choice(["BPCOUNT", "GASPRICE"]), "val": [rng.choice(["5", "13", "60000000000"])]})
        no += 1
        ops.append({"op": "block", "no": no})
        if rng.random() < 0.5:
            ops.append({"op": "reload"})
    ops.append({"op": "block", "no": no + 1})
    ops.append({"op": "reload"})
    return {"ver": 1, "bpcount": 3, "start": 1, "accounts": accounts, "ops": ops}


def gen_param_scenario(rng):
    """directed: two (or three) parameter votes on the SAME parameter that each reach the 2/3
    threshold, inside one block or across a block boundary: the second equal to the value currently
    in effect / equal to the first / a third value.  A (all of the stake) votes v1; newcomer C stakes
    most of the new total and casts its first vote for v2 (so both tallies pass in turn); after the
    boundary a small stake probes which minimum the running node applies; restarts in between."""
    pid = rng.choice(["STAKINGMIN", "STAKINGMIN", "GASPRICE", "NAMEPRICE", "BPCOUNT"])
    cur = {"STAKINGMIN": S, "GASPRICE": 5 * 10 ** 10, "NAMEPRICE": 10 ** 18, "BPCOUNT": 3}[pid]
    other = {"STAKINGMIN": [10 ** 18, 5 * 10 ** 18, S // 2], "GASPRICE": [6 * 10 ** 10, 1], "NAMEPRICE": [2 * 10 ** 18, 7], "BPCOUNT": [5, 13]}[pid]
    v1 = rng.choice(other)
    v2 = rng.choice([cur, cur, v1, rng.choice(other)])
    if rng.random() < 0.4:       # a numeral only a lenient parser accepts, cast by the holder of all the stake
        v1 = rng.choice(NUMERALS)
    accounts = [{"addr": addr(i).hex(), "bal": str(60 * S)} for i in range(4)]
    ops, no = [], 1
    ops += [{"op": "stake", "who": 0, "amt": str(3 * S)}, {"op": "block", "no": 2}]
    no = 2
    ops.append({"op": "votedao", "who": 0, "id": pid, "val": [str(v1)]})
    if rng.random() < 0.35:                  # the second vote in a later block
        no += 1
        ops.append({"op": "block", "no": no})
        if rng.random() < 0.4:
            ops.append({"op": "reload"})
    ops.append({"op": "stake", "who": 2, "amt": str(10 * S)})
    if rng.random() < 0.3:
        no += 1
        ops.append({"op": "block", "no": no})
    ops.append({"op": "votedao", "who": 2, "id": pid, "val": [str(v2)]})
    if rng.random() < 0.4:                   # a third passing vote in the same block
        ops.append({"op": "stake", "who": 3, "amt": str(40 * S)})
        ops.append({"op": "votedao", "who": 3, "id": pid, "val": [str(rng.choice([cur, v1, v2] + other))]})
    no += 1
    ops.append({"op": "block", "no": no})
    # probes: which staking minimum does the running node apply now?
    ops.append({"op": "stake", "who": 1, "amt": str(5 * 10 ** 18)})
    ops.append({"op": "stake", "who": 1, "amt": str(S)})
    no += 1
    ops.append({"op": "block", "no": no})
    ops.append({"op": "reload"})
    ops.append({"op": "stake", "who": 1, "amt": str(6 * 10 ** 18)})
    ops.append({"op": "block", "no": no + 1})
    return {"ver": rng.choice([2, 3, 4]), "bpcount": 3, "start": 1, "accounts": accounts, "ops": ops}


def gen_revote_scenario(rng, offset=None):
    """directed: stake, vote (BP and, from V2, a parameter issue), FULL unstake after the lock period
    (the ballots are refreshed to amount 0: record present, amount empty), stake again after another
    lock period, then re-vote at `offset` blocks around the end of the voting delay of that second
    stake (-1: must be refused, 0 / +1: accepted).  One account votes with an empty candidate list
    (its zero-amount BP record is stored as the empty string, i.e. disappears)."""
    ver = rng.choice([1, 2, 3, 4])
    offset = rng.choice([-2, -1, 0, 1, -DELAY + 1, -DELAY // 2]) if offset is None else offset
    nacc = rng.randrange(2, 4)
    accounts = [{"addr": addr(i).hex(), "bal": str(20 * S)} for i in range(nacc)]
    ops, no = [], 1
    for w in range(nacc):
        ops.append({"op": "stake", "who": w, "amt": str(rng.choice([S, 2 * S]))})
    no += 1
    ops.append({"op": "block", "no": no})
    for w in range(nacc):
        cs = [] if (w == nacc - 1 and rng.random() < 0.5) else [cand(rng.randrange(3)).hex() for _ in range(rng.randrange(1, 3))]
        ops.append({"op": "votebp", "who": w, "cands": cs})
        if ver >= 2 and rng.random() < 0.6:
            ops.append({"op": "votedao", "who": w, "id": "GASPRICE", "val": ["60000000000"]})
    no += DELAY
    ops.append({"op": "block", "no": no})
    stakes = {}
    for w in range(nacc):
        ops.append({"op": "unstake", "who": w, "amt": "FULL%d" % w})
    no += DELAY + rng.choice([0, 3])
    ops.append({"op": "block", "no": no})
    if rng.random() < 0.3:
        ops.append({"op": "reload"})
    for w in range(nacc):
        ops.append({"op": "stake", "who": w, "amt": str(rng.choice([S, 3 * S]))})
    no += DELAY + offset
    ops.append({"op": "block", "no": no})
    for w in range(nacc):
        ops.append({"op": "votebp", "who": w, "cands": [cand(rng.randrange(3)).hex()]})
        if ver >= 2:
            ops.append({"op": "votedao", "who": w, "id": rng.choice(["GASPRICE", "BPCOUNT"]), "val": [rng.choice(["60000000000", "5"])]})
    ops.append({"op": "block", "no": no + 1})
    # resolve the full-unstake amounts: what each account staked in the first round
    first = {}
    for o in ops:
        if o["op"] == "stake" and o["who"] not in first:
            first[o["who"]] = o["amt"]
    for o in ops:
        if o["op"] == "unstake":
            o["amt"] = first[o["who"]]
    return {"ver": ver, "bpcount": 3, "start": 1, "accounts": accounts, "ops": ops}


def gen_param_inblock_scenario(rng, lower=None):
    """directed: a STAKINGMIN vote that reaches the 2/3 threshold, followed IN THE SAME BLOCK by
    stakes and partial unstakes of unlocked accounts whose resulting amounts lie between the old
    and the new minimum (and just outside): every accept / refuse decision must use the value in
    force for the CURRENT block, not the one staged for the next; then the same probes again
    after the boundary (now the new value is in force) and after a restart."""
    lower = (rng.random() < 0.5) if lower is None else lower
    new = rng.choice([S // 2, S // 4, 10 ** 18]) if lower else rng.choice([3 * S, 2 * S, 5 * S])
    lo, hi = min(S, new), max(S, new)
    mid = (lo + hi) // 2
    accounts = [{"addr": addr(i).hex(), "bal": str(80 * S)} for i in range(5)]
    ops = [{"op": "stake", "who": 0, "amt": str(30 * S)}, {"op": "stake", "who": 1, "amt": str(6 * S)},
           {"op": "stake", "who": 2, "amt": str(6 * S)}, {"op": "block", "no": 2}]
    no = 2 + DELAY
    ops.append({"op": "block", "no": no})

    def probes():
        out = []
        for who, rest in ((1, mid), (2, rng.choice([lo, lo - 1, hi, hi - 1, hi + 1]))):
            out.append({"op": "unstake", "who": who, "amt": "REST%d" % rest})
        out.append({"op": "stake", "who": 3, "amt": str(rng.choice([mid, lo, hi - 1]))})
        out.append({"op": "stake", "who": 4, "amt": str(hi)})
        rng.shuffle(out)
        return out
    ops.append({"op": "votedao", "who": 0, "id": "STAKINGMIN", "val": [str(new)]})
    ops += probes()
    no += 1
    ops.append({"op": "block", "no": no})
    if rng.random() < 0.5:
        ops.append({"op": "reload"})
    no += DELAY
    ops.append({"op": "block", "no": no})
    ops += probes()
    ops.append({"op": "block", "no": no + 1})
    # resolve "REST<n>": unstake so that <n> remains, from the amounts a literal reading predicts
    stake = {1: 6 * S, 2: 6 * S}
    cur_min = [S]
    # the amounts are only targets: an op that gets refused simply leaves the stake as it was
    for o in ops:
        if o["op"] == "unstake" and str(o["amt"]).startswith("REST"):
            rest = int(o["amt"][4:])
            w = o["who"]
            o["amt"] = str(max(stake[w] - rest, 1))
            o["_rest"] = rest
    for o in ops:
        o.pop("_rest", None)
    return {"ver": rng.choice([2, 3, 4]), "bpcount": 3, "start": 1, "accounts": accounts, "ops": ops}


def exhaustive_family(length=3):
    """thorough tier: after a fixed prefix (two stakers who voted, lock periods over) every
    sequence of `length` operations over a 9-letter alphabet (partial/full unstakes that shrink
    votes, re-votes with overlapping candidate sets, re-stake, parameter vote, short and long
    block steps)"""
    import itertools
    c = lambda i: cand(i).hex()
    prefix = [{"op": "stake", "who": 0, "amt": str(2 * S)}, {"op": "stake", "who": 1, "amt": str(S)}, {"op": "block", "no": 2},
              {"op": "votebp", "who": 0, "cands": [c(1), c(2)]}, {"op": "votebp", "who": 1, "cands": [c(2)]},
              {"op": "block", "no": 2 + DELAY}]
    alphabet = [{"op": "unstake", "who": 0, "amt": str(S)}, {"op": "unstake", "who": 0, "amt": str(2 * S)},
                {"op": "unstake", "who": 1, "amt": str(S)}, {"op": "votebp", "who": 0, "cands": [c(3)]},
                {"op": "votebp", "who": 1, "cands": [c(1), c(2)]}, {"op": "stake", "who": 0, "amt": str(S)},
                {"op": "votedao", "who": 0, "id": "BPCOUNT", "val": ["13"]}, {"op": "block", "step": 1}, {"op": "block", "step": DELAY}]
    out = []
    for seq in itertools.product(alphabet, repeat=length):
        no = 2 + DELAY
        ops = [dict(o) for o in prefix]
        for o in seq:
            o = dict(o)
            if o["op"] == "block":
                no += o.pop("step")
                o["no"] = no
            ops.append(o)
        ops.append({"op": "block", "no": no + 1})
        out.append({"ver": 2, "bpcount": 3, "start": 1, "accounts": [{"addr": addr(i).hex(), "bal": str(5 * S)} for i in range(2)], "ops": ops})
    return out


# ----------------------------------------------------------------------------- Coq emitter
def cz(n):
    """Z literal; large values in hexadecimal (decimal number notations are quadratic)"""
    n = int(n)
    if abs(n) >= 1 << 31:
        return "(-0x%x)" % -n if n < 0 else "0x%x" % n
    return "(%d)" % n if n < 0 else "%d" % n


class Names:
    """byte strings and 256-bit ids are emitted once as named constants (keeps the generated
    file small: type-checking the literals dominates the evaluation time otherwise)"""

    def __init__(self):
        self.cands, self.ids = {}, {}
        self.shared, self.shared_defs = {}, []

    def share(self, typ, text):
        """identical observation components (most of a dump does not change in a step) are
        emitted once"""
        k = (typ, text)
        if k not in self.shared:
            n = "s%d" % len(self.shared)
            self.shared[k] = n
            self.shared_defs.append("Definition %s : %s := %s." % (n, typ, text))
        return self.shared[k]

    def cand(self, b):
        b = bytes(b)
        if b not in self.cands:
            self.cands[b] = "k%d" % len(self.cands)
        return self.cands[b]

    def idn(self, n):
        if n not in self.ids:
            self.ids[n] = "i%d" % len(self.ids)
        return self.ids[n]

    def defs(self):
        out = []
        for b, n in self.cands.items():
            out.append("Definition %s : cand := [%s]%%N." % (n, ";".join(str(x) for x in b)))
        for v, n in self.ids.items():
            out.append("Definition %s : N := 0x%x%%N." % (n, v))
        return out + self.shared_defs


NAMES = Names()


def cbytes(b):
    return NAMES.cand(b)


def cid(hexid):
    return NAMES.idn(int(hexid, 16))


def clist(items):
    return "[" + "; ".join(items) + "]"


def copt(x, f):
    return "None" if x is None or x == "" else "(Some %s)" % f(x)


def op_to_coq(o):
    k = o["op"]
    if k == "block":
        return "(OBlock %s)" % cz(o["no"])
    if k == "reload":
        return "OReload"
    w = "%d%%N" % o["who"]
    if k == "stake":
        t = "(TStake %s %s)" % (w, cz(o.get("amt") or 0))
    elif k == "unstake":
        t = "(TUnstake %s %s)" % (w, cz(o.get("amt") or 0))
    elif k == "votebp":
        t = "(TVoteBP %s %s)" % (w, clist(cbytes(bytes.fromhex(c)) for c in o["cands"]))
    elif k == "votedao":
        up = o["id"].upper()
        issue = "(Some %d%%N)" % ISSUES.index(up) if up in ISSUES[1:] else "None"
        t = "(TVoteDAO %s %s %s)" % (w, issue, clist(cbytes(v.encode()) for v in o["val"]))
    else:
        raise ValueError(k)
    return "(%s %s)" % ("OGhost" if o.get("ghost") else "OTx", t)


def vp_to_coq(x, addr_index):
    return "(%s,(%d%%N,%s))" % (cid(x["id"]), addr_index.get(x["addr"], 999), cz(x["pw"]))


def buckets_to_coq(bs, addr_index):
    return clist("(%d%%N,%s)" % (b["i"], clist(vp_to_coq(x, addr_index) for x in b["l"])) for b in (bs or []))


def dump_to_coq(d, addr_index):
    err = d["err"]
    e = ERRS.get(err)
    if e is None:
        e = "EPayload"  # unknown class: reported by the caller as a machinery problem
    accs = []
    for a in d["accs"]:
        votes = clist(("(Some (%s,%s))" % (clist(cbytes(bytes.fromhex(c)) for c in (v["c"] or [])), cz(v["a"]))) if v["p"] else "None"
                      for v in a["v"])
        accs.append(NAMES.share("acc_obs", "((%s,%s),(%s,%s),%s)" % (cz(a["bal"]), "true" if a["sp"] else "false", cz(a["sa"]), cz(a["sw"]), votes)))
    res = NAMES.share("list (list (cand * Z) * Z)", clist("(%s,%s)" % (clist("(%s,%s)" % (cbytes(bytes.fromhex(c)), cz(a)) for c, a in (r["l"] or [])), cz(r["t"]))
                for r in d["res"]))
    par = NAMES.share("(list Z * list (option Z) * list (option Z))%type", "(%s,%s,%s)" % (clist(cz(x) for x in d["pcur"]), clist(copt(x, cz) for x in d["pnext"]), clist(copt(x, cz) for x in d["pdb"])))
    m, rl = d["mem"], d["reload"]
    nz = lambda l: clist("(%s,%s)" % (cid(x["id"]), cz(x["pw"])) for x in (l or []))
    mem = NAMES.share("vpr_obs", "(%s,%s,%s,%s)" % (cz(m["total"]), buckets_to_coq(m["b"], addr_index), nz(m["p"]), nz(m["ch"])))
    rel = NAMES.share("(Z * list (N * list vp))%type", "(%s,%s)" % (cz(rl["total"]), buckets_to_coq(rl["b"], addr_index)))
    picks = clist("(%s,%s)" % (cz(p["r"] or 0), "None" if not p["w"] else "(Some %d%%N)" % addr_index.get(p["w"], 999))
                  for p in (d.get("picks") or []) if p["r"] != "" or p["err"])
    sel = NAMES.share("sel_obs", "(%s,%s)" % (clist(cbytes(bytes.fromhex(c)) for c in (d.get("rankers") or [])), picks))
    return "(%s,%s,(%s,%s),%s,%s,%s,%s,%s)" % (e, clist(accs), cz(d["sysbal"]), cz(d["total"]), res, par, mem, rel, sel)


def scenario_to_coq(sc, dumps, fixed):
    """(cfg, initial gstate, [(op, obs)]) — the initial state is the implementation's own
    first dump (balances after genesis), everything else empty."""
    addr_index = {a["addr"]: i for i, a in enumerate(sc["accounts"])}
    ids = clist(cid(aid(bytes.fromhex(a["addr"])).hex()) for a in sc["accounts"])
    d0 = dumps[0]
    defaults = clist("(%d%%N,%s)" % (i, cz(v)) for i, v in enumerate(d0["pcur"]))
    cfg = "{| c_ver := %d; c_fixed := %s; c_ids := %s; c_defaults := %s |}" % (sc["ver"], "true" if fixed else "false", ids, defaults)
    bal = clist("(%d%%N,%s)" % (i, cz(a["bal"])) for i, a in enumerate(d0["accs"]))
    dur = ("{| d_bal := %s; d_sysbal := %s; d_stakes := []; d_total := 0; d_votes := []; d_results := []; "
           "d_vtotals := []; d_params := []; d_vpr := [] |}") % (bal, cz(d0["sysbal"]))
    mem = "{| m_pcur := []; m_pnext := []; m_vpr := vpr_empty |}"
    g = "{| g_no := %d; g_d := %s; g_m := %s |}" % (sc["start"], dur, mem)
    vers, v = [], sc["ver"]
    for o in sc["ops"]:
        if o["op"] == "block" and o.get("ver"):
            vers.append(v)          # the boundary itself is executed under the old version (no effect on a block op)
            v = o["ver"]
        else:
            vers.append(v)
    ops = clist("(%d,(%s,\n   %s))" % (vv, op_to_coq(o), dump_to_coq(d, addr_index)) for vv, o, d in zip(vers, sc["ops"], dumps[1:]))
    return "(%s,\n %s,\n %s)" % (cfg, g, ops)


def reset_names():
    global NAMES
    NAMES = Names()


COQ_HEAD = """From Coq Require Import ZArith NArith List Bool.
From Verif Require Import Gov.Model Gov.Check.
Import ListNotations.
Open Scope Z_scope.
"""


def cases_file(items):
    """items: list of Coq scenario terms (built since the last call of reset_names)"""
    out = [COQ_HEAD] + NAMES.defs()
    for i, t in enumerate(items):
        out.append("Definition sc%d : scenario := %s." % (i, t))
    out.append("Definition M := Eval vm_compute in scenarios_bad %s 0." % clist("sc%d" % i for i in range(len(items))))
    out.append("Print M.")
    return "\n".join(out)


# ----------------------------------------------------------------------------- direct predicates
def gov_inv(d, donated):
    """The clauses of C15 evaluated on one dump of the implementation.  Returns a list of
    (clause, detail) that fail."""
    bad = []
    I = int
    total = I(d["total"])
    s = sum(I(a["sa"]) for a in d["accs"])
    if total != s:
        bad.append(("total-eq-sum-stakes", {"total": total, "sum": s}))
    if I(d["sysbal"]) != total + donated:
        bad.append(("system-balance-eq-total-plus-donated", {"sysbal": I(d["sysbal"]), "total": total, "donated": donated}))
    for k in range(len(ISSUES)):
        tally = {}
        for a in d["accs"]:
            v = a["v"][k]
            if not v["p"]:
                continue
            if I(v["a"]) > I(a["sa"]):
                bad.append(("vote-amount-le-stake", {"issue": ISSUES[k], "vote": v["a"], "stake": a["sa"]}))
            for c in (v["c"] or []):
                tally[c] = tally.get(c, 0) + I(v["a"])
        lst = d["res"][k]["l"] or []
        got = {}
        for c, a in lst:
            if c in got:
                bad.append(("ranking-duplicate-candidate", {"issue": ISSUES[k], "cand": c}))
            got[c] = I(a)
        for c in set(tally) | set(got):
            if tally.get(c, 0) != got.get(c, 0):
                bad.append(("tally-eq-sum-of-votes", {"issue": ISSUES[k], "cand": c, "tally": got.get(c, 0), "sum": tally.get(c, 0)}))
        for (c1, a1), (c2, a2) in zip(lst, lst[1:]):
            if I(a1) < I(a2):
                bad.append(("ranking-sorted-by-tally", {"issue": ISSUES[k], "pair": [c1, c2]}))
        if k > 0:
            t = sum(I(a["v"][k]["a"]) for a in d["accs"] if a["v"][k]["p"])
            if I(d["res"][k]["t"]) != t:
                bad.append(("proposal-vote-total", {"issue": ISSUES[k], "stored": d["res"][k]["t"], "sum": t}))
    return bad


def vpr_view(v):
    return (v["total"], json.dumps(v["b"], sort_keys=True))


def vpr_mem_equals_reload(d):
    """consensus-relevant part of votingPowerRank (total power + buckets, what
    pickVotingRewardWinner reads) against loadVpr of the current state"""
    return vpr_view(d["mem"]) == vpr_view(d["reload"])


# ============================================================================= names
NAME_ERRS = {"ok": "NOk", "init": "NOk", "insufficient": "NInsufficient", "toosmall": "NTooSmall",
             "occupied": "NOccupied", "notowner": "NNotOwner", "notcreated": "NNotCreated"}
NAME_PRICE = 10 ** 18


def gen_name_scenario(rng):
    nacc = rng.randrange(2, 5)
    pool = ["abcdefghijkl", "verifname001", "zzzzzzzzzzzz", "n0n0n0n0n0n0"]
    names = pool[:rng.randrange(1, 4)]
    ops = []
    for _ in range(rng.randrange(5, 18)):
        r = rng.random()
        s = rng.randrange(nacc)
        nm = rng.choice(names)
        spell = nm.upper() if rng.random() < 0.1 else nm     # dbkey.Name lower-cases
        amt = rng.choice([NAME_PRICE, NAME_PRICE, NAME_PRICE + 5, NAME_PRICE - 1, 0, 2 * NAME_PRICE, 10 ** 30])
        if r < 0.35:
            ops.append({"op": "create", "sender": s, "name": spell, "amt": str(amt)})
        elif r < 0.75:
            acc = ""
            if rng.random() < 0.25:
                acc = spell if rng.random() < 0.6 else rng.choice(names)   # tx.Account = a name
            ops.append({"op": "update", "sender": s, "account": acc, "name": spell, "dest": rng.randrange(nacc), "amt": str(amt)})
        else:
            ops.append({"op": "block"})
    ops.append({"op": "block"})
    return {"ver": rng.choice([1, 2, 3]), "accounts": [addr(100 + i).hex() for i in range(nacc)], "bal": str(20 * NAME_PRICE + 7),
            "names": names, "ops": ops}


def name_scenario_to_coq(sc, dumps):
    aidx = {a: i for i, a in enumerate(sc["accounts"])}
    nidx = {n: i for i, n in enumerate(sc["names"])}

    def obs(d):
        e = NAME_ERRS.get(d["err"], "NOk")
        names = clist("None" if n is None else "(Some (%d%%N,%d%%N))" % (aidx.get(n["o"], 999), aidx.get(n["d"], 999)) for n in d["names"])
        return "(%s,%s,%s,%s)" % (e, clist(cz(b) for b in d["bals"]), cz(d["namebal"]), names)

    def op(o):
        if o["op"] == "block":
            return "NBlock"
        k = nidx[o["name"].lower()]
        if o["op"] == "create":
            return "(NCreate %d%%N %d%%N %s)" % (o["sender"], k, cz(o["amt"]))
        if o.get("account"):
            # the account field is a name: equal to the name argument byte for byte, or another name
            a = "(AName %d%%N)" % (k if o["account"] == o["name"] else 900 + nidx.get(o["account"].lower(), 99))
        else:
            a = "(AAddr %d%%N)" % o["sender"]
        return "(NUpdate %d%%N %s %d%%N %d%%N %s)" % (o["sender"], a, k, o["dest"], cz(o["amt"]))

    d0 = dumps[0]
    st = "{| n_bal := %s; n_namebal := %s; n_cur := []; n_init := [] |}" % (
        clist("(%d%%N,%s)" % (i, cz(b)) for i, b in enumerate(d0["bals"])), cz(d0["namebal"]))
    ops = clist("(%s,%s)" % (op(o), obs(d)) for o, d in zip(sc["ops"], dumps[1:]))
    return "(%s,(%d%%nat,%d%%nat),%s,\n %s)" % (cz(d0["price"]), len(sc["accounts"]), len(sc["names"]), st, ops)


NAME_HEAD = """From Coq Require Import ZArith NArith List Bool.
From Verif Require Import Gov.Model Gov.Names.
Import ListNotations.
Open Scope Z_scope.
"""


def name_cases_file(items):
    out = [NAME_HEAD]
    for i, t in enumerate(items):
        out.append("Definition ns%d : nscenario := %s." % (i, t))
    out.append("Definition MN := Eval vm_compute in nscenarios_bad %s 0." % clist("ns%d" % i for i in range(len(items))))
    out.append("Print MN.")
    return "\n".join(out)


def name_predicates(sc, dumps, fails):
    """one owner per name; created only when free and for >= price; changed only by the
    owner (or by a tx whose account field is the name); money conserved"""
    I = int
    total0 = sum(I(b) for b in dumps[0]["bals"]) + I(dumps[0]["namebal"])
    for k, o in enumerate(sc["ops"]):
        pre, post = dumps[k], dumps[k + 1]
        if sum(I(b) for b in post["bals"]) + I(post["namebal"]) != total0:
            fails.append(("name tx does not conserve balances", {"scenario": sc, "step": k}))
        if o["op"] == "block":
            if pre["names"] != post["names"]:
                fails.append(("name registry changed at a block boundary", {"scenario": sc, "step": k}))
            continue
        ni = sc["names"].index(o["name"].lower())
        price = I(pre["price"])
        sender_hex = sc["accounts"][o["sender"]]
        for j, (a, b) in enumerate(zip(pre["names"], post["names"])):
            if j != ni and a != b:
                fails.append(("name tx changed another name", {"scenario": sc, "step": k}))
        if post["err"] != "ok":
            if pre["names"] != post["names"] or pre["bals"] != post["bals"]:
                fails.append(("rejected name tx changed the state", {"scenario": sc, "step": k}))
            continue
        if I(o["amt"]) < price:
            fails.append(("name tx accepted below the name price", {"scenario": sc, "step": k}))
        if I(post["namebal"]) != I(pre["namebal"]) + I(o["amt"]):
            fails.append(("name tx did not pay exactly the amount to aergo.name", {"scenario": sc, "step": k}))
        if o["op"] == "create":
            if pre["names"][ni] is not None:
                fails.append(("occupied name created again", {"scenario": sc, "step": k}))
            if post["names"][ni] != {"o": sender_hex, "d": sender_hex}:
                fails.append(("created name not bound to its creator", {"scenario": sc, "step": k}))
        if o["op"] == "update":
            owner = pre["names"][ni]["o"] if pre["names"][ni] else None
            by_name = o.get("account") and o["account"] == o["name"]
            acct_hex = None if o.get("account") else sender_hex
            if not by_name and (owner is None or acct_hex != owner):
                fails.append(("name updated by someone who is not the owner", {"scenario": sc, "step": k}))


def vpr_buckets_sorted(d):
    """(C02 d) every voting-power bucket, in memory and as stored, is strictly ordered by
    account id (descending: orderedListAdd inserts before the first element whose id is <=)
    and sits at index id[0] % 71"""
    bad = []
    for which in ("mem", "reload"):
        for b in (d[which]["b"] or []):
            ids = [x["id"] for x in b["l"]]
            if any(a <= c for a, c in zip(ids, ids[1:])):
                bad.append((which, b["i"], ids))
            if any(int(x[:2], 16) % 71 != b["i"] for x in ids):
                bad.append((which, b["i"], "wrong bucket index"))
    return bad


def parse_bad_list(out, name, item_re):
    """Parse `<name> = [ ... ] : list ...` printed by coqc.  Returns the list of regex matches of the
    items.  Raises RuntimeError when the output cannot be parsed, or when the list text is not empty
    but no item could be parsed (a regex that silently matches nothing would make the
    correspondence pass vacuously)."""
    import re
    flat = " ".join(out.split())
    m = re.search(name + r" = (.*?) : list", flat)
    if not m:
        raise RuntimeError("cannot parse model evaluation output (no `%s = ... : list`):\n%s" % (name, out[-1500:]))
    body = m.group(1).strip()
    if body in ("[]", "nil"):
        return []
    items = re.findall(item_re, body)
    if not items:
        raise RuntimeError("model evaluation printed a non-empty list that could not be parsed: %s" % body[:500])
    return items


def perturb(kind):
    """VERIF_PERTURB=<kind> makes the check falsify one observation on purpose (self-test of
    the correspondence: the run must then end with a correspondence VIOLATION)"""
    import os
    return os.environ.get("VERIF_PERTURB") == kind


def selection_predicates(d):
    """on one dump of the implementation: GetRankers is the top GetBpCount() of the stored BP
    ranking; the voting reward winner for the draw r is the voter whose cumulative voting power
    interval (buckets 0..70 in order, entries in bucket order) contains r"""
    bad = []
    n = int(d["pcur"][0])
    want = [c for c, _ in (d["res"][0]["l"] or [])][:max(n, 0)]
    if (d.get("rankers") or []) != want:
        bad.append(("GetRankers is not the top BPCOUNT of the stored ranking", {"rankers": d.get("rankers"), "expected": want}))
    total = int(d["mem"]["total"])
    for p in d.get("picks") or []:
        if p["r"] == "":
            continue
        r, acc, win = int(p["r"]), 0, None
        for b in sorted(d["mem"]["b"] or [], key=lambda b: b["i"]):
            for e in b["l"]:
                acc += int(e["pw"])
                if win is None and r < acc:
                    win = e["addr"]
        if total > 0 and 0 <= r < total and win is not None and p["w"] != win:
            bad.append(("voting reward winner is not the voter whose power interval contains the draw", {"seed": p["seed"], "r": p["r"], "winner": p["w"], "expected": win}))
    return bad


# ============================================================================= BP election snapshots
def gen_bp_scenario(rng, directed=False):
    """a scripted chain for the real bp.Snapshots: blocks every 50 heights (election reference blocks
    are the multiples of 100) whose state carries a vote result that changes from block to block;
    reorganisations to a branch root BELOW an election block that was already connected, with a
    different tally order on the new branch; restarts.  The chain runs past the height at which the
    re-elected list takes office (~100 blocks after the election block)."""
    names = ["a", "b", "c", "d", "e"]
    tally = lambda: {n: rng.randrange(1, 50) for n in rng.sample(names, rng.randrange(3, 6))}
    ops, h = [], 0
    top = rng.choice([500, 600, 700])
    reorgs = 1 if directed else rng.choice([0, 1, 1, 2])
    while h < top:
        h += 50
        ops.append({"op": "connect", "no": h, "tally": tally()})
        if rng.random() < 0.1:
            ops.append({"op": "restart"})
        if reorgs and h >= 300 and (directed and h in (300, 400) and rng.random() < 0.7 or not directed and rng.random() < 0.25):
            reorgs -= 1
            # branch root below the last connected election block
            last_el = (h // 100) * 100
            root = rng.choice([x for x in range(50, last_el, 50)][-3:])
            ops.append({"op": "reorg", "no": root})
            h = root
    ops.append({"op": "restart"})
    return {"bpcount": 3, "ops": ops}


def bp_predicates(sc, dumps, fails):
    """the list in office on the running node is the one a restarted node installs, and — from the
    bootstrap height on — the top-BPCOUNT ranking of the state of the election reference block
    (best/100 - 1) * 100 of the CURRENT branch"""
    gen = dumps[0]["live"]
    for k, d in enumerate(dumps):
        op = sc["ops"][k - 1] if k > 0 else {"op": "init"}
        if d.get("err"):
            fails.append(("bp engine: " + d["err"], {"scenario": sc, "step": k - 1}))
        if d["live"] != d["restarted"]:
            fails.append(("producer list in office on the running node differs from the one a restarted node installs",
                          {"scenario": sc, "step": k - 1, "op": op, "best": d["best"], "live": d["live"], "restarted": d["restarted"]}))
        best = d["best"]
        if best >= 300:
            ref = (best // 100 - 1) * 100
            want = d["rankers"].get(str(ref))
        else:
            want = gen
        if want is not None and d["live"] != want:
            fails.append(("producer list in office is not the ranking of the election reference block on the current branch",
                          {"scenario": sc, "step": k - 1, "op": op, "best": best, "live": d["live"], "expected": want}))

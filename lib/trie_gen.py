"""Case generators and helpers shared by checks/C10.py and checks/C11.py (group g1-trie).

Keys are 32-byte strings built to collide on long prefixes: a universe is a random base key
plus variants that differ from it at chosen bit positions (bit 0 = most significant bit of
byte 0, the order of trie.bitIsSet).  Two keys whose first difference is bit d are separated
by the interior node at height 256-d, so d in {252..255} puts shortcuts at heights 1..4,
d = 251/252/248 crosses the 4-level batch boundaries (heights that are multiples of 4).
"""
import json
import os

DEFAULT = "00"   # DefaultLeaf


def flip(key, bits):
    b = bytearray(key)
    for d in bits:
        b[d // 8] ^= 1 << (7 - d % 8)
    return bytes(b)


DEEP = [255, 254, 253, 252, 251, 250, 249, 248, 247, 244, 243, 240]
TOP = [0, 1, 3, 4, 7, 8, 127, 128]


def universe(rng, n, shape=None):
    """n distinct keys around a random base."""
    base = bytes(rng.randrange(256) for _ in range(32))
    shape = shape or rng.choice(["deep", "deep", "mixed", "top", "boundary", "rand"])
    keys = {base}
    tries = 0
    while len(keys) < n and tries < 200:
        tries += 1
        if shape == "deep":
            ds = rng.sample(DEEP[:6], rng.choice([1, 1, 2, 3]))
        elif shape == "boundary":
            ds = rng.sample([255, 252, 251, 248, 247, 244], rng.choice([1, 2]))
        elif shape == "top":
            ds = rng.sample(TOP, rng.choice([1, 2]))
        elif shape == "mixed":
            ds = rng.sample(DEEP + TOP, rng.choice([1, 2, 3]))
        else:
            keys.add(bytes(rng.randrange(256) for _ in range(32)))
            continue
        src = rng.choice(sorted(keys))
        keys.add(flip(src, ds))
    return sorted(keys), shape


def rand_val(rng):
    return bytes(rng.randrange(256) for _ in range(32)).hex()


def rand_case(rng, hashname, nkeys=None, nbatches=None, proofs=0, atomic=None):
    nkeys = nkeys or rng.choice([2, 3, 4, 4, 5, 6, 8, 12])
    keys, shape = universe(rng, nkeys)
    nb = nbatches or rng.choice([1, 2, 3, 4, 5, 6])
    pdel = rng.choice([0.2, 0.4, 0.6])
    batches = []
    for _ in range(nb):
        m = rng.randrange(1, len(keys) + 1)
        sub = sorted(rng.sample(keys, m))
        ks, vs = [], []
        for k in sub:
            ks.append(k.hex())
            vs.append(DEFAULT if rng.random() < pdel else rand_val(rng))
        batches.append({"k": ks, "v": vs, "commit": rng.random() < 0.9})
    # probe keys never written: share prefixes with written keys (absent / foreign-leaf classes)
    extra = set()
    for _ in range(rng.choice([1, 2, 3])):
        src = rng.choice(keys)
        extra.add(flip(src, [rng.choice(DEEP + TOP)]))
    extra.add(bytes(rng.randrange(256) for _ in range(32)))
    q = sorted(set(keys) | extra)
    return {"hash": hashname, "atomic": (rng.random() < 0.25) if atomic is None else atomic,
            "batches": batches, "q": [k.hex() for k in q], "proofs": proofs, "shape": shape}


def exhaustive_cases(hashname, keys, nb, proofs=0):
    """All sequences of nb batches over the universe `keys` where every key is, per batch,
    untouched / set / deleted (non-empty batches).  Values are deterministic."""
    import itertools
    per_batch = []
    for choice in itertools.product((0, 1, 2), repeat=len(keys)):
        if not any(choice):
            continue
        per_batch.append(choice)
    cases = []
    for seq in itertools.product(per_batch, repeat=nb):
        batches = []
        for bi, choice in enumerate(seq):
            ks, vs = [], []
            for ki, (k, c) in enumerate(zip(keys, choice)):
                if c == 0:
                    continue
                ks.append(k.hex())
                vs.append(DEFAULT if c == 2 else bytes([bi + 1, ki + 1] * 16).hex())
            batches.append({"k": ks, "v": vs, "commit": True})
        cases.append({"hash": hashname, "atomic": False, "batches": batches,
                      "q": [k.hex() for k in keys], "proofs": proofs, "shape": "exh"})
    return cases


def map_after(case):
    """Plain map semantics: list of dicts (state after each batch)."""
    cur, res = {}, []
    for b in case["batches"]:
        if b.get("setroot") is not None:        # the instance is pointed back at an earlier root
            cur = dict(res[b["setroot"]])
            res.append(dict(cur))
            continue
        for k, v in zip(b["k"], b["v"]):
            if v == DEFAULT:
                cur.pop(k, None)
            else:
                cur[k] = v
        res.append(dict(cur))
    return res


def load_corpus(d):
    cases = []
    if os.path.isdir(d):
        for f in sorted(os.listdir(d)):
            if f.endswith(".json"):
                obj = json.load(open(os.path.join(d, f)))
                for c in (obj if isinstance(obj, list) else [obj]):
                    c.setdefault("name", f)
                    cases.append(c)
    return cases


# ---- Coq literals
def cq_bytes(hx):
    b = bytes.fromhex(hx)
    return "[" + ";".join(str(x) for x in b) + "]"


def cq_obytes(hx):
    return "None" if hx == "" else "(Some %s)" % cq_bytes(hx)


def cq_val(hx):
    return "None" if hx == DEFAULT else "(Some %s)" % cq_bytes(hx)


def cq_list(items):
    return "[" + ";".join(items) + "]"


def cq_batches(case):
    return cq_list([cq_list(["(%s,%s)" % (cq_bytes(k), cq_val(v)) for k, v in zip(b["k"], b["v"])])
                    for b in case["batches"]])


def run_engine(ctx, binpath, test, cases, tag):
    fin = os.path.join(ctx.workdir, tag + ".in")
    fout = os.path.join(ctx.workdir, tag + ".out")
    with open(fin, "w") as f:
        for c in cases:
            f.write(json.dumps(c) + "\n")
    if os.path.exists(fout):
        os.remove(fout)
    rc, log = ctx.run_bin(binpath, ["-test.run", "^" + test + "$"], env={"VERIF_IN": fin, "VERIF_OUT": fout}, timeout=1700)
    if rc != 0:
        raise RuntimeError("%s failed:\n%s" % (test, log[-3000:]))
    return [l.rstrip("\n") for l in open(fout)]


EXTRACT_V = """From Coq Require Import Extraction ExtrOcamlBasic List NArith.
From Verif Require Import Trie.Model Trie.Proof Trie.BatchModel Trie.RevertModel%s.
Extraction Language OCaml.
Extraction "trie_model.ml" trie_update get root bytes_to_bits mproof compress
  verify_inclusion verify_non_inclusion verify_inclusion_c verify_non_inclusion_c
  trie_update_b commit_store serialize_batch parse_batch abs_batch_store revert_dels%s.
"""


def ensure_vo(ctx, names):
    """make the given coq/<name>.vo only when missing or older than the source (a make run
    re-scans the whole shared tree and waits for the global lock)."""
    import vf
    stale = False
    for n in names:
        v, vo = os.path.join(vf.COQ, n + ".v"), os.path.join(vf.COQ, n + ".vo")
        if not os.path.exists(vo) or os.path.getmtime(vo) < os.path.getmtime(v):
            stale = True
    if stale:
        return ctx.coq_make([n + ".vo" for n in names])
    return 0, ""


def build_driver(ctx, extra_import="", extra_syms=""):
    """Extract the model (ExtrOcamlBasic only) and build the OCaml driver in build/<id>/coq.
    The .vo files are rebuilt only when stale; the binary only when the extracted code or the
    driver sources changed."""
    import hashlib
    import shutil
    import vf
    need = ["Trie/Model", "Trie/Proof", "Trie/BatchModel", "Trie/RevertModel"]
    stale = False
    for n in need:
        v, vo = os.path.join(vf.COQ, n + ".v"), os.path.join(vf.COQ, n + ".vo")
        if not os.path.exists(vo) or os.path.getmtime(vo) < os.path.getmtime(v):
            stale = True
    if stale:
        rc, out = ctx.coq_make([n + ".vo" for n in need])
        if rc != 0:
            return None, "coq/Trie model files do not build: " + out[-1500:]
    d = os.path.join(ctx.workdir, "coq")
    os.makedirs(d, exist_ok=True)
    ml = os.path.join(d, "trie_model.ml")
    if os.path.exists(ml):
        os.remove(ml)
    rc, out = ctx.coq_eval("extract_trie", EXTRACT_V % (extra_import, extra_syms), timeout=600)
    if rc != 0 or not os.path.exists(ml):
        return None, "extraction failed: " + out[-1500:]
    src = os.path.join(vf.HARNESS, "engines", "trie")
    hh = hashlib.sha256()
    for f in (ml, os.path.join(src, "driver.ml"), os.path.join(src, "driver_c11.ml")):
        hh.update(open(f, "rb").read())
    stamp = os.path.join(d, "trie_driver.stamp")
    exe = os.path.join(d, "trie_driver")
    if os.path.exists(exe) and os.path.exists(stamp) and open(stamp).read() == hh.hexdigest():
        return exe, None
    for f in ("driver.ml", "driver_c11.ml"):
        shutil.copy(os.path.join(src, f), os.path.join(d, f))
    rc, out = vf.sh(["ocamlfind", "ocamlopt", "-w", "-a", "trie_model.mli", "trie_model.ml",
                     "driver_c11.ml", "driver.ml", "-o", exe], cwd=d, timeout=600)
    if rc != 0:
        return None, "driver build failed: " + out[-1500:]
    open(stamp, "w").write(hh.hexdigest())
    return exe, None


def run_driver(ctx, exe, text, timeout=1700):
    import vf
    rc, out = vf.sh([exe], cwd=ctx.workdir, input=text, timeout=timeout)
    if rc != 0:
        raise RuntimeError("model driver failed: " + out[-2000:])
    return out.split("\n")


def hx_or_dash(s):
    return s if s else "-"


def driver_case_text(c, o):
    """C10 records of one case (see harness/engines/trie/driver.ml)."""
    lines = ["Q " + " ".join(c["q"])]
    blevel = bool(c.get("dump")) and o.get("upd") and all(b["commit"] or b.get("setroot") is not None for b in c["batches"])
    if blevel:
        cl = c.get("cache_limit")
        lines.append("L %d %d" % (1 if c.get("atomic") else 0, 257 if cl is None else cl))
    for bi, (b, r, g) in enumerate(zip(c["batches"], o["roots"], o["gets"])):
        if b.get("setroot") is not None:
            lines.append("SR %d" % b["setroot"])
        else:
            lines.append("B " + " ".join("%s %s" % (k, "-" if v == DEFAULT else v) for k, v in zip(b["k"], b["v"])))
        lines.append("O " + hx_or_dash(r) + " " + " ".join(hx_or_dash(x) for x in g))
        if blevel:
            lines.append("U " + " ".join("%s:%s" % (k, v) for k, v in o["upd"][bi]))
            lines.append("K " + " ".join("%s:%s" % (k, v) for k, v in (o.get("cache") or [[]] * (bi + 1))[bi]))
            if b.get("setroot") is None:
                lines.append("C")
    return lines


CACHE_LIMITS = [0, 4, 244, 248, 250, 252, 253, 256, 257]


def cache_case(rng, hashname):
    """Histories under a non-default Trie.CacheHeightLimit with the same instance pointed back at
    earlier committed roots (SetRoot-style) between the updates; every update is committed."""
    shape = rng.choice(["top", "top", "mixed", "deep"])
    keys, shape = universe(rng, rng.choice([4, 6, 8, 12]), shape)
    if rng.random() < 0.5:
        # two keys under several first nibbles: interior batches at height 252
        base = bytearray(keys[0])
        more = set(keys)
        for n in rng.sample(range(16), rng.choice([2, 4, 8])):
            for low in (0x00, 0x08):
                b = bytearray(base)
                b[0] = (n << 4) | low
                more.add(bytes(b))
        keys = sorted(more)
    nb = rng.choice([3, 4, 5, 6, 7])
    batches = []
    first = sorted(rng.sample(keys, max(2, len(keys) * 3 // 4)))
    batches.append({"k": [k.hex() for k in first], "v": [rand_val(rng) for _ in first], "commit": True})
    for _ in range(nb - 1):
        if rng.random() < 0.35:
            batches.append({"k": [], "v": [], "commit": False, "setroot": rng.randrange(len(batches))})
            continue
        sub = sorted(rng.sample(keys, rng.randrange(1, min(4, len(keys)) + 1)))
        batches.append({"k": [k.hex() for k in sub],
                        "v": [DEFAULT if rng.random() < 0.25 else rand_val(rng) for _ in sub], "commit": True})
    extra = {flip(rng.choice(keys), [rng.choice(DEEP + TOP)])}
    return {"hash": hashname, "atomic": rng.random() < 0.15, "batches": batches,
            "q": [k.hex() for k in sorted(set(keys) | extra)], "proofs": 0, "shape": "cache",
            "cache_limit": rng.choice(CACHE_LIMITS)}


def run_engine_safe(ctx, binpath, test, cases, tag):
    """Like run_engine, but if the engine process dies (a panic inside one of the trie's own
    goroutines cannot be recovered by the engine) find the first case that kills it by bisection.
    Returns (lines for the cases before the crash, index of the crashing case or None)."""
    try:
        return run_engine(ctx, binpath, test, cases, tag), None
    except RuntimeError:
        pass
    lo, hi = 0, len(cases)          # invariant: cases[:lo] runs, cases[:hi] crashes
    while hi - lo > 1:
        mid = (lo + hi) // 2
        try:
            run_engine(ctx, binpath, test, cases[:mid], tag + "_bisect")
            lo = mid
        except RuntimeError:
            hi = mid
    try:
        lines = run_engine(ctx, binpath, test, cases[:lo], tag) if lo else []
    except RuntimeError as ex:
        raise EngineFlaky(str(ex))
    return lines, lo


class EngineFlaky(Exception):
    """The engine process dies on inputs it survived a moment ago: a schedule-dependent crash
    (e.g. 'concurrent map writes')."""


def build_race_engine(ctx, engine_file):
    """pkg/trie engine built with the race detector (needs cgo: CGO_ENABLED=1 and a C compiler).
    Returns (path|None, note)."""
    import vf
    ov = os.path.join(ctx.workdir, "overlay", "ov_race.json")
    os.makedirs(os.path.dirname(ov), exist_ok=True)
    base = os.path.basename(engine_file)
    vf.write_if_changed(ov, json.dumps({"Replace": {os.path.join(ctx.repo, "pkg/trie", base): engine_file}}))
    out = os.path.join(ctx.workdir, "trie_race.test")
    env = ctx.goenv()
    env["CGO_ENABLED"] = "1"
    rc, log = vf.sh(["go", "test", "-c", "-race", "-vet=off", "-tags", "verif", "-overlay", ov, "-o", out, "./pkg/trie"],
                    cwd=ctx.repo, env=env, timeout=900)
    if rc != 0:
        return None, "go test -race unavailable here: " + log[-300:]
    return out, ""


def run_race(ctx, binpath, cases, tag):
    """Run the op-sequence engine under the race detector.  Returns (races_found, log tail)."""
    import vf
    fin = os.path.join(ctx.workdir, tag + ".in")
    fout = os.path.join(ctx.workdir, tag + ".out")
    with open(fin, "w") as f:
        for c in cases:
            f.write(json.dumps(c) + "\n")
    env = ctx.goenv()
    env.update({"VERIF_IN": fin, "VERIF_OUT": fout, "GORACE": "halt_on_error=0"})
    rc, log = vf.sh([binpath, "-test.run", "^TestVerifTrieOps$"], cwd=ctx.workdir, env=env, timeout=1700)
    return ("DATA RACE" in log), (log[-1500:] if rc != 0 else "")

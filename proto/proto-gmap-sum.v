From stdpp Require Import gmap.
From Coq Require Import ZArith Lia.
Open Scope Z_scope.

Definition total (m : gmap N Z) : Z := map_fold (fun _ v acc => v + acc) 0 m.

Lemma total_empty : total ∅ = 0.
Proof. reflexivity. Qed.

Lemma total_insert_fresh m k v : m !! k = None -> total (<[k:=v]> m) = v + total m.
Proof.
  intros H. unfold total. rewrite map_fold_insert_L; [reflexivity| |exact H].
  intros. lia.
Qed.

Lemma total_delete m k v : m !! k = Some v -> total m = v + total (delete k m).
Proof.
  intros H. rewrite <- (insert_delete m k v H) at 1.
  apply total_insert_fresh. apply lookup_delete.
Qed.

Lemma total_insert m k v :
  total (<[k:=v]> m) = v + total m - default 0 (m !! k).
Proof.
  destruct (m !! k) as [w|] eqn:E; simpl.
  - rewrite (total_delete m k w E). rewrite <- insert_delete_insert.
    rewrite total_insert_fresh by apply lookup_delete. lia.
  - rewrite total_insert_fresh by exact E. lia.
Qed.

(* transfer conserves *)
Definition bal (m : gmap N Z) a := default 0 (m !! a).
Definition transfer (m : gmap N Z) (a b : N) (x : Z) : gmap N Z :=
  if decide (a = b) then m else <[b := bal (<[a := bal m a - x]> m) b + x]> (<[a := bal m a - x]> m).

Lemma transfer_conserves m a b x : total (transfer m a b x) = total m.
Proof.
  unfold transfer. destruct (decide (a = b)); [reflexivity|].
  rewrite !total_insert. unfold bal.
  rewrite lookup_insert_ne by congruence. lia.
Qed.
Print Assumptions transfer_conserves.

From Coq Require Import List Bool Arith Lia.
Import ListNotations.

Definition key := list bool.

Section T.
Variable val : Type.

Inductive tree := E | Lf (k : key) (v : val) | Nd (l r : tree).

Fixpoint key_eqb (a b : key) : bool :=
  match a, b with
  | [], [] => true
  | x :: a', y :: b' => Bool.eqb x y && key_eqb a' b'
  | _, _ => false
  end.

Lemma key_eqb_eq a b : key_eqb a b = true <-> a = b.
Proof.
  revert b; induction a as [|x a IH]; intros [|y b]; simpl; split; try congruence; try discriminate; auto.
  - rewrite andb_true_iff, eqb_true_iff, IH. intros [-> ->]; reflexivity.
  - intros H; inversion H; subst. rewrite andb_true_iff, eqb_true_iff, IH; auto.
Qed.

Lemma key_eqb_refl a : key_eqb a a = true.
Proof. apply key_eqb_eq; reflexivity. Qed.

(* lookup *)
Fixpoint get (t : tree) (k : key) : option val :=
  match t with
  | E => None
  | Lf k' v => if key_eqb k' k then Some v else None
  | Nd l r => match k with
              | [] => None
              | b :: k' => if b then get r k' else get l k'
              end
  end.

(* batch: function view: key -> option (option val); list view for the algorithm *)
Definition batch := list (key * option val).

Fixpoint blookup (b : batch) (k : key) : option (option val) :=
  match b with
  | [] => None
  | (k', ov) :: b' => if key_eqb k' k then Some ov else blookup b' k
  end.

Definition bit_is (bit : bool) (kv : key * option val) : bool :=
  match fst kv with x :: _ => Bool.eqb x bit | [] => false end.
Definition strip (kv : key * option val) : key * option val := (tl (fst kv), snd kv).
Definition part (bit : bool) (b : batch) : batch := map strip (filter (bit_is bit) b).

(* all keys have length exactly h *)
Definition keys_len (h : nat) (b : batch) := Forall (fun kv => length (fst kv) = h) b.

Lemma blookup_part_eq bit b k h :
  keys_len (S h) b ->
  blookup (part bit b) k = blookup b (bit :: k).
Proof.
  induction b as [|[k' ov] b IH]; intros Hl; simpl; [reflexivity|].
  inversion Hl as [|? ? Hk Hl']; subst. simpl in Hk.
  destruct k' as [|x k']; [discriminate|].
  unfold part in *. simpl. unfold bit_is at 1. simpl.
  destruct (Bool.eqb x bit) eqn:Hx; simpl.
  - destruct (key_eqb k' k); [reflexivity|]. apply IH; assumption.
  - apply IH; assumption.
Qed.

Lemma keys_len_part bit b h : keys_len (S h) b -> keys_len h (part bit b).
Proof.
  unfold keys_len, part. intros H. apply Forall_forall. intros kv Hin.
  apply in_map_iff in Hin. destruct Hin as [kv' [Heq Hin]]; subst kv.
  apply filter_In in Hin. destruct Hin as [Hin _].
  rewrite Forall_forall in H. specialize (H _ Hin). simpl in H. unfold strip; simpl.
  destruct kv' as [[|x k'] ov]; simpl in *; lia.
Qed.

(* join = maybeMoveUpShortcut + interiorHash *)
Definition join (l r : tree) (deleted : bool) : tree * bool :=
  if deleted then
    match l, r with
    | E, E => (E, true)
    | E, Lf k v => (Lf (true :: k) v, true)
    | Lf k v, E => (Lf (false :: k) v, true)
    | _, _ => (Nd l r, false)
    end
  else (Nd l r, false).

Definition is_none {A} (o : option A) := match o with None => true | _ => false end.

(* abstract (repaired) maybeAddShortcutToKV *)
Definition add_shortcut (k : key) (v : val) (b : batch) : batch :=
  match blookup b k with
  | None => (k, Some v) :: b
  | Some (Some _) => b
  | Some None => filter (fun kv => negb (key_eqb (fst kv) k)) b
  end.

Definition go (upd : tree -> batch -> tree * bool) (l r : tree) (b : batch) : tree * bool :=
  match l, r, b with
  | E, E, [(k, Some v)] => (Lf k v, false)
  | E, E, [(k, None)] => (E, true)
  | _, _, _ =>
    let lb := part false b in let rb := part true b in
    match lb, rb with
    | [], [] => (E, true)
    | [], _ => let '(r', d) := upd r rb in join l r' d
    | _, [] => let '(l', d) := upd l lb in join l' r d
    | _, _ => let '(l', dl) := upd l lb in
              let '(r', dr) := upd r rb in join l' r' (dl || dr)
    end
  end.

Fixpoint update (h : nat) (t : tree) (b : batch) {struct h} : tree * bool :=
  match h with
  | O => match b with
         | (k, Some v) :: _ => (Lf k v, false)
         | _ => (E, true)
         end
  | S h' =>
    match t with
    | Lf k v =>
        let b' := add_shortcut k v b in
        match b' with
        | [] => (E, true)
        | _ => go (update h') E E b'
        end
    | E => go (update h') E E b
    | Nd l r => go (update h') l r b
    end
  end.

Definition override (b : batch) (f : key -> option val) (k : key) : option val :=
  match blookup b k with Some ov => ov | None => f k end.

(* well-formed tree at height h: leaf keys have length h *)
Fixpoint wf (h : nat) (t : tree) : Prop :=
  match t with
  | E => True
  | Lf k _ => length k = h
  | Nd l r => match h with O => False | S h' => wf h' l /\ wf h' r end
  end.

Fixpoint size (t : tree) : nat :=
  match t with E => 0 | Lf _ _ => 1 | Nd l r => size l + size r end.

Fixpoint canon (t : tree) : Prop :=
  match t with
  | Nd l r => 2 <= size l + size r /\ canon l /\ canon r
  | _ => True
  end.


Lemma get_join l r d bit k :
  get (fst (join l r d)) (bit :: k) = if bit then get r k else get l k.
Proof.
  unfold join. destruct d; [|reflexivity].
  destruct l as [|lk lv|ll lr], r as [|rk rv|rl rr]; simpl; try reflexivity;
    destruct bit; simpl; reflexivity.
Qed.

Lemma override_nil f k : override [] f k = f k.
Proof. reflexivity. Qed.

Lemma part_nil_lookup bit b h k :
  keys_len (S h) b -> part bit b = [] -> blookup b (bit :: k) = None.
Proof.
  intros Hl Hp. rewrite <- (blookup_part_eq bit b k h Hl), Hp. reflexivity.
Qed.

Definition upd_ok (h : nat) (upd : tree -> batch -> tree * bool) : Prop :=
  forall t b k, wf h t -> keys_len h b -> b <> [] -> length k = h ->
    get (fst (upd t b)) k = override b (get t) k.

Lemma go_general h upd l r b bit k :
  upd_ok h upd -> wf h l -> wf h r -> keys_len (S h) b -> b <> [] -> length k = h ->
  get (fst (let lb := part false b in let rb := part true b in
    match lb, rb with
    | [], [] => (E, true)
    | [], _ => let '(r', d) := upd r rb in join l r' d
    | _, [] => let '(l', d) := upd l lb in join l' r d
    | _, _ => let '(l', dl) := upd l lb in
              let '(r', dr) := upd r rb in join l' r' (dl || dr)
    end)) (bit :: k) = override b (get (Nd l r)) (bit :: k).
Proof.
  intros Hupd Hl Hr Hb Hne Hk. cbv zeta.
  pose proof (keys_len_part false b h Hb) as Hlb.
  pose proof (keys_len_part true b h Hb) as Hrb.
  unfold override. rewrite <- (blookup_part_eq bit b k h Hb).
  destruct (part false b) as [|x lb] eqn:El; destruct (part true b) as [|y rb] eqn:Er.
  - (* both empty: impossible as b nonempty with keys of length S h *)
    exfalso. destruct b as [|[[|x kk] ov] b']; [congruence| inversion Hb; simpl in *; lia |].
    unfold part in El, Er. simpl in El, Er. unfold bit_is in El, Er. simpl in El, Er.
    destruct x; simpl in *; congruence.
  - destruct (upd r (y :: rb)) as [r' d] eqn:Eu.
    rewrite get_join. destruct bit.
    + rewrite Er. change r' with (fst (r', d)). rewrite <- Eu.
      rewrite (Hupd r (y :: rb) k Hr Hrb); [reflexivity|congruence|assumption].
    + rewrite El. reflexivity.
  - destruct (upd l (x :: lb)) as [l' d] eqn:Eu.
    rewrite get_join. destruct bit.
    + rewrite Er. reflexivity.
    + rewrite El. change l' with (fst (l', d)). rewrite <- Eu.
      rewrite (Hupd l (x :: lb) k Hl Hlb); [reflexivity|congruence|assumption].
  - destruct (upd l (x :: lb)) as [l' dl] eqn:Eul.
    destruct (upd r (y :: rb)) as [r' dr] eqn:Eur.
    rewrite get_join. destruct bit.
    + rewrite Er. change r' with (fst (r', dr)). rewrite <- Eur.
      rewrite (Hupd r (y :: rb) k Hr Hrb); [reflexivity|congruence|assumption].
    + rewrite El. change l' with (fst (l', dl)). rewrite <- Eul.
      rewrite (Hupd l (x :: lb) k Hl Hlb); [reflexivity|congruence|assumption].
Qed.


Lemma go_ok h upd l r b bit k :
  upd_ok h upd -> wf h l -> wf h r -> keys_len (S h) b -> b <> [] -> length k = h ->
  get (fst (go upd l r b)) (bit :: k) = override b (get (Nd l r)) (bit :: k).
Proof.
  intros Hupd Hl Hr Hb Hne Hk.
  unfold go.
  destruct l as [|lk lv|ll lr]; try (apply (go_general h); assumption).
  destruct r as [|rk rv|rl rr]; try (apply (go_general h); assumption).
  destruct b as [|[k1 [v1|]] [|kv2 b2]]; try (apply (go_general h); assumption).
  - unfold override. simpl. destruct (key_eqb k1 (bit :: k)); [reflexivity|]. destruct bit; reflexivity.
  - unfold override. simpl. destruct (key_eqb k1 (bit :: k)); [reflexivity|]. destruct bit; reflexivity.
Qed.

Lemma blookup_filter_ne b k k' :
  k <> k' -> blookup (filter (fun kv => negb (key_eqb (fst kv) k)) b) k' = blookup b k'.
Proof.
  intros Hne. induction b as [|[k1 ov] b IH]; simpl; [reflexivity|].
  destruct (key_eqb k1 k) eqn:E1; simpl.
  - apply key_eqb_eq in E1; subst k1.
    destruct (key_eqb k k') eqn:E2; [apply key_eqb_eq in E2; congruence|]. exact IH.
  - destruct (key_eqb k1 k'); [reflexivity|exact IH].
Qed.

Lemma blookup_filter_eq b k :
  blookup (filter (fun kv => negb (key_eqb (fst kv) k)) b) k = None.
Proof.
  induction b as [|[k1 ov] b IH]; simpl; [reflexivity|].
  destruct (key_eqb k1 k) eqn:E1; simpl; [exact IH|]. rewrite E1. exact IH.
Qed.

Lemma add_shortcut_spec sk sv b k :
  override (add_shortcut sk sv b) (fun _ => None) k = override b (get (Lf sk sv)) k.
Proof.
  unfold add_shortcut, override.
  destruct (blookup b sk) as [[v|]|] eqn:Eb.
  - simpl. destruct (blookup b k) eqn:Ek; [reflexivity|].
    destruct (key_eqb sk k) eqn:E; [apply key_eqb_eq in E; subst; congruence|reflexivity].
  - destruct (key_eqb sk k) eqn:E.
    + apply key_eqb_eq in E; subst k. rewrite blookup_filter_eq, Eb. simpl. reflexivity.
    + rewrite blookup_filter_ne. 2:{ intros ->. rewrite key_eqb_refl in E; discriminate. }
      destruct (blookup b k); [reflexivity|]. simpl. rewrite E. reflexivity.
  - simpl. destruct (key_eqb sk k) eqn:E.
    + apply key_eqb_eq in E; subst k. rewrite Eb. reflexivity.
    + destruct (blookup b k); reflexivity.
Qed.

Lemma keys_len_add_shortcut h sk sv b :
  length sk = h -> keys_len h b -> keys_len h (add_shortcut sk sv b).
Proof.
  intros Hs Hb. unfold add_shortcut.
  destruct (blookup b sk) as [[v|]|]; [assumption| |constructor; assumption].
  unfold keys_len in *. rewrite Forall_forall in *. intros x Hx. apply filter_In in Hx. apply Hb, Hx.
Qed.

Lemma wf_E h : wf h E.
Proof. destruct h; exact I. Qed.

Theorem get_update h : upd_ok h (update h).
Proof.
  induction h as [|h IH]; intros t b k Hwf Hb Hne Hk.
  - destruct k; [|discriminate]. destruct b as [|[k1 ov] b']; [congruence|].
    inversion Hb as [|? ? Hk1 _]; subst. simpl in Hk1. destruct k1; [|discriminate].
    unfold override; simpl. destruct ov; reflexivity.
  - destruct k as [|bit k]; [discriminate|]. simpl in Hk. injection Hk as Hk.
    destruct t as [|sk sv|l r]; cbn [update].
    + rewrite (go_ok h (update h) E E b bit k IH (wf_E h) (wf_E h) Hb Hne Hk). unfold override.
      destruct (blookup b (bit :: k)); [reflexivity|]. destruct bit; reflexivity.
    + simpl in Hwf.
      pose proof (add_shortcut_spec sk sv b (bit :: k)) as Hs.
      pose proof (keys_len_add_shortcut (S h) sk sv b Hwf Hb) as Hlen.
      destruct (add_shortcut sk sv b) as [|x b'] eqn:Ea.
      * rewrite <- Hs. reflexivity.
      * rewrite (go_ok h (update h) E E (x :: b') bit k IH (wf_E h) (wf_E h) Hlen); [|congruence|assumption].
        rewrite <- Hs. unfold override. destruct (blookup (x :: b') (bit :: k)); [reflexivity|].
        destruct bit; reflexivity.
    + destruct Hwf as [Hl Hr]. apply (go_ok h); assumption.
Qed.

End T.
Arguments E {val}. Arguments Lf {val}. Arguments Nd {val}.
